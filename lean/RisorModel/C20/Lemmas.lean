import RisorModel.C20.Model
/-! Helper lemmas for C20: how `run` depends on its offset arguments, how far it looks,
    and what the machine does on blanks and inside comments. -/
namespace Risor.C20

theorem finish_seen (r : Step) (i st : Nat) : (finish r i st).seen = i + 1 := by
  cases r with
  | more s m => rfl
  | emit k l m f => cases m <;> rfl
  | failT k l c m => cases m <;> rfl
  | fail c => rfl

theorem finish_out (r : Step) (i st : Nat) : (finish r i st).out = (finish r 0 0).out := by
  cases r with
  | more s m => rfl
  | emit k l m f => cases m <;> rfl
  | failT k l c m => cases m <;> rfl
  | fail c => rfl

theorem finish_next (r : Step) (i st : Nat) : (finish r i st).next = i + (finish r 0 0).next := by
  cases r with
  | more s m => rfl
  | emit k l m f => cases m <;> simp [finish]
  | failT k l c m => cases m <;> simp [finish]
  | fail c => rfl

theorem run_nil (s : St) (i st : Nat) : run s [] i st = finish (stepChar s 0) i st := by
  simp [run]

theorem run_cons_more {s s' : St} {c : Nat} {m : Bool} (cs : Chars) (i st : Nat)
    (h : stepChar s c = .more s' m) :
    run s (c :: cs) i st = run s' cs (i + 1) (if m then i else st) := by
  simp [run, h]

/-- the token and the resume offset do not depend on where the call began -/
theorem run_shift : ∀ (l : Chars) (s : St) (i st : Nat),
    (run s l i st).out = (run s l 0 0).out ∧ (run s l i st).next = i + (run s l 0 0).next
  | [], s, i, st => by
    rw [run_nil, run_nil]; exact ⟨finish_out _ _ _, finish_next _ _ _⟩
  | c :: cs, s, i, st => by
    cases h : stepChar s c with
    | more s' m =>
      rw [run_cons_more cs i st h, run_cons_more cs 0 0 h]
      have h1 := run_shift cs s' (i + 1) (if m then i else st)
      have h2 := run_shift cs s' (0 + 1) (if m then 0 else 0)
      constructor
      · rw [h1.1, h2.1]
      · rw [h1.2, h2.2]; omega
    | emit k l md f =>
      simp only [run, h]; exact ⟨finish_out _ _ _, finish_next _ _ _⟩
    | failT k l c' md =>
      simp only [run, h]; exact ⟨finish_out _ _ _, finish_next _ _ _⟩
    | fail c' =>
      simp only [run, h]; exact ⟨finish_out _ _ _, finish_next _ _ _⟩

/-- `run` always looks at one rune at least -/
theorem run_seen_gt : ∀ (l : Chars) (s : St) (i st : Nat), i < (run s l i st).seen
  | [], s, i, st => by rw [run_nil, finish_seen]; omega
  | c :: cs, s, i, st => by
    cases h : stepChar s c with
    | more s' m =>
      rw [run_cons_more cs i st h]
      have := run_seen_gt cs s' (i + 1) (if m then i else st)
      omega
    | emit k l md f => simp only [run, h, finish_seen]; omega
    | failT k l c' md => simp only [run, h, finish_seen]; omega
    | fail c' => simp only [run, h, finish_seen]; omega

/-- **locality**: one call of `Next` depends only on the runes it looked at -/
theorem run_local : ∀ (a : Chars) (s : St) (i st : Nat) (x y : Chars),
    (run s (a ++ x) i st).seen ≤ i + a.length → run s (a ++ y) i st = run s (a ++ x) i st
  | [], s, i, st, x, y => by
    intro h
    have := run_seen_gt ([] ++ x) s i st
    simp only [List.length_nil, Nat.add_zero] at h
    omega
  | c :: a, s, i, st, x, y => by
    intro h
    cases hs : stepChar s c with
    | more s' m =>
      simp only [List.cons_append] at h ⊢
      rw [run_cons_more _ i st hs] at h ⊢
      rw [run_cons_more _ i st hs]
      apply run_local a s' (i + 1) _ x y
      simp only [List.length_cons] at h
      omega
    | emit k l md f => simp only [List.cons_append, run, hs]
    | failT k l c' md => simp only [List.cons_append, run, hs]
    | fail c' => simp only [List.cons_append, run, hs]

theorem drop_add_append {α : Type} : ∀ (ws rest : List α) (n : Nat),
    (ws ++ rest).drop (ws.length + n) = rest.drop n
  | [], rest, n => by simp
  | a :: t, rest, n => by
    have := drop_add_append t rest n
    simp only [List.cons_append, List.length_cons]
    rw [show t.length + 1 + n = (t.length + n) + 1 by omega, List.drop_succ_cons]
    exact this

def allBlank (ws : Chars) : Prop := ∀ c ∈ ws, isBlank c = true

instance (ws : Chars) : Decidable (allBlank ws) :=
  inferInstanceAs (Decidable (∀ c ∈ ws, isBlank c = true))

theorem step_start_blank (ab : Bool) (c : Nat) (h : isBlank c = true) :
    stepChar (.start ab) c = .more (.start ab) false := by
  simp [stepChar, h]

theorem run_start_blanks (ab : Bool) : ∀ (ws rest : Chars) (i st : Nat), allBlank ws →
    run (.start ab) (ws ++ rest) i st = run (.start ab) rest (i + ws.length) st
  | [], rest, i, st, _ => by simp
  | c :: ws, rest, i, st, h => by
    have hc : isBlank c = true := h c (by simp)
    have ht : allBlank ws := fun d hd => h d (by simp [hd])
    simp only [List.cons_append]
    rw [run_cons_more _ i st (step_start_blank ab c hc)]
    simp only [Bool.false_eq_true, ↓reduceIte]
    rw [run_start_blanks ab ws rest (i + 1) st ht]
    simp only [List.length_cons]
    congr 1
    omega

theorem scan_out (l : Chars) (prev : String) :
    (scan l prev).out = fixOut prev (run (.start false) l 0 0).out := rfl

theorem scan_next (l : Chars) (prev : String) :
    (scan l prev).next = (run (.start false) l 0 0).next := rfl

theorem scan_seen (l : Chars) (prev : String) :
    (scan l prev).seen = (run (.start false) l 0 0).seen := rfl

theorem scan_blanks (ws rest : Chars) (prev : String) (h : allBlank ws) :
    (scan (ws ++ rest) prev).out = (scan rest prev).out ∧
    (scan (ws ++ rest) prev).next = ws.length + (scan rest prev).next := by
  rw [scan_out, scan_next, scan_out, scan_next, run_start_blanks false ws rest 0 0 h]
  have := run_shift rest (.start false) (0 + ws.length) 0
  rw [this.1, this.2]
  simp

/-- one unfolding of the token loop -/
theorem lexKL_succ (f : Nat) (rest : Chars) (prev : String) :
    lexKL (f + 1) rest prev =
      match (scan rest prev).out with
      | .tok k l => if k == "EOF" then [.tok k l] else .tok k l :: lexKL f (rest.drop (scan rest prev).next) k
      | o => [o] := rfl

/-- if two inputs give the same token and the same remaining input, the streams agree -/
theorem lexKL_congr (f : Nat) (r1 r2 : Chars) (prev : String)
    (ho : (scan r1 prev).out = (scan r2 prev).out)
    (hd : r1.drop (scan r1 prev).next = r2.drop (scan r2 prev).next) :
    lexKL (f + 1) r1 prev = lexKL (f + 1) r2 prev := by
  rw [lexKL_succ, lexKL_succ, ho, hd]

end Risor.C20

namespace Risor.C20

/-! ### comments -/

theorem run_congr_step {s1 s2 : St} : ∀ (l : Chars) (i st : Nat),
    (∀ c, stepChar s1 c = stepChar s2 c) → run s1 l i st = run s2 l i st
  | [], i, st, h => by rw [run_nil, run_nil, h]
  | c :: cs, i, st, h => by simp only [run, h]

theorem run_block_body : ∀ (body : Chars) (star : Bool) (tail : Chars) (i st : Nat),
    closesIn star body = false → (∀ c ∈ body, c ≠ 0) →
    ∃ star', run (.block star) (body ++ tail) i st = run (.block star') tail (i + body.length) st
  | [], star, tail, i, st, _, _ => ⟨star, by simp⟩
  | c :: cs, star, tail, i, st, h, h0 => by
    simp only [closesIn, Bool.or_eq_false_iff] at h
    have hc : c ≠ 0 := h0 c (by simp)
    have hstep : stepChar (.block star) c = .more (.block (c == 42)) false := by
      simp [stepChar, hc, h.1]
    obtain ⟨s', hs'⟩ := run_block_body cs (c == 42) tail (i + 1) st h.2 (fun d hd => h0 d (by simp [hd]))
    refine ⟨s', ?_⟩
    simp only [List.cons_append]
    rw [run_cons_more _ i st hstep]
    simp only [Bool.false_eq_true, ↓reduceIte]
    rw [hs']
    simp only [List.length_cons]
    congr 1
    omega

theorem run_line_body : ∀ (body tail : Chars) (i st : Nat),
    (∀ c ∈ body, c ≠ 10 ∧ c ≠ 0) →
    run .lineComment (body ++ tail) i st = run .lineComment tail (i + body.length) st
  | [], tail, i, st, _ => by simp
  | c :: cs, tail, i, st, h => by
    have hc := h c (by simp)
    have hstep : stepChar .lineComment c = .more .lineComment false := by
      simp [stepChar, hc.1, hc.2]
    simp only [List.cons_append]
    rw [run_cons_more _ i st hstep]
    simp only [Bool.false_eq_true, ↓reduceIte]
    rw [run_line_body cs tail (i + 1) st (fun d hd => h d (by simp [hd]))]
    simp only [List.length_cons]
    congr 1
    omega

theorem finish_emit_fresh (k : String) (l : List Nat) (m : Mode) (f f' : Bool) (i st : Nat) :
    (finish (.emit k l m f) i st).out = (finish (.emit k l m f') 0 0).out ∧
    (finish (.emit k l m f) i st).next = i + (finish (.emit k l m f') 0 0).next := by
  cases m <;> simp [finish]

/-- after block comments the lexer behaves as at the start of a call: the same token, resuming
    at the same place (only the recorded token start differs) -/
theorem start_true_eq : ∀ (rest : Chars) (i st : Nat),
    (run (.start true) rest i st).out = (run (.start false) rest 0 0).out ∧
    (run (.start true) rest i st).next = i + (run (.start false) rest 0 0).next
  | [], i, st => by
    rw [run_nil, run_nil]
    have h1 : stepChar (.start true) 0 = .emit "EOF" [] .consume false := by decide
    have h2 : stepChar (.start false) 0 = .emit "EOF" [] .consume true := by decide
    rw [h1, h2]
    exact finish_emit_fresh _ _ _ _ _ _ _
  | c :: cs, i, st => by
    by_cases hb : isBlank c = true
    · rw [run_cons_more _ i st (step_start_blank true c hb), run_cons_more _ 0 0 (step_start_blank false c hb)]
      simp only [Bool.false_eq_true, ↓reduceIte]
      have ih := start_true_eq cs (i + 1) st
      have sh := run_shift cs (.start false) (0 + 1) 0
      rw [ih.1, ih.2, sh.1, sh.2]
      exact ⟨rfl, by omega⟩
    · have hb' : isBlank c = false := by simpa using hb
      by_cases h35 : c = 35
      · subst h35
        have hT : stepChar (.start true) 35 = .more .lineComment true := by decide
        have hF : stepChar (.start false) 35 = .more .lineComment true := by decide
        rw [run_cons_more _ i st hT, run_cons_more _ 0 0 hF]
        have s1 := run_shift cs .lineComment (i + 1) (if true = true then i else st)
        have s2 := run_shift cs .lineComment (0 + 1) (if true = true then 0 else 0)
        rw [s1.1, s1.2, s2.1, s2.2]
        exact ⟨rfl, by omega⟩
      by_cases h47 : c = 47
      · subst h47
        have hT : stepChar (.start true) 47 = .more .slash false := by decide
        have hF : stepChar (.start false) 47 = .more .slash true := by decide
        rw [run_cons_more _ i st hT, run_cons_more _ 0 0 hF]
        have s1 := run_shift cs .slash (i + 1) (if false = true then i else st)
        have s2 := run_shift cs .slash (0 + 1) (if true = true then 0 else 0)
        rw [s1.1, s1.2, s2.1, s2.2]
        exact ⟨rfl, by omega⟩
      · have hF : stepChar (.start false) c = dispatch c := by
          simp [stepChar, hb', h35, h47]
        have hT : stepChar (.start true) c = stripFresh (dispatch c) := by
          simp [stepChar, hb', h35, h47]
        cases hd : dispatch c with
        | more s m =>
          rw [hd] at hF hT
          simp only [stripFresh] at hT
          rw [run_cons_more _ i st hT, run_cons_more _ 0 0 hF]
          have s1 := run_shift cs s (i + 1) (if false = true then i else st)
          have s2 := run_shift cs s (0 + 1) (if m = true then 0 else 0)
          rw [s1.1, s1.2, s2.1, s2.2]
          exact ⟨rfl, by omega⟩
        | emit k l m f =>
          rw [hd] at hF hT
          simp only [stripFresh] at hT
          simp only [run, hF, hT]
          exact finish_emit_fresh _ _ _ _ _ _ _
        | failT k l c' m =>
          rw [hd] at hF hT
          simp only [stripFresh] at hT
          simp only [run, hF, hT]
          exact ⟨finish_out _ _ _, finish_next _ _ _⟩
        | fail c' =>
          rw [hd] at hF hT
          simp only [stripFresh] at hT
          simp only [run, hF, hT]
          exact ⟨finish_out _ _ _, finish_next _ _ _⟩

end Risor.C20

namespace Risor.C20

/-! ### positions -/

/-- what a position means: `p` is the position of offset `a.length` in a text beginning with `a` -/
def PosInv (a : Chars) (p : Pos) : Prop :=
  p.char = a.length ∧ p.lineStart ≤ a.length ∧ p.col = a.length - p.lineStart ∧
  p.line = a.count 10 ∧
  (∀ j, p.lineStart ≤ j → j < a.length → a[j]? ≠ some 10) ∧
  (p.lineStart = 0 ∨ a[p.lineStart - 1]? = some 10)

theorem posInv_nil : PosInv [] ⟨0, 0, 0, 0⟩ := by
  refine ⟨rfl, Nat.le_refl _, rfl, rfl, ?_, Or.inl rfl⟩
  intro j _ h; simp at h

theorem posInv_advance : ∀ (cs a : Chars) (p : Pos), PosInv a p → PosInv (a ++ cs) (advance p cs)
  | [], a, p, h => by simpa [advance] using h
  | c :: cs, a, p, h => by
    obtain ⟨hc, hls, hcol, hline, hno, hst⟩ := h
    have e : a ++ c :: cs = (a ++ [c]) ++ cs := by simp
    rw [e]
    by_cases h10 : c = 10
    · subst h10
      have : advance p (10 :: cs) = advance ⟨p.char + 1, p.line + 1, 0, p.char + 1⟩ cs := by
        simp [advance]
      rw [this]
      apply posInv_advance cs (a ++ [10])
      refine ⟨by simp [hc], by simp [hc], by simp [hc], by simp [hline, List.count_append], ?_, ?_⟩
      · intro j h1 h2
        simp only [List.length_append, List.length_singleton] at h2
        simp only [hc] at h1
        omega
      · right
        simp only [hc, Nat.add_sub_cancel]
        rw [List.getElem?_append_right (Nat.le_refl _)]
        simp
    · have hne : (c == 10) = false := by simpa using h10
      have : advance p (c :: cs) = advance ⟨p.char + 1, p.line, p.col + 1, p.lineStart⟩ cs := by
        simp [advance, hne]
      rw [this]
      apply posInv_advance cs (a ++ [c])
      refine ⟨by simp [hc], by simp; omega, by simp [hcol]; omega, ?_, ?_, ?_⟩
      · simp [hline, List.count_append, List.count_singleton, hne]
      · intro j h1 h2
        simp only [List.length_append, List.length_singleton] at h2
        by_cases hj : j < a.length
        · rw [List.getElem?_append_left hj]; exact hno j h1 hj
        · have : j = a.length := by omega
          subst this
          rw [List.getElem?_append_right (Nat.le_refl _)]
          simp [h10]
      · rcases hst with h0 | h1
        · exact Or.inl h0
        · right
          by_cases hz : p.lineStart = 0
          · simp [hz] at h1 ⊢
            cases a with
            | nil => simp at h1
            | cons x t => simpa using h1
          · have hlt : p.lineStart - 1 < a.length := by omega
            show (a ++ [c])[p.lineStart - 1]? = some 10
            rw [List.getElem?_append_left hlt]; exact h1

theorem take_len_takeWhile {α : Type} (p : α → Bool) : ∀ l : List α,
    l.take (l.takeWhile p).length = l.takeWhile p
  | [] => rfl
  | x :: t => by
    by_cases h : p x = true
    · simp [h, take_len_takeWhile p t]
    · simp [h]

theorem lineBegin_eq (src : Chars) : ∀ (off ls : Nat), ls ≤ off → off ≤ src.length →
    (∀ j, ls ≤ j → j < off → src[j]? ≠ some 10) → (ls = 0 ∨ src[ls - 1]? = some 10) →
    lineBegin src off = ls
  | 0, ls, h, _, _, _ => by simp [lineBegin]; omega
  | s + 1, ls, h, hlen, hno, hst => by
    unfold lineBegin
    by_cases hl : ls = s + 1
    · subst hl
      rcases hst with h0 | h1
      · omega
      · simp only [Nat.add_sub_cancel] at h1
        have : (src.getD s 0 == 10) = true := by simp [List.getD_eq_getElem?_getD, h1]
        rw [this]
        simp
    · have hs : s < src.length := by omega
      have hne := hno s (by omega) (by omega)
      have hx : src[s]? = some src[s] := List.getElem?_eq_getElem hs
      have hv : src[s] ≠ 10 := by
        intro e; rw [hx, e] at hne; exact hne rfl
      have : (src.getD s 0 == 10) = false := by
        simp [List.getD_eq_getElem?_getD, hx, hv]
      simp only [this, Bool.false_eq_true, ↓reduceIte]
      exact lineBegin_eq src s ls (by omega) (by omega) (fun j h1 h2 => hno j h1 (by omega)) hst

/-- what `GetLineText` returns for a (non-EOF) token at offset `off` whose line starts at `ls`:
    the runes from `ls` up to `off`, followed by the runes from `off` up to the next newline -/
theorem getLineText_eq (src : Chars) (off ls : Nat) (h : ls ≤ off) (hlen : off ≤ src.length)
    (hno : ∀ j, ls ≤ j → j < off → src[j]? ≠ some 10) (hst : ls = 0 ∨ src[ls - 1]? = some 10) :
    getLineText src off false = (src.drop ls).take (off - ls) ++ (src.drop off).takeWhile (· != 10) := by
  unfold getLineText
  by_cases he : src.isEmpty = true
  · have : src = [] := by simpa using he
    subst this
    simp
  · simp only [he, Bool.false_eq_true, ↓reduceIte]
    rw [lineBegin_eq src off ls h hlen hno hst]
    have e1 : src.drop ls = (src.drop ls).take (off - ls) ++ src.drop off := by
      have := List.take_append_drop (off - ls) (src.drop ls)
      rw [List.drop_drop] at this
      rw [show ls + (off - ls) = off by omega] at this
      exact this.symm
    have hl : ((src.drop ls).take (off - ls)).length = off - ls := by
      simp [List.length_take, List.length_drop]; omega
    generalize htw : (src.drop off).takeWhile (· != 10) = tw
    have e2 : off + tw.length - ls = (off - ls) + tw.length := by omega
    rw [e2]
    conv => lhs; rw [e1]
    rw [List.take_append, hl]
    simp only [Nat.add_sub_cancel_left]
    rw [List.take_of_length_le (by rw [List.length_take]; omega)]
    rw [← htw, take_len_takeWhile]

end Risor.C20
