import RisorModel.C20.Stmt
import RisorModel.C20.ParseNewlineProps
/-!
Helper lemmas for the statement-level theorems (StmtProps.lean): single steps of the statement
model on separators, and the mutual induction over laid-out statement trees.
-/
namespace Risor.C20.St
open Risor.C01 Risor.C01.Pratt Risor.C20.NL

/-- the continuation of a statement inside a rendering: end of input, `;`, a line end or `}` -/
def sepStart : List Token → Prop
  | [] => True
  | tok :: _ => tok.kind = .SEMICOLON ∨ tok.kind = .NEWLINE ∨ tok.kind = .RBRACE

theorem sepStart_stops {rest : List Token} (h : sepStart rest) : stopsExpr rest = true := by
  cases rest with
  | nil => rfl
  | cons tok ts =>
    have h1 : infixFn Kind.SEMICOLON = none := rfl
    have h2 : infixFn Kind.NEWLINE = none := rfl
    have h3 : infixFn Kind.RBRACE = none := rfl
    rcases h with h | h | h <;> simp [stopsExpr, h, h1, h2, h3]

theorem sepStart_strict {rest : List Token} (h : sepStart rest) :
    ((eatSemi rest).1 || peekTerm (dropSemi rest)) = true := by
  cases rest with
  | nil => simp [eatSemi, dropSemi, headIs, peekTerm]
  | cons tok ts =>
    rcases h with h | h | h <;>
      simp [eatSemi, dropSemi, headIs, peekTerm, h, terminators]

theorem sepStart_not_else {rest : List Token} (h : sepStart rest) : headIs .ELSE rest = false := by
  cases rest with
  | nil => rfl
  | cons tok ts => rcases h with h | h | h <;> simp [headIs, h]

/-! ### a `;` in statement position is an error -/

theorem prefixP_semi {tok : Token} (hk : tok.kind = .SEMICOLON) (g : Nat) (t : Bool) (r : List Token) :
    prefixP g t (tok :: r) = none := by
  have h1 : prefixFn Kind.SEMICOLON = none := rfl
  have h2 : isPostfix Kind.SEMICOLON = false := rfl
  cases g with
  | zero => simp [prefixP]
  | succ g => simp [prefixP, hk, h1, h2]

theorem stmtStrict_semi_none {tok : Token} (hk : tok.kind = .SEMICOLON) (f : Nat) (r : List Token) :
    stmtStrict f (tok :: r) = none := by
  cases f with
  | zero => simp [stmtStrict]
  | succ f =>
    have hp : ∀ g, parseNode g false Level.LOWEST.num (tok :: r) = none :=
      fun g => parseNode_none_of_prefixP (fun g => prefixP_semi hk g false r) g _
    have he : exprStmt f (tok :: r) = none := by
      cases f with
      | zero => simp [exprStmt]
      | succ f =>
        cases r <;> simp [exprStmt, hk, hp]
    simp [stmtStrict, hk, he]

theorem stmts_semi_none {tok : Token} (hk : tok.kind = .SEMICOLON) (top : Bool) (f : Nat)
    (r : List Token) : stmts top f (tok :: r) = none := by
  cases f with
  | zero => simp [stmts]
  | succ f => simp [stmts, hk, stmtStrict_semi_none hk]

theorem dropSemi_nil : dropSemi [] = [] := rfl

theorem dropSemi_semi (r : List Token) : dropSemi (tk .SEMICOLON :: r) = r := rfl

theorem dropSemi_of_ne {tok : Token} (h : tok.kind ≠ .SEMICOLON) (r : List Token) :
    dropSemi (tok :: r) = tok :: r := by
  simp [dropSemi, eatSemi, headIs, h]

/-- a token list on which the statement loop succeeds does not begin with `;` -/
theorem dropSemi_of_stmts {top : Bool} {f : Nat} {Y : List Token} {res}
    (h : stmts top f Y = some res) : dropSemi Y = Y := by
  cases Y with
  | nil => rfl
  | cons tok r =>
    by_cases hk : tok.kind = .SEMICOLON
    · rw [stmts_semi_none hk] at h; cases h
    · exact dropSemi_of_ne hk r

/-- the optional `;` of a separator is consumed by `parseStatement` -/
theorem dropSemi_optSemi {top : Bool} {f : Nat} {Y : List Token} {res} (semi : Bool)
    (h : stmts top f Y = some res) :
    dropSemi ((if semi then [tk .SEMICOLON] else []) ++ Y) = Y := by
  cases semi with
  | true => rfl
  | false => simpa using dropSemi_of_stmts h

/-! ### line ends in statement position are empty statements -/

theorem stmtStrict_newline (f : Nat) (lit : String) (rest : List Token) :
    stmtStrict (f+1) (⟨.NEWLINE, lit⟩ :: rest) = some (none, dropSemi rest) := by
  simp [stmtStrict]

theorem stmts_newline (top : Bool) (f : Nat) (lit : String) (rest : List Token) :
    stmts top (f+2) (⟨.NEWLINE, lit⟩ :: rest) = stmts top (f+1) (dropSemi rest) := by
  rw [stmts]
  simp only [stmtStrict_newline]
  simp
  cases stmts top (f+1) (dropSemi rest) with
  | none => rfl
  | some p => rfl

/-- a run of line ends (each optionally followed by `;`) before the statements is skipped -/
theorem stmts_lines (top : Bool) (lines : Lines) (X : List Token) (res : Block × List Token) (N : Nat)
    (h : ∀ f, N ≤ f → stmts top f X = some res) :
    ∀ f, N + lines.length + 1 ≤ f → stmts top f (linesToks lines ++ X) = some res := by
  induction lines with
  | nil => intro f hf; exact h f (by simp at hf; omega)
  | cons hd tl ih =>
    obtain ⟨lit, semi⟩ := hd
    intro f hf
    simp only [List.length_cons] at hf
    obtain ⟨g, rfl⟩ : ∃ g, f = g + 2 := ⟨f - 2, by omega⟩
    have ih' := ih (g+1) (by omega)
    show stmts top (g+2) (⟨.NEWLINE, lit⟩ :: ((if semi then [tk .SEMICOLON] else []) ++ linesToks tl ++ X)) = _
    rw [stmts_newline, List.append_assoc, dropSemi_optSemi semi ih']
    exact ih'


/-! ### single statements -/

/-- kinds that cannot begin the rendering of an expression -/
theorem startKind_props {k : Kind} (h : startKind k = true) :
    k ≠ .VAR ∧ k ≠ .CONST ∧ k ≠ .RETURN ∧ k ≠ .BREAK ∧ k ≠ .CONTINUE ∧ k ≠ .NEWLINE ∧ k ≠ .IF ∧
    k ≠ .SEMICOLON ∧ k ≠ .RBRACE ∧ k ≠ .EOF := by
  cases k <;> simp [startKind] at h ⊢

theorem kind_tk (k : Kind) : (tk k).kind = k := rfl

/-- a statement-initial identifier whose expression ends at a separator is not followed by `:=`
    or `,` (the Pratt loop would have stopped there) -/
theorem ident_peek {f : Nat} {tok : Token} {ts rest : List Token} {e : Expr}
    (h : parseNode f false Level.LOWEST.num (tok :: ts) = some (e, rest)) (hk : tok.kind = .IDENT)
    (hr : sepStart rest) : headIs .DECLARE ts = false ∧ headIs .COMMA ts = false := by
  cases ts with
  | nil => exact ⟨rfl, rfl⟩
  | cons tok2 r =>
    have h1 : prefixFn Kind.IDENT = some .parseIdent := rfl
    have h2 : isPostfix Kind.IDENT = false := rfl
    have key : ∀ k, tok2.kind = k → (k = .DECLARE ∨ k = .COMMA) → False := by
      intro k hk2 hor
      match f with
      | 0 => simp [parseNode] at h
      | 1 => simp [parseNode, prefixP] at h
      | f+2 =>
        have hd : infixFn Kind.DECLARE = none := rfl
        have hc : prec Kind.COMMA = 1 := rfl
        rw [parseNode] at h
        simp only [prefixP, hk, h1, h2] at h
        simp only [Bool.false_eq_true, if_false, loop, hk2] at h
        rcases hor with rfl | rfl
        · simp [hd, Level.num] at h
          rw [← h.2] at hr; simp [sepStart, hk2] at hr
        · simp [hc, Level.num] at h
          rw [← h.2] at hr; simp [sepStart, hk2] at hr
    constructor
    · simp only [headIs, decide_eq_false_iff_not]; intro hh; exact key _ hh (Or.inl rfl)
    · simp only [headIs, decide_eq_false_iff_not]; intro hh; exact key _ hh (Or.inr rfl)

/-- expression statement -/
theorem stmtStrict_expr {N : Nat} {e : Expr} {L : Layout} {rest : List Token}
    (hP : ∀ f, N ≤ f → parseNode f false Level.LOWEST.num (renderNLTop L e ++ rest) = some (e, rest))
    (hr : sepStart rest) :
    ∀ f, N + 2 ≤ f → stmtStrict f (renderNLTop L e ++ rest) = some (some (.expr e), dropSemi rest) := by
  intro f hf
  obtain ⟨g, rfl⟩ : ∃ g, f = g + 2 := ⟨f - 2, by omega⟩
  have hP' := hP g (by omega)
  obtain ⟨tok, ts, heq, hs⟩ := (starts_renderNL e L Level.LOWEST.num Level.LOWEST.num).append rest
  rw [renderNLTop, heq] at hP' ⊢
  obtain ⟨k1, k2, k3, k4, k5, k6, k7, _, _, _⟩ := startKind_props hs
  have hid : ¬ (tok.kind = .IDENT ∧ headIs .DECLARE ts = true) := by
    rintro ⟨hk, hd⟩; rw [(ident_peek hP' hk hr).1] at hd; cases hd
  have hic : ¬ (tok.kind = .IDENT ∧ headIs .COMMA ts = true) := by
    rintro ⟨hk, hd⟩; rw [(ident_peek hP' hk hr).2] at hd; cases hd
  have he : exprStmt (g+1) (tok :: ts) = some (.expr e, rest) := by
    simp [exprStmt, k7, hP']
  simp [stmtStrict, k1, k2, k3, k4, k5, k6, hid, hic, he, sepStart_strict hr]

theorem stmtStrict_var {f : Nat} {x : String} {e : Expr} {val rest : List Token}
    (hP : parseNode f false Level.LOWEST.num val = some (e, rest)) (hr : sepStart rest) :
    stmtStrict (f+1) (tk .VAR :: ⟨.IDENT, x⟩ :: tk .ASSIGN :: val)
      = some (some (.var x e), dropSemi rest) := by
  simp [stmtStrict, kind_tk, hP, sepStart_strict hr]

theorem stmtStrict_decl {f : Nat} {x : String} {e : Expr} {val rest : List Token}
    (hP : parseNode f false Level.LOWEST.num val = some (e, rest)) (hr : sepStart rest) :
    stmtStrict (f+1) (⟨.IDENT, x⟩ :: tk .DECLARE :: val) = some (some (.decl x e), dropSemi rest) := by
  simp [stmtStrict, kind_tk, headIs, hP, sepStart_strict hr]

theorem peekReturnEnd_of_sepStart {rest : List Token} (h : sepStart rest) : peekReturnEnd rest = true := by
  cases rest with
  | nil => rfl
  | cons tok ts => rcases h with h | h | h <;> simp [peekReturnEnd, returnEnds, h]

theorem stmtStrict_ret0 {f : Nat} {rest : List Token} (hr : sepStart rest) :
    stmtStrict (f+1) (tk .RETURN :: rest) = some (some .ret0, dropSemi rest) := by
  simp [stmtStrict, kind_tk, peekReturnEnd_of_sepStart hr, sepStart_strict hr]

theorem stmtStrict_ret {f : Nat} {e : Expr} {L : Layout} {rest : List Token}
    (hP : parseNode f false Level.LOWEST.num (renderNLTop L e ++ rest) = some (e, rest)) (hr : sepStart rest) :
    stmtStrict (f+1) (tk .RETURN :: (renderNLTop L e ++ rest)) = some (some (.ret e), dropSemi rest) := by
  obtain ⟨tok, ts, heq, hs⟩ := (starts_renderNL e L Level.LOWEST.num Level.LOWEST.num).append rest
  rw [renderNLTop, heq] at hP ⊢
  obtain ⟨_, _, _, _, _, k6, _, k8, k9, k10⟩ := startKind_props hs
  simp [stmtStrict, kind_tk, peekReturnEnd, returnEnds, k6, k8, k9, k10, hP, sepStart_strict hr]

theorem stmtStrict_brk {f : Nat} {rest : List Token} (hr : sepStart rest) :
    stmtStrict (f+1) (tk .BREAK :: rest) = some (some .brk, dropSemi rest) := by
  simp [stmtStrict, kind_tk, sepStart_strict hr]

theorem stmtStrict_cont {f : Nat} {rest : List Token} (hr : sepStart rest) :
    stmtStrict (f+1) (tk .CONTINUE :: rest) = some (some .cont, dropSemi rest) := by
  simp [stmtStrict, kind_tk, sepStart_strict hr]

/-- the Pratt model has no `parseAssign`: it refuses `IDENT op …` for every assignment operator
    (this is what makes `exprStmt`'s order of attempts the order of the real `parseNode`) -/
theorem pratt_ident_assign_none (f : Nat) (t : Bool) (x : String) (op : AOp) (val : List Token) :
    parseNode f t Level.LOWEST.num (⟨.IDENT, x⟩ :: tk op.kind :: val) = none := by
  match f with
  | 0 => rfl
  | 1 => simp [parseNode, prefixP]
  | f+2 =>
    rw [parseNode, prefixP_ident]
    have hi : infixFn (tk op.kind).kind = some .parseAssign := by cases op <;> rfl
    have hp : Level.LOWEST.num < prec (tk op.kind).kind := by cases op <;> decide
    exact loop_none_of_infixP hp hi (fun g => by cases g <;> simp [infixP]) _

theorem stmtStrict_assign {N : Nat} {x : String} {op : AOp} {e : Expr} {val rest : List Token}
    (hP : ∀ f, N ≤ f → parseNode f false Level.LOWEST.num val = some (e, rest)) (hr : sepStart rest) :
    ∀ f, N + 2 ≤ f → stmtStrict f (⟨.IDENT, x⟩ :: tk op.kind :: val)
      = some (some (.assign op x e), dropSemi rest) := by
  intro f hf
  obtain ⟨g, rfl⟩ : ∃ g, f = g + 2 := ⟨f - 2, by omega⟩
  have hP' := hP g (by omega)
  have ha : aopOfKind (tk op.kind).kind = some op := by cases op <;> rfl
  have hd : (tk op.kind).kind ≠ .DECLARE := by cases op <;> simp [kind_tk, AOp.kind]
  have hc : (tk op.kind).kind ≠ .COMMA := by cases op <;> simp [kind_tk, AOp.kind]
  have he : exprStmt (g+1) (⟨.IDENT, x⟩ :: tk op.kind :: val) = some (.assign op x e, rest) := by
    simp [exprStmt, pratt_ident_assign_none, ha, hP', sepStart_stops hr]
  simp [stmtStrict, headIs, hd, hc, he, sepStart_strict hr]

theorem stmtStrict_if {f : Nat} {c : Expr} {thn : Block} {els : Else} {X rest : List Token}
    (hI : parseIf f X = some ((c, thn, els), rest)) (hr : sepStart rest) :
    stmtStrict (f+2) (tk .IF :: X) = some (some (.ifS c thn els), dropSemi rest) := by
  have he : exprStmt (f+1) (tk .IF :: X) = some (.ifS c thn els, rest) := by
    simp [exprStmt, kind_tk, hI, sepStart_stops hr]
  simp [stmtStrict, kind_tk, he, sepStart_strict hr]


/-! ### `parseIf` -/

theorem stopsExpr_lbrace (B : List Token) : stopsExpr (tk .LBRACE :: B) = true := rfl

theorem parseIf_none {f : Nat} {c : Expr} {thn : Block} {X B rest : List Token}
    (hc : parseNode f false Level.LOWEST.num X = some (c, tk .LBRACE :: B))
    (hb : stmts false f B = some (thn, rest)) (hr : headIs .ELSE rest = false) :
    parseIf (f+1) X = some ((c, thn, .none), rest) := by
  have hl : headIs .LBRACE (tk .LBRACE :: B) = true := rfl
  simp [parseIf, hc, hb, hl, hr]

theorem parseIf_block {f : Nat} {c : Expr} {thn b : Block} {X B B2 rest : List Token}
    (hc : parseNode f false Level.LOWEST.num X = some (c, tk .LBRACE :: B))
    (hb : stmts false f B = some (thn, tk .ELSE :: tk .LBRACE :: B2))
    (h2 : stmts false f B2 = some (b, rest)) :
    parseIf (f+1) X = some ((c, thn, .block b), rest) := by
  simp [parseIf, hc, hb, headIs, kind_tk, h2]

theorem parseIf_elif {f : Nat} {c c' : Expr} {thn t' : Block} {e' : Else} {X B X2 rest : List Token}
    (hc : parseNode f false Level.LOWEST.num X = some (c, tk .LBRACE :: B))
    (hb : stmts false f B = some (thn, tk .ELSE :: tk .IF :: X2))
    (h2 : parseIf f X2 = some ((c', t', e'), rest)) :
    parseIf (f+1) X = some ((c, thn, .elif c' t' e'), rest) := by
  simp [parseIf, hc, hb, headIs, kind_tk, h2]

/-! ### the statement loops -/

/-- how a statement list ends: the program at end of input, a block at its `}` -/
def endsAt (top : Bool) (R r : List Token) : Prop :=
  if top = true then R = [] ∧ r = [] else ∃ tok, tok.kind = .RBRACE ∧ R = tok :: r

theorem endsAt_sepStart {top : Bool} {R r : List Token} (h : endsAt top R r) : sepStart R := by
  cases top with
  | true => obtain ⟨rfl, _⟩ := (by simpa [endsAt] using h : R = [] ∧ r = []); trivial
  | false =>
    obtain ⟨tok, hk, rfl⟩ := (by simpa [endsAt] using h : ∃ tok, tok.kind = .RBRACE ∧ R = tok :: r)
    exact Or.inr (Or.inr hk)

theorem stmts_end {top : Bool} {R r : List Token} (h : endsAt top R r) (f : Nat) :
    stmts top (f+1) R = some (.nil, r) := by
  cases top with
  | true =>
    obtain ⟨rfl, rfl⟩ := (by simpa [endsAt] using h : R = [] ∧ r = [])
    simp [stmts]
  | false =>
    obtain ⟨tok, hk, rfl⟩ := (by simpa [endsAt] using h : ∃ tok, tok.kind = .RBRACE ∧ R = tok :: r)
    simp [stmts, hk]

theorem prefixP_closer {tok : Token} (hk : tok.kind = .RBRACE ∨ tok.kind = .EOF) (g : Nat) (t : Bool)
    (r : List Token) : prefixP g t (tok :: r) = none := by
  have h1 : prefixFn Kind.RBRACE = none := rfl
  have h2 : isPostfix Kind.RBRACE = false := rfl
  have h3 : prefixFn Kind.EOF = some .illegalToken := rfl
  have h4 : isPostfix Kind.EOF = false := rfl
  cases g with
  | zero => simp [prefixP]
  | succ g => rcases hk with hk | hk <;> simp [prefixP, hk, h1, h2, h3, h4]

theorem stmtStrict_closer_none {tok : Token} (hk : tok.kind = .RBRACE ∨ tok.kind = .EOF) (f : Nat)
    (r : List Token) : stmtStrict f (tok :: r) = none := by
  cases f with
  | zero => simp [stmtStrict]
  | succ f =>
    have hp : ∀ g, parseNode g false Level.LOWEST.num (tok :: r) = none :=
      fun g => parseNode_none_of_prefixP (fun g => prefixP_closer hk g false r) g _
    have he : exprStmt f (tok :: r) = none := by
      cases f with
      | zero => simp [exprStmt]
      | succ f => rcases hk with hk | hk <;> cases r <;> simp [exprStmt, hk, hp]
    rcases hk with hk | hk <;> simp [stmtStrict, hk, he]

/-- one round of the statement loop -/
theorem stmts_cons {top : Bool} {f : Nat} {Z Y : List Token} {s : Stmt} {b : Block} {r : List Token}
    (h1 : stmtStrict f Z = some (some s, Y)) (h2 : stmts top f Y = some (b, r)) :
    stmts top (f+1) Z = some (.cons s b, r) := by
  cases Z with
  | nil => cases f <;> simp [stmtStrict] at h1
  | cons tok ts =>
    have k1 : tok.kind ≠ .EOF := fun hk => by rw [stmtStrict_closer_none (Or.inr hk)] at h1; cases h1
    have k2 : tok.kind ≠ .RBRACE := fun hk => by rw [stmtStrict_closer_none (Or.inl hk)] at h1; cases h1
    simp [stmts, k1, k2, h1, h2]

theorem sepStart_sep (sep : Sep) {Y : List Token} (h : sep.nonEmpty = true ∨ sepStart Y) :
    sepStart (sep.toks ++ Y) := by
  obtain ⟨semi, lines⟩ := sep
  cases semi with
  | true => exact Or.inl rfl
  | false =>
    cases lines with
    | nil =>
      rcases h with h | h
      · simp [Sep.nonEmpty] at h
      · simpa [Sep.toks, linesToks] using h
    | cons hd tl => obtain ⟨lit, s⟩ := hd; exact Or.inr (Or.inl rfl)

/-- the line ends behind a `{` -/
theorem block_lead {lead : Lines} {I : List Token} {thn : Block}
    (h : ∀ r2, ∃ N, ∀ f, N ≤ f → stmts false f (I ++ tk .RBRACE :: r2) = some (thn, r2)) :
    ∀ r2, ∃ N, ∀ f, N ≤ f → stmts false f ((linesToks lead ++ I) ++ tk .RBRACE :: r2) = some (thn, r2) := by
  intro r2
  obtain ⟨N, hN⟩ := h r2
  refine ⟨N + lead.length + 1, fun f hf => ?_⟩
  rw [List.append_assoc]
  exact stmts_lines false lead _ _ N hN f hf

/-! ### the induction over laid-out trees -/

mutual
theorem stmt_inv : (s : LStmt) → wfS s = true → ∀ rest, sepStart rest →
    ∃ N, ∀ f, N ≤ f → stmtStrict f (renderS s ++ rest) = some (some s.erase, dropSemi rest)
  | .expr e L, hw, rest, hr => by
    obtain ⟨N, hN⟩ := parse_newline_invariant e L rest (by simpa [wfS] using hw) (sepStart_stops hr)
    exact ⟨N + 2, fun f hf => by simpa [renderS, LStmt.erase] using stmtStrict_expr hN hr f hf⟩
  | .var x e L, hw, rest, hr => by
    obtain ⟨N, hN⟩ := parse_newline_invariant e L rest (by simpa [wfS] using hw) (sepStart_stops hr)
    refine ⟨N + 1, fun f hf => ?_⟩
    obtain ⟨g, rfl⟩ : ∃ g, f = g + 1 := ⟨f - 1, by omega⟩
    simpa [renderS, LStmt.erase] using stmtStrict_var (x := x) (hN g (by omega)) hr
  | .decl x e L, hw, rest, hr => by
    obtain ⟨N, hN⟩ := parse_newline_invariant e L rest (by simpa [wfS] using hw) (sepStart_stops hr)
    refine ⟨N + 1, fun f hf => ?_⟩
    obtain ⟨g, rfl⟩ : ∃ g, f = g + 1 := ⟨f - 1, by omega⟩
    simpa [renderS, LStmt.erase] using stmtStrict_decl (x := x) (hN g (by omega)) hr
  | .assign op x e L, hw, rest, hr => by
    obtain ⟨N, hN⟩ := parse_newline_invariant e L rest (by simpa [wfS] using hw) (sepStart_stops hr)
    exact ⟨N + 2, fun f hf => by
      simpa [renderS, LStmt.erase] using stmtStrict_assign (x := x) (op := op) hN hr f hf⟩
  | .ret e L, hw, rest, hr => by
    obtain ⟨N, hN⟩ := parse_newline_invariant e L rest (by simpa [wfS] using hw) (sepStart_stops hr)
    refine ⟨N + 1, fun f hf => ?_⟩
    obtain ⟨g, rfl⟩ : ∃ g, f = g + 1 := ⟨f - 1, by omega⟩
    simpa [renderS, LStmt.erase] using stmtStrict_ret (hN g (by omega)) hr
  | .ret0, _, rest, hr => ⟨1, fun f hf => by
      obtain ⟨g, rfl⟩ : ∃ g, f = g + 1 := ⟨f - 1, by omega⟩
      simpa [renderS, LStmt.erase] using stmtStrict_ret0 (f := g) hr⟩
  | .brk, _, rest, hr => ⟨1, fun f hf => by
      obtain ⟨g, rfl⟩ : ∃ g, f = g + 1 := ⟨f - 1, by omega⟩
      simpa [renderS, LStmt.erase] using stmtStrict_brk (f := g) hr⟩
  | .cont, _, rest, hr => ⟨1, fun f hf => by
      obtain ⟨g, rfl⟩ : ∃ g, f = g + 1 := ⟨f - 1, by omega⟩
      simpa [renderS, LStmt.erase] using stmtStrict_cont (f := g) hr⟩
  | .ifS c L lead thn els, hw, rest, hr => by
    have hw' : (unnested c = true ∧ wfItems thn = true) ∧ wfElse els = true := by
      simpa [wfS] using hw
    have hthn := block_lead (lead := lead) (fun r2 =>
      items_inv thn hw'.1.2 false (tk .RBRACE :: r2) r2 (by simp [endsAt, kind_tk]))
    obtain ⟨N, hN⟩ := else_inv els hw'.2 c L thn.erase (linesToks lead ++ renderItems thn) rest
      hw'.1.1 hr hthn
    refine ⟨N + 2, fun f hf => ?_⟩
    obtain ⟨g, rfl⟩ : ∃ g, f = g + 2 := ⟨f - 2, by omega⟩
    have := stmtStrict_if (hN g (by omega)) hr
    simpa [renderS, LStmt.erase] using this

theorem items_inv : (items : LItems) → wfItems items = true → ∀ top R r, endsAt top R r →
    ∃ N, ∀ f, N ≤ f → stmts top f (renderItems items ++ R) = some (items.erase, r)
  | .nil, _, top, R, r, hend => ⟨1, fun f hf => by
      obtain ⟨g, rfl⟩ : ∃ g, f = g + 1 := ⟨f - 1, by omega⟩
      simpa [renderItems, LItems.erase] using stmts_end hend g⟩
  | .cons s sep tl, hw, top, R, r, hend => by
    have hw' : (wfS s = true ∧ (sep.nonEmpty = true ∨ tl.isNil = true)) ∧ wfItems tl = true := by
      simpa [wfItems] using hw
    obtain ⟨N1, h1⟩ := items_inv tl hw'.2 top R r hend
    have h2 := stmts_lines top sep.lines (renderItems tl ++ R) _ N1 h1
    have hsep : sepStart (sep.toks ++ (renderItems tl ++ R)) := by
      apply sepStart_sep
      rcases hw'.1.2 with h | h
      · exact Or.inl h
      · right
        cases tl with
        | nil => simpa [renderItems] using endsAt_sepStart hend
        | cons _ _ _ => simp [LItems.isNil] at h
    obtain ⟨N3, h3⟩ := stmt_inv s hw'.1.1 _ hsep
    refine ⟨N1 + N3 + sep.lines.length + 2, fun f hf => ?_⟩
    obtain ⟨g, rfl⟩ : ∃ g, f = g + 1 := ⟨f - 1, by omega⟩
    have h2' := h2 g (by omega)
    have h3' := h3 g (by omega)
    have hd : dropSemi (sep.toks ++ (renderItems tl ++ R)) = linesToks sep.lines ++ (renderItems tl ++ R) := by
      rw [Sep.toks, List.append_assoc]
      exact dropSemi_optSemi sep.semi h2'
    rw [hd] at h3'
    have := stmts_cons h3' h2'
    simpa [renderItems, LItems.erase] using this

theorem else_inv : (els : LElse) → wfElse els = true → ∀ (c : Expr) (L : Layout) (thn : Block)
    (B rest : List Token), unnested c = true → sepStart rest →
    (∀ r2, ∃ N, ∀ f, N ≤ f → stmts false f (B ++ tk .RBRACE :: r2) = some (thn, r2)) →
    ∃ N, ∀ f, N ≤ f →
      parseIf f (renderNLTop L c ++ tk .LBRACE :: (B ++ tk .RBRACE :: (renderElse els ++ rest)))
        = some ((c, thn, els.erase), rest)
  | .none, _, c, L, thn, B, rest, hc, hr, hthn => by
    obtain ⟨N0, h0⟩ := parse_newline_invariant c L _ hc (stopsExpr_lbrace _)
    obtain ⟨N1, h1⟩ := hthn rest
    refine ⟨N0 + N1 + 1, fun f hf => ?_⟩
    obtain ⟨g, rfl⟩ : ∃ g, f = g + 1 := ⟨f - 1, by omega⟩
    have := parseIf_none (h0 g (by omega)) (h1 g (by omega)) (sepStart_not_else hr)
    simpa [renderElse, LElse.erase] using this
  | .block lead b, hw, c, L, thn, B, rest, hc, hr, hthn => by
    obtain ⟨N0, h0⟩ := parse_newline_invariant c L _ hc (stopsExpr_lbrace _)
    obtain ⟨N1, h1⟩ := hthn (renderElse (.block lead b) ++ rest)
    obtain ⟨N2, h2⟩ := block_lead (lead := lead) (fun r2 =>
      items_inv b (by simpa [wfElse] using hw) false (tk .RBRACE :: r2) r2 (by simp [endsAt, kind_tk])) rest
    refine ⟨N0 + N1 + N2 + 1, fun f hf => ?_⟩
    obtain ⟨g, rfl⟩ : ∃ g, f = g + 1 := ⟨f - 1, by omega⟩
    have h1' := h1 g (by omega)
    have h2' := h2 g (by omega)
    simp only [renderElse, List.cons_append, List.append_assoc] at h1' h2' ⊢
    have := parseIf_block (h0 g (by omega)) h1' h2'
    simpa [LElse.erase] using this
  | .elif c' L' lead thn' els', hw, c, L, thn, B, rest, hc, hr, hthn => by
    have hw' : (unnested c' = true ∧ wfItems thn' = true) ∧ wfElse els' = true := by
      simpa [wfElse] using hw
    obtain ⟨N0, h0⟩ := parse_newline_invariant c L _ hc (stopsExpr_lbrace _)
    obtain ⟨N1, h1⟩ := hthn (renderElse (.elif c' L' lead thn' els') ++ rest)
    have hthn' := block_lead (lead := lead) (fun r2 =>
      items_inv thn' hw'.1.2 false (tk .RBRACE :: r2) r2 (by simp [endsAt, kind_tk]))
    obtain ⟨N2, h2⟩ := else_inv els' hw'.2 c' L' thn'.erase (linesToks lead ++ renderItems thn') rest
      hw'.1.1 hr hthn'
    refine ⟨N0 + N1 + N2 + 1, fun f hf => ?_⟩
    obtain ⟨g, rfl⟩ : ∃ g, f = g + 1 := ⟨f - 1, by omega⟩
    have h1' := h1 g (by omega)
    have h2' := h2 g (by omega)
    simp only [renderElse, List.cons_append, List.append_assoc] at h1' h2' ⊢
    have := parseIf_elif (h0 g (by omega)) h1' h2'
    simpa [LElse.erase] using this
end

end Risor.C20.St
