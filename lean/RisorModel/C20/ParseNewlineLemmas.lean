import RisorModel.C01.PrattLemmas
import RisorModel.C20.ParseNewline
/-!
Helper lemmas for parser-level newline invariance (ParseNewlineProps.lean).  The induction is
the one of the Pratt round trip (`Cont`/`Done`/`inv_of_wrap` of RisorModel/C01/PrattLemmas.lean
are reused unchanged); what is new are the single steps of the parser on token lists that carry
NEWLINE tokens in the permitted gaps, and the invariant `InvNL`, which quantifies over every
layout.
-/
namespace Risor.C20.NL
open Risor.C01 Risor.C01.Pratt

/-! ### layouts -/

@[simp] theorem nls_zero : nls [] = [] := rfl
theorem nls_succ (s : String) (n : List String) : nls (s :: n) = ⟨.NEWLINE, s⟩ :: nls n := rfl

@[simp] theorem flat_drop (k : Nat) : Layout.flat.drop k = Layout.flat := rfl
@[simp] theorem flat_nl (i : Nat) : Layout.flat.nl i = [] := rfl
@[simp] theorem flat_comma (i : Nat) : Layout.flat.comma i = false := rfl

theorem noComma_drop {L : Layout} (h : L.noComma) (k : Nat) : (L.drop k).noComma := fun i => h (k + i)
theorem noComma_flat : Layout.flat.noComma := fun _ => rfl

/-! ### `skipNl`, `headIs`, `firstOp` on a run of newlines -/

theorem skipNl_nls (n : List String) (toks : List Token) : skipNl (nls n ++ toks) = skipNl toks := by
  induction n with
  | nil => rfl
  | cons s n ih =>
    rw [nls_succ, List.cons_append, skipNl]
    simpa using ih

theorem skipNl_nls_starts (n : List String) {toks : List Token} (h : Starts toks) :
    skipNl (nls n ++ toks) = toks := by
  rw [skipNl_nls, skipNl_of_starts h]

/-- a token that is not a newline stops `skipNl` -/
theorem skipNl_cons_of_ne {tok : Token} (h : tok.kind ≠ .NEWLINE) (rest : List Token) :
    skipNl (tok :: rest) = tok :: rest := by
  simp [skipNl, h]

theorem headIs_nls {k : Kind} (hk : k ≠ .NEWLINE) (n : List String) {toks : List Token}
    (h : headIs k toks = false) : headIs k (nls n ++ toks) = false := by
  cases n with
  | nil => simpa using h
  | cons s n =>
    rw [nls_succ, List.cons_append]
    show decide ((⟨.NEWLINE, s⟩ : Token).kind = k) = false
    exact decide_eq_false (fun heq => hk heq.symm)

theorem firstOp_nls_cons (n : List String) {tok : Token} (h : infixFn tok.kind = none) (rest : List Token) :
    firstOp (nls n ++ tok :: rest) ≤ 1 := by
  cases n with
  | nil => exact Nat.le_of_eq (firstOp_cons_noInfix _ h)
  | cons s n =>
    rw [nls_succ, List.cons_append]
    exact Nat.le_of_eq (firstOp_cons_noInfix _ rfl)

/-! ### the first token of a rendering with newlines -/

theorem starts_renderNL : ∀ (e : Expr) (L : Layout) (q fl : Nat), Starts (renderNL L q fl e)
  | .int n, _, _, _ => ⟨_, [], by rw [renderNL], rfl⟩
  | .bool b, _, _, _ => by cases b <;> exact ⟨_, [], by rw [renderNL], rfl⟩
  | .nil, _, _, _ => ⟨_, [], by rw [renderNL], rfl⟩
  | .str s, _, _, _ => ⟨_, [], by rw [renderNL], rfl⟩
  | .ident x, _, _, _ => ⟨_, [], by rw [renderNL], rfl⟩
  | .infix op l r, L, q, fl => by
    rw [renderNL]; exact Starts.wrap fun fl' => by
      simp only [List.append_assoc]; exact (starts_renderNL l _ _ _).append _
  | .neg e, L, q, fl => by
    rw [renderNL]; exact Starts.wrap fun fl' => ⟨tk .MINUS, _, rfl, rfl⟩
  | .not e, L, q, fl => by
    rw [renderNL]; exact Starts.wrap fun fl' => ⟨tk .BANG, _, rfl, rfl⟩
  | .tern c a b, L, q, fl => by
    rw [renderNL]; exact Starts.wrap fun fl' => by
      simp only [List.append_assoc]; exact (starts_renderNL c _ _ _).append _
  | .isIn x c, L, q, fl => by
    rw [renderNL]; exact Starts.wrap fun fl' => by
      simp only [List.append_assoc]; exact (starts_renderNL x _ _ _).append _
  | .notIn x c, L, q, fl => by
    rw [renderNL]; exact Starts.wrap fun fl' => by
      simp only [List.append_assoc]; exact (starts_renderNL x _ _ _).append _
  | .call f args, L, q, fl => by
    rw [renderNL]; simp only [List.append_assoc]; exact (starts_renderNL f _ _ _).append _
  | .mcall o name args, L, q, fl => by
    rw [renderNL]; simp only [List.append_assoc]; exact (starts_renderNL o _ _ _).append _
  | .index e i, L, q, fl => by
    rw [renderNL]; simp only [List.append_assoc]; exact (starts_renderNL e _ _ _).append _
  | .slice e lo hi, L, q, fl => by
    rw [renderNL]; simp only [List.append_assoc]; exact (starts_renderNL e _ _ _).append _
  | .list items, L, q, fl => by
    rw [renderNL]; exact ⟨tk .LBRACKET, renderArgsNL L .RBRACKET items, rfl, rfl⟩

theorem headIs_renderNL (k : Kind) (hk : startKind k = false) (L : Layout) (q fl : Nat) (e : Expr)
    (more : List Token) : headIs k (renderNL L q fl e ++ more) = false :=
  headIs_of_starts ((starts_renderNL e L q fl).append more) hk

/-! ### single steps of the parser across newlines -/

/-- `parseGetAttr` with newlines between the `.` and the method name -/
theorem loop_mcallNL {f : Nat} {t : Bool} {p : Nat} {l : Expr} {name : String} {args : Args}
    {R rest' : List Token} (n : List String)
    (hp : p ≤ 13) (h : exprList f t .RPAREN R = some (args, rest')) :
    loop (f + 2) t p l (tk .PERIOD :: (nls n ++ ⟨.IDENT, name⟩ :: tk .LPAREN :: R))
      = loop (f + 1) t p (.mcall l name args) rest' := by
  have hk : prec (tk .PERIOD).kind = 15 := rfl
  have hi : infixFn (tk .PERIOD).kind = some .parseGetAttr := rfl
  have hp' : p < 15 := by omega
  have hc : headIs .LPAREN (tk .LPAREN :: R) = true := by simp [headIs, tk]
  have hs : skipNl (nls n ++ (⟨.IDENT, name⟩ : Token) :: tk .LPAREN :: R)
      = (⟨.IDENT, name⟩ : Token) :: tk .LPAREN :: R := by
    rw [skipNl_nls]; exact skipNl_cons_of_ne (by simp) _
  simp only [loop, hk, hp', if_true, hi, infixP, hs]
  simp [hc, h]

/-- `parseExprList`: newlines after the opening bracket, then the first item -/
theorem exprList_consNL {g : Nat} {t : Bool} {en : Kind} {e : Expr} {es : Args}
    {R R' rest : List Token} (n : List String) (hen : en ≠ .NEWLINE)
    (hh : headIs en R = false) (hs : Starts R)
    (h : parseNode g t 1 R = some (e, R')) (ht : listTail g t en R' = some (es, rest)) :
    exprList (g + 1) t en (nls n ++ R) = some (.cons e es, rest) := by
  have h1 : headIs en (nls n ++ R) = false := headIs_nls hen n hh
  have h2 : skipNl (nls n ++ R) = R := skipNl_nls_starts n hs
  simp only [exprList, h1, h2, Level.num, h, ht]
  simp

/-- `parseExprList`: `,` newlines item -/
theorem listTail_consNL {g : Nat} {t : Bool} {en : Kind} {e : Expr} {es : Args}
    {R R' rest : List Token} (n : List String)
    (hh : headIs en R = false) (hs : Starts R)
    (h : parseNode g t 1 R = some (e, R')) (ht : listTail g t en R' = some (es, rest)) :
    listTail (g + 1) t en (tk .COMMA :: (nls n ++ R)) = some (.cons e es, rest) := by
  have hc : headIs .COMMA (tk .COMMA :: (nls n ++ R)) = true := by simp [headIs, tk]
  have h2 : skipNl (nls n ++ R) = R := skipNl_nls_starts n hs
  simp only [listTail, hc, List.tail_cons, h2, hh, Level.num, h, ht]
  simp

/-- `parseExprList`: newlines before the closing bracket -/
theorem listTail_nilNL (g : Nat) (t : Bool) (en : Kind) (n : List String) (rest : List Token)
    (h1 : en ≠ .COMMA) (h2 : en ≠ .NEWLINE) :
    listTail (g + 1) t en (nls n ++ tk en :: rest) = some (.nil, rest) := by
  have hc : headIs .COMMA (nls n ++ tk en :: rest) = false :=
    headIs_nls (by decide) n
      (by show decide ((tk en).kind = Kind.COMMA) = false; exact decide_eq_false h1)
  have hs : skipNl (nls n ++ tk en :: rest) = tk en :: rest := by
    rw [skipNl_nls]; exact skipNl_cons_of_ne h2 _
  have he : headIs en (tk en :: rest) = true := by simp [headIs, tk]
  simp only [listTail, hc, hs, he, List.tail_cons]
  simp

/-- `parseExprList`: trailing comma, newlines, closing bracket -/
theorem listTail_nil_commaNL (g : Nat) (t : Bool) (en : Kind) (n : List String) (rest : List Token)
    (h2 : en ≠ .NEWLINE) :
    listTail (g + 1) t en (tk .COMMA :: (nls n ++ tk en :: rest)) = some (.nil, rest) := by
  have hc : headIs .COMMA (tk .COMMA :: (nls n ++ tk en :: rest)) = true := by simp [headIs, tk]
  have hs : skipNl (nls n ++ tk en :: rest) = tk en :: rest := by
    rw [skipNl_nls]; exact skipNl_cons_of_ne h2 _
  have he : headIs en (tk en :: rest) = true := by simp [headIs, tk]
  simp only [listTail, hc, List.tail_cons, hs, he]
  simp

/-! ### the invariants, for every layout -/

/-- `Inv` of the round trip, for the rendering under every layout -/
def InvNL (e : Expr) : Prop :=
  ∀ (L : Layout) (t : Bool) (q fl p : Nat) (rest : List Token),
    okT t e = true → p ≤ q → p ≤ 13 → firstOp rest ≤ fl →
    Cont t p (renderNL L q fl e ++ rest) e rest

def InvTailNL (a : Args) : Prop :=
  ∀ (L : Layout) (t : Bool) (en : Kind) (rest : List Token), okTArgs t a = true → Closer en →
    ∃ N, ∀ F, N ≤ F → listTail F t en (renderTailNL L en a ++ rest) = some (a, rest)

def InvArgsNL (a : Args) : Prop :=
  ∀ (L : Layout) (t : Bool) (en : Kind) (rest : List Token), okTArgs t a = true → Closer en →
    ∃ N, ∀ F, N ≤ F → exprList F t en (renderArgsNL L en a ++ rest) = some (a, rest)

def InvOptNL : Opt → Prop
  | .none => True
  | .some e => InvNL e

theorem InvNL.doneLowest {e : Expr} (h : InvNL e) (L : Layout) {t : Bool} (hok : okT t e = true)
    {rest : List Token} (hr : firstOp rest ≤ 1) :
    Done t 1 (renderNL L 1 1 e ++ rest) e rest :=
  (h L t 1 1 1 rest hok (Nat.le_refl _) (by omega) hr).done hr

theorem invNL_atom {e : Expr} {tok : Token} (hr : ∀ L q fl, renderNL L q fl e = [tok])
    (hp : ∀ g t rest, prefixP (g + 1) t (tok :: rest) = some (e, rest)) : InvNL e := by
  intro L t q fl p rest _ _ _ _
  rw [hr]
  refine Cont.ofPrefix ⟨1, fun f hf => ?_⟩
  obtain ⟨g, rfl⟩ : ∃ g, f = g + 1 := ⟨f - 1, by omega⟩
  exact hp g t rest

theorem invNL_int (n : Nat) : InvNL (.int n) :=
  invNL_atom (fun _ _ _ => by rw [renderNL]) (fun g t rest => prefixP_int g t n rest)
theorem invNL_bool (b : Bool) : InvNL (.bool b) :=
  invNL_atom (fun _ _ _ => by rw [renderNL]) (fun g t rest => prefixP_bool g t b rest)
theorem invNL_nil : InvNL .nil :=
  invNL_atom (fun _ _ _ => by rw [renderNL]) (fun g t rest => prefixP_nil g t rest)
theorem invNL_str (s : String) : InvNL (.str s) :=
  invNL_atom (fun _ _ _ => by rw [renderNL]) (fun g t rest => prefixP_str g t s rest)
theorem invNL_ident (x : String) : InvNL (.ident x) :=
  invNL_atom (fun _ _ _ => by rw [renderNL]) (fun g t rest => prefixP_ident g t x rest)

/-- a binary operator: any number of newlines after the operator token -/
theorem invNL_infix (op : BinOp) (l r : Expr) (ihl : InvNL l) (ihr : InvNL r) :
    InvNL (.infix op l r) := by
  intro L t q fl p rest hok hpq hp hrest
  rw [renderNL]
  have hge := prec_opKind_ge op
  have hle := prec_opKind_le op
  refine inv_of_wrap (K := prec (opKind op)) (S := prec (opKind op)) (by omega) (by omega) ?_
    t q fl p rest hok hpq hp hrest
  intro t p' fl' rest' hok hp' hp13 hfl hrest'
  obtain ⟨hokl, hokr⟩ := okT_infix hok
  obtain ⟨Nr, hr⟩ := (ihr (L.drop (gaps l + 1)) t (prec (opKind op)) fl' (prec (opKind op)) rest' hokr
    (Nat.le_refl _) (by omega) hrest').done (by omega)
  have hL := ihl L t (prec (opKind op) - 1) (prec (opKind op)) p'
    (tk (opKind op) :: (nls (L.nl (gaps l)) ++
      (renderNL (L.drop (gaps l + 1)) (prec (opKind op)) fl' r ++ rest'))) hokl (by omega) hp13
    (Nat.le_of_eq (firstOp_cons_infix _ (infixFn_opKind op)))
  simp only [List.append_assoc, List.cons_append, List.nil_append]
  refine hL.step ⟨Nr + 1, fun f hf => ?_⟩
  obtain ⟨g, rfl⟩ : ∃ g, f = g + 1 := ⟨f - 1, by omega⟩
  refine loop_infix hp' ?_
  rw [skipNl_nls_starts _ ((starts_renderNL r _ _ _).append _)]
  exact hr g (by omega)

theorem invNL_neg (e : Expr) (ih : InvNL e) : InvNL (.neg e) := by
  intro L t q fl p rest hok hpq hp hrest
  rw [renderNL]
  simp only [Level.num]
  refine inv_of_wrap (K := 13) (S := 13) (by omega) (by omega) ?_ t q fl p rest hok hpq hp hrest
  intro t p' fl' rest' hok hp' hp13 hfl hrest'
  obtain ⟨N, h⟩ := (ih L t 13 fl' 13 rest' (okT_neg hok) (Nat.le_refl _) (Nat.le_refl _) hrest').done
    (by omega)
  refine Cont.ofPrefix ⟨N + 1, fun f hf => ?_⟩
  obtain ⟨g, rfl⟩ : ∃ g, f = g + 1 := ⟨f - 1, by omega⟩
  simp only [List.cons_append, List.nil_append]
  exact prefixP_neg (h g (by omega))

theorem invNL_not (e : Expr) (ih : InvNL e) : InvNL (.not e) := by
  intro L t q fl p rest hok hpq hp hrest
  rw [renderNL]
  simp only [Level.num]
  refine inv_of_wrap (K := 13) (S := 13) (by omega) (by omega) ?_ t q fl p rest hok hpq hp hrest
  intro t p' fl' rest' hok hp' hp13 hfl hrest'
  obtain ⟨N, h⟩ := (ih L t 13 fl' 13 rest' (okT_not hok) (Nat.le_refl _) (Nat.le_refl _) hrest').done
    (by omega)
  refine Cont.ofPrefix ⟨N + 1, fun f hf => ?_⟩
  obtain ⟨g, rfl⟩ : ∃ g, f = g + 1 := ⟨f - 1, by omega⟩
  simp only [List.cons_append, List.nil_append]
  exact prefixP_not (h g (by omega))

theorem invNL_tern (c a b : Expr) (ihc : InvNL c) (iha : InvNL a) (ihb : InvNL b) :
    InvNL (.tern c a b) := by
  intro L t q fl p rest hok hpq hp hrest
  rw [renderNL]
  simp only [Level.num]
  refine inv_of_wrap (K := 6) (S := 1) (by omega) (by omega) ?_ t q fl p rest hok hpq hp hrest
  intro t p' fl' rest' hok hp' hp13 hfl hrest'
  obtain ⟨rfl, hokc, hoka, hokb⟩ := okT_tern hok
  obtain ⟨Nb, hb⟩ := (ihb (L.drop (gaps c + gaps a)) true 6 fl' 1 rest' hokb (by omega) (by omega)
    hrest').done (by omega)
  have hcol : firstOp (tk .COLON :: (renderNL (L.drop (gaps c + gaps a)) 6 fl' b ++ rest')) ≤ 1 :=
    Nat.le_of_eq (firstOp_cons_noInfix _ rfl)
  obtain ⟨Na, ha⟩ := (iha (L.drop (gaps c)) true 6 1 1
    (tk .COLON :: (renderNL (L.drop (gaps c + gaps a)) 6 fl' b ++ rest')) hoka (by omega)
    (by omega) hcol).done hcol
  have hq : firstOp (tk .QUESTION :: (renderNL (L.drop (gaps c)) 6 1 a ++
      tk .COLON :: (renderNL (L.drop (gaps c + gaps a)) 6 fl' b ++ rest'))) ≤ 6 :=
    Nat.le_of_eq (firstOp_cons_infix (fn := .parseTernary) _ rfl)
  have hL := ihc L false 6 6 p' _ hokc (by omega) hp13 hq
  simp only [List.append_assoc, List.cons_append, List.nil_append]
  refine hL.step ⟨Na + Nb + 1, fun f hf => ?_⟩
  obtain ⟨g, rfl⟩ : ∃ g, f = g + 1 := ⟨f - 1, by omega⟩
  exact loop_tern hp' (ha g (by omega)) (hb g (by omega))

theorem invNL_isIn (x c : Expr) (ihx : InvNL x) (ihc : InvNL c) : InvNL (.isIn x c) := by
  intro L t q fl p rest hok hpq hp hrest
  rw [renderNL]
  simp only [Level.num]
  refine inv_of_wrap (K := 13) (S := 13) (by omega) (by omega) ?_ t q fl p rest hok hpq hp hrest
  intro t p' fl' rest' hok hp' hp13 hfl hrest'
  obtain ⟨hokx, hokc⟩ := okT_isIn hok
  obtain ⟨N, h⟩ := (ihc (L.drop (gaps x)) t 13 fl' 13 rest' hokc (Nat.le_refl _) (Nat.le_refl _)
    hrest').done (by omega)
  have hq : firstOp (tk .IN :: (renderNL (L.drop (gaps x)) 13 fl' c ++ rest')) ≤ 13 :=
    Nat.le_of_eq (firstOp_cons_infix (fn := .parseIn) _ rfl)
  have hL := ihx L t 13 13 p' _ hokx (by omega) hp13 hq
  simp only [List.append_assoc, List.cons_append, List.nil_append]
  refine hL.step ⟨N + 1, fun f hf => ?_⟩
  obtain ⟨g, rfl⟩ : ∃ g, f = g + 1 := ⟨f - 1, by omega⟩
  exact loop_in hp' (h g (by omega))

theorem invNL_notIn (x c : Expr) (ihx : InvNL x) (ihc : InvNL c) : InvNL (.notIn x c) := by
  intro L t q fl p rest hok hpq hp hrest
  rw [renderNL]
  simp only [Level.num]
  refine inv_of_wrap (K := 13) (S := 13) (by omega) (by omega) ?_ t q fl p rest hok hpq hp hrest
  intro t p' fl' rest' hok hp' hp13 hfl hrest'
  obtain ⟨hokx, hokc⟩ := okT_notIn hok
  obtain ⟨N, h⟩ := (ihc (L.drop (gaps x)) t 13 fl' 13 rest' hokc (Nat.le_refl _) (Nat.le_refl _)
    hrest').done (by omega)
  have hq : firstOp (tk .NOT :: tk .IN :: (renderNL (L.drop (gaps x)) 13 fl' c ++ rest')) ≤ 13 :=
    Nat.le_of_eq (firstOp_cons_infix (fn := .parseNotIn) _ rfl)
  have hL := ihx L t 13 13 p' _ hokx (by omega) hp13 hq
  simp only [List.append_assoc, List.cons_append, List.nil_append]
  refine hL.step ⟨N + 1, fun f hf => ?_⟩
  obtain ⟨g, rfl⟩ : ∃ g, f = g + 1 := ⟨f - 1, by omega⟩
  exact loop_notin hp' (h g (by omega))

theorem invNL_call (f : Expr) (args : Args) (ihf : InvNL f) (iha : InvArgsNL args) :
    InvNL (.call f args) := by
  intro L t q fl p rest hok hpq hp hrest
  rw [renderNL]
  simp only [Level.num]
  obtain ⟨hokf, hoka⟩ := okT_call hok
  obtain ⟨N, h⟩ := iha (L.drop (gaps f)) t .RPAREN rest hoka closer_rparen
  have hq : firstOp (tk .LPAREN :: (renderArgsNL (L.drop (gaps f)) .RPAREN args ++ rest)) ≤ 14 :=
    Nat.le_of_eq (firstOp_cons_infix (fn := .parseCall) _ rfl)
  have hL := ihf L t 13 14 p _ hokf hp hp hq
  simp only [List.append_assoc, List.cons_append, List.nil_append]
  refine hL.step ⟨N + 1, fun f hf => ?_⟩
  obtain ⟨g, rfl⟩ : ∃ g, f = g + 1 := ⟨f - 1, by omega⟩
  exact loop_call hp (h g (by omega))

/-- a method call: any number of newlines after the `.` -/
theorem invNL_mcall (o : Expr) (name : String) (args : Args) (iho : InvNL o) (iha : InvArgsNL args) :
    InvNL (.mcall o name args) := by
  intro L t q fl p rest hok hpq hp hrest
  rw [renderNL]
  simp only [Level.num]
  obtain ⟨hoko, hoka⟩ := okT_mcall hok
  obtain ⟨N, h⟩ := iha (L.drop (gaps o + 1)) t .RPAREN rest hoka closer_rparen
  have hq : firstOp (tk .PERIOD :: (nls (L.nl (gaps o)) ++ ⟨.IDENT, name⟩ :: tk .LPAREN ::
      (renderArgsNL (L.drop (gaps o + 1)) .RPAREN args ++ rest))) ≤ 15 :=
    Nat.le_of_eq (firstOp_cons_infix (fn := .parseGetAttr) _ rfl)
  have hL := iho L t 14 15 p _ hoko (by omega) hp hq
  simp only [List.append_assoc, List.cons_append, List.nil_append]
  refine hL.step ⟨N + 1, fun f hf => ?_⟩
  obtain ⟨g, rfl⟩ : ∃ g, f = g + 1 := ⟨f - 1, by omega⟩
  exact loop_mcallNL _ hp (h g (by omega))

theorem invNL_index (e i : Expr) (ihe : InvNL e) (ihi : InvNL i) : InvNL (.index e i) := by
  intro L t q fl p rest hok hpq hp hrest
  rw [renderNL]
  simp only [Level.num]
  obtain ⟨hoke, hoki⟩ := okT_index hok
  have hrb : firstOp (tk .RBRACKET :: rest) ≤ 1 := Nat.le_of_eq (firstOp_cons_noInfix _ rfl)
  obtain ⟨N, h⟩ := ihi.doneLowest (L.drop (gaps e)) hoki hrb
  have hq : firstOp (tk .LBRACKET :: (renderNL (L.drop (gaps e)) 1 1 i ++ tk .RBRACKET :: rest)) ≤ 15 :=
    Nat.le_of_eq (firstOp_cons_infix (fn := .parseIndex) _ rfl)
  have hL := ihe L t 14 15 p _ hoke (by omega) hp hq
  simp only [List.append_assoc, List.cons_append, List.nil_append]
  refine hL.step ⟨N + 1, fun f hf => ?_⟩
  obtain ⟨g, rfl⟩ : ∃ g, f = g + 1 := ⟨f - 1, by omega⟩
  exact loop_index hp (headIs_renderNL _ rfl _ _ _ _ _) (h g (by omega))

theorem sliceTail_renderNL (l : Expr) (lo hi : Opt) (ih : InvOptNL hi) (L : Layout) (t : Bool)
    (hok : okTOpt t hi = true) (rest : List Token) :
    ∃ N, ∀ F, N ≤ F → sliceTail F t l lo (renderOptNL L hi ++ tk .RBRACKET :: rest)
      = some (.slice l lo hi, rest) := by
  cases hi with
  | none =>
    refine ⟨1, fun F hF => ?_⟩
    obtain ⟨g, rfl⟩ : ∃ g, F = g + 1 := ⟨F - 1, by omega⟩
    rw [renderOptNL]
    exact sliceTail_none g t l lo rest
  | some e =>
    have hrb : firstOp (tk .RBRACKET :: rest) ≤ 1 := Nat.le_of_eq (firstOp_cons_noInfix _ rfl)
    obtain ⟨N, h⟩ := InvNL.doneLowest (e := e) ih L (okTOpt_some hok) hrb
    refine ⟨N + 1, fun F hF => ?_⟩
    obtain ⟨g, rfl⟩ : ∃ g, F = g + 1 := ⟨F - 1, by omega⟩
    rw [renderOptNL]
    simp only [Level.num]
    exact sliceTail_some (headIs_renderNL _ rfl _ _ _ _ _) (h g (by omega))

theorem invNL_slice (e : Expr) (lo hi : Opt) (ihe : InvNL e) (ihlo : InvOptNL lo) (ihhi : InvOptNL hi) :
    InvNL (.slice e lo hi) := by
  intro L t q fl p rest hok hpq hp hrest
  rw [renderNL]
  simp only [Level.num]
  obtain ⟨hoke, hoklo, hokhi⟩ := okT_slice hok
  obtain ⟨Nt, ht⟩ := sliceTail_renderNL e lo hi ihhi (L.drop (gaps e + gapsOpt lo)) t hokhi rest
  have hq : ∀ R, firstOp (tk .LBRACKET :: R) ≤ 15 := fun R =>
    Nat.le_of_eq (firstOp_cons_infix (fn := .parseIndex) _ rfl)
  have hL := ihe L t 14 15 p
    (tk .LBRACKET :: (renderOptNL (L.drop (gaps e)) lo ++ tk .COLON ::
      (renderOptNL (L.drop (gaps e + gapsOpt lo)) hi ++ tk .RBRACKET :: rest)))
    hoke (by omega) hp (hq _)
  simp only [List.append_assoc, List.cons_append, List.nil_append]
  refine hL.step ?_
  cases lo with
  | none =>
    refine ⟨Nt + 1, fun f hf => ?_⟩
    obtain ⟨g, rfl⟩ : ∃ g, f = g + 1 := ⟨f - 1, by omega⟩
    simp only [renderOptNL, List.nil_append]
    exact loop_slice_nolo hp (ht g (by omega))
  | some x =>
    have hcol : firstOp (tk .COLON :: (renderOptNL (L.drop (gaps e + gapsOpt (.some x))) hi ++
        tk .RBRACKET :: rest)) ≤ 1 :=
      Nat.le_of_eq (firstOp_cons_noInfix _ rfl)
    obtain ⟨N, h⟩ := InvNL.doneLowest (e := x) ihlo (L.drop (gaps e)) (okTOpt_some hoklo) hcol
    refine ⟨N + Nt + 1, fun f hf => ?_⟩
    obtain ⟨g, rfl⟩ : ∃ g, f = g + 1 := ⟨f - 1, by omega⟩
    simp only [renderOptNL, Level.num]
    exact loop_slice_lo hp (headIs_renderNL _ rfl _ _ _ _ _) (h g (by omega)) (ht g (by omega))

/-- the closing part of a non-empty list: optional trailing comma, any number of newlines -/
theorem invTailNL_nil : InvTailNL .nil := by
  intro L t en rest _ hc
  refine ⟨1, fun F hF => ?_⟩
  obtain ⟨g, rfl⟩ : ∃ g, F = g + 1 := ⟨F - 1, by omega⟩
  rw [renderTailNL]
  cases hcm : L.comma 0
  · simp only [Bool.false_eq_true, if_false, List.nil_append, List.append_assoc, List.cons_append]
    exact listTail_nilNL g t en _ rest hc.2.1 hc.2.2.1
  · simp only [if_true, List.nil_append, List.append_assoc, List.cons_append]
    exact listTail_nil_commaNL g t en _ rest hc.2.2.1

/-- whatever follows an item does not continue the item's expression -/
theorem firstOp_tailNL (L : Layout) (es : Args) (en : Kind) (hc : Closer en) (rest : List Token) :
    firstOp (renderTailNL L en es ++ rest) ≤ 1 := by
  cases es with
  | nil =>
    rw [renderTailNL]
    cases hcm : L.comma 0
    · simp only [Bool.false_eq_true, if_false, List.nil_append, List.append_assoc, List.cons_append]
      exact firstOp_nls_cons _ hc.2.2.2 _
    · simp only [if_true, List.nil_append, List.append_assoc, List.cons_append]
      exact Nat.le_of_eq (firstOp_cons_noInfix _ rfl)
  | cons e es =>
    rw [renderTailNL]
    simp only [List.append_assoc, List.cons_append, List.nil_append]
    exact Nat.le_of_eq (firstOp_cons_noInfix _ rfl)

theorem invTailNL_cons (e : Expr) (es : Args) (ihe : InvNL e) (ihes : InvTailNL es) :
    InvTailNL (.cons e es) := by
  intro L t en rest hok hc
  obtain ⟨hoke, hokes⟩ := okTArgs_cons hok
  obtain ⟨Nt, ht⟩ := ihes (L.drop (1 + gaps e)) t en rest hokes hc
  obtain ⟨N, h⟩ := InvNL.doneLowest (e := e) ihe (L.drop 1) hoke
    (firstOp_tailNL (L.drop (1 + gaps e)) es en hc rest)
  refine ⟨N + Nt + 1, fun F hF => ?_⟩
  obtain ⟨g, rfl⟩ : ∃ g, F = g + 1 := ⟨F - 1, by omega⟩
  rw [renderTailNL]
  simp only [Level.num, List.append_assoc, List.cons_append, List.nil_append]
  exact listTail_consNL _ (headIs_renderNL _ hc.1 _ _ _ _ _) ((starts_renderNL e _ _ _).append _)
    (h g (by omega)) (ht g (by omega))

theorem invArgsNL_nil : InvArgsNL .nil := by
  intro L t en rest _ hc
  refine ⟨1, fun F hF => ?_⟩
  obtain ⟨g, rfl⟩ : ∃ g, F = g + 1 := ⟨F - 1, by omega⟩
  rw [renderArgsNL]
  exact exprList_nil g t en rest

theorem invArgsNL_cons (e : Expr) (es : Args) (ihe : InvNL e) (ihes : InvTailNL es) :
    InvArgsNL (.cons e es) := by
  intro L t en rest hok hc
  obtain ⟨hoke, hokes⟩ := okTArgs_cons hok
  obtain ⟨Nt, ht⟩ := ihes (L.drop (1 + gaps e)) t en rest hokes hc
  obtain ⟨N, h⟩ := InvNL.doneLowest (e := e) ihe (L.drop 1) hoke
    (firstOp_tailNL (L.drop (1 + gaps e)) es en hc rest)
  refine ⟨N + Nt + 1, fun F hF => ?_⟩
  obtain ⟨g, rfl⟩ : ∃ g, F = g + 1 := ⟨F - 1, by omega⟩
  rw [renderArgsNL]
  simp only [Level.num, List.append_assoc]
  exact exprList_consNL _ hc.2.2.1 (headIs_renderNL _ hc.1 _ _ _ _ _)
    ((starts_renderNL e _ _ _).append _) (h g (by omega)) (ht g (by omega))

theorem invNL_list (items : Args) (ih : InvArgsNL items) : InvNL (.list items) := by
  intro L t q fl p rest hok hpq hp hrest
  rw [renderNL]
  obtain ⟨N, h⟩ := ih L t .RBRACKET rest (okT_list hok) closer_rbracket
  refine Cont.ofPrefix ⟨N + 1, fun f hf => ?_⟩
  obtain ⟨g, rfl⟩ : ∃ g, f = g + 1 := ⟨f - 1, by omega⟩
  simp only [List.cons_append, List.nil_append]
  exact prefixP_list (h g (by omega))

/-! ### assembling the mutual induction -/

mutual
theorem invNL_all : ∀ e : Expr, InvNL e
  | .int n => invNL_int n
  | .bool b => invNL_bool b
  | .nil => invNL_nil
  | .str s => invNL_str s
  | .ident x => invNL_ident x
  | .infix op l r => invNL_infix op l r (invNL_all l) (invNL_all r)
  | .neg e => invNL_neg e (invNL_all e)
  | .not e => invNL_not e (invNL_all e)
  | .tern c a b => invNL_tern c a b (invNL_all c) (invNL_all a) (invNL_all b)
  | .isIn x c => invNL_isIn x c (invNL_all x) (invNL_all c)
  | .notIn x c => invNL_notIn x c (invNL_all x) (invNL_all c)
  | .call f args => invNL_call f args (invNL_all f) (invArgsNL_all args)
  | .mcall o name args => invNL_mcall o name args (invNL_all o) (invArgsNL_all args)
  | .index e i => invNL_index e i (invNL_all e) (invNL_all i)
  | .slice e lo hi => invNL_slice e lo hi (invNL_all e) (invOptNL_all lo) (invOptNL_all hi)
  | .list items => invNL_list items (invArgsNL_all items)
theorem invArgsNL_all : ∀ a : Args, InvArgsNL a
  | .nil => invArgsNL_nil
  | .cons e es => invArgsNL_cons e es (invNL_all e) (invTailNL_all es)
theorem invTailNL_all : ∀ a : Args, InvTailNL a
  | .nil => invTailNL_nil
  | .cons e es => invTailNL_cons e es (invNL_all e) (invTailNL_all es)
theorem invOptNL_all : ∀ o : Opt, InvOptNL o
  | .none => trivial
  | .some e => invNL_all e
end

/-! ### the flat layout is the one-line printer; newlines are all a layout adds -/

mutual
theorem renderNL_flat : ∀ (e : Expr) (q fl : Nat), renderNL Layout.flat q fl e = render q fl e
  | .int n, _, _ => by rw [renderNL, render]
  | .bool b, _, _ => by rw [renderNL, render]
  | .nil, _, _ => by rw [renderNL, render]
  | .str s, _, _ => by rw [renderNL, render]
  | .ident x, _, _ => by rw [renderNL, render]
  | .infix op l r, q, fl => by
    rw [renderNL, render]
    simp only [flat_drop, flat_nl, nls_zero, List.append_nil, renderNL_flat l, renderNL_flat r]
  | .neg e, q, fl => by
    rw [renderNL, render]; simp only [renderNL_flat e]
  | .not e, q, fl => by
    rw [renderNL, render]; simp only [renderNL_flat e]
  | .tern c a b, q, fl => by
    rw [renderNL, render]
    simp only [flat_drop, renderNL_flat c, renderNL_flat a, renderNL_flat b]
  | .isIn x c, q, fl => by
    rw [renderNL, render]; simp only [flat_drop, renderNL_flat x, renderNL_flat c]
  | .notIn x c, q, fl => by
    rw [renderNL, render]; simp only [flat_drop, renderNL_flat x, renderNL_flat c]
  | .call f args, q, fl => by
    rw [renderNL, render]
    simp only [flat_drop, renderNL_flat f, renderArgsNL_flat args, List.append_assoc]
  | .mcall o name args, q, fl => by
    rw [renderNL, render]
    simp only [flat_drop, flat_nl, nls_zero, List.append_nil, renderNL_flat o, renderArgsNL_flat args,
      List.append_assoc, List.cons_append, List.nil_append]
  | .index e i, q, fl => by
    rw [renderNL, render]; simp only [flat_drop, renderNL_flat e, renderNL_flat i]
  | .slice e lo hi, q, fl => by
    rw [renderNL, render]
    simp only [flat_drop, renderNL_flat e, renderOptNL_flat lo, renderOptNL_flat hi]
  | .list items, q, fl => by
    rw [renderNL, render]; simp only [renderArgsNL_flat items, List.append_assoc]
theorem renderArgsNL_flat : ∀ (a : Args) (en : Kind),
    renderArgsNL Layout.flat en a = renderArgs a ++ [tk en]
  | .nil, en => by rw [renderArgsNL, renderArgs]; rfl
  | .cons e es, en => by
    rw [renderArgsNL, renderArgs]
    simp only [flat_drop, flat_nl, nls_zero, List.nil_append, renderNL_flat e, renderTailNL_flat es,
      List.append_assoc]
theorem renderTailNL_flat : ∀ (a : Args) (en : Kind),
    renderTailNL Layout.flat en a = renderTail a ++ [tk en]
  | .nil, en => by
    rw [renderTailNL, renderTail]
    simp only [flat_comma, Bool.false_eq_true, if_false, flat_nl, nls_zero, List.nil_append]
  | .cons e es, en => by
    rw [renderTailNL, renderTail]
    simp only [flat_drop, flat_nl, nls_zero, List.append_nil, renderNL_flat e, renderTailNL_flat es,
      List.append_assoc]
theorem renderOptNL_flat : ∀ (o : Opt), renderOptNL Layout.flat o = renderOpt o
  | .none => by rw [renderOptNL, renderOpt]
  | .some e => by rw [renderOptNL, renderOpt, renderNL_flat e]
end

/-! erasing the NEWLINE tokens of a rendering without trailing commas gives the one-line rendering -/

theorem stripNl_append (a b : List Token) : stripNl (a ++ b) = stripNl a ++ stripNl b := by
  simp [stripNl]

theorem stripNl_nls (n : List String) : stripNl (nls n) = [] := by
  induction n with
  | nil => rfl
  | cons s n ih => rw [nls_succ]; simpa [stripNl] using ih

theorem stripNl_single {tok : Token} (h : tok.kind ≠ .NEWLINE) : stripNl [tok] = [tok] := by
  simp [stripNl, h]

theorem stripNl_cons {tok : Token} (h : tok.kind ≠ .NEWLINE) (r : List Token) :
    stripNl (tok :: r) = tok :: stripNl r := by
  simp [stripNl, h]

theorem opKind_ne_newline (op : BinOp) : (tk (opKind op)).kind ≠ .NEWLINE := by
  cases op <;> decide

theorem stripNl_wrap (ok : Bool) (fl : Nat) (g g' : Nat → List Token)
    (h : ∀ fl', stripNl (g fl') = g' fl') : stripNl (wrap ok fl g) = wrap ok fl g' := by
  unfold Pratt.wrap
  split
  · exact h fl
  · rw [stripNl_append, stripNl_append, h, stripNl_single (by decide), stripNl_single (by decide)]

mutual
theorem stripNl_renderNL : ∀ (e : Expr) (L : Layout) (q fl : Nat), L.noComma →
    stripNl (renderNL L q fl e) = render q fl e
  | .int n, _, _, _, _ => by rw [renderNL, render]; exact stripNl_single (by simp)
  | .bool b, _, _, _, _ => by rw [renderNL, render]; cases b <;> exact stripNl_single (by decide)
  | .nil, _, _, _, _ => by rw [renderNL, render]; exact stripNl_single (by decide)
  | .str s, _, _, _, _ => by rw [renderNL, render]; exact stripNl_single (by simp)
  | .ident x, _, _, _, _ => by rw [renderNL, render]; exact stripNl_single (by simp)
  | .infix op l r, L, q, fl, hL => by
    rw [renderNL, render]
    refine stripNl_wrap _ _ _ _ fun fl' => ?_
    rw [stripNl_append, stripNl_append, stripNl_append, stripNl_nls, stripNl_single (opKind_ne_newline op),
      stripNl_renderNL l L _ _ hL, stripNl_renderNL r _ _ _ (noComma_drop hL _), List.append_nil]
  | .neg e, L, q, fl, hL => by
    rw [renderNL, render]
    refine stripNl_wrap _ _ _ _ fun fl' => ?_
    rw [stripNl_append, stripNl_single (by decide), stripNl_renderNL e L _ _ hL]
  | .not e, L, q, fl, hL => by
    rw [renderNL, render]
    refine stripNl_wrap _ _ _ _ fun fl' => ?_
    rw [stripNl_append, stripNl_single (by decide), stripNl_renderNL e L _ _ hL]
  | .tern c a b, L, q, fl, hL => by
    rw [renderNL, render]
    refine stripNl_wrap _ _ _ _ fun fl' => ?_
    rw [stripNl_append, stripNl_append, stripNl_append, stripNl_append, stripNl_single (by decide),
      stripNl_single (by decide), stripNl_renderNL c L _ _ hL,
      stripNl_renderNL a _ _ _ (noComma_drop hL _), stripNl_renderNL b _ _ _ (noComma_drop hL _)]
  | .isIn x c, L, q, fl, hL => by
    rw [renderNL, render]
    refine stripNl_wrap _ _ _ _ fun fl' => ?_
    rw [stripNl_append, stripNl_append, stripNl_single (by decide), stripNl_renderNL x L _ _ hL,
      stripNl_renderNL c _ _ _ (noComma_drop hL _)]
  | .notIn x c, L, q, fl, hL => by
    rw [renderNL, render]
    refine stripNl_wrap _ _ _ _ fun fl' => ?_
    rw [stripNl_append, stripNl_append, stripNl_cons (by decide), stripNl_single (by decide),
      stripNl_renderNL x L _ _ hL, stripNl_renderNL c _ _ _ (noComma_drop hL _)]
  | .call f args, L, q, fl, hL => by
    rw [renderNL, render]
    rw [stripNl_append, stripNl_append, stripNl_single (by decide), stripNl_renderNL f L _ _ hL,
      stripNl_renderArgsNL args _ .RPAREN (by decide) (noComma_drop hL _), List.append_assoc,
      List.append_assoc, List.append_assoc]
  | .mcall o name args, L, q, fl, hL => by
    rw [renderNL, render]
    rw [stripNl_append, stripNl_append, stripNl_append, stripNl_append, stripNl_nls,
      stripNl_single (by decide), stripNl_cons (by simp), stripNl_single (by decide),
      stripNl_renderNL o L _ _ hL, stripNl_renderArgsNL args _ .RPAREN (by decide) (noComma_drop hL _)]
    simp only [List.append_assoc, List.cons_append, List.nil_append, List.append_nil]
  | .index e i, L, q, fl, hL => by
    rw [renderNL, render]
    rw [stripNl_append, stripNl_append, stripNl_append, stripNl_single (by decide),
      stripNl_single (by decide), stripNl_renderNL e L _ _ hL,
      stripNl_renderNL i _ _ _ (noComma_drop hL _)]
  | .slice e lo hi, L, q, fl, hL => by
    rw [renderNL, render]
    rw [stripNl_append, stripNl_append, stripNl_append, stripNl_append, stripNl_append,
      stripNl_single (by decide), stripNl_single (by decide), stripNl_single (by decide),
      stripNl_renderNL e L _ _ hL, stripNl_renderOptNL lo _ (noComma_drop hL _),
      stripNl_renderOptNL hi _ (noComma_drop hL _)]
  | .list items, L, q, fl, hL => by
    rw [renderNL, render]
    rw [stripNl_append, stripNl_single (by decide), stripNl_renderArgsNL items L .RBRACKET (by decide) hL,
      List.append_assoc]
theorem stripNl_renderArgsNL : ∀ (a : Args) (L : Layout) (en : Kind), en ≠ .NEWLINE → L.noComma →
    stripNl (renderArgsNL L en a) = renderArgs a ++ [tk en]
  | .nil, _, en, hen, _ => by rw [renderArgsNL, renderArgs]; exact stripNl_single hen
  | .cons e es, L, en, hen, hL => by
    rw [renderArgsNL, renderArgs]
    rw [stripNl_append, stripNl_append, stripNl_nls, stripNl_renderNL e _ _ _ (noComma_drop hL _),
      stripNl_renderTailNL es _ en hen (noComma_drop hL _), List.nil_append, List.append_assoc]
theorem stripNl_renderTailNL : ∀ (a : Args) (L : Layout) (en : Kind), en ≠ .NEWLINE → L.noComma →
    stripNl (renderTailNL L en a) = renderTail a ++ [tk en]
  | .nil, L, en, hen, hL => by
    rw [renderTailNL, renderTail, hL 0]
    simp only [Bool.false_eq_true, if_false, List.nil_append]
    rw [stripNl_append, stripNl_nls, stripNl_single hen, List.nil_append]
  | .cons e es, L, en, hen, hL => by
    rw [renderTailNL, renderTail]
    rw [stripNl_append, stripNl_append, stripNl_append, stripNl_nls, stripNl_single (by decide),
      stripNl_renderNL e _ _ _ (noComma_drop hL _), stripNl_renderTailNL es _ en hen (noComma_drop hL _)]
    simp only [List.append_assoc, List.append_nil]
theorem stripNl_renderOptNL : ∀ (o : Opt) (L : Layout), L.noComma →
    stripNl (renderOptNL L o) = renderOpt o
  | .none, _, _ => by rw [renderOptNL, renderOpt]; rfl
  | .some e, L, hL => by rw [renderOptNL, renderOpt, stripNl_renderNL e L _ _ hL]
end

/-! ### where a newline is NOT skipped: the parser meets it as the start of an operand, or as the
    token that should have been a closing bracket / colon / comma -/

/-- a NEWLINE token never starts an expression (`parseNewline` returns no node) -/
theorem prefixP_newline (f : Nat) (t : Bool) (rest : List Token) :
    prefixP f t (tk .NEWLINE :: rest) = none := by
  cases f with
  | zero => rfl
  | succ f =>
    have h1 : prefixFn (tk .NEWLINE).kind = some .parseNewline := rfl
    have h2 : isPostfix (tk .NEWLINE).kind = false := rfl
    simp [prefixP, h1, h2]

theorem parseNode_newline (f : Nat) (t : Bool) (p : Nat) (rest : List Token) :
    parseNode f t p (tk .NEWLINE :: rest) = none := by
  cases f with
  | zero => rfl
  | succ f => simp [parseNode, prefixP_newline]

/-- a closing bracket does not start an expression either -/
theorem parseNode_closer (f : Nat) (t : Bool) (p : Nat) (k : Kind) (rest : List Token)
    (h1 : prefixFn k = none) (h2 : isPostfix k = false) :
    parseNode f t p (tk k :: rest) = none := by
  have h1' : prefixFn (tk k).kind = none := h1
  have h2' : isPostfix (tk k).kind = false := h2
  cases f with
  | zero => rfl
  | succ f =>
    cases f with
    | zero => simp [parseNode, prefixP]
    | succ f => simp [parseNode, prefixP, h1', h2']

/-- an identifier followed by a NEWLINE is, for every fuel, either not parsed yet or parsed as
    the identifier alone, the NEWLINE left in the input -/
theorem parseNode_ident_newline (f : Nat) (t : Bool) (p : Nat) (x : String) (R : List Token)
    (hp : 1 ≤ p) :
    parseNode f t p (⟨.IDENT, x⟩ :: tk .NEWLINE :: R) = none ∨
    parseNode f t p (⟨.IDENT, x⟩ :: tk .NEWLINE :: R) = some (.ident x, tk .NEWLINE :: R) := by
  cases f with
  | zero => exact Or.inl rfl
  | succ f =>
    cases f with
    | zero => left; simp [parseNode, prefixP]
    | succ f =>
      right
      rw [parseNode, prefixP_ident]
      exact loop_stop f t p _ _ (Nat.le_trans (Nat.le_of_eq (firstOp_cons_noInfix _ rfl)) hp)

/-- a parse that fails at the infix step fails as a whole, from some fuel on -/
theorem cont_fail {t : Bool} {p : Nat} {toks : List Token} {l : Expr} {R : List Token}
    (hl : Cont t p toks l R) (hfail : ∀ f, loop f t p l R = none) :
    ∃ N, ∀ F, N ≤ F → parseNode F t p toks = none := by
  obtain ⟨n, m, h⟩ := hl
  refine ⟨m + n, fun F hF => ?_⟩
  obtain ⟨g, rfl⟩ : ∃ g, F = g + n := ⟨F - n, by omega⟩
  rw [h g (by omega)]
  exact hfail g

/-- `c ? NEWLINE …`: the true branch cannot start with a newline -/
theorem loop_question_newline_fails (f p : Nat) (l : Expr) (R : List Token) (hp : p < 6) :
    loop f false p l (tk .QUESTION :: tk .NEWLINE :: R) = none := by
  have hk : prec (tk .QUESTION).kind = 6 := rfl
  have hi : infixFn (tk .QUESTION).kind = some .parseTernary := rfl
  cases f with
  | zero => rfl
  | succ f =>
    cases f with
    | zero => simp [loop, hk, hp, hi, infixP]
    | succ f => simp [loop, hk, hp, hi, infixP, parseNode_newline]

/-- `x in NEWLINE …` -/
theorem loop_in_newline_fails (f : Nat) (t : Bool) (p : Nat) (l : Expr) (R : List Token) (hp : p < 13) :
    loop f t p l (tk .IN :: tk .NEWLINE :: R) = none := by
  have hk : prec (tk .IN).kind = 13 := rfl
  have hi : infixFn (tk .IN).kind = some .parseIn := rfl
  cases f with
  | zero => rfl
  | succ f =>
    cases f with
    | zero => simp [loop, hk, hp, hi, infixP]
    | succ f => simp [loop, hk, hp, hi, infixP, parseNode_newline]

/-- `e[ NEWLINE …` -/
theorem loop_index_newline_fails (f : Nat) (t : Bool) (p : Nat) (l : Expr) (R : List Token) (hp : p < 15) :
    loop f t p l (tk .LBRACKET :: tk .NEWLINE :: R) = none := by
  have hk : prec (tk .LBRACKET).kind = 15 := rfl
  have hi : infixFn (tk .LBRACKET).kind = some .parseIndex := rfl
  have hc : headIs .COLON (tk .NEWLINE :: R) = false := by simp [headIs, tk]
  cases f with
  | zero => rfl
  | succ f =>
    cases f with
    | zero => simp [loop, hk, hp, hi, infixP]
    | succ f => simp [loop, hk, hp, hi, infixP, hc, parseNode_newline]

/-- `e[: NEWLINE …` -/
theorem loop_slice_colon_newline_fails (f : Nat) (t : Bool) (p : Nat) (l : Expr) (R : List Token)
    (hp : p < 15) : loop f t p l (tk .LBRACKET :: tk .COLON :: tk .NEWLINE :: R) = none := by
  have hk : prec (tk .LBRACKET).kind = 15 := rfl
  have hi : infixFn (tk .LBRACKET).kind = some .parseIndex := rfl
  have hc : headIs .COLON (tk .COLON :: tk .NEWLINE :: R) = true := by simp [headIs, tk]
  have hb : headIs .RBRACKET (tk .NEWLINE :: R) = false := by simp [headIs, tk]
  cases f with
  | zero => rfl
  | succ f =>
    cases f with
    | zero => simp [loop, hk, hp, hi, infixP]
    | succ f =>
      cases f with
      | zero => simp [loop, hk, hp, hi, infixP, hc, sliceTail]
      | succ f => simp [loop, hk, hp, hi, infixP, hc, sliceTail, hb, parseNode_newline]

/-- `f( NEWLINE )`: `parseNodeList` looks for the closing bracket before it skips newlines -/
theorem loop_call_newline_empty_fails (f : Nat) (t : Bool) (p : Nat) (l : Expr) (R : List Token)
    (hp : p < 14) : loop f t p l (tk .LPAREN :: tk .NEWLINE :: tk .RPAREN :: R) = none := by
  have hk : prec (tk .LPAREN).kind = 14 := rfl
  have hi : infixFn (tk .LPAREN).kind = some .parseCall := rfl
  have hc : headIs .RPAREN (tk .NEWLINE :: tk .RPAREN :: R) = false := by simp [headIs, tk]
  have hs : skipNl (tk .NEWLINE :: tk .RPAREN :: R) = tk .RPAREN :: R := by simp [skipNl, tk]
  cases f with
  | zero => rfl
  | succ f =>
    cases f with
    | zero => simp [loop, hk, hp, hi, infixP]
    | succ f =>
      cases f with
      | zero => simp [loop, hk, hp, hi, infixP, exprList]
      | succ f =>
        simp [loop, hk, hp, hi, infixP, exprList, hc, hs, parseNode_closer _ _ _ .RPAREN _ rfl rfl]

/-- the side condition on continuations, as in C01's PrattProps: "no infix function on the first
    token" is "continues with precedence LOWEST" -/
theorem stopsExpr_iff_firstOp (rest : List Token) : stopsExpr rest = true ↔ firstOp rest ≤ 1 := by
  cases rest with
  | nil => simp [stopsExpr, firstOp, Level.num]
  | cons tok ts =>
    cases h : infixFn tok.kind with
    | none => simp [stopsExpr, firstOp, h, Level.num]
    | some fn =>
      have h2 : 2 ≤ prec tok.kind := prec_ge_two_of_infix _ (by simp [h])
      simp [stopsExpr, firstOp, h]
      omega

/-- if the prefix step fails for every fuel, so does `parseNode` -/
theorem parseNode_none_of_prefixP {t : Bool} {toks : List Token} (h : ∀ g, prefixP g t toks = none)
    (f p : Nat) : parseNode f t p toks = none := by
  cases f with
  | zero => rfl
  | succ f => simp [parseNode, h f]

/-- if the infix function of the next token fails for every fuel, so does the loop -/
theorem loop_none_of_infixP {t : Bool} {p : Nat} {l : Expr} {tok : Token} {R : List Token} {fn : InfixFn}
    (hp : p < prec tok.kind) (hi : infixFn tok.kind = some fn)
    (h : ∀ g, infixP g t fn l tok R = none) (f : Nat) : loop f t p l (tok :: R) = none := by
  cases f with
  | zero => rfl
  | succ f => simp [loop, hp, hi, h f]

/-- an atom followed by an infix step that always fails -/
theorem parseNode_ident_then_none {t : Bool} {p : Nat} {x : String} {R : List Token}
    (h : ∀ f, loop f t p (.ident x) R = none) (f : Nat) :
    parseNode f t p (⟨.IDENT, x⟩ :: R) = none := by
  cases f with
  | zero => rfl
  | succ f =>
    cases f with
    | zero => simp [parseNode, prefixP]
    | succ f => simp [parseNode, prefixP_ident, h]

/-- `( e NEWLINE …`: `parseGroupedExpr` expects `)` right after the expression -/
theorem prefixP_group_newline_fails {f : Nat} {t : Bool} {R rest' : List Token} {e : Expr}
    (h : parseNode f t 1 R = none ∨ parseNode f t 1 R = some (e, tk .NEWLINE :: rest')) :
    prefixP (f + 1) t (tk .LPAREN :: R) = none := by
  have h1 : prefixFn (tk .LPAREN).kind = some .parseGroupedExpr := rfl
  have h2 : isPostfix (tk .LPAREN).kind = false := rfl
  have hh : headIs .RPAREN (tk .NEWLINE :: rest') = false := by simp [headIs, tk]
  rcases h with h | h
  · simp only [prefixP, h1, h2, Level.num, h]
    simp
  · simp only [prefixP, h1, h2, Level.num, h, hh]
    simp

/-- `l[ i NEWLINE …`: `parseIndex` expects `]` or `:` right after the index -/
theorem infixP_index_newline_fails {f : Nat} {t : Bool} {l i : Expr} {tok : Token} {R rest' : List Token}
    (hc : headIs .COLON R = false)
    (h : parseNode f t 1 R = none ∨ parseNode f t 1 R = some (i, tk .NEWLINE :: rest')) :
    infixP (f + 1) t .parseIndex l tok R = none := by
  have hb : headIs .RBRACKET (tk .NEWLINE :: rest') = false := by simp [headIs, tk]
  have hb' : headIs .COLON (tk .NEWLINE :: rest') = false := by simp [headIs, tk]
  rcases h with h | h
  · simp only [infixP, hc, Level.num, h]
    simp
  · simp only [infixP, hc, Level.num, h, hb, hb']
    simp

/-- `NEWLINE , …` after an item: neither a comma nor (after skipping the newlines) the closing
    bracket -/
theorem listTail_newline_comma_fails (f : Nat) (t : Bool) (en : Kind) (rest : List Token)
    (hen : en ≠ .COMMA) : listTail f t en (tk .NEWLINE :: tk .COMMA :: rest) = none := by
  cases f with
  | zero => rfl
  | succ f =>
    have hne : ¬ Kind.COMMA = en := fun h => hen h.symm
    simp [listTail, headIs, skipNl, tk, hne]

/-- `[ item NEWLINE , …` -/
theorem exprList_item_newline_comma_fails {f : Nat} {t : Bool} {en : Kind} {e : Expr} {R rest' : List Token}
    (hen : en ≠ .COMMA) (hh : headIs en R = false) (hs : skipNl R = R)
    (h : parseNode f t 1 R = none ∨ parseNode f t 1 R = some (e, tk .NEWLINE :: tk .COMMA :: rest')) :
    exprList (f + 1) t en R = none := by
  rcases h with h | h
  · simp [exprList, hh, hs, Level.num, h]
  · simp [exprList, hh, hs, Level.num, h, listTail_newline_comma_fails f t en rest' hen]

/-! ### every gap index below `gaps e` is used exactly once: counting the NEWLINE tokens -/

theorem sumTo_split (a b : Nat) (L : Layout) :
    sumTo (a + b) L.count = sumTo a L.count + sumTo b (L.drop a).count := by
  induction b with
  | zero => rfl
  | succ b ih =>
    show sumTo (a + b) L.count + L.count (a + b)
      = sumTo a L.count + (sumTo b (L.drop a).count + L.count (a + b))
    omega

theorem sumTo_one (f : Nat → Nat) : sumTo 1 f = f 0 := by simp [sumTo]

theorem drop_nl_zero (L : Layout) (k : Nat) : (L.drop k).count 0 = L.count k := by
  simp [Layout.drop, Layout.count]

theorem countNl_append (a b : List Token) : countNl (a ++ b) = countNl a + countNl b := by
  simp [countNl]

theorem countNl_nls' (n : List String) : countNl (nls n) = n.length := by
  induction n with
  | nil => rfl
  | cons s n ih => rw [nls_succ]; simpa [countNl] using ih

theorem countNl_nls (L : Layout) (i : Nat) : countNl (nls (L.nl i)) = L.count i := countNl_nls' _

theorem countNl_single {tok : Token} (h : tok.kind ≠ .NEWLINE) : countNl [tok] = 0 := by
  simp [countNl, h]

theorem countNl_cons {tok : Token} (h : tok.kind ≠ .NEWLINE) (r : List Token) :
    countNl (tok :: r) = countNl r := by
  simp [countNl, h]

theorem countNl_wrap (ok : Bool) (fl : Nat) (g : Nat → List Token) (c : Nat)
    (h : ∀ fl', countNl (g fl') = c) : countNl (wrap ok fl g) = c := by
  unfold Pratt.wrap
  split
  · exact h fl
  · rw [countNl_append, countNl_append, h, countNl_single (by decide), countNl_single (by decide)]
    omega

mutual
theorem countNl_renderNL : ∀ (e : Expr) (L : Layout) (q fl : Nat),
    countNl (renderNL L q fl e) = sumTo (gaps e) L.count
  | .int n, _, _, _ => by rw [renderNL, gaps]; exact countNl_single (by simp)
  | .bool b, _, _, _ => by rw [renderNL, gaps]; cases b <;> exact countNl_single (by decide)
  | .nil, _, _, _ => by rw [renderNL, gaps]; exact countNl_single (by decide)
  | .str s, _, _, _ => by rw [renderNL, gaps]; exact countNl_single (by simp)
  | .ident x, _, _, _ => by rw [renderNL, gaps]; exact countNl_single (by simp)
  | .infix op l r, L, q, fl => by
    rw [renderNL, gaps]
    refine countNl_wrap _ _ _ _ fun fl' => ?_
    rw [countNl_append, countNl_append, countNl_append, countNl_nls, countNl_single (opKind_ne_newline op),
      countNl_renderNL l, countNl_renderNL r, sumTo_split (gaps l + 1) (gaps r), sumTo_split (gaps l) 1,
      sumTo_one, drop_nl_zero]
    omega
  | .neg e, L, q, fl => by
    rw [renderNL, gaps]
    refine countNl_wrap _ _ _ _ fun fl' => ?_
    rw [countNl_append, countNl_single (by decide), countNl_renderNL e]; omega
  | .not e, L, q, fl => by
    rw [renderNL, gaps]
    refine countNl_wrap _ _ _ _ fun fl' => ?_
    rw [countNl_append, countNl_single (by decide), countNl_renderNL e]; omega
  | .tern c a b, L, q, fl => by
    rw [renderNL, gaps]
    refine countNl_wrap _ _ _ _ fun fl' => ?_
    rw [countNl_append, countNl_append, countNl_append, countNl_append, countNl_single (by decide),
      countNl_single (by decide), countNl_renderNL c, countNl_renderNL a, countNl_renderNL b,
      sumTo_split (gaps c + gaps a) (gaps b), sumTo_split (gaps c) (gaps a)]
    omega
  | .isIn x c, L, q, fl => by
    rw [renderNL, gaps]
    refine countNl_wrap _ _ _ _ fun fl' => ?_
    rw [countNl_append, countNl_append, countNl_single (by decide), countNl_renderNL x,
      countNl_renderNL c, sumTo_split (gaps x) (gaps c)]
    omega
  | .notIn x c, L, q, fl => by
    rw [renderNL, gaps]
    refine countNl_wrap _ _ _ _ fun fl' => ?_
    rw [countNl_append, countNl_append, countNl_cons (by decide), countNl_single (by decide),
      countNl_renderNL x, countNl_renderNL c, sumTo_split (gaps x) (gaps c)]
    omega
  | .call f args, L, q, fl => by
    rw [renderNL, gaps]
    rw [countNl_append, countNl_append, countNl_single (by decide), countNl_renderNL f,
      countNl_renderArgsNL args _ .RPAREN (by decide), sumTo_split (gaps f) (gapsArgs args)]
    omega
  | .mcall o name args, L, q, fl => by
    rw [renderNL, gaps]
    rw [countNl_append, countNl_append, countNl_append, countNl_append, countNl_nls,
      countNl_single (by decide), countNl_cons (by simp), countNl_single (by decide),
      countNl_renderNL o, countNl_renderArgsNL args _ .RPAREN (by decide),
      sumTo_split (gaps o + 1) (gapsArgs args), sumTo_split (gaps o) 1, sumTo_one,
      drop_nl_zero]
    omega
  | .index e i, L, q, fl => by
    rw [renderNL, gaps]
    rw [countNl_append, countNl_append, countNl_append, countNl_single (by decide),
      countNl_single (by decide), countNl_renderNL e, countNl_renderNL i, sumTo_split (gaps e) (gaps i)]
    omega
  | .slice e lo hi, L, q, fl => by
    rw [renderNL, gaps]
    rw [countNl_append, countNl_append, countNl_append, countNl_append, countNl_append,
      countNl_single (by decide), countNl_single (by decide), countNl_single (by decide),
      countNl_renderNL e, countNl_renderOptNL lo, countNl_renderOptNL hi,
      sumTo_split (gaps e + gapsOpt lo) (gapsOpt hi), sumTo_split (gaps e) (gapsOpt lo)]
    omega
  | .list items, L, q, fl => by
    rw [renderNL, gaps]
    rw [countNl_append, countNl_single (by decide), countNl_renderArgsNL items L .RBRACKET (by decide)]
    omega
theorem countNl_renderArgsNL : ∀ (a : Args) (L : Layout) (en : Kind), en ≠ .NEWLINE →
    countNl (renderArgsNL L en a) = sumTo (gapsArgs a) L.count
  | .nil, _, en, hen => by rw [renderArgsNL, gapsArgs]; exact countNl_single hen
  | .cons e es, L, en, hen => by
    rw [renderArgsNL, gapsArgs]
    rw [countNl_append, countNl_append, countNl_nls, countNl_renderNL e,
      countNl_renderTailNL es _ en hen, sumTo_split (1 + gaps e) (gapsTail es), sumTo_split 1 (gaps e),
      sumTo_one]
theorem countNl_renderTailNL : ∀ (a : Args) (L : Layout) (en : Kind), en ≠ .NEWLINE →
    countNl (renderTailNL L en a) = sumTo (gapsTail a) L.count
  | .nil, L, en, hen => by
    rw [renderTailNL, gapsTail, sumTo_one]
    cases L.comma 0
    · simp only [Bool.false_eq_true, if_false, List.nil_append]
      rw [countNl_append, countNl_nls, countNl_single (tok := tk en) hen]; rfl
    · simp only [if_true]
      rw [countNl_append, countNl_append, countNl_nls, countNl_single (tok := tk en) hen,
        countNl_single (tok := tk .COMMA) (by decide)]
      omega
  | .cons e es, L, en, hen => by
    rw [renderTailNL, gapsTail]
    rw [countNl_append, countNl_append, countNl_append, countNl_nls, countNl_single (by decide),
      countNl_renderNL e, countNl_renderTailNL es _ en hen, sumTo_split (1 + gaps e) (gapsTail es),
      sumTo_split 1 (gaps e), sumTo_one]
    omega
theorem countNl_renderOptNL : ∀ (o : Opt) (L : Layout),
    countNl (renderOptNL L o) = sumTo (gapsOpt o) L.count
  | .none, _ => by rw [renderOptNL, gapsOpt]; rfl
  | .some e, L => by rw [renderOptNL, gapsOpt, countNl_renderNL e]
end

/-- a single newline in gap `i` and nowhere else -/
def Layout.single (i : Nat) : Layout := ⟨fun j => if j = i then ["\n"] else [], fun _ => false⟩

theorem single_count (i n : Nat) : (Layout.single i).count n = if n = i then 1 else 0 := by
  show (if n = i then ["\n"] else []).length = _
  split <;> rfl

theorem sumTo_single (n i : Nat) : sumTo n (Layout.single i).count = if i < n then 1 else 0 := by
  induction n with
  | zero => rfl
  | succ n ih =>
    show sumTo n (Layout.single i).count + (Layout.single i).count n = _
    rw [ih, single_count]
    repeat' split
    all_goals omega

end Risor.C20.NL
