import RisorModel.C20.Props
/-! Helper lemmas for GapProps.lean: the position fold over appended texts, the whole result
    of one call of `Next` on a line comment, and the machine on identifier runes (ASCII or not). -/
namespace Risor.C20

/-! ### `advance` (the fold of `readChar`'s bookkeeping) -/

theorem advance_append : ∀ (a b : Chars) (p : Pos), advance p (a ++ b) = advance (advance p a) b
  | [], _, _ => rfl
  | c :: a, b, p => by
    by_cases h : (c == 10) = true
    · simp only [List.cons_append, advance, h, ↓reduceIte]
      exact advance_append a b _
    · simp only [List.cons_append, advance, h, Bool.false_eq_true, ↓reduceIte]
      exact advance_append a b _

/-- text without a newline only moves the offset and the column -/
theorem advance_no_newline : ∀ (cm : Chars) (p : Pos), (∀ c ∈ cm, c ≠ 10) →
    advance p cm = ⟨p.char + cm.length, p.line, p.col + cm.length, p.lineStart⟩
  | [], p, _ => by simp [advance]
  | c :: cm, p, h => by
    have hc : (c == 10) = false := by simpa using h c (by simp)
    simp only [advance, hc, Bool.false_eq_true, ↓reduceIte]
    rw [advance_no_newline cm _ (fun d hd => h d (by simp [hd]))]
    simp only [List.length_cons]
    congr 1 <;> omega

/-- bookkeeping commutes with a shift of the offsets -/
theorem advance_shift (n : Nat) : ∀ (cs : Chars) (p : Pos),
    advance (p.shift n) cs = (advance p cs).shift n
  | [], _ => rfl
  | c :: cs, p => by
    by_cases h : (c == 10) = true
    · simp only [advance, h, ↓reduceIte]
      have := advance_shift n cs ⟨p.char + 1, p.line + 1, 0, p.char + 1⟩
      simp only [Pos.shift] at this ⊢
      rw [← this]
      congr 1
      congr 1 <;> omega
    · simp only [advance, h, Bool.false_eq_true, ↓reduceIte]
      have := advance_shift n cs ⟨p.char + 1, p.line, p.col + 1, p.lineStart⟩
      simp only [Pos.shift] at this ⊢
      rw [← this]
      congr 1
      congr 1 <;> omega

theorem posAt_le (src : Chars) (off : Nat) (h : off ≤ src.length) :
    posAt src off = advance ⟨0, 0, 0, 0⟩ (src.take off) := by
  unfold posAt
  simp [Nat.not_lt.2 h]

/-! ### one call of `Next` on a line comment: the whole result -/

theorem run_line_comment_nl (body rest : Chars) (i st : Nat) (hb : ∀ c ∈ body, c ≠ 10 ∧ c ≠ 0) :
    run .lineComment (body ++ 10 :: rest) i st =
      ⟨.tok "EOL" [10], i + body.length, i + body.length, i + body.length + 1, i + body.length + 1⟩ := by
  rw [run_line_body body (10 :: rest) i st hb]
  simp only [run, show stepChar .lineComment 10 = .emit "EOL" [10] .consume true by decide]
  rfl

theorem scan_hash_comment (body rest : Chars) (prev : String) (hb : ∀ c ∈ body, c ≠ 10 ∧ c ≠ 0) :
    scan (35 :: body ++ 10 :: rest) prev =
      ⟨.tok "EOL" [10], body.length + 1, body.length + 1, body.length + 2, body.length + 2⟩ := by
  unfold scan
  have e : 35 :: body ++ 10 :: rest = 35 :: (body ++ 10 :: rest) := by simp
  rw [e, run_cons_more _ 0 0 (by decide : stepChar (.start false) 35 = .more .lineComment true)]
  rw [run_line_comment_nl body rest _ _ hb]
  simp only [fixOut]
  congr 1 <;> omega

theorem scan_slash_comment (body rest : Chars) (prev : String) (hb : ∀ c ∈ body, c ≠ 10 ∧ c ≠ 0) :
    scan ([47, 47] ++ body ++ 10 :: rest) prev =
      ⟨.tok "EOL" [10], body.length + 2, body.length + 2, body.length + 3, body.length + 3⟩ := by
  unfold scan
  have e : [47, 47] ++ body ++ 10 :: rest = 47 :: 47 :: (body ++ 10 :: rest) := by simp
  rw [e, run_cons_more _ 0 0 (by decide : stepChar (.start false) 47 = .more .slash true)]
  rw [run_cons_more _ _ _ (by decide : stepChar .slash 47 = .more .lineComment false)]
  rw [run_line_comment_nl body rest _ _ hb]
  simp only [fixOut]
  congr 1 <;> omega

theorem scan_newline (rest : Chars) (prev : String) :
    scan (10 :: rest) prev = ⟨.tok "EOL" [10], 0, 0, 1, 1⟩ := by
  unfold scan
  simp only [run, show stepChar (.start false) 10 = .emit "EOL" [10] .consume true by decide]
  rfl

/-- one unfolding of the positional token loop -/
theorem lexPos_succ (f : Nat) (rest : Chars) (base : Nat) (prev : String) :
    lexPos (f + 1) rest base prev =
      match (scan rest prev).out with
      | .tok k l =>
        if k == "EOF" then [⟨.tok k l, base + (scan rest prev).start, base + (scan rest prev).stop⟩]
        else ⟨.tok k l, base + (scan rest prev).start, base + (scan rest prev).stop⟩ ::
          lexPos f (rest.drop (scan rest prev).next) (base + (scan rest prev).next) k
      | .errT k l c => [⟨.errT k l c, base + (scan rest prev).start, base + (scan rest prev).stop⟩]
      | .err c => [⟨.err c, 0, 0⟩] := rfl

/-! ### identifier runes -/

theorem utf8_ascii {c : Nat} (h : ¬ c > 127) : utf8 c = [c] := by
  unfold utf8
  have : c < 0x80 := by omega
  simp [this]

/-- in the middle of an identifier every identifier rune, ASCII or not, is appended (as UTF-8) -/
theorem step_ident_rune (acc : Chars) {c : Nat} (h : identRune c = true) :
    stepChar (.ident acc) c = .more (.ident (acc ++ utf8 c)) false := by
  unfold identRune at h
  by_cases hc : c > 127
  · simp only [hc, ↓reduceIte] at h
    simp [stepChar, hc, h]
  · simp only [hc, ↓reduceIte] at h
    simp [stepChar, hc, h, utf8_ascii hc]

theorem run_ident_runes : ∀ (cs acc tail : Chars) (i st : Nat), (∀ c ∈ cs, identRune c = true) →
    run (.ident acc) (cs ++ tail) i st = run (.ident (acc ++ utf8s cs)) tail (i + cs.length) st
  | [], acc, tail, i, st, _ => by simp [utf8s]
  | c :: cs, acc, tail, i, st, h => by
    simp only [List.cons_append]
    rw [run_cons_more _ i st (step_ident_rune acc (h c (by simp)))]
    simp only [Bool.false_eq_true, ↓reduceIte]
    rw [run_ident_runes cs (acc ++ utf8 c) tail (i + 1) st (fun d hd => h d (by simp [hd]))]
    simp only [List.length_cons, utf8s, List.flatMap_cons, List.append_assoc]
    congr 1
    omega

/-- the first rune of an identifier: an ASCII letter or `_` … -/
theorem step_start_identFirst' : ∀ c, c < 128 → (isLetter c || c == 95) = true →
    stepChar (.start false) c = .more (.ident [c]) true := by decide

/-- … or a non-ASCII letter/digit -/
theorem step_start_uident {c : Nat} (hc : c > 127) (h : uIdent c = true) :
    stepChar (.start false) c = .more (.ident (utf8 c)) true := by
  have hb : isBlank c = false := by simp [isBlank]; omega
  have h2 : hasTwo c = false := by
    simp only [hasTwo, opTable, List.any_cons, List.any_nil, Bool.or_false, Bool.or_eq_false_iff,
      Bool.and_eq_false_imp, beq_iff_eq]
    omega
  have h1 : lookup1 c = none := by
    simp only [lookup1, opTable, Option.map_eq_none_iff, List.find?_eq_none]
    intro e he
    simp only [List.mem_cons, List.not_mem_nil, or_false] at he
    rcases he with rfl | rfl | rfl | rfl | rfl | rfl | rfl | rfl | rfl | rfl | rfl | rfl | rfl | rfl | rfl | rfl | rfl | rfl | rfl | rfl | rfl | rfl | rfl | rfl | rfl | rfl | rfl | rfl | rfl | rfl | rfl | rfl | rfl | rfl | rfl | rfl | rfl | rfl | rfl | rfl | rfl | rfl <;>
      simp <;> omega
  have hd : isDigit c = false := by simp [isDigit]; omega
  simp only [stepChar, hb, Bool.false_eq_true, ↓reduceIte]
  rw [if_neg (by simp; omega), if_neg (by simp; omega)]
  simp only [dispatch, h2, Bool.false_eq_true, ↓reduceIte, h1]
  rw [if_neg (by simp; omega), if_neg (by simp; omega), if_neg (by simp; omega), if_neg (by simp; omega),
    if_neg (by simp; omega), if_neg (by simp; omega)]
  simp [hd, hc, h]

/-- a non-ASCII rune that is neither a letter nor a digit cannot begin a token -/
theorem step_start_nonident {c : Nat} (hc : c > 127) (h : uIdent c = false) :
    stepChar (.start false) c = .fail "invalid-identifier" := by
  have hb : isBlank c = false := by simp [isBlank]; omega
  have h2 : hasTwo c = false := by
    simp only [hasTwo, opTable, List.any_cons, List.any_nil, Bool.or_false, Bool.or_eq_false_iff,
      Bool.and_eq_false_imp, beq_iff_eq]
    omega
  have h1 : lookup1 c = none := by
    simp only [lookup1, opTable, Option.map_eq_none_iff, List.find?_eq_none]
    intro e he
    simp only [List.mem_cons, List.not_mem_nil, or_false] at he
    rcases he with rfl | rfl | rfl | rfl | rfl | rfl | rfl | rfl | rfl | rfl | rfl | rfl | rfl | rfl | rfl | rfl | rfl | rfl | rfl | rfl | rfl | rfl | rfl | rfl | rfl | rfl | rfl | rfl | rfl | rfl | rfl | rfl | rfl | rfl | rfl | rfl | rfl | rfl | rfl | rfl | rfl | rfl <;>
      simp <;> omega
  have hd : isDigit c = false := by simp [isDigit]; omega
  simp only [stepChar, hb, Bool.false_eq_true, ↓reduceIte]
  rw [if_neg (by simp; omega), if_neg (by simp; omega)]
  simp only [dispatch, h2, Bool.false_eq_true, ↓reduceIte, h1]
  rw [if_neg (by simp; omega), if_neg (by simp; omega), if_neg (by simp; omega), if_neg (by simp; omega),
    if_neg (by simp; omega), if_neg (by simp; omega)]
  simp [hd, hc, h]

end Risor.C20
