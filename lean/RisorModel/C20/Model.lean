import RisorModel.C20.Unicode
/-
C20 — executable model of risor's lexer (lexer/lexer.go) with its position bookkeeping,
of `GetLineText`, and of the arithmetic of `FriendlyErrorMessage` (parser/errors.go).

The Go lexer is re-expressed as a character-level machine: `stepChar st c` consumes one
rune (`0` = end of input, exactly as `Lexer.ch` is `rune(0)` there) and either goes on
(`more`), or finishes the token (`emit`), deciding whether the rune just seen belongs to the
token (`consume`) or was only looked at (`pushback`, Go's `peekChar`).  `run` drives the
machine over the remaining input and records, relative to where `Next()` was called:
the offset at which the token starts, the offset of `l.Position()` when `newToken` is
called (its end), the offset at which the next call resumes and how many runes were looked at.
Positions (line, column, lineStart) are a pure function of an offset (`posAt`).

Impl: `Next()` skips any number of block comments and then a line comment (`start true` =
block comments were already skipped in this call), and a token after block comments keeps the
token start recorded before the first of them.  This is the lexer as repaired by
`fix: skip every comment in front of a token, not only the first block comment` and
`fix: do not take the `*` of an opening `/*` for the start of the closing `*/``; the machine
before the repairs is kept at the end of the file as `preFixStepChar` / `preFixLexKL`
(HISTORICAL).
Core Lean only.
-/
namespace Risor.C20

abbrev Chars := List Nat

/-! ### tables (tied to the source by the extractor, see Ties.lean) -/

/-- `token.keywords` : identifier text ↦ token type -/
def keywords : List (String × String) := [
  ("as", "AS"), ("break", "BREAK"), ("case", "case"), ("const", "CONST"),
  ("continue", "CONTINUE"), ("default", "DEFAULT"), ("defer", "DEFER"), ("else", "ELSE"),
  ("false", "FALSE"), ("for", "FOR"), ("from", "FROM"), ("func", "FUNC"), ("go", "GO"),
  ("if", "IF"), ("import", "IMPORT"), ("in", "IN"), ("nil", "nil"), ("not", "NOT"),
  ("range", "RANGE"), ("return", "RETURN"), ("struct", "STRUCT"), ("switch", "switch"),
  ("true", "TRUE"), ("var", "VAR")]

/-- the one- and two-character operator decisions of the `switch l.ch` in `Lexer.Next`:
    (first rune, second rune or 0 for "anything else", token type), in source order -/
def opTable : List (Nat × Nat × String) := [
  (38, 38, "&&"), (38, 0, "&"),
  (124, 124, "||"), (124, 0, "|"),
  (61, 61, "=="), (61, 0, "="),
  (59, 0, ";"), (63, 0, "?"), (40, 0, "("), (41, 0, ")"), (44, 0, ","), (46, 0, "."),
  (43, 43, "++"), (43, 61, "+="), (43, 0, "+"),
  (37, 0, "%"), (123, 0, "{"), (125, 0, "}"),
  (45, 45, "--"), (45, 61, "-="), (45, 0, "-"),
  (47, 61, "/="), (47, 0, "/"),
  (42, 42, "**"), (42, 61, "*="), (42, 0, "*"),
  (60, 60, "<<"), (60, 61, "<="), (60, 45, "<-"), (60, 0, "<"),
  (62, 62, ">>"), (62, 61, ">="), (62, 0, ">"),
  (33, 61, "!="), (33, 0, "!"),
  (91, 0, "["), (93, 0, "]"),
  (58, 61, ":="), (58, 0, ":"),
  (13, 10, "EOL"), (13, 0, "EOL"),
  (10, 0, "EOL")]

/-- first runes the switch handles by other code: `~` (error), the three string readers, end of input -/
def specialFirst : List Nat := [126, 39, 34, 96, 0]

def lookup2 (c d : Nat) : Option String :=
  (opTable.find? fun e => e.1 == c && e.2.1 == d && d != 0).map (·.2.2)

def lookup1 (c : Nat) : Option String :=
  (opTable.find? fun e => e.1 == c && e.2.1 == 0).map (·.2.2)

def hasTwo (c : Nat) : Bool := opTable.any fun e => e.1 == c && e.2.1 != 0

/-! ### character classes.  `isLetter` / `isDigit` / `isIdent` are the ASCII classes; a rune
    above 127 is classified by the tables of Go's package `unicode` (Unicode.lean): `uIdent`
    (`unicode.IsLetter || unicode.IsDigit`, what `isIdentifier` accepts) and `uNumTrail`
    (`unicode.IsLetter || unicode.IsNumber`, what `readNumber` refuses after a number) -/

def isBlank (c : Nat) : Bool := c == 32 || c == 9
def isDigit (c : Nat) : Bool := 48 ≤ c && c ≤ 57
def isLetter (c : Nat) : Bool := (65 ≤ c && c ≤ 90) || (97 ≤ c && c ≤ 122)
def isIdent (c : Nat) : Bool := isLetter c || isDigit c || c == 95

/-- `isIdentifier` on a rune above 127 -/
def uIdent (c : Nat) : Bool := uLetter c || uDigit c
/-- the trailing check of `readNumber` on a rune above 127 -/
def uNumTrail (c : Nat) : Bool := uLetter c || uNumber c

def utf8 (c : Nat) : List Nat :=
  if c < 0x80 then [c]
  else if c < 0x800 then [0xC0 + c / 64, 0x80 + c % 64]
  else if c < 0x10000 then [0xE0 + c / 4096, 0x80 + c / 64 % 64, 0x80 + c % 64]
  else [0xF0 + c / 262144, 0x80 + c / 4096 % 64, 0x80 + c / 64 % 64, 0x80 + c % 64]

/-- `strings.Builder.WriteRune(rune(n))`: invalid code points become U+FFFD -/
def writeRune (n : Nat) : List Nat :=
  if (0xD800 ≤ n && n ≤ 0xDFFF) || n > 0x10FFFF then [0xEF, 0xBF, 0xBD] else utf8 n

def utf8s (cs : Chars) : List Nat := cs.flatMap utf8

def strOf (cs : Chars) : String := String.ofList (cs.map Char.ofNat)

/-- `token.LookupIdentifier`, with the `x.as` exception of `Lexer.Next` -/
def identKind (txt : Chars) (prev : String) : String :=
  let s := strOf txt
  if s == "as" && prev == "." then "IDENT"
  else match keywords.find? (fun e => e.1 == s) with
    | some e => e.2
    | none => "IDENT"

/-! ### the machine -/

inductive NumMode where
  | dec | hex | oct
  deriving DecidableEq, Repr

def accepts : NumMode → Nat → Bool
  | .dec, c => isDigit c
  | .oct, c => 48 ≤ c && c ≤ 55
  | .hex, c => isDigit c || c == 120 || (97 ≤ c && c ≤ 102) || (65 ≤ c && c ≤ 70)

inductive St where
  /-- skipping tabs and spaces before a token; `true` = block comments were already skipped
      in this call of `Next`: the token start recorded before the first of them is kept -/
  | start (afterBlock : Bool)
  | lineComment
  /-- saw `/`: a comment opener, `/=` or `/` -/
  | slash
  /-- inside `/* … `; `star` = the previous rune was a `*` of the body (the opener's own `*`
      does not count) -/
  | block (star : Bool)
  /-- saw the first rune of a possibly two-rune operator -/
  | op1 (c : Nat)
  | ident (acc : Chars)
  | num0
  | num (m : NumMode) (acc : Chars)
  | numDot (acc : Chars)
  | numFrac (acc frac : Chars)
  /-- inside a quoted string: closing quote, token type, bytes so far -/
  | str (q : Nat) (k : String) (acc : List Nat)
  | strEsc (q : Nat) (k : String) (acc : List Nat)
  /-- inside `\x`, `\u`, `\U`, `\ooo`: digits left, base, value so far, all digits count,
      `byteOff` = some o for octal (`WriteByte(o + v)`), none for `WriteRune` -/
  | strNum (q : Nat) (k : String) (acc : List Nat) (left base val total : Nat) (byteOff : Option Nat)
  | backtick (acc : Chars)
  deriving DecidableEq, Repr

inductive Mode where
  /-- the rune just seen is not part of the token: end = i-1, resume at i -/
  | pushback
  /-- the rune just seen is the token's last rune: end = i, resume at i+1 -/
  | consume
  /-- end of input met inside a block comment: `readChar` moved past it: end = i+1 -/
  | past
  deriving DecidableEq, Repr

inductive Step where
  | more (s : St) (mark : Bool)
  | emit (k : String) (lit : List Nat) (m : Mode) (fresh : Bool)
  /-- lexer error that still returns a token (string literals) -/
  | failT (k : String) (lit : List Nat) (cls : String) (m : Mode)
  /-- lexer error returning the zero token -/
  | fail (cls : String)
  deriving DecidableEq, Repr

/-- as coded after block comments: the token start recorded before the first comment is kept -/
def stripFresh : Step → Step
  | .more s _ => .more s false
  | .emit k l m _ => .emit k l m false
  | r => r

def digitVal (c : Nat) : Option Nat :=
  if isDigit c then some (c - 48)
  else if 97 ≤ c && c ≤ 102 then some (c - 87)
  else if 65 ≤ c && c ≤ 70 then some (c - 55)
  else none

/-- the dispatch of the `switch l.ch` for the first rune of a token -/
def dispatch (c : Nat) : Step :=
  if hasTwo c then .more (.op1 c) true
  else match lookup1 c with
  | some k => .emit k [c] .consume true
  | none =>
    if c == 126 then .fail "unexpected-char"
    else if c == 39 then .more (.str 39 "'" []) true
    else if c == 34 then .more (.str 34 "STRING" []) true
    else if c == 96 then .more (.backtick []) true
    else if c == 0 then .emit "EOF" [] .consume true
    else if c == 48 then .more .num0 true
    else if isDigit c then .more (.num .dec [c]) true
    else if c > 127 then
      -- `readIdentifier`: a non-ASCII letter or digit begins an identifier, any other rune is refused
      (if uIdent c then .more (.ident (utf8 c)) true else .fail "invalid-identifier")
    else if isIdent c then .more (.ident [c]) true
    else .fail "invalid-identifier"

/-- what follows the digits of a number: the trailing check and the dot -/
def numTail (m : NumMode) (acc : Chars) (c : Nat) : Step :=
  if c > 127 then
    (if uNumTrail c then .fail "invalid-decimal" else .emit "INT" acc .pushback false)
  else if isLetter c || isDigit c then .fail "invalid-decimal"
  else if c == 46 then
    (match m with
     | .dec => .more (.numDot acc) false
     | _ => .fail "invalid-decimal")
  else .emit "INT" acc .pushback false

def stepChar : St → Nat → Step
  | .start ab, c =>
    if isBlank c then .more (.start ab) false
    -- a line comment ends in `return l.Next()`: the token after it has a fresh start
    else if c == 35 then .more .lineComment true
    -- after block comments the token start is not refreshed (as coded)
    else if c == 47 then .more .slash (!ab)
    else if ab then stripFresh (dispatch c)
    else dispatch c
  | .lineComment, c =>
    if c == 10 then .emit "EOL" [10] .consume true
    else if c == 0 then .emit "EOF" [] .consume true
    else .more .lineComment false
  | .slash, c =>
    if c == 47 then .more .lineComment false
    else if c == 42 then .more (.block false) false
    else match lookup2 47 c with
      | some k => .emit k [47, c] .consume false
      | none => .emit "/" [47] .pushback false
  | .block star, c =>
    if c == 0 then .emit "EOF" [] .past false
    else if star && c == 47 then .more (.start true) false
    else .more (.block (c == 42)) false
  | .op1 a, c =>
    (match lookup2 a c with
     | some k => .emit k [a, c] .consume false
     | none => match lookup1 a with
       | some k => .emit k [a] .pushback false
       | none => .fail "unexpected-char")
  -- `acc` = the UTF-8 bytes of the identifier so far (its literal); a non-ASCII rune that is
  -- not an identifier rune right after an identifier is refused (`peekChar() > unicode.MaxASCII`)
  | .ident acc, c =>
    if c > 127 then
      (if uIdent c then .more (.ident (acc ++ utf8 c)) false else .fail "invalid-identifier")
    else if isIdent c then .more (.ident (acc ++ [c])) false
    else .emit "IDENT?" acc .pushback false
  | .num0, c =>
    if c == 120 then .more (.num .hex [48, 120]) false
    else if c == 46 then .more (.numDot [48]) false
    else if accepts .oct c then .more (.num .oct [48, c]) false
    else numTail .oct [48] c
  | .num m acc, c =>
    if accepts m c then .more (.num m (acc ++ [c])) false
    else numTail m acc c
  | .numDot acc, c =>
    if isDigit c then .more (.numFrac acc [c]) false
    else .fail "invalid-decimal"
  | .numFrac acc frac, c =>
    if isDigit c then .more (.numFrac acc (frac ++ [c])) false
    else if c > 127 then
      (if uNumTrail c then .fail "invalid-decimal" else .emit "FLOAT" (acc ++ 46 :: frac) .pushback false)
    else if isLetter c then .fail "invalid-decimal"
    else .emit "FLOAT" (acc ++ 46 :: frac) .pushback false
  | .str q k acc, c =>
    if c == 0 || c == 10 then .failT k acc "unterminated-string" .pushback
    else if c == q then .emit k acc .consume false
    else if c == 92 then .more (.strEsc q k acc) false
    else .more (.str q k (acc ++ utf8 c)) false
  | .strEsc q k acc, c =>
    if c == 97 then .more (.str q k (acc ++ [7])) false
    else if c == 98 then .more (.str q k (acc ++ [8])) false
    else if c == 102 then .more (.str q k (acc ++ [12])) false
    else if c == 110 then .more (.str q k (acc ++ [10])) false
    else if c == 114 then .more (.str q k (acc ++ [13])) false
    else if c == 116 then .more (.str q k (acc ++ [9])) false
    else if c == 118 then .more (.str q k (acc ++ [11])) false
    else if c == 92 then .more (.str q k (acc ++ [92])) false
    else if c == 101 then .more (.str q k (acc ++ [27])) false
    else if c == q then .more (.str q k (acc ++ [q])) false
    else if c == 120 then .more (.strNum q k acc 2 16 0 2 none) false
    else if c == 117 then .more (.strNum q k acc 4 16 0 4 none) false
    else if c == 85 then .more (.strNum q k acc 8 16 0 8 none) false
    else if 48 ≤ c && c ≤ 51 then .more (.strNum q k acc 2 8 0 2 (some ((c - 48) * 64))) false
    else .failT k [] "invalid-escape" .consume
  | .strNum q k acc left base val total off, c =>
    if c == 0 then .failT k [] "unterminated-escape" .consume
    else match digitVal c with
      | none => .failT k [] "illegal-escape-char" .consume
      | some d =>
        if d ≥ base then .failT k [] "illegal-escape-char" .consume
        else
          let v := val * base + d
          if left ≤ 1 then
            (match off with
             | some o => .more (.str q k (acc ++ [(o + v) % 256])) false
             | none =>
               if v > 0x7FFFFFFF then .failT k [] "escape-number" .consume
               else .more (.str q k (acc ++ writeRune v)) false)
          else .more (.strNum q k acc (left - 1) base v total off) false
  | .backtick acc, c =>
    if c == 0 then .failT "`" [] "unterminated-string" .pushback
    else if c == 96 then .emit "`" (utf8s acc) .consume false
    else .more (.backtick (acc ++ [c])) false

inductive Out where
  | tok (k : String) (lit : List Nat)
  | errT (k : String) (lit : List Nat) (cls : String)
  | err (cls : String)
  deriving DecidableEq, Repr

/-- result of one call of `Next`: offsets are relative to the rune at which the call began -/
structure Res where
  out : Out
  start : Nat
  stop : Nat
  next : Nat
  seen : Nat
  deriving DecidableEq, Repr

def finish (r : Step) (i st : Nat) : Res :=
  match r with
  | .emit k l .pushback fresh => ⟨.tok k l, if fresh then i else st, i - 1, i, i + 1⟩
  | .emit k l .consume fresh => ⟨.tok k l, if fresh then i else st, i, i + 1, i + 1⟩
  | .emit k l .past fresh => ⟨.tok k l, if fresh then i else st, i + 1, i + 1, i + 1⟩
  | .failT k l cls .pushback => ⟨.errT k l cls, st, i - 1, i, i + 1⟩
  | .failT k l cls _ => ⟨.errT k l cls, st, i, i + 1, i + 1⟩
  | .fail cls => ⟨.err cls, 0, 0, i + 1, i + 1⟩
  | .more _ _ => ⟨.err "stuck", 0, 0, i + 1, i + 1⟩

/-- drive the machine; `i` = offset of the next rune, `st` = recorded token start -/
def run : St → Chars → Nat → Nat → Res
  | s, [], i, st => finish (stepChar s 0) i st
  | s, c :: cs, i, st =>
    match stepChar s c with
    | .more s' mark => run s' cs (i + 1) (if mark then i else st)
    | r => finish r i st

/-- resolve the identifier/keyword decision, which needs the previous token type -/
def fixOut (prev : String) : Out → Out
  | .tok "IDENT?" l => .tok (identKind l prev) l
  | o => o

/-- one call of `Lexer.Next` on the remaining input (previous token type `prev`) -/
def scan (rest : Chars) (prev : String) : Res :=
  let r := run (.start false) rest 0 0
  { r with out := fixOut prev r.out }

/-! ### the token stream -/

/-- kinds and literals only.  `fuel` counts calls of `Next`. -/
def lexKL : Nat → Chars → String → List Out
  | 0, _, _ => []
  | f + 1, rest, prev =>
    let r := scan rest prev
    match r.out with
    | .tok k l => if k == "EOF" then [.tok k l] else .tok k l :: lexKL f (rest.drop r.next) k
    | o => [o]

structure PTok where
  out : Out
  start : Nat
  stop : Nat
  deriving DecidableEq, Repr

/-- the same stream with absolute offsets (`base` = offset of `rest` in the source) -/
def lexPos : Nat → Chars → Nat → String → List PTok
  | 0, _, _, _ => []
  | f + 1, rest, base, prev =>
    let r := scan rest prev
    match r.out with
    | .tok k l =>
      if k == "EOF" then [⟨.tok k l, base + r.start, base + r.stop⟩]
      else ⟨.tok k l, base + r.start, base + r.stop⟩ :: lexPos f (rest.drop r.next) (base + r.next) k
    | .errT k l c => [⟨.errT k l c, base + r.start, base + r.stop⟩]
    | .err c => [⟨.err c, 0, 0⟩]

/-- the whole source: every call of `Next` consumes at least one rune, so `length + 2` calls suffice -/
def lexAll (src : Chars) : List PTok := lexPos (src.length + 2) src 0 ""

/-! ### guards used by the theorems (decidable) -/

/-- does a block comment whose previous rune was (`star`) / was not a `*` close inside `body` -/
def closesIn : Bool → Chars → Bool
  | _, [] => false
  | star, c :: cs => (star && c == 47) || closesIn (c == 42) cs

/-- a block comment body in the usual sense: no `*/` inside (and no NUL) -/
def properBody (body : Chars) : Bool := !closesIn false body && !body.contains 0

/-- a run of block comments, each followed by blanks: `/*b₁*/ws₁/*b₂*/ws₂…` (the items are
    (body, blanks after the comment)) -/
def commentRun : List (Chars × Chars) → Chars
  | [] => []
  | (body, ws) :: r => [47, 42] ++ body ++ [42, 47] ++ (ws ++ commentRun r)

/-- every body is a proper comment body, every separator is made of spaces and tabs -/
def commentRunOk (cs : List (Chars × Chars)) : Bool :=
  cs.all fun p => properBody p.1 && p.2.all isBlank

/-- `cutsAt fuel pre b prev`: lexing `pre` followed by the blank `b` reaches a token boundary
    exactly at the end of `pre` (or inside its trailing blanks), every token before it having
    looked no further than `b`.  Decidable guard of `lex_space_invariant`: it says that the
    position after `pre` is a token gap (and not, say, the inside of a string or comment). -/
def cutsAt : Nat → Chars → Nat → String → Bool
  | 0, _, _, _ => false
  | f + 1, pre, b, prev =>
    if pre.all isBlank then true
    else
      let r := scan (pre ++ [b]) prev
      match r.out with
      | .tok k _ => k != "EOF" && decide (r.next ≤ pre.length) && decide (r.seen ≤ pre.length + 1)
                      && cutsAt f (pre.drop r.next) b k
      | _ => false

/-- `cutsAt2 fuel pre d₁ d₂ prev`: the end of `pre` is a token gap whether the text goes on with
    the rune `d₁` or with the rune `d₂` — lexing `pre ++ [d₁]` and `pre ++ [d₂]`, every token
    that begins inside `pre` also ends inside it, looked no further than the one rune after
    `pre`, and is the same token in both readings.  Decidable guard of `lex_gap_congr` (e.g.
    `d₁ = #` and `d₂ = newline`: a line comment set directly after the last token of a line). -/
def cutsAt2 : Nat → Chars → Nat → Nat → String → Bool
  | 0, _, _, _, _ => false
  | f + 1, pre, d₁, d₂, prev =>
    if pre.all isBlank then true
    else
      let r₁ := scan (pre ++ [d₁]) prev
      let r₂ := scan (pre ++ [d₂]) prev
      match r₁.out with
      | .tok k _ => k != "EOF" && decide (r₁.next ≤ pre.length) && decide (r₁.seen ≤ pre.length + 1)
                      && decide (r₂.seen ≤ pre.length + 1) && r₂.out == r₁.out && r₂.next == r₁.next
                      && cutsAt2 f (pre.drop r₁.next) d₁ d₂ k
      | _ => false

/-- what `isIdentifier` accepts: an ASCII letter, digit or `_`, or a non-ASCII rune that
    `unicode.IsLetter` or `unicode.IsDigit` accepts -/
def identRune (c : Nat) : Bool := if c > 127 then uIdent c else isIdent c

/-! ### positions -/

structure Pos where
  char : Nat
  line : Nat
  col : Nat
  lineStart : Nat
  deriving DecidableEq, Repr

/-- `readChar`'s bookkeeping as a fold: position after consuming the runes `cs` from `p` -/
def advance (p : Pos) : Chars → Pos
  | [] => p
  | c :: cs =>
    if c == 10 then advance ⟨p.char + 1, p.line + 1, 0, p.char + 1⟩ cs
    else advance ⟨p.char + 1, p.line, p.col + 1, p.lineStart⟩ cs

/-- a position moved `n` runes to the right by text inserted on an EARLIER line: the offset and
    the offset of the line start grow by `n`, line and column stay -/
def Pos.shift (n : Nat) (p : Pos) : Pos := ⟨p.char + n, p.line, p.col, p.lineStart + n⟩

/-- `Lexer.Position()` when `l.position = off` (off ≤ length + 1; the step past the end only
    advances the column) -/
def posAt (src : Chars) (off : Nat) : Pos :=
  let p := advance ⟨0, 0, 0, 0⟩ (src.take off)
  if off > src.length then ⟨off, p.line, p.col + (off - src.length), p.lineStart⟩ else p

/-- walk back to the rune after the previous newline -/
def lineBegin (src : Chars) (start : Nat) : Nat :=
  match start with
  | 0 => 0
  | s + 1 => if src.getD s 0 == 10 then s + 1 else lineBegin src s

/-- `Lexer.GetLineText` for a token starting at `off` (`eof` = its type is EOF) -/
def getLineText (src : Chars) (off : Nat) (eof : Bool) : Chars :=
  if src.isEmpty then []
  else
    let o := if eof then off - 1 else off
    let b := lineBegin src o
    let e := o + ((src.drop o).takeWhile (· != 10)).length
    (src.drop b).take (e - b)

/-- lines of the text: split on newline (10) -/
def splitLines : Chars → List Chars
  | [] => [[]]
  | c :: cs =>
    if c == 10 then [] :: splitLines cs
    else match splitLines cs with
      | [] => [[c]]
      | h :: t => (c :: h) :: t

/-! ### the error renderer (parser/errors.go FriendlyErrorMessage): its two `strings.Repeat`
    counts, as integers.  `Repeat` panics on a negative count.

    Repaired by `fix: keep the caret line of a parse error inside the quoted line`: the caret
    count is taken from the two columns only when the span ends on the line it starts on,
    otherwise it runs from the start column to the end of the quoted line; it is never below 1
    and the padding never below 0.  The pre-fix counts are kept as `preFix…` (historical). -/

/-- HISTORICAL: the padding count before the repair, `colStart - 1` -/
def preFixPadCount (startCol : Nat) : Int := (startCol + 1 : Int) - 1
/-- HISTORICAL: the caret count before the repair, `colEnd - colStart + 1` from the columns of
    two positions that may lie on different lines -/
def preFixCaretCount (startCol endCol : Nat) : Int := (endCol + 1 : Int) - (startCol + 1) + 1

/-- HISTORICAL: did the pre-fix `FriendlyErrorMessage` return (true) or panic (false) -/
def preFixRenderOk (startCol endCol : Nat) : Bool :=
  decide (0 ≤ preFixPadCount startCol) && decide (0 ≤ preFixCaretCount startCol endCol)

/-- `padLen`: `colStart - 1`, not below 0 -/
def padCount (startCol : Nat) : Int :=
  if (startCol + 1 : Int) - 1 < 0 then 0 else (startCol + 1 : Int) - 1

/-- `caretLen`: `colEnd - colStart + 1` if `end.Line == start.Line`, else
    `utf8.RuneCountInString(sourceCode) - padLen`; not below 1 -/
def caretCount (startLine startCol endLine endCol lineLen : Nat) : Int :=
  let n : Int := if endLine ≠ startLine then (lineLen : Int) - padCount startCol
                 else (endCol + 1 : Int) - (startCol + 1) + 1
  if n < 1 then 1 else n

/-- does `FriendlyErrorMessage` return (true) or panic (false): both `strings.Repeat` counts
    are non-negative.  `lineLen` = runes of the quoted line. -/
def renderOk (startLine startCol endLine endCol lineLen : Nat) : Bool :=
  decide (0 ≤ padCount startCol) && decide (0 ≤ caretCount startLine startCol endLine endCol lineLen)

/-! ### Spec: what the property demands of a diagnostic -/

/-- the reported (line, col) exists in the text and `quoted` is that line verbatim -/
def diagOk (src : Chars) (line col : Nat) (quoted : Chars) : Bool :=
  match (splitLines src)[line]? with
  | some l => col ≤ l.length && quoted == l
  | none => false

/-- the span lies on one line: the decidable guard `render_total_partial` carried before the
    repair (now: where the repaired and the pre-fix counts coincide, `render_single_line_unchanged`) -/
def singleLineSpan (src : Chars) (s e : Nat) : Bool :=
  s ≤ e && (posAt src s).line == (posAt src e).line

/-! ### HISTORICAL: the lexer before the repair of its two block-comment defects

    (`C20-adjacent-comments`, `C20-block-comment-body-starting-with-slash`; both fixed.)
    Before the repairs `Lexer.Next` skipped at most ONE block comment per call and then no
    longer looked for comments, and `skipMultiLineComment` began to look for `*/` at the
    opener's own `*`.  The machine below differs from `stepChar` in exactly these two places;
    it is kept so that the defects stay documented by checked statements
    (`C20_fixed_adjacent_comments_were_tokens`, `C20_fixed_slash_body_closed_early` in
    Props.lean).  Nothing else uses it. -/

/-- HISTORICAL: `stepChar` before the repairs -/
def preFixStepChar : St → Nat → Step
  | .start ab, c =>
    if isBlank c then .more (.start ab) false
    else if ab then
      -- pre-fix: after one block comment no comment detection any more
      stripFresh (dispatch c)
    else if c == 35 then .more .lineComment true
    else if c == 47 then .more .slash true
    else dispatch c
  | .slash, c =>
    if c == 47 then .more .lineComment false
    -- pre-fix: the opener's own `*` counts as the star of a closing `*/`
    else if c == 42 then .more (.block true) false
    else match lookup2 47 c with
      | some k => .emit k [47, c] .consume false
      | none => .emit "/" [47] .pushback false
  | s, c => stepChar s c

/-- HISTORICAL: `run` over `preFixStepChar` -/
def preFixRun : St → Chars → Nat → Nat → Res
  | s, [], i, st => finish (preFixStepChar s 0) i st
  | s, c :: cs, i, st =>
    match preFixStepChar s c with
    | .more s' mark => preFixRun s' cs (i + 1) (if mark then i else st)
    | r => finish r i st

/-- HISTORICAL: one call of the pre-fix `Lexer.Next` -/
def preFixScan (rest : Chars) (prev : String) : Res :=
  let r := preFixRun (.start false) rest 0 0
  { r with out := fixOut prev r.out }

/-- HISTORICAL: the pre-fix token stream (kinds and literals) -/
def preFixLexKL : Nat → Chars → String → List Out
  | 0, _, _ => []
  | f + 1, rest, prev =>
    let r := preFixScan rest prev
    match r.out with
    | .tok k l => if k == "EOF" then [.tok k l] else .tok k l :: preFixLexKL f (rest.drop r.next) k
    | o => [o]

/-- HISTORICAL: what the pre-fix lexer needed of a comment body: additionally it must not begin
    with `/`, because the opener's own `*` was taken for the star of a closing `*/` (the guard
    `lex_block_comment_invariant_partial` carried) -/
def okBody (body : Chars) : Bool := !closesIn true body && !body.contains 0

/-- HISTORICAL: `slashBody body`, the guard of the repaired defect
    `C20-block-comment-body-starting-with-slash` -/
def slashBody (body : Chars) : Bool := body.head? == some 47

/-- HISTORICAL: after optional blanks the text goes on with another comment (`#`, `//` or `/*`):
    the guard of the repaired defect `C20-adjacent-comments` -/
def commentFollows : Chars → Bool
  | [] => false
  | c :: cs =>
    if isBlank c then commentFollows cs
    else c == 35 || (c == 47 && (cs.head? == some 47 || cs.head? == some 42))

/-! ### several lexers in one process

    `lexer.New(input)` makes its OWN copy of the input (`[]rune(input)`); a program text with a
    template string `'…{expr}…'` makes the parser create one more lexer (and parser) per
    interpolated fragment while the outer parser is still at work, and a host may hold any number
    of lexers at once.  The world below is the list of the live lexers; `GetLineText` of lexer `i`
    reads lexer `i`'s copy. -/

/-- a lexer as far as quoting a line is concerned: its copy of the input, and whether `Next`
    has already produced the EOF token -/
structure LexObj where
  chars : Chars
  atEOF : Bool
  deriving DecidableEq, Repr

/-- the lexers created so far, in creation order -/
abbrev World := List LexObj

/-- what can happen to a world: `lexer.New(input)`; reading lexer `i` to its EOF token; calling
    `GetLineText` on lexer `i` (reads only) -/
inductive WOp where
  | new (input : Chars)
  | drain (i : Nat)
  | quote (i off : Nat) (eof : Bool)
  deriving DecidableEq, Repr

/-- mark lexer `i` as read to the end -/
def markEOF : Nat → World → World
  | _, [] => []
  | 0, l :: ls => { l with atEOF := true } :: ls
  | i + 1, l :: ls => l :: markEOF i ls

/-- one operation on the world -/
def World.step (w : World) : WOp → World
  | .new input => w ++ [⟨input, false⟩]
  | .drain i => markEOF i w
  | .quote _ _ _ => w

/-- the inputs the lexers were created with / hold -/
def World.inputs (w : World) : List Chars := w.map (·.chars)

/-- `GetLineText` of lexer `i` for a token starting at `off` (`[]` when there is no lexer `i`) -/
def World.quote (w : World) (i off : Nat) (eof : Bool) : Chars :=
  match w.inputs[i]? with
  | some src => getLineText src off eof
  | none => []

/-- the operations a program text `outer` whose parse creates lexers for the template fragments
    `frags` performs before an error of the OUTER parser is built: the outer lexer is created and
    (because of the one-token lookahead) read to its EOF token, then one lexer per fragment is
    created and read to the end -/
def templateOps (outer : Chars) (frags : List Chars) : List WOp :=
  [.new outer, .drain 0] ++ (frags.zipIdx.flatMap fun (f, k) => [.new f, .drain (k + 1)])

/-- Spec of a quoted line in a world: it is the line of lexer `i`'s OWN input that the token's
    offset lies on, verbatim (for a non-EOF token; `quoted_line_verbatim`) -/
def worldQuoteOk (input : Chars) (off : Nat) (quoted : Chars) : Bool :=
  match (splitLines input)[(posAt input off).line]? with
  | some l => quoted == l
  | none => false

end Risor.C20
