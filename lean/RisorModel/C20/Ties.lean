import RisorModel.C20.Model
import RisorModel.Generated.C20
/-!
C20 ties: the tables regenerated from `token/token.go` and `lexer/lexer.go` by the extractor on
this run equal the tables the lexer model (and hence every theorem of `Props.lean`) is built on.
-/
namespace Risor.C20

/-- `token.keywords` -/
theorem keywords_tie : Risor.Generated.C20.keywords = keywords := by decide

/-- the one- and two-character operator decisions of `switch l.ch` in `Lexer.Next` -/
theorem opTable_tie : Risor.Generated.C20.opTable = opTable := by decide

/-- the first runes that switch handles by other code -/
theorem specialFirst_tie : Risor.Generated.C20.specialFirst = specialFirst := by decide

/-- `isTabOrSpace` -/
theorem isBlank_tie (c : Nat) : isBlank c = Risor.Generated.C20.blankChars.contains c := by
  simp only [isBlank, Risor.Generated.C20.blankChars, List.contains, List.elem]
  cases c == 32 <;> cases c == 9 <;> rfl

/-- `isDigit`: the regenerated bounds are the ones the model's `isDigit` uses -/
theorem isDigit_tie (c : Nat) :
    isDigit c = true ↔ Risor.Generated.C20.digitBounds.1 ≤ c ∧ c ≤ Risor.Generated.C20.digitBounds.2 := by
  show isDigit c = true ↔ 48 ≤ c ∧ c ≤ 57
  simp [isDigit]

/-! ### non-ASCII runes and the read position -/

/-- the predicates of package `unicode` that `lexer.isIdentifier` calls: the model's `uIdent` is
    `uLetter || uDigit` -/
theorem identClasses_tie : Risor.Generated.C20.identClasses = ["IsLetter", "IsDigit"] := by decide

/-- the predicates `lexer.readNumber` calls on the rune after a number: the model's `uNumTrail`
    is `uLetter || uNumber` -/
theorem numberTrailClasses_tie : Risor.Generated.C20.numberTrailClasses = ["IsLetter", "IsNumber"] := by decide

/-- `lexer.readIdentifier` compares the rune after an identifier with `unicode.MaxASCII` (127):
    the `c > 127` branch of the model's `.ident` state -/
theorem identEndNames_tie : Risor.Generated.C20.identEndNames = ["MaxASCII"] := by decide

/-- the tables behind `unicode.IsLetter` / `IsDigit` / `IsNumber` of the Go toolchain risor is
    compiled with are the tables of Unicode.lean -/
theorem letterRanges_tie : Risor.Generated.C20.letterRanges = letterRanges := by decide +kernel
theorem digitRanges_tie : Risor.Generated.C20.digitRanges = digitRanges := by decide +kernel
theorem numberRanges_tie : Risor.Generated.C20.numberRanges = numberRanges := by decide +kernel

/-- **`readChar` alone moves the lexer.**  It is the only method of `Lexer` that assigns
    `position`, `nextPosition`, `column`, `line`, `lineStart` or `ch`: the read position advances
    one RUNE at a time and the line/column bookkeeping sees every rune — what makes a token's
    position a function of its rune offset (`posAt`) and `run`'s offsets list positions.  A
    helper that jumps (by a distance measured in bytes, say) breaks this tie. -/
theorem posWriters_tie : Risor.Generated.C20.posWriters = ["readChar"] := by decide

/-- the lexer holds its input as a rune slice and in no other form (no string or byte view whose
    indices could be mixed up with rune offsets) -/
theorem lexerFields_tie : Risor.Generated.C20.lexerFields =
    ["ch:rune", "characters:[]rune", "column:int", "file:string", "line:int", "lineStart:int",
     "nextPosition:int", "position:int", "prevToken:token.Token", "tokenStartPosition:token.Position"] := by decide

end Risor.C20
