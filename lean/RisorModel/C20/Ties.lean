import RisorModel.C20.Model
import RisorModel.Generated.C20
/-!
C20 ties: the tables regenerated from `token/token.go` and `lexer/lexer.go` by the extractor on
this run equal the tables the lexer model (and hence every theorem of `Props.lean`) is built on.
-/
namespace Risor.C20

/-- `token.keywords` -/
theorem keywords_tie : Risor.Generated.C20.keywords = keywords := by decide

/-- the one- and two-character operator decisions of `switch l.ch` in `Lexer.Next` -/
theorem opTable_tie : Risor.Generated.C20.opTable = opTable := by decide

/-- the first runes that switch handles by other code -/
theorem specialFirst_tie : Risor.Generated.C20.specialFirst = specialFirst := by decide

/-- `isTabOrSpace` -/
theorem isBlank_tie (c : Nat) : isBlank c = Risor.Generated.C20.blankChars.contains c := by
  simp only [isBlank, Risor.Generated.C20.blankChars, List.contains, List.elem]
  cases c == 32 <;> cases c == 9 <;> rfl

/-- `isDigit`: the regenerated bounds are the ones the model's `isDigit` uses -/
theorem isDigit_tie (c : Nat) :
    isDigit c = true ↔ Risor.Generated.C20.digitBounds.1 ≤ c ∧ c ≤ Risor.Generated.C20.digitBounds.2 := by
  show isDigit c = true ↔ 48 ≤ c ∧ c ≤ 57
  simp [isDigit]

end Risor.C20
