import RisorModel.C20.Lemmas
/-!
C20 — property theorems.  Layout and comments never change meaning; diagnostics point into
the source.

Everything is stated over the lexer model of `Model.lean` (`scan` = one call of `Lexer.Next`,
`lexKL fuel rest prev` = the stream of token kinds and literals produced from the remaining
input `rest` when the previous token had type `prev`; `fuel` counts calls of `Next` and every
theorem holds for every fuel).  All theorems quantify over ALL rune lists — valid programs,
invalid ones, any length.  A "token gap" is a point of the text at which the lexer stands
between two calls of `Next`.

The parser-level part of the property for expressions (a line break after a binary operator,
after the `.` of a method call, after the opening bracket / after `,` / before the closing
bracket of call arguments and list literals leaves the syntax tree unchanged) is proved in
ParseNewlineProps.lean (`parse_newline_invariant`) over C01's Pratt parser model.  Line breaks
in map/set literals and after `|`, blank lines and trailing comments between statements are
checked by the correspondence harness on the real parser only.
-/
namespace Risor.C20

/-! ## 1. spaces and tabs -/

/-- **Blanks in front of a token are ignored, at every lexer state.**  For every remaining
    input `rest`, every previous token type and every run `ws` of spaces/tabs, the token
    stream (kinds and literals) read from `ws ++ rest` is the one read from `rest`. -/
theorem lex_blanks_ignored (f : Nat) (ws rest : Chars) (prev : String) (h : allBlank ws) :
    lexKL f (ws ++ rest) prev = lexKL f rest prev := by
  cases f with
  | zero => rfl
  | succ f =>
    have hs := scan_blanks ws rest prev h
    apply lexKL_congr f _ _ prev hs.1
    rw [hs.2, drop_add_append]

/-- **Locality of one call of `Next`.**  The call looks at `seen` runes; whatever follows them
    is irrelevant: if on `a ++ x` it looked no further than `a`, then on `a ++ y` it returns
    the same token, the same offsets and resumes at the same place. -/
theorem scan_local (a x y : Chars) (prev : String) (h : (scan (a ++ x) prev).seen ≤ a.length) :
    scan (a ++ y) prev = scan (a ++ x) prev := by
  have hl := run_local a (.start false) 0 0 x y (by rw [scan_seen] at h; omega)
  unfold scan
  rw [hl]

/-- **Any two fillings of a token gap with spaces/tabs give the same tokens** (kinds and
    literals), for every text `pre … rest` around the gap.  `pre ++ [b]` is the text up to and
    including the gap's first blank `b`; `cutsAt f pre b prev = true` is the decidable statement
    that the end of `pre` really is a token gap (not the inside of a string or comment): the
    lexer, reading `pre` followed by `b`, arrives between two tokens there.  `ws₁`, `ws₂` are
    any further blanks. -/
theorem lex_space_invariant : ∀ (f : Nat) (pre : Chars) (b : Nat) (ws₁ ws₂ rest : Chars) (prev : String),
    isBlank b = true → allBlank ws₁ → allBlank ws₂ → cutsAt f pre b prev = true →
    lexKL f (pre ++ b :: (ws₁ ++ rest)) prev = lexKL f (pre ++ b :: (ws₂ ++ rest)) prev
  | 0, _, _, _, _, _, _, _, _, _, _ => rfl
  | f + 1, pre, b, ws₁, ws₂, rest, prev, hb, h1, h2, hc => by
    unfold cutsAt at hc
    by_cases hall : pre.all isBlank = true
    · -- the lexer already stands in the gap: everything up to `rest` is blank
      have hp : allBlank pre := fun c hc' => (List.all_eq_true.1 hall) c hc'
      have e1 : pre ++ b :: (ws₁ ++ rest) = (pre ++ b :: ws₁) ++ rest := by simp
      have e2 : pre ++ b :: (ws₂ ++ rest) = (pre ++ b :: ws₂) ++ rest := by simp
      have a1 : allBlank (pre ++ b :: ws₁) := by
        intro c hc'
        simp only [List.mem_append, List.mem_cons] at hc'
        rcases hc' with h | h | h
        · exact hp c h
        · exact h ▸ hb
        · exact h1 c h
      have a2 : allBlank (pre ++ b :: ws₂) := by
        intro c hc'
        simp only [List.mem_append, List.mem_cons] at hc'
        rcases hc' with h | h | h
        · exact hp c h
        · exact h ▸ hb
        · exact h2 c h
      rw [e1, e2, lex_blanks_ignored _ _ _ _ a1, lex_blanks_ignored _ _ _ _ a2]
    · simp only [hall, Bool.false_eq_true, ↓reduceIte] at hc
      -- the next token lies inside `pre` and looked no further than `b`
      have loc : ∀ X : Chars, (scan ((pre ++ [b]) ++ []) prev).seen ≤ (pre ++ [b]).length →
          scan (pre ++ b :: X) prev = scan (pre ++ [b]) prev := by
        intro X hseen
        have := scan_local (pre ++ [b]) [] X prev hseen
        simpa using this
      cases hout : (scan (pre ++ [b]) prev).out with
      | tok k l =>
        simp only [hout, Bool.and_eq_true, decide_eq_true_eq] at hc
        obtain ⟨⟨⟨hk, hn⟩, hseen⟩, hrec⟩ := hc
        have hseen' : (scan ((pre ++ [b]) ++ []) prev).seen ≤ (pre ++ [b]).length := by
          simpa using hseen
        have l1 := loc (ws₁ ++ rest) hseen'
        have l2 := loc (ws₂ ++ rest) hseen'
        rw [lexKL_succ, lexKL_succ, l1, l2, hout]
        have hk' : (k == "EOF") = false := by simpa using hk
        simp only [hk', Bool.false_eq_true, ↓reduceIte]
        rw [List.drop_append_of_le_length hn, List.drop_append_of_le_length hn]
        rw [lex_space_invariant f (pre.drop (scan (pre ++ [b]) prev).next) b ws₁ ws₂ rest k hb h1 h2 hrec]
      | errT k l c => simp [hout] at hc
      | err c => simp [hout] at hc

/-- non-vacuity: the gap after `x :=` in `x := 1` is a token gap, and the theorem applies -/
example : cutsAt 5 [120, 32, 58, 61] 32 "" = true := by decide
example : lexKL 9 ([120, 32, 58, 61] ++ 32 :: ([9, 32, 9] ++ [49])) "" = lexKL 9 ([120, 32, 58, 61] ++ 32 :: ([] ++ [49])) "" :=
  lex_space_invariant 9 _ 32 _ _ _ "" (by decide) (by decide) (by decide) (by decide)
/-- the guard is needed: the end of `"a` (inside a string) is not a token gap -/
example : cutsAt 5 [34, 97] 32 "" = false := by decide

/-! ## 2. comments -/

/-- **A block comment is invisible** (`lex_block_comment_invariant`; the full statement — until
    the repairs `fix: skip every comment in front of a token, not only the first block comment`
    and `fix: do not take the `*` of an opening `/*` for the start of the closing `*/`` it was
    `def C20_full_block_comment : Prop` with two counterexamples, and
    `lex_block_comment_invariant_partial` carried the guards `okBody` / `commentFollows`).  For
    every lexer state, EVERY comment body without `*/` (and without NUL; it may begin with `/`,
    contain `/*`, `//`, `#`, quotes, newlines) and EVERY text after the comment (another
    comment included): the token stream of `/*body*/rest` is that of `rest`. -/
theorem lex_block_comment_invariant (f : Nat) (body rest : Chars) (prev : String)
    (hb : properBody body = true) :
    lexKL f ([47, 42] ++ body ++ [42, 47] ++ rest) prev = lexKL f rest prev := by
  cases f with
  | zero => rfl
  | succ f =>
    simp only [properBody, Bool.and_eq_true, Bool.not_eq_true'] at hb
    have h0 : ∀ c ∈ body, c ≠ 0 := by
      intro c hc' e
      have : body.contains 0 = true := by simp [← e, hc']
      rw [this] at hb
      exact absurd hb.2 (by simp)
    -- drive the machine through the comment
    have hrun : ∀ i st, run (.start false) ([47, 42] ++ body ++ [42, 47] ++ rest) i st =
        run (.start true) rest (i + (body.length + 4)) i := by
      intro i st
      have e : [47, 42] ++ body ++ [42, 47] ++ rest = 47 :: 42 :: (body ++ (42 :: 47 :: rest)) := by simp
      rw [e, run_cons_more _ i st (by decide : stepChar (.start false) 47 = .more .slash true)]
      simp only [↓reduceIte]
      rw [run_cons_more _ (i + 1) i (by decide : stepChar .slash 42 = .more (.block false) false)]
      simp only [Bool.false_eq_true, ↓reduceIte]
      obtain ⟨s', hs'⟩ := run_block_body body false (42 :: 47 :: rest) (i + 1 + 1) i hb.1 h0
      rw [hs']
      have st1 : stepChar (.block s') 42 = .more (.block true) false := by
        cases s' <;> decide
      rw [run_cons_more _ _ i st1]
      simp only [Bool.false_eq_true, ↓reduceIte]
      rw [run_cons_more _ _ i (by decide : stepChar (.block true) 47 = .more (.start true) false)]
      simp only [Bool.false_eq_true, ↓reduceIte]
      congr 1
      omega
    have hst := start_true_eq rest (0 + (body.length + 4)) 0
    apply lexKL_congr f _ _ prev
    · rw [scan_out, scan_out, hrun, hst.1]
    · rw [scan_next, scan_next, hrun, hst.2]
      have e : [47, 42] ++ body ++ [42, 47] ++ rest = ([47, 42] ++ body ++ [42, 47]) ++ rest := by simp
      have hl : ([47, 42] ++ body ++ [42, 47]).length = 0 + (body.length + 4) := by simp
      rw [e, ← hl, drop_add_append]

/-- the full statement, as it was named while it was false -/
theorem C20_full_block_comment :
    ∀ (f : Nat) (body rest : Chars) (prev : String), properBody body = true →
      lexKL f ([47, 42] ++ body ++ [42, 47] ++ rest) prev = lexKL f rest prev :=
  lex_block_comment_invariant

/-- **Any NUMBER of block comments in a gap is invisible.**  For every lexer state and every
    list of comments (each a proper body, each followed by any run of spaces/tabs, none
    included): the token stream of `/*b₁*/ws₁/*b₂*/ws₂…/*bₙ*/wsₙ rest` is that of `rest`. -/
theorem lex_comment_run_invariant (f : Nat) : ∀ (cs : List (Chars × Chars)) (rest : Chars) (prev : String),
    commentRunOk cs = true → lexKL f (commentRun cs ++ rest) prev = lexKL f rest prev
  | [], rest, prev, _ => rfl
  | (body, ws) :: cs, rest, prev, h => by
    simp only [commentRunOk, List.all_cons, Bool.and_eq_true] at h
    obtain ⟨⟨hb, hw⟩, hr⟩ := h
    have hws : allBlank ws := fun c hc => (List.all_eq_true.1 hw) c hc
    have e : commentRun ((body, ws) :: cs) ++ rest
        = [47, 42] ++ body ++ [42, 47] ++ (ws ++ (commentRun cs ++ rest)) := by
      simp [commentRun]
    rw [e, lex_block_comment_invariant f body _ prev hb, lex_blanks_ignored f ws _ prev hws]
    exact lex_comment_run_invariant f cs rest prev hr

/-- non-vacuity, and the two texts of the repaired findings: `/* a */ /* b */ + 2` and
    `/*/ a */ + 2` (after the token `1`) now lex as ` + 2` -/
example : properBody [32, 97, 32] = true ∧ properBody [47, 32, 97, 32] = true := by decide
example : lexKL 12 ([47, 42] ++ [32, 97, 32] ++ [42, 47] ++ [32, 47, 42, 32, 98, 32, 42, 47, 32, 43, 32, 50]) "INT"
    = lexKL 12 [32, 43, 32, 50] "INT" := by decide
example : lexKL 12 ([47, 42] ++ [47, 32, 97, 32] ++ [42, 47] ++ [32, 43, 32, 50]) "INT"
    = lexKL 12 [32, 43, 32, 50] "INT" := by decide
example : commentRunOk [([32, 97, 32], [32]), ([47], []), ([42, 42], [9, 32])] = true := by decide

/-! ### Historical: the two block-comment defects of the lexer before the repairs -/

/-- the full statement about the PRE-FIX lexer (false): a block comment in front of a token
    changes nothing -/
def C20_preFix_full_block_comment : Prop :=
  ∀ (f : Nat) (body rest : Chars) (prev : String), properBody body = true →
    preFixLexKL f ([47, 42] ++ body ++ [42, 47] ++ rest) prev = preFixLexKL f rest prev

/-- HISTORICAL (finding `C20-adjacent-comments`, repaired; was
    `C20_counterexample_adjacent_comments`).  `1 /* a */ /* b */ + 2`: after `1`, the pre-fix
    lexer read `/* a */ /* b */ + 2` as `/ * b * / + 2` instead of `+ 2` (two ADJACENT block
    comments; as found in the design phase). -/
theorem C20_fixed_adjacent_comments_were_tokens : ¬ C20_preFix_full_block_comment := by
  intro h
  have := h 12 [32, 97, 32] [32, 47, 42, 32, 98, 32, 42, 47, 32, 43, 32, 50] "INT" (by decide)
  revert this
  decide

/-- HISTORICAL (finding `C20-block-comment-body-starting-with-slash`, repaired; was
    `C20_counterexample_slash_body`).  `1 /*/ a */ + 2`: a comment body that begins with `/` —
    the pre-fix lexer took `/*/` for a complete comment. -/
theorem C20_fixed_slash_body_closed_early : ¬ C20_preFix_full_block_comment := by
  intro h
  have := h 12 [47, 32, 97, 32] [32, 43, 32, 50] "INT" (by decide)
  revert this
  decide

/-- HISTORICAL: the guards the partial theorem carried name exactly these two inputs: the
    first counterexample's text goes on with a comment, the second's body begins with `/` (and is
    therefore not `okBody`), while both bodies are proper -/
example : commentFollows [32, 47, 42, 32, 98, 32, 42, 47, 32, 43, 32, 50] = true ∧
    slashBody [47, 32, 97, 32] = true ∧ okBody [47, 32, 97, 32] = false ∧ okBody [32, 97, 32] = true := by
  decide

/-- HISTORICAL: outside the two guards the repairs change nothing, on witness texts — the whole
    result of one call of `Next` (token, recorded start — the comment's —, end, resume offset,
    runes looked at) is the pre-fix one: `/* a */ + 2`; `/* a⏎ */ )` (a two-line comment);
    `/* a */ / 2` (a division after the comment); `/* a` and `/*` (unterminated: the EOF token
    ends one past the end of the text); `/**/x`.  On every run the harness compares the
    repaired machine with the repaired lexer on all these shapes, positions included. -/
example : preFixLexKL 12 ([47, 42] ++ [32, 97, 32] ++ [42, 47] ++ [32, 43, 32, 50]) "INT"
    = lexKL 12 ([47, 42] ++ [32, 97, 32] ++ [42, 47] ++ [32, 43, 32, 50]) "INT" := by decide
example : preFixScan [47, 42, 32, 97, 32, 42, 47, 32, 43, 32, 50] "INT" = scan [47, 42, 32, 97, 32, 42, 47, 32, 43, 32, 50] "INT"
    ∧ scan [47, 42, 32, 97, 32, 42, 47, 32, 43, 32, 50] "INT" = ⟨.tok "+" [43], 0, 8, 9, 10⟩ := by decide
example : preFixScan [47, 42, 32, 97, 10, 32, 42, 47, 32, 41] "" = scan [47, 42, 32, 97, 10, 32, 42, 47, 32, 41] "" := by decide
example : preFixScan [47, 42, 32, 97, 32, 42, 47, 32, 47, 32, 50] "INT" = scan [47, 42, 32, 97, 32, 42, 47, 32, 47, 32, 50] "INT"
    ∧ (scan [47, 42, 32, 97, 32, 42, 47, 32, 47, 32, 50] "INT").out = .tok "/" [47] := by decide
example : preFixScan [47, 42, 32, 97] "" = scan [47, 42, 32, 97] "" ∧ scan [47, 42, 32, 97] "" = ⟨.tok "EOF" [], 0, 5, 5, 5⟩ := by decide
example : preFixScan [47, 42] "" = scan [47, 42] "" ∧ preFixScan [47, 42, 42, 47, 120] "" = scan [47, 42, 42, 47, 120] "" := by decide
/-- … and where they differ: `/*/` at the end of the text was a complete comment, it now is an
    unterminated one (as `/* a` always was) -/
example : preFixScan [47, 42, 47] "" = ⟨.tok "EOF" [], 0, 3, 4, 4⟩ ∧ scan [47, 42, 47] "" = ⟨.tok "EOF" [], 0, 4, 4, 4⟩ := by decide

/-- **A line comment up to the end of its line is invisible** (`//…` and `#…`), at every lexer
    state: the stream is that of the newline and what follows it.  (After block comments in
    the same gap: `lex_comments_then_line_comment`.) -/
theorem lex_line_comment_invariant (f : Nat) (body rest : Chars) (prev : String)
    (hb : ∀ c ∈ body, c ≠ 10 ∧ c ≠ 0) :
    lexKL f ([47, 47] ++ body ++ 10 :: rest) prev = lexKL f (10 :: rest) prev ∧
    lexKL f (35 :: body ++ 10 :: rest) prev = lexKL f (10 :: rest) prev := by
  cases f with
  | zero => exact ⟨rfl, rfl⟩
  | succ f =>
    have hnl : ∀ i st, run .lineComment (body ++ 10 :: rest) i st =
        finish (.emit "EOL" [10] .consume true) (i + body.length) st := by
      intro i st
      rw [run_line_body body (10 :: rest) i st hb]
      simp only [run, show stepChar .lineComment 10 = .emit "EOL" [10] .consume true by decide]
    have hR : run (.start false) (10 :: rest) 0 0 = finish (.emit "EOL" [10] .consume true) 0 0 := by
      simp only [run, show stepChar (.start false) 10 = .emit "EOL" [10] .consume true by decide]
    constructor
    · have hL : run (.start false) ([47, 47] ++ body ++ 10 :: rest) 0 0 =
          finish (.emit "EOL" [10] .consume true) (0 + 1 + 1 + body.length) 0 := by
        have e : [47, 47] ++ body ++ 10 :: rest = 47 :: 47 :: (body ++ 10 :: rest) := by simp
        rw [e, run_cons_more _ 0 0 (by decide : stepChar (.start false) 47 = .more .slash true)]
        rw [run_cons_more _ _ _ (by decide : stepChar .slash 47 = .more .lineComment false)]
        rw [hnl]
        simp
      apply lexKL_congr f _ _ prev
      · rw [scan_out, scan_out, hL, hR]; rfl
      · rw [scan_next, scan_next, hL, hR]
        have e : [47, 47] ++ body ++ 10 :: rest = ([47, 47] ++ body ++ [10]) ++ rest := by simp
        have hl : (finish (.emit "EOL" [10] .consume true) (0 + 1 + 1 + body.length) 0).next
            = ([47, 47] ++ body ++ [10]).length + 0 := by simp [finish]; omega
        rw [e, hl, drop_add_append]
        rfl
    · have hL : run (.start false) (35 :: body ++ 10 :: rest) 0 0 =
          finish (.emit "EOL" [10] .consume true) (0 + 1 + body.length) 0 := by
        have e : 35 :: body ++ 10 :: rest = 35 :: (body ++ 10 :: rest) := by simp
        rw [e, run_cons_more _ 0 0 (by decide : stepChar (.start false) 35 = .more .lineComment true)]
        rw [hnl]
        simp
      apply lexKL_congr f _ _ prev
      · rw [scan_out, scan_out, hL, hR]; rfl
      · rw [scan_next, scan_next, hL, hR]
        have e : 35 :: body ++ 10 :: rest = (35 :: body ++ [10]) ++ rest := by simp
        have hl : (finish (.emit "EOL" [10] .consume true) (0 + 1 + body.length) 0).next
            = (35 :: body ++ [10]).length + 0 := by simp [finish]; omega
        rw [e, hl, drop_add_append]
        rfl

/-- **Block comments and then a line comment** — any number of block comments (with blanks
    between and after them) followed by a `//…` or `#…` comment up to the end of the line, at
    every lexer state: the stream is that of the newline and what follows it.  (Before the
    repair of `C20-adjacent-comments` the line comment was lexed as tokens.) -/
theorem lex_comments_then_line_comment (f : Nat) (cs : List (Chars × Chars)) (body rest : Chars)
    (prev : String) (hc : commentRunOk cs = true) (hb : ∀ c ∈ body, c ≠ 10 ∧ c ≠ 0) :
    lexKL f (commentRun cs ++ ([47, 47] ++ body ++ 10 :: rest)) prev = lexKL f (10 :: rest) prev ∧
    lexKL f (commentRun cs ++ (35 :: body ++ 10 :: rest)) prev = lexKL f (10 :: rest) prev := by
  rw [lex_comment_run_invariant f cs _ prev hc, lex_comment_run_invariant f cs _ prev hc]
  exact lex_line_comment_invariant f body rest prev hb

/-- `/* a */ // b⏎x` reads as `⏎x` -/
example : lexKL 9 (commentRun [([32, 97, 32], [32])] ++ ([47, 47] ++ [32, 98] ++ 10 :: [120])) "INT"
    = lexKL 9 (10 :: [120]) "INT" :=
  (lex_comments_then_line_comment 9 _ _ _ _ (by decide) (by decide)).1

/-! ## 3. CRLF -/

/-- **CRLF line endings.**  At every lexer state `\r\n` is read as one NEWLINE token exactly as
    `\n` is (only the token's literal records the two runes), and lexing goes on from the same
    remaining input with the same previous-token type. -/
theorem crlf_invariant (f : Nat) (rest : Chars) (prev : String) :
    lexKL (f + 1) (13 :: 10 :: rest) prev = .tok "EOL" [13, 10] :: lexKL f rest "EOL" ∧
    lexKL (f + 1) (10 :: rest) prev = .tok "EOL" [10] :: lexKL f rest "EOL" := by
  have h1 : scan (13 :: 10 :: rest) prev = ⟨.tok "EOL" [13, 10], 0, 1, 2, 2⟩ := by
    unfold scan
    rw [run_cons_more _ 0 0 (by decide : stepChar (.start false) 13 = .more (.op1 13) true)]
    simp only [run, show stepChar (.op1 13) 10 = .emit "EOL" [13, 10] .consume false by decide]
    rfl
  have h2 : scan (10 :: rest) prev = ⟨.tok "EOL" [10], 0, 0, 1, 1⟩ := by
    unfold scan
    simp only [run, show stepChar (.start false) 10 = .emit "EOL" [10] .consume true by decide]
    rfl
  constructor
  · rw [lexKL_succ, h1]; rfl
  · rw [lexKL_succ, h2]; rfl

/-- a line comment swallows the `\r` of a CRLF ending: `// c\r\n` reads as `\n` -/
example (f : Nat) (rest : Chars) (prev : String) :
    lexKL f ([47, 47] ++ [32, 99, 13] ++ 10 :: rest) prev = lexKL f (10 :: rest) prev :=
  (lex_line_comment_invariant f [32, 99, 13] rest prev (by decide)).1

/-! ## 4. the positional stream is the same stream -/

/-- the token stream with offsets (what the oracle prints and the harness compares with the
    real lexer) projects onto `lexKL`: the theorems above are about the compared stream -/
theorem lexPos_out : ∀ (f : Nat) (rest : Chars) (base : Nat) (prev : String),
    (lexPos f rest base prev).map (·.out) = lexKL f rest prev
  | 0, _, _, _ => rfl
  | f + 1, rest, base, prev => by
    rw [lexKL_succ]
    unfold lexPos
    cases h : (scan rest prev).out with
    | tok k l =>
      simp only [h]
      by_cases hk : (k == "EOF") = true
      · simp [hk]
      · simp only [hk, Bool.false_eq_true, ↓reduceIte, List.map_cons]
        rw [lexPos_out f _ _ k]
    | errT k l c => simp [h]
    | err c => simp [h]

/-! ## 5. rendering the message -/

/-- **`FriendlyErrorMessage` renders whatever the span** (`render_total`; until the repair
    `fix: keep the caret line of a parse error inside the quoted line` this was
    `render_total_partial`, an equivalence with `startCol ≤ endCol + 1`).  For EVERY pair of
    start and end positions (lines and columns unrelated: same line, later line, earlier
    line) and every length of the quoted line, both `strings.Repeat` counts are
    non-negative. -/
theorem render_total (startLine startCol endLine endCol lineLen : Nat) :
    renderOk startLine startCol endLine endCol lineLen = true := by
  unfold renderOk padCount caretCount
  rw [Bool.and_eq_true, decide_eq_true_iff, decide_eq_true_iff]
  constructor
  · split <;> omega
  · simp only; split <;> omega

/-- … and it draws at least one caret, after exactly `startCol` blanks -/
theorem caret_at_least_one (startLine startCol endLine endCol lineLen : Nat) :
    1 ≤ caretCount startLine startCol endLine endCol lineLen ∧ padCount startCol = startCol := by
  unfold padCount caretCount
  constructor
  · simp only; split <;> omega
  · split <;> omega

/-- a span that does not end on the line it starts on is underlined from its start column to
    the end of the quoted line: for every start column inside a quoted line of `lineLen` runes,
    blanks and carets together are exactly as long as the quoted line -/
theorem render_multi_line_to_line_end (startLine startCol endLine endCol lineLen : Nat)
    (hl : endLine ≠ startLine) (hc : startCol < lineLen) :
    padCount startCol + caretCount startLine startCol endLine endCol lineLen = lineLen := by
  have hp := (caret_at_least_one startLine startCol endLine endCol lineLen).2
  unfold caretCount
  rw [if_pos hl, hp]
  simp only; split <;> omega

/-- The full statement (false before the repair, when it was `def C20_full_render : Prop`
    with the counterexample below): the message of an error spanning ANY two offsets of a
    text, quoting the line `GetLineText` returns for its start, renders. -/
theorem C20_full_render (src : Chars) (s e : Nat) (eof : Bool) :
    renderOk (posAt src s).line (posAt src s).col (posAt src e).line (posAt src e).col
      (getLineText src s eof).length = true :=
  render_total _ _ _ _ _

/-- ``x := `abc⏎def` 1`` (the pre-fix counterexample): the backtick token spans offsets 5…13 =
    (line 1, col 6)…(line 2, col 4); the quoted line ``x := `abc`` has 9 runes: 5 blanks and
    4 carets, up to the end of the quoted line -/
example :
    let src : Chars := [120, 32, 58, 61, 32, 96, 97, 98, 99, 10, 100, 101, 102, 96, 32, 49]
    (padCount (posAt src 5).col,
     caretCount (posAt src 5).line (posAt src 5).col (posAt src 13).line (posAt src 13).col
       (getLineText src 5 false).length) = (5, 4) := by decide

/-! ### Historical: the counts before the repair -/

/-- HISTORICAL (`render_total_partial` before the repair): the pre-fix `FriendlyErrorMessage`
    returned iff the end column was not more than one to the left of the start column (its
    two `strings.Repeat` counts non-negative) -/
theorem preFix_render_iff (startCol endCol : Nat) :
    preFixRenderOk startCol endCol = true ↔ startCol ≤ endCol + 1 := by
  unfold preFixRenderOk preFixPadCount preFixCaretCount
  rw [Bool.and_eq_true, decide_eq_true_iff, decide_eq_true_iff]
  constructor
  · intro h; omega
  · intro h; constructor <;> omega

/-- the full statement about the PRE-FIX renderer (false): the message of an error spanning
    offsets `s ≤ e` of a text renders -/
def C20_preFix_full_render : Prop :=
  ∀ (src : Chars) (s e : Nat), s ≤ e → e ≤ src.length →
    preFixRenderOk (posAt src s).col (posAt src e).col = true

/-- HISTORICAL (finding `C20-multiline-span-render-panic`, repaired).  ``x := `abc⏎def` 1``:
    the backtick token spans offsets 5…13 = (line 1, col 6)…(line 2, col 4); the pre-fix caret
    count was 3 - 5 + 1 < 0: `strings.Repeat` panicked. -/
theorem C20_fixed_multiline_span_panicked : ¬ C20_preFix_full_render := by
  intro h
  have := h [120, 32, 58, 61, 32, 96, 97, 98, 99, 10, 100, 101, 102, 96, 32, 49] 5 13 (by decide) (by decide)
  revert this
  decide

/-! ## 6. the quoted line -/

/-- the full statement for the quoted line: the text `GetLineText` returns for an error anchored
    at offset `off` is the line the error reports -/
def C20_full_quoted_line : Prop :=
  ∀ (src : Chars) (off : Nat) (eof : Bool), off ≤ src.length → (eof = true → off = src.length) →
    diagOk src (posAt src off).line (posAt src off).col (getLineText src off eof) = true

/-- `f(1⏎`: the error at the EOF token (offset 4) reports line 2, column 1, and quotes `f(1` -/
theorem C20_counterexample_eof_line : ¬ C20_full_quoted_line := by
  intro h
  have := h [102, 40, 49, 10] 4 true (by decide) (by decide)
  revert this
  decide

/-- the full statement for the column: every error position is an offset of the text -/
def C20_full_column_exists : Prop :=
  ∀ (src : Chars) (off : Nat), off ≤ src.length + 1 →
    ∃ l, (splitLines src)[(posAt src off).line]? = some l ∧ (posAt src off).col ≤ l.length

/-- `x := 1⏎(`: the parser's error sits on the lexer's SECOND end-of-file token, offset
    `length + 1`: column 3 of the line `(` -/
theorem C20_counterexample_second_eof : ¬ C20_full_column_exists := by
  intro h
  obtain ⟨l, h1, h2⟩ := h [120, 32, 58, 61, 32, 49, 10, 40] 9 (by decide)
  have e : (splitLines [120, 32, 58, 61, 32, 49, 10, 40])[(posAt [120, 32, 58, 61, 32, 49, 10, 40] 9).line]? = some [40] := by decide
  rw [e] at h1
  cases h1
  revert h2
  decide


/-! ## 7. positions: what the model of `readChar`/`GetLineText` guarantees for every text -/

/-- **Every position the lexer can report exists in the text.**  For every text and every
    offset `off` up to its length (the offset of the EOF token), `posAt` — the model of
    `readChar`'s bookkeeping, compared field by field with the real lexer on every token of
    every run — satisfies: the column is the distance from `lineStart`; `lineStart` is the
    beginning of a line (0 or just after a newline); there is no newline between `lineStart`
    and `off`; and the line number is the number of newlines before `off`.  So (line, column)
    denotes the rune at `off`, which exists in the text (or is its end). -/
theorem positions_in_source (src : Chars) (off : Nat) (h : off ≤ src.length) :
    (posAt src off).char = off ∧ (posAt src off).lineStart ≤ off ∧
    (posAt src off).col = off - (posAt src off).lineStart ∧
    (posAt src off).line = (src.take off).count 10 ∧
    (∀ j, (posAt src off).lineStart ≤ j → j < off → src[j]? ≠ some 10) ∧
    ((posAt src off).lineStart = 0 ∨ src[(posAt src off).lineStart - 1]? = some 10) := by
  have hp : posAt src off = advance ⟨0, 0, 0, 0⟩ (src.take off) := by
    unfold posAt
    simp [Nat.not_lt.2 h]
  have inv := posInv_advance (src.take off) [] _ posInv_nil
  rw [List.nil_append, ← hp] at inv
  have hl : (src.take off).length = off := by simp [List.length_take, Nat.min_eq_left h]
  obtain ⟨h1, h2, h3, h4, h5, h6⟩ := inv
  rw [hl] at h1 h2 h3 h5
  refine ⟨h1, h2, h3, h4, ?_, ?_⟩
  · intro j hj1 hj2
    have := h5 j hj1 hj2
    rwa [List.getElem?_take_of_lt hj2] at this
  · rcases h6 with h | h
    · exact Or.inl h
    · right
      by_cases hz : (posAt src off).lineStart = 0
      · rw [hz] at h ⊢
        simp only [Nat.zero_sub] at h ⊢
        cases hoff : off with
        | zero => rw [hoff] at h; simp at h
        | succ n => rw [hoff] at h; rwa [List.getElem?_take_of_lt (by omega)] at h
      · rwa [List.getElem?_take_of_lt (by omega)] at h

/-- **The quoted line is the line of the reported position, verbatim.**  For every text and
    every offset `off ≤ length` of a non-EOF anchor, `GetLineText` returns exactly the runes from
    the reported position's `lineStart` up to `off`, followed by the runes from `off` up to
    the next newline (or the end): the whole line that `positions_in_source` locates, nothing
    added or dropped.  (For the EOF anchor see `C20_counterexample_eof_line`.) -/
theorem quoted_line_verbatim (src : Chars) (off : Nat) (h : off ≤ src.length) :
    getLineText src off false =
      (src.drop (posAt src off).lineStart).take (off - (posAt src off).lineStart)
        ++ (src.drop off).takeWhile (· != 10) := by
  obtain ⟨_, h2, _, _, h5, h6⟩ := positions_in_source src off h
  exact getLineText_eq src off _ h2 h h5 h6

/-- no newline between two offsets: the same number of newlines before both -/
theorem count_take_no_newline (src : Chars) (s : Nat) :
    ∀ e, s ≤ e → (∀ j, s ≤ j → j < e → src[j]? ≠ some 10) →
      (src.take e).count 10 = (src.take s).count 10 := by
  intro e
  induction e with
  | zero =>
    intro h _
    have : s = 0 := by omega
    subst this; rfl
  | succ e ih =>
    intro h hj
    by_cases hs : s = e + 1
    · subst hs; rfl
    · have h1 := ih (by omega) (fun j a b => hj j a (by omega))
      have hne := hj e (by omega) (by omega)
      rw [List.take_add_one, List.count_append, h1]
      cases hx : src[e]? with
      | none => simp
      | some c =>
        rw [hx] at hne
        have hc : c ≠ 10 := fun hh => hne (by rw [hh])
        simp [hc]

/-- HISTORICAL (`render_single_line` before the repair): for every text and offsets
    `s ≤ e ≤ length` whose positions share their `lineStart` (start and end of the error lie on
    the same line), the pre-fix `FriendlyErrorMessage` returned — `preFix_render_iff` with its
    guard discharged from the position bookkeeping. -/
theorem preFix_render_single_line (src : Chars) (s e : Nat) (hs : s ≤ e) (he : e ≤ src.length)
    (hsame : (posAt src s).lineStart = (posAt src e).lineStart) :
    preFixRenderOk (posAt src s).col (posAt src e).col = true := by
  obtain ⟨_, _, c1, _, _, _⟩ := positions_in_source src s (by omega)
  obtain ⟨_, _, c2, _, _, _⟩ := positions_in_source src e he
  rw [preFix_render_iff, c1, c2, hsame]
  omega

/-- **The repair changes nothing inside one line.**  For every text and offsets
    `s ≤ e ≤ length` whose positions share their `lineStart` (exactly the spans that rendered
    before), the repaired `FriendlyErrorMessage` draws the blanks and the carets the old one
    drew, whatever line it quotes. -/
theorem render_single_line_unchanged (src : Chars) (s e : Nat) (hs : s ≤ e) (he : e ≤ src.length)
    (hsame : (posAt src s).lineStart = (posAt src e).lineStart) (lineLen : Nat) :
    padCount (posAt src s).col = preFixPadCount (posAt src s).col ∧
    caretCount (posAt src s).line (posAt src s).col (posAt src e).line (posAt src e).col lineLen
      = preFixCaretCount (posAt src s).col (posAt src e).col := by
  obtain ⟨_, b1, c1, l1, _, _⟩ := positions_in_source src s (by omega)
  obtain ⟨_, b2, c2, l2, n2, _⟩ := positions_in_source src e he
  have hline : (posAt src e).line = (posAt src s).line := by
    rw [l1, l2]
    exact count_take_no_newline src s e hs (fun j a b => n2 j (by omega) b)
  have hp : padCount (posAt src s).col = preFixPadCount (posAt src s).col := by
    unfold padCount preFixPadCount; split <;> omega
  refine ⟨hp, ?_⟩
  have hne : ¬ ((posAt src e).line ≠ (posAt src s).line) := fun h => h hline
  unfold caretCount preFixCaretCount
  simp only [if_neg hne]
  rw [c1, c2, hsame]; split <;> omega

/-- non-vacuity: in `x := 1⏎y := ` the offsets 7…10 lie on line 2 -/
example : (posAt [120, 32, 58, 61, 32, 49, 10, 121, 32, 58, 61, 32] 7).lineStart
    = (posAt [120, 32, 58, 61, 32, 49, 10, 121, 32, 58, 61, 32] 10).lineStart := by decide

/-! ## 8. several lexers: a quoted line is a function of the lexer's own input

    The world of `Model.lean` (`World`, `WOp`): any number of lexers, created at any time (one per
    interpolated fragment of a template string while the outer parser is at work; one per script
    of a host), each read to its EOF token at any time. -/

/-- reading a lexer to the end changes no lexer's input -/
theorem inputs_markEOF (i : Nat) (w : World) : (markEOF i w).inputs = w.inputs := by
  induction w generalizing i with
  | nil => cases i <;> rfl
  | cons l ls ih =>
    cases i with
    | zero => rfl
    | succ i =>
      have := ih i
      unfold World.inputs at this ⊢
      simp only [markEOF, List.map_cons, this]

/-- one operation only ever appends an input to the list of inputs -/
theorem inputs_step (w : World) (op : WOp) : ∃ ext, (w.step op).inputs = w.inputs ++ ext := by
  cases op with
  | new input => exact ⟨[input], by simp [World.step, World.inputs]⟩
  | drain i => exact ⟨[], by simp [World.step, inputs_markEOF]⟩
  | quote i off eof => exact ⟨[], by simp [World.step]⟩

/-- any sequence of operations only ever appends inputs -/
theorem inputs_steps (ops : List WOp) (w : World) :
    ∃ ext, (ops.foldl World.step w).inputs = w.inputs ++ ext := by
  induction ops generalizing w with
  | nil => exact ⟨[], by simp⟩
  | cons op ops ih =>
    obtain ⟨e1, h1⟩ := inputs_step w op
    obtain ⟨e2, h2⟩ := ih (w.step op)
    exact ⟨e1 ++ e2, by rw [List.foldl_cons, h2, h1, List.append_assoc]⟩

/-- **Frame property of `GetLineText`.**  For every world, every lexer `i` of it and EVERY
    sequence of later operations — any number of other lexers created on any inputs and read to
    their ends, lexer `i` itself read to its EOF token, other lines quoted — the line lexer `i`
    quotes for a token (any offset, EOF or not) is the line it quoted before. -/
theorem quote_frame (w : World) (ops : List WOp) (i : Nat) (h : i < w.length) (off : Nat) (eof : Bool) :
    (ops.foldl World.step w).quote i off eof = w.quote i off eof := by
  obtain ⟨ext, he⟩ := inputs_steps ops w
  have hl : i < w.inputs.length := by simpa [World.inputs] using h
  unfold World.quote
  rw [he, List.getElem?_append_left hl]

/-- **The quoted line depends on the lexer's own input only.**  Whatever happened before
    `lexer.New(input)` (operations `pre` from the empty world) and whatever happens after it
    (operations `post`), `GetLineText` of that lexer is `getLineText input` — the function of ONE
    text that `quoted_line_verbatim` and the diagnostics correspondence are about. -/
theorem quote_own_input (pre post : List WOp) (input : Chars) (off : Nat) (eof : Bool) :
    (post.foldl World.step ((pre.foldl World.step []).step (.new input))).quote
        (pre.foldl World.step []).length off eof = getLineText input off eof := by
  rw [quote_frame _ post _ (by simp [World.step])]
  simp [World.quote, World.inputs, World.step]

/-- **An error of the outer parser after template fragments quotes the outer text.**  For every
    program text `outer`, every list of interpolated fragments `frags` (any number, any texts,
    longer or shorter than `outer`) and every token offset: after the outer lexer has been read
    to its EOF token and one lexer per fragment has been created and read to the end, the outer
    lexer quotes `getLineText outer`. -/
theorem quote_after_template_fragments (outer : Chars) (frags : List Chars) (off : Nat) (eof : Bool) :
    ((templateOps outer frags).foldl World.step []).quote 0 off eof = getLineText outer off eof := by
  unfold templateOps
  rw [List.foldl_append]
  rw [quote_frame _ _ 0 (by simp [World.step, markEOF])]
  simp [World.quote, World.inputs, World.step, markEOF]

/-- … and that line is verbatim the line of the OUTER text the token lies on (non-EOF token at an
    offset of the text): `quoted_line_verbatim` carried through the frame property. -/
theorem world_quote_verbatim (pre post : List WOp) (input : Chars) (off : Nat) (h : off ≤ input.length) :
    (post.foldl World.step ((pre.foldl World.step []).step (.new input))).quote
        (pre.foldl World.step []).length off false =
      (input.drop (posAt input off).lineStart).take (off - (posAt input off).lineStart)
        ++ (input.drop off).takeWhile (· != 10) := by
  rw [quote_own_input, quoted_line_verbatim input off h]

/-- non-vacuity / the scenario of the record: `print('t{user}'` (15 runes, the closing bracket is
    missing), the fragment `user` lexed in between: the outer lexer still quotes `print('t{user}'`
    for its EOF token, and the Spec holds -/
example : ((templateOps [112, 114, 105, 110, 116, 40, 39, 116, 123, 117, 115, 101, 114, 125, 39] [[117, 115, 101, 114]]).foldl World.step []).quote 0 15 true
    = [112, 114, 105, 110, 116, 40, 39, 116, 123, 117, 115, 101, 114, 125, 39] := by decide
example : worldQuoteOk ([120, 32, 58, 61, 32, 49, 10] ++ [112, 114, 105, 110, 116, 40, 39, 116, 123, 117, 115, 101, 114, 125, 39]) 7
    [112, 114, 105, 110, 116, 40, 39, 116, 123, 117, 115, 101, 114, 125, 39] = true := by decide

end Risor.C20
