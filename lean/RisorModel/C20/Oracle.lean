import RisorModel.Util
/-! Line-protocol front end of the C20 model (stub until the model exists). -/
namespace Risor.C20

def handle : List String → String
  | _ => "error\tnot-implemented"

end Risor.C20
