import RisorModel.Util
import RisorModel.C20.Model
import RisorModel.C01.PrattOracle
import RisorModel.C20.ParseNewline
import RisorModel.C20.Bridge
import RisorModel.C20.Stmt
/-! Line-protocol front end of the C20 model (requests after the leading `C20` field).

  lex  <src-utf8-hex>                      → ok TAB tok;tok;…   tok = kindhex,lithex,sChar,sLine,sCol,sLS,eChar,eLine,eCol,eLS
                                             (an error ends the stream: E,cls[,kindhex,lithex,positions…])
  diag <src-utf8-hex> <start> <end> <eof>  → quotedhex TAB line TAB col TAB endCol TAB renderOk TAB diagOk TAB singleLine TAB pad:carets
                                             (renderOk and pad:carets = the repaired FriendlyErrorMessage: its two Repeat counts,
                                              the caret count taken against the quoted line when the span leaves the line)
  kl   <src-utf8-hex>                      → kinds and literals only (layout comparisons)
  gap  <pre-hex> <cm-hex> <rest-hex>       the instance of GapProps.lean for the two texts  A = pre cm ⏎ rest  and  B = pre ⏎ rest
       cm: blanks (possibly none), any number of block comments, then a line comment (`#…` or `//…`), without newline
       → ok TAB guard TAB form TAB sameKL TAB shifted TAB nA TAB nB
       guard:   1 when the decidable guard of the applicable theorem holds: `cutsAt2 fuel pre (first rune of cm) 10 ""`
                (cm begins with `#` or `/`: lex_line_comment_at_line_end) or `cutsAt fuel pre b ""` (cm begins with the
                blank b: lex_line_comment_after_blanks)
       form:    1 when cm has the form the theorems speak about (blanks, proper block comments, a line comment whose
                text has no newline/NUL); `-` otherwise
       sameKL:  1 when `lexKL` of A equals `lexKL` of B (the theorems' conclusion)
       shifted: 1 when the positional streams agree as lexPos_line_comment / positions_after_line_comment say: the tokens
                of A and B are equal in number, kind and literal; a token of B that starts before |pre| has the same
                offsets, line, column and line start in A; the newline token lies |cm| runes further on, on the same line;
                a token of B behind the newline has in A the offsets and the line start |cm| larger, the same line and column
       nA, nB:  number of tokens of A and B
  parsenl <tokens> <tree|-> <nls|-> <commas|->
       tokens: the REAL lexer's tokens of one expression text with line breaks, `typehex:lithex`
               items joined by `,` (the encoding of `C01 pratt check`), without the final EOF
       tree:   the expression tree (S-expression of harness/gen.go) the text was printed from
       nls:    the layout: one item per permitted gap, left to right, joined by `.`; an item is `0`
               (no newline) or one letter per NEWLINE token, `n` = literal "\n", `r` = "\r\n"
       commas: one `0`/`1` per gap (trailing comma at a before-closing-bracket gap)
       → ok TAB parsed TAB roundtrip TAB render
       parsed:    canonical S-expression of what the Pratt model `parseExpr` returns on the tokens
                  when it consumes them all; `none` when it fails; `leftover` when tokens remain
       roundtrip: 1 when `parseExpr` returned exactly the tree, else 0 (`-` without tree)
       render:    `same` when `renderNLTop (Layout.ofLists nls commas) tree` (the object of
                  `parse_newline_invariant`) equals the token list, otherwise the hex of Lean's
                  rendering as text; `-` without tree or layout
  stmt <src-utf8-hex>                      → ok TAB <tree|none|lexerror> TAB ntokens: the statement-level parser model of Stmt.lean
                                             (`parseProgram` on `lexTokens src`; tree in the harness's S-expression format, showStmt)
  bridge <src-utf8-hex> <tree|-> <gaps|->
       the lexer/parser bridge of Bridge.lean (theorems: BridgeProps.lean)
       src:   a source text (the harness's own rendering of the tree)
       tree:  the expression tree (S-expression of harness/gen.go) or `-`
       gaps:  `-`, or items joined by `,`: `b<hex>` = blanks, `c<hex>.<hex>.<hex>[.<hex>.<hex>…]` = blanks, then
              one (comment body, blanks) pair per block comment (hex of the runes as UTF-8; `-` = empty)
       → ok TAB tokens TAB renderSrc TAB flags TAB layoutSrc TAB gapsOk
       tokens:    `toTokens (lexOuts src)` — the ADAPTER applied to the lexer model's output — as
                  `typehex:lithex` items joined by `,` (the encoding harness/c01parse.go uses for the
                  REAL lexer's tokens, EOF dropped); `E` when the lexer model reports an error
       renderSrc: hex (UTF-8) of `renderSrc tree`; `-` without tree
       flags:     `exprOK,unnested,lex,parse` (0/1 each): lex = `lexTokens (renderSrc tree) = some (renderTop tree)`,
                  parse = the parser model returns the tree on those tokens; `-` without tree
       layoutSrc: hex of `spellWith (renderTop tree) gaps`; `-` without tree or gaps
       gapsOk:    1 when every gap satisfies `Gap.ok`, else 0; `-` without gaps
       → unsupported … when the text has non-ASCII runes outside strings/comments or the tree is outside the core
-/
namespace Risor.C20
open Risor.Util

/-- strict UTF-8 decoding of a byte list into code points -/
def decodeUtf8 : Nat → List Nat → Option Chars
  | 0, _ => some []
  | _, [] => some []
  | f + 1, b :: bs =>
    if b < 0x80 then (decodeUtf8 f bs).map (b :: ·)
    else if 0xC0 ≤ b && b < 0xE0 then
      match bs with
      | b1 :: r => (decodeUtf8 f r).map (((b - 0xC0) * 64 + (b1 - 0x80)) :: ·)
      | _ => none
    else if 0xE0 ≤ b && b < 0xF0 then
      match bs with
      | b1 :: b2 :: r => (decodeUtf8 f r).map (((b - 0xE0) * 4096 + (b1 - 0x80) * 64 + (b2 - 0x80)) :: ·)
      | _ => none
    else if 0xF0 ≤ b && b < 0xF8 then
      match bs with
      | b1 :: b2 :: b3 :: r =>
        (decodeUtf8 f r).map (((b - 0xF0) * 262144 + (b1 - 0x80) * 4096 + (b2 - 0x80) * 64 + (b3 - 0x80)) :: ·)
      | _ => none
    else none

def srcOf (h : String) : Option Chars :=
  match fromHex h with
  | some bs => decodeUtf8 (bs.length + 1) bs
  | none => none

def showPos (p : Pos) : String :=
  toString p.char ++ "," ++ toString p.line ++ "," ++ toString p.col ++ "," ++ toString p.lineStart

def kindHex (k : String) : String := toHexField (strBytes k)

def showTok (src : Chars) (t : PTok) : String :=
  match t.out with
  | .tok k l => kindHex k ++ "," ++ toHexField l ++ "," ++ showPos (posAt src t.start) ++ "," ++ showPos (posAt src t.stop)
  | .errT k l c => "E," ++ c ++ "," ++ kindHex k ++ "," ++ toHexField l ++ "," ++ showPos (posAt src t.start) ++ "," ++ showPos (posAt src t.stop)
  | .err c => "E," ++ c

def showKL : Out → String
  | .tok k l => kindHex k ++ "," ++ toHexField l
  | .errT k l c => "E," ++ c ++ "," ++ kindHex k ++ "," ++ toHexField l
  | .err c => "E," ++ c

/-- kept for the protocol: the lexer model classifies every rune (non-ASCII runes by the tables of
    Go's package `unicode`), no text is outside it any more -/
def unsupported (ts : List PTok) : Bool :=
  ts.any fun t => match t.out with
    | .err "unsupported" => true
    | _ => false

/-! ### `gap` -/

/-- split `cm` into leading blanks and the rest -/
def splitBlanks : Chars → Chars × Chars
  | [] => ([], [])
  | c :: cs => if isBlank c then let (a, b) := splitBlanks cs; (c :: a, b) else ([], c :: cs)

/-- does `cm` consist of blanks, proper block comments (blanks after each) and a final line comment
    without newline/NUL — the shape of `lex_line_comment_after_blanks` / `lex_line_comment_at_line_end` -/
def gapFormOk : Nat → Chars → Bool
  | 0, _ => false
  | f + 1, cm =>
    match (splitBlanks cm).2 with
    | 35 :: body => body.all fun c => c != 10 && c != 0
    | 47 :: 47 :: body => body.all fun c => c != 10 && c != 0
    | 47 :: 42 :: r =>
      -- up to the first `*/`
      let rec close : Nat → Chars → Option Chars
        | 0, _ => none
        | _, [] => none
        | _, [_] => none
        | g + 1, a :: b :: t => if a == 42 && b == 47 then some t else if a == 0 then none else close g (b :: t)
      match close (r.length + 1) r with
      | some t => gapFormOk f t
      | none => false
    | _ => false

def posEqShift (n : Nat) (a b : Pos) : Bool := a == b.shift n

/-- the positional comparison of `gap` -/
def shiftedOk (A B : Chars) (preLen n : Nat) : Bool :=
  let ta := lexAll A
  let tb := lexAll B
  ta.length == tb.length &&
  (ta.zip tb).all fun (x, y) =>
    x.out == y.out &&
    (if y.start < preLen then
       posAt A x.start == posAt B y.start &&
       (if y.stop < preLen then posAt A x.stop == posAt B y.stop else true)
     else if y.start == preLen then
       -- the newline itself: `n` runes further on, on the same line
       x.start == y.start + n && x.stop == y.stop + n && (posAt A x.start).line == (posAt B y.start).line
     else
       posEqShift n (posAt A x.start) (posAt B y.start) && posEqShift n (posAt A x.stop) (posAt B y.stop))

def handleGap (preF cmF restF : String) : String :=
  match srcOf preF, srcOf cmF, srcOf restF with
  | some pre, some cm, some rest =>
    let A := pre ++ (cm ++ 10 :: rest)
    let B := pre ++ 10 :: rest
    let fuel := A.length + 2
    let b (x : Bool) : String := if x then "1" else "0"
    let guard := match cm with
      | [] => false
      | c :: _ => if isBlank c then cutsAt fuel pre c "" else cutsAt2 fuel pre c 10 ""
    let form := gapFormOk (cm.length + 1) cm
    let same := lexKL fuel A "" == lexKL fuel B ""
    "ok\t" ++ b guard ++ "\t" ++ (if form then "1" else "-") ++ "\t" ++ b same ++ "\t" ++ b (shiftedOk A B pre.length cm.length)
      ++ "\t" ++ toString (lexAll A).length ++ "\t" ++ toString (lexAll B).length
  | _, _, _ => "error\tbad-hex"

/-- one item per gap: `0` for no newline, otherwise one letter per NEWLINE token, `n` for the
    literal "\n" and `r` for "\r\n" -/
def decodeGap (item : String) : Option (List String) :=
  if item == "0" then some []
  else item.toList.mapM fun c => if c == 'n' then some "\n" else if c == 'r' then some "\r\n" else none

def decodeNls (field : String) : Option (List (List String)) :=
  if field == "-" then some [] else (field.splitOn ".").mapM decodeGap

def decodeCommas (field : String) : List Bool :=
  if field == "-" then [] else field.toList.map (· == '1')

/-- the Pratt model of C01 on the real tokens of a text with line breaks, and the layout printer
    of ParseNewline.lean on the tree and the harness's layout -/
def handleParseNl (toksField treeField nlsField commasField : String) : String :=
  open Risor.C01.Pratt in
  match decodeTokens toksField with
  | .error why => "unsupported\t" ++ why
  | .ok toks =>
    let fuel := 3 * toks.length + 20
    let parsed := parseExpr fuel Level.LOWEST.num toks
    let parsedText := match parsed with
      | some (e, []) => showExpr e
      | some (_, _) => "leftover"
      | none => "none"
    if treeField == "-" then "ok\t" ++ parsedText ++ "\t-\t-"
    else
      match Risor.C01.parseSX treeField.toList with
      | none => "unsupported\tcannot read the tree"
      | some (sx, _) =>
        match toExpr sx with
        | none => "unsupported\ttree outside the expression core"
        | some tree =>
          let rt := match parsed with
            | some (e, []) => decide (e = tree)
            | _ => false
          let rend :=
            if nlsField == "-" then "-"
            else match decodeNls nlsField with
              | none => "-"
              | some ns =>
                let r := NL.renderNLTop (NL.Layout.ofLists ns (decodeCommas commasField)) tree
                if r == toks then "same" else hx (tokensText r)
          "ok\t" ++ parsedText ++ "\t" ++ (if rt then "1" else "0") ++ "\t" ++ rend


/-! ### `bridge` -/

def showTokenItem (t : Risor.C01.Pratt.Token) : String :=
  kindHex t.kind.typ ++ ":" ++ toHexField (strBytes t.lit)

def showTokens (ts : List Risor.C01.Pratt.Token) : String :=
  if ts.isEmpty then "-" else ",".intercalate (ts.map showTokenItem)

def hexChars (h : String) : Option Chars := srcOf h

/-- (body, blanks) pairs of a comment run -/
def decodePairs : List String → Option (List (Chars × Chars))
  | [] => some []
  | b :: w :: rest =>
    match hexChars b, hexChars w, decodePairs rest with
    | some b, some w, some r => some ((b, w) :: r)
    | _, _, _ => none
  | [_] => none

def decodeGapItem (item : String) : Option Gap :=
  match item.toList with
  | 'b' :: rest => (hexChars (String.ofList rest)).map Gap.blanks
  | 'c' :: rest =>
    match (String.ofList rest).splitOn "." with
    | lead :: pairs =>
      match hexChars lead, decodePairs pairs with
      | some lead, some cs => some ⟨lead, cs⟩
      | _, _ => none
    | [] => none
  | _ => none

def decodeGaps (field : String) : Option (List Gap) :=
  if field == "-" then some [] else (field.splitOn ",").mapM decodeGapItem

/-- the adapter's kind lookup is C01's (`decodeToken` of PrattOracle.lean uses `Kind.ofTyp`) -/
example (s : String) : kindOfTyp s = ((Risor.C01.Pratt.Kind.ofTyp s).getD .ILLEGAL) := rfl

def handleBridge (srcField treeField gapsField : String) : String :=
  open Risor.C01.Pratt in
  match srcOf srcField with
  | none => "error\tbad-hex"
  | some src =>
    if unsupported (lexAll src) then "unsupported\tnon-ASCII rune outside strings and comments"
    else
      let toks := match lexTokens src with
        | some ts => showTokens ts
        | none => "E"
      if treeField == "-" then "ok\t" ++ toks ++ "\t-\t-\t-\t-"
      else
        match Risor.C01.parseSX treeField.toList with
        | none => "unsupported\tcannot read the tree"
        | some (sx, _) =>
          match toExpr sx with
          | none => "unsupported\ttree outside the expression core"
          | some tree =>
            let text := renderSrc tree
            let r := renderTop tree
            let lexed := lexTokens text
            let fuel := 3 * r.length + 20
            let parsed := match lexed with
              | some ts => (match parseExpr fuel Level.LOWEST.num ts with
                  | some (e, []) => decide (e = tree)
                  | _ => false)
              | none => false
            let b (x : Bool) : String := if x then "1" else "0"
            let flags := b (exprOK tree) ++ "," ++ b (unnested tree) ++ "," ++ b (lexed == some r) ++ "," ++ b parsed
            let lay :=
              if gapsField == "-" then "-\t-"
              else match decodeGaps gapsField with
                | none => "-\t-"
                | some gs => toHexField (utf8s (spellWith r gs)) ++ "\t" ++ b (gs.all Gap.ok)
            "ok\t" ++ toks ++ "\t" ++ toHexField (utf8s text) ++ "\t" ++ flags ++ "\t" ++ lay

/-! ### `stmt`: the statement-level parser model on the lexer machine's tokens -/

open Risor.C20.St in
def aopText : AOp → String
  | .set => "=" | .add => "+=" | .sub => "-=" | .mul => "*=" | .div => "/="

open Risor.C20.St Risor.C01.Pratt in
mutual
/-- same S-expression format as the harness's `Sexp` (an `else if` is printed as the block holding
    the nested `if`, which is how the real parser stores it) -/
def showStmt : Stmt → String
  | .expr e => "(expr " ++ showExpr e ++ ")"
  | .var x e => "(var s:" ++ hx x ++ " " ++ showExpr e ++ ")"
  | .decl x e => "(decl s:" ++ hx x ++ " " ++ showExpr e ++ ")"
  | .assign op x e => "(assign s:" ++ hx (aopText op) ++ " (id s:" ++ hx x ++ ") " ++ showExpr e ++ ")"
  | .ret e => "(ret " ++ showExpr e ++ ")"
  | .ret0 => "(ret0)"
  | .brk => "(break)"
  | .cont => "(continue)"
  | .ifS c thn els => "(if " ++ showExpr c ++ " (blk" ++ showBlock thn ++ ") " ++ showElse els ++ ")"
def showBlock : Block → String
  | .nil => ""
  | .cons s b => " " ++ showStmt s ++ showBlock b
def showElse : Else → String
  | .none => "(none)"
  | .block b => "(blk" ++ showBlock b ++ ")"
  | .elif c thn els => "(blk (if " ++ showExpr c ++ " (blk" ++ showBlock thn ++ ") " ++ showElse els ++ "))"
end

/-- `stmt <src-hex>` → `ok <tree|none> <number of tokens>` -/
def handleStmt (srcField : String) : String :=
  match srcOf srcField with
  | none => "error\tbad-hex"
  | some src =>
    if unsupported (lexAll src) then "unsupported\tnon-ASCII rune outside strings and comments"
    else
      match lexTokens src with
      | none => "ok\tlexerror\t0"
      | some ts =>
        let fuel := 3 * ts.length + 20
        match Risor.C20.St.parseProgram fuel ts with
        | some b => "ok\t(blk" ++ showBlock b ++ ")\t" ++ toString ts.length
        | none => "ok\tnone\t" ++ toString ts.length

def handle : List String → String
  | ["stmt", src] => handleStmt src
  | ["bridge", src, tree, gaps] => handleBridge src tree gaps
  | ["parsenl", toks, tree, nls, commas] => handleParseNl toks tree nls commas
  | ["gap", pre, cm, rest] => handleGap pre cm rest
  | ["lex", h] =>
    match srcOf h with
    | some src =>
      let ts := lexAll src
      if unsupported ts then "unsupported"
      else "ok\t" ++ ";".intercalate (ts.map (showTok src))
    | none => "error\tbad-hex"
  | ["kl", h] =>
    match srcOf h with
    | some src => "ok\t" ++ ";".intercalate ((lexKL (src.length + 2) src "").map showKL)
    | none => "error\tbad-hex"
  | ["diag", h, s, e, eof] =>
    match srcOf h, s.toNat?, e.toNat? with
    | some src, some s, some e =>
      let q := getLineText src s (eof == "1")
      let ps := posAt src s
      let pe := posAt src e
      toHexField (utf8s q) ++ "\t" ++ toString ps.line ++ "\t" ++ toString ps.col ++ "\t" ++ toString pe.col
        ++ "\t" ++ toString (renderOk ps.line ps.col pe.line pe.col q.length) ++ "\t" ++ toString (diagOk src ps.line ps.col q)
        ++ "\t" ++ toString (singleLineSpan src s e)
        ++ "\t" ++ toString (padCount ps.col) ++ ":" ++ toString (caretCount ps.line ps.col pe.line pe.col q.length)
    | _, _, _ => "error\tbad-request"
  -- several lexers: the outer text, the texts other lexers are created on (and read to the end)
  -- after the outer lexer reached EOF, then GetLineText of the OUTER lexer at `off`
  | ["world", h, frags, off, eof] =>
    match srcOf h, (if frags == "-" then some [] else (frags.splitOn ";").mapM srcOf), off.toNat? with
    | some outer, some fs, some off =>
      let w := (templateOps outer fs).foldl World.step []
      let q := w.quote 0 off (eof == "1")
      toHexField (utf8s q) ++ "\t" ++ toString (worldQuoteOk outer off q)
        ++ "\t" ++ toString w.length
    | _, _, _ => "error\tbad-request"
  | _ => "error\tunknown-request"

end Risor.C20
