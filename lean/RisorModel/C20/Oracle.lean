import RisorModel.Util
import RisorModel.C20.Model
/-! Line-protocol front end of the C20 model (requests after the leading `C20` field).

  lex  <src-utf8-hex>                      → ok TAB tok;tok;…   tok = kindhex,lithex,sChar,sLine,sCol,sLS,eChar,eLine,eCol,eLS
                                             (an error ends the stream: E,cls[,kindhex,lithex,positions…])
  diag <src-utf8-hex> <start> <end> <eof>  → quotedhex TAB line TAB col TAB endCol TAB renderOk TAB diagOk TAB singleLine
  kl   <src-utf8-hex>                      → kinds and literals only (layout comparisons)
-/
namespace Risor.C20
open Risor.Util

/-- strict UTF-8 decoding of a byte list into code points -/
def decodeUtf8 : Nat → List Nat → Option Chars
  | 0, _ => some []
  | _, [] => some []
  | f + 1, b :: bs =>
    if b < 0x80 then (decodeUtf8 f bs).map (b :: ·)
    else if 0xC0 ≤ b && b < 0xE0 then
      match bs with
      | b1 :: r => (decodeUtf8 f r).map (((b - 0xC0) * 64 + (b1 - 0x80)) :: ·)
      | _ => none
    else if 0xE0 ≤ b && b < 0xF0 then
      match bs with
      | b1 :: b2 :: r => (decodeUtf8 f r).map (((b - 0xE0) * 4096 + (b1 - 0x80) * 64 + (b2 - 0x80)) :: ·)
      | _ => none
    else if 0xF0 ≤ b && b < 0xF8 then
      match bs with
      | b1 :: b2 :: b3 :: r =>
        (decodeUtf8 f r).map (((b - 0xF0) * 262144 + (b1 - 0x80) * 4096 + (b2 - 0x80) * 64 + (b3 - 0x80)) :: ·)
      | _ => none
    else none

def srcOf (h : String) : Option Chars :=
  match fromHex h with
  | some bs => decodeUtf8 (bs.length + 1) bs
  | none => none

def showPos (p : Pos) : String :=
  toString p.char ++ "," ++ toString p.line ++ "," ++ toString p.col ++ "," ++ toString p.lineStart

def kindHex (k : String) : String := toHexField (strBytes k)

def showTok (src : Chars) (t : PTok) : String :=
  match t.out with
  | .tok k l => kindHex k ++ "," ++ toHexField l ++ "," ++ showPos (posAt src t.start) ++ "," ++ showPos (posAt src t.stop)
  | .errT k l c => "E," ++ c ++ "," ++ kindHex k ++ "," ++ toHexField l ++ "," ++ showPos (posAt src t.start) ++ "," ++ showPos (posAt src t.stop)
  | .err c => "E," ++ c

def showKL : Out → String
  | .tok k l => kindHex k ++ "," ++ toHexField l
  | .errT k l c => "E," ++ c ++ "," ++ kindHex k ++ "," ++ toHexField l
  | .err c => "E," ++ c

def unsupported (ts : List PTok) : Bool :=
  ts.any fun t => match t.out with
    | .err "unsupported" => true
    | _ => false

def handle : List String → String
  | ["lex", h] =>
    match srcOf h with
    | some src =>
      let ts := lexAll src
      if unsupported ts then "unsupported"
      else "ok\t" ++ ";".intercalate (ts.map (showTok src))
    | none => "error\tbad-hex"
  | ["kl", h] =>
    match srcOf h with
    | some src => "ok\t" ++ ";".intercalate ((lexKL (src.length + 2) src "").map showKL)
    | none => "error\tbad-hex"
  | ["diag", h, s, e, eof] =>
    match srcOf h, s.toNat?, e.toNat? with
    | some src, some s, some e =>
      let q := getLineText src s (eof == "1")
      let ps := posAt src s
      let pe := posAt src e
      toHexField (utf8s q) ++ "\t" ++ toString ps.line ++ "\t" ++ toString ps.col ++ "\t" ++ toString pe.col
        ++ "\t" ++ toString (renderOk ps.col pe.col) ++ "\t" ++ toString (diagOk src ps.line ps.col q)
        ++ "\t" ++ toString (singleLineSpan src s e)
    | _, _, _ => "error\tbad-request"
  | _ => "error\tunknown-request"

end Risor.C20
