import RisorModel.C20.BridgeLemmas
/-!
C20 / C01 — the bridge theorems: **the text of a rendered expression lexes back to its tokens,
and therefore parses back to the tree.**

Until here the two halves of the front end were proved apart: C01's `parse_render` starts from a
token list, C20's lexer theorems are about layout.  This file joins them over the two models
(`Model.lean`: the character-level lexer machine `scan`/`lexKL`/`lexAll`; C01's `Pratt.lean`: the
token-level parser `parseExpr` and its printer `renderTop`), through the definitions of
`Bridge.lean`: `spell` (source spelling of a token), `spellWith`/`spellAll`/`renderSrc` (texts),
`tokOK`/`exprOK` (well-formedness), `toToken`/`lexTokens` (the adapter, compared with the
conversion of the REAL lexer's tokens on every generated expression: request `C20 bridge`).

Separator policy: a single space between any two adjacent spellings (`spellAll`), or any
well-formed gap (`Gap.ok`: at least one space/tab, then ANY NUMBER of block comments, each with
a `properBody` body — no `*/` inside — and each followed by any run of blanks; one comment at
most and an `okBody` body until the repair of the lexer's two block-comment defects).  Nothing
in front of the first token or after the last.  Concatenation without separators is not a policy: see the counterexamples at the end.

Token classes covered by `tokOK`: identifiers (ASCII letter or `_`, then letters/digits/`_`; not
a keyword), decimal integer literals without leading zero, double-quoted string literals of
ARBITRARY value (every Unicode scalar; escapes `\" \\ \n \r \t \a \b \f \v \e \x00`), all 39
operator and punctuation kinds of token/token.go, the keywords `true false nil in not case
switch`.  Not covered: floats, backtick and single-quoted (template) strings, the other keywords
(their `Kind.text` in the parser model is not their source word; the printer never emits them),
non-ASCII identifiers (outside the lexer model), `as` as an identifier after `.`.
-/
namespace Risor.C20
open Risor.C01.Pratt

/-! ## 1. the lexer on spelled tokens -/

/-- **Maximal munch, one token** (`scan_spell`).  For every well-formed token `t`, every text
    `rest` that is empty or begins with a space/tab, and every previous token type: one call of
    `Next` on `spell t ++ rest` returns exactly `t`'s type and literal and resumes right after
    the spelling. -/
theorem lex_spell_one (t : Token) (h : tokOK t = true) (rest : Chars) (hd : Delim rest) (prev : String) :
    (scan (spell t ++ rest) prev).out = outOf t ∧
    (scan (spell t ++ rest) prev).next = (spell t).length :=
  scan_spell t h rest hd prev

/-- **`lex_spell_tokens`, with layout.**  For every list `ts` of well-formed tokens (any
    length), every list of well-formed gaps `gs` (gap `i` stands between token `i` and token
    `i+1`; a single space where the gaps run out), every lexer state (`prev`) and every fuel that
    allows `length + 1` calls of `Next`: the token loop of the lexer model, run on the spelled
    text, yields exactly the tokens of `ts` — types and literals, in order — followed by EOF. -/
theorem lex_spell_tokens_layout (ts : List Token) (gs : List Gap) (f : Nat) (prev : String)
    (ht : ∀ t ∈ ts, tokOK t = true) (hg : ∀ g ∈ gs, g.ok = true) (hf : ts.length + 1 ≤ f) :
    lexKL f (spellWith ts gs) prev = ts.map outOf ++ [.tok "EOF" []] :=
  lexKL_spellWith ts gs f prev ht hg hf

/-- the whole-source lexer (`lexAll`, the function compared token by token with the real
    lexer) on a spelled text with gaps -/
theorem lexOuts_spellWith (ts : List Token) (gs : List Gap)
    (ht : ∀ t ∈ ts, tokOK t = true) (hg : ∀ g ∈ gs, g.ok = true) :
    lexOuts (spellWith ts gs) = ts.map outOf ++ [.tok "EOF" []] := by
  unfold lexOuts lexAll
  rw [lexPos_out]
  have := length_le_spellWith ts gs ht
  exact lexKL_spellWith ts gs _ "" ht hg (by omega)

/-- **`lex_spell_tokens`.**  For every list `ts` of well-formed tokens, of any length: the lexer
    model run on the spellings joined by single spaces yields exactly `ts` (types and literals)
    followed by EOF; converted by the adapter, it is `ts`. -/
theorem lex_spell_tokens (ts : List Token) (ht : ∀ t ∈ ts, tokOK t = true) :
    lexOuts (spellAll ts) = ts.map outOf ++ [.tok "EOF" []] ∧ lexTokens (spellAll ts) = some ts := by
  have h := lexOuts_spellWith ts [] ht (by simp)
  refine ⟨h, ?_⟩
  unfold lexTokens
  rw [show spellAll ts = spellWith ts [] from rfl, h]
  exact toTokens_outs ts ht

/-- the same through any well-formed gaps: spaces, tabs and any number of block comments per
    gap do not change the tokens the parser receives -/
theorem lexTokens_spellWith (ts : List Token) (gs : List Gap)
    (ht : ∀ t ∈ ts, tokOK t = true) (hg : ∀ g ∈ gs, g.ok = true) :
    lexTokens (spellWith ts gs) = some ts := by
  unfold lexTokens
  rw [lexOuts_spellWith ts gs ht hg]
  exact toTokens_outs ts ht

/-- **Layout invariance of spelled texts**: whatever the gaps, the token stream is the one of
    the single-space text (at every lexer state, for every sufficient fuel). -/
theorem lex_layout_invariant (ts : List Token) (gs : List Gap) (f : Nat) (prev : String)
    (ht : ∀ t ∈ ts, tokOK t = true) (hg : ∀ g ∈ gs, g.ok = true) (hf : ts.length + 1 ≤ f) :
    lexKL f (spellWith ts gs) prev = lexKL f (spellAll ts) prev := by
  rw [lexKL_spellWith ts gs f prev ht hg hf]
  exact (lexKL_spellWith ts [] f prev ht (by simp) hf).symm

/-- **The adapter is a left inverse of the lexer's answer**: for a well-formed token, converting
    what the lexer returns for its spelling gives the token back (type looked up among the
    `token.Type` strings, literal UTF-8 decoded). -/
theorem toToken_lex_spell (t : Token) (h : tokOK t = true) (rest : Chars) (hd : Delim rest) (prev : String) :
    toToken (scan (spell t ++ rest) prev).out = t := by
  rw [(scan_spell t h rest hd prev).1]
  exact toToken_outOf t h

/-- every `token.Type` string is looked up to its own kind (the strings are pairwise distinct) -/
theorem kindOfTyp_left_inverse (k : Kind) : kindOfTyp k.typ = k := kindOfTyp_typ k

/-! ## 2. rendered tokens are well-formed -/

/-- **`render_tokens_ok`.**  For every expression tree whose leaves are well-formed (`exprOK`:
    identifiers and method names satisfy `identOK`; integers, strings, booleans, nil are
    unrestricted) every token of its rendering — at every operand position `q`, `fl` — is
    well-formed. -/
theorem render_tokens_ok (e : Expr) (q fl : Nat) (h : exprOK e = true) :
    ∀ t ∈ render q fl e, tokOK t = true :=
  render_ok e q fl h

/-- `toString n` is a decimal literal without leading zero, for every `n` -/
theorem int_literal_ok (n : Nat) : tokOK ⟨.INT, toString n⟩ = true := intOK_toString n

/-! ## 3. end to end -/

/-- **`parse_lex_renderSrc`: parse (lex (source text of e)) = e.**  For every expression tree
    `e` of the core (literals, identifiers, 17 infix operators, prefix `-` and `!`, `in` /
    `not in`, ternary, calls, method calls, index, slice, list literals; unbounded depth) whose
    ternaries are unnested and whose leaves are well-formed: the lexer model, run on the source
    text `renderSrc e` and converted by the adapter, produces a token list without error, and
    the parser model, started at LOWEST on that list, returns exactly `e` and consumes
    everything (for every fuel from some bound on).  The token list is `renderTop e`. -/
theorem parse_lex_renderSrc (e : Expr) (he : unnested e = true) (hok : exprOK e = true) :
    ∃ ts, lexTokens (renderSrc e) = some ts ∧
      ∃ fuel, ∀ f, fuel ≤ f → parseExpr f Level.LOWEST.num ts = some (e, []) :=
  ⟨renderTop e, (lex_spell_tokens _ (render_ok e _ _ hok)).2, parse_render_all e he⟩

/-- **With layout.**  The same for the text in which the gaps between the tokens are filled
    with any well-formed gaps (any number of spaces/tabs, then any number of block comments
    with `properBody` bodies, each followed by any blanks), instead of single spaces. -/
theorem parse_lex_layout (e : Expr) (gs : List Gap) (he : unnested e = true) (hok : exprOK e = true)
    (hg : ∀ g ∈ gs, g.ok = true) :
    ∃ ts, lexTokens (spellWith (renderTop e) gs) = some ts ∧
      ∃ fuel, ∀ f, fuel ≤ f → parseExpr f Level.LOWEST.num ts = some (e, []) :=
  ⟨renderTop e, lexTokens_spellWith _ gs (render_ok e _ _ hok) hg, parse_render_all e he⟩

/-- **The text determines the tree**: two admissible trees with the same source text are equal
    (the lexer's answer on the text is a function of the text, and `render_injective`). -/
theorem renderSrc_injective (e₁ e₂ : Expr) (h₁ : unnested e₁ = true) (h₂ : unnested e₂ = true)
    (k₁ : exprOK e₁ = true) (k₂ : exprOK e₂ = true) (h : renderSrc e₁ = renderSrc e₂) : e₁ = e₂ := by
  have a := (lex_spell_tokens _ (render_ok e₁ 1 1 k₁)).2
  have b := (lex_spell_tokens _ (render_ok e₂ 1 1 k₂)).2
  rw [show spellAll (render 1 1 e₁) = renderSrc e₁ from rfl, h] at a
  rw [show spellAll (render 1 1 e₂) = renderSrc e₂ from rfl, a] at b
  injection b with b
  exact render_injective e₁ e₂ h₁ h₂ b

/-! ## 4. non-vacuity: a nested expression with every token class -/

/-- `f(a - -42, ["x \"q\"⏎\\ é", true, nil][0:], !_d1)[a in b ? false : 7] not in
    xs.append(n <= 2 ** 10)`: identifiers (with `_` and digits), integers, a string with
    escapes and a non-ASCII rune, `true false nil in not`, infix and prefix operators, ternary,
    call, method call, index, slice, list -/
private def big : Expr :=
  .notIn
    (.index
      (.call (.ident "f")
        (.cons (.infix .sub (.ident "a") (.neg (.int 42)))
          (.cons (.slice (.list (.cons (.str "x \"q\"\n\\ é") (.cons (.bool true) (.cons .nil .nil))))
              (.some (.int 0)) .none)
            (.cons (.not (.ident "_d1")) .nil))))
      (.tern (.isIn (.ident "a") (.ident "b")) (.bool false) (.int 7)))
    (.mcall (.ident "xs") "append" (.cons (.infix .le (.ident "n") (.infix .pow (.int 2) (.int 10))) .nil))

example : unnested big = true ∧ exprOK big = true := by decide +kernel
example : (renderTop big).length = 43 := by decide +kernel
set_option maxRecDepth 100000 in
/-- its source text -/
example : strOf (renderSrc big) =
    "f ( a - - 42 , [ \"x \\\"q\\\"\\n\\\\ é\" , true , nil ] [ 0 : ] , ! _d1 ) [ a in b ? false : 7 ] not in xs . append ( n <= 2 ** 10 )" := by
  decide +kernel
set_option maxRecDepth 100000 in
/-- lexed by the model and converted, it is the rendered token list … -/
example : lexTokens (renderSrc big) = some (renderTop big) := by decide +kernel
set_option maxRecDepth 100000 in
/-- … which parses back to the tree -/
example : (lexTokens (renderSrc big)).bind (parseExpr 60 1) = some (big, []) := by decide +kernel
/-- the theorem applies to it (and to `big` nested in itself any number of times) -/
example : ∃ ts, lexTokens (renderSrc (.infix .mul big (.neg big))) = some ts ∧
    ∃ fuel, ∀ f, fuel ≤ f → parseExpr f 1 ts = some (.infix .mul big (.neg big), []) :=
  parse_lex_renderSrc _ (by decide +kernel) (by decide +kernel)

/-- a layout: tabs, several blanks, a block comment (with and without blanks after it), two
    adjacent comments the second of which has a body beginning with `/`, three comments -/
private def gaps3 : List Gap :=
  [.blanks [9], .comment [32] (codes " minus ") [],
   ⟨[32, 32, 9], [(codes " c ", [32]), (codes "/ d", [])]⟩,
   ⟨[32, 9], [(codes "* x", []), ([], [9]), (codes "/*", [32])]⟩]
example : ∀ g ∈ gaps3, g.ok = true := by decide +kernel
example : strOf (spellWith (renderTop (.infix .sub (.ident "a") (.infix .mul (.int 2) (.ident "b")))) gaps3)
    = "a\t- /* minus */2  \t/* c */ /*/ d*/* \t/** x*//**/\t/*/**/ b" := by decide +kernel
example : lexTokens (spellWith (renderTop (.infix .sub (.ident "a") (.infix .mul (.int 2) (.ident "b")))) gaps3)
    = some (renderTop (.infix .sub (.ident "a") (.infix .mul (.int 2) (.ident "b")))) := by decide +kernel

/-! ## 5. why the separators and the guards are there -/

/-- the full statement without separators: the spellings simply concatenated lex back -/
def lex_concat_full : Prop :=
  ∀ ts : List Token, (∀ t ∈ ts, tokOK t = true) →
    lexTokens (ts.flatMap spell) = some ts

/-- `a - -b` printed as `a--b`: the two `-` fuse into the `--` token -/
theorem lex_concat_counterexample_fuse : ¬ lex_concat_full := by
  intro h
  have := h [⟨.IDENT, "a"⟩, tk .MINUS, tk .MINUS, ⟨.IDENT, "b"⟩] (by decide)
  revert this
  decide +kernel

/-- `98.m` (the tokens `98`, `.`, `m` of a method call on an integer literal): the lexer reads a
    malformed decimal and fails — the real lexer too (harness/c01parse.go avoids such
    receivers); with the separator (`98 . m`) the theorem applies -/
theorem lex_concat_counterexample_int_period :
    lexTokens ([⟨.INT, "98"⟩, tk .PERIOD, ⟨.IDENT, "m"⟩].flatMap spell) = none ∧
    lexTokens (spellAll [⟨.INT, "98"⟩, tk .PERIOD, ⟨.IDENT, "m"⟩]) = some [⟨.INT, "98"⟩, tk .PERIOD, ⟨.IDENT, "m"⟩] := by
  decide +kernel

/-- the keyword guard of `identOK` is needed: an identifier token spelled `in` lexes to the
    keyword; a literal with a leading zero and a digit 8 does not lex at all -/
example : lexTokens (spellAll [⟨.IDENT, "in"⟩]) = some [tk .IN] := by decide +kernel
example : tokOK ⟨.IDENT, "in"⟩ = false ∧ tokOK ⟨.INT, "08"⟩ = false ∧ tokOK ⟨.IDENT, "9a"⟩ = false := by decide +kernel
example : lexTokens (spellAll [⟨.INT, "08"⟩]) = none := by decide +kernel

/-- several comments per gap (since the repair of C20's finding `C20-adjacent-comments`; before
    it this text did not lex to `a b`, see `C20_fixed_adjacent_comments_were_tokens`) -/
example : lexTokens (codes "a /*c*/ /*d*/ b") = some [⟨.IDENT, "a"⟩, ⟨.IDENT, "b"⟩] := by decide +kernel

/-- the leading blank of a gap is needed: a `/` token directly followed by a block comment is a
    line comment -/
example : lexTokens (codes "a //* c */ b") = some [⟨.IDENT, "a"⟩] := by decide +kernel

end Risor.C20
