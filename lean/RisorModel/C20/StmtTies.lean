import RisorModel.C20.Stmt
import RisorModel.Generated.C20Stmt
/-!
C20 statement-level ties: the tables regenerated from parser/parser.go on this run (extract/c20stmt.go)
equal the tables the statement model of Stmt.lean is written against.  A newline skip added to (or
removed from) any function of the statement fragment, a changed terminator set, a changed
`switch` of `parseStatement` or a changed token test of `parseIf`/`parseReturn`/`parseBlock`/`parseVar`/
`parseDeclaration` breaks one of these.
-/
namespace Risor.C20.St
open Risor.C01.Pratt

/-- `var statementTerminators` -/
theorem terminators_tie : Risor.Generated.C20Stmt.statementTerminators = terminators.map Kind.name := by decide

/-- every function of parser.go that mentions `token.NEWLINE` or calls `eatNewlines` -/
theorem newlineSites_tie : Risor.Generated.C20Stmt.newlineSites = newlineSites := by decide

/-- of the functions of the statement fragment exactly `parseReturn` and `parseStatement` look at NEWLINE
    (the allowed-gap set of the statement level: a NEWLINE is an empty statement / ends a bare return,
    and nothing inside a statement skips one) -/
theorem stmtNewlineSites_tie :
    Risor.Generated.C20Stmt.newlineSites.filter (fun f => stmtFunctions.contains f) = stmtNewlineSites := by decide

/-- the `switch` of `parseStatement` -/
theorem statementCases_tie : Risor.Generated.C20Stmt.statementCases = statementCases.map Kind.name := by decide

theorem looksStatement_tie : Risor.Generated.C20Stmt.looks_parseStatement = looksStatement := by decide
theorem looksStrict_tie : Risor.Generated.C20Stmt.looks_parseStatementStrict = looksStrict := by decide
/-- the four peek tokens of a bare `return` are `returnEnds` -/
theorem looksReturn_tie : Risor.Generated.C20Stmt.looks_parseReturn = looksReturn := by decide
/-- `parseIf`: `{` directly behind the condition, `else` directly behind `}`, `if`/`{` directly behind `else` -/
theorem looksIf_tie : Risor.Generated.C20Stmt.looks_parseIf = looksIf := by decide
theorem looksBlock_tie : Risor.Generated.C20Stmt.looks_parseBlock = looksBlock := by decide
theorem looksVar_tie : Risor.Generated.C20Stmt.looks_parseVar = looksVar := by decide
theorem looksDeclaration_tie : Risor.Generated.C20Stmt.looks_parseDeclaration = looksDeclaration := by decide

end Risor.C20.St
