import RisorModel.C01.Pratt
/-!
C20 — parser-level newline invariance: definitions.

`renderNL L q fl e` is the printer `render q fl e` of the Pratt model (RisorModel/C01/Pratt.lean)
with a *layout* `L` that says how many NEWLINE tokens to put into each gap at which risor's
parser skips newlines.  Those gaps are (parser/parser.go, and `skipNl` in Pratt.lean):

  * after the operator token of each of the 17 binary operators handled by `parseInfixExpr`
    (`for p.curTokenIs(token.NEWLINE) { p.nextToken() }` after the operator);
  * after the `.` of a method call (`parseGetAttr`: `p.nextToken(); p.eatNewlines()`);
  * in call arguments `f(…)`, method-call arguments `o.m(…)` and list literals `[…]`
    (`parseNodeList` / `parseExprList`), when there is at least one item:
      - after the opening bracket,
      - after each `,`,
      - before the closing bracket, optionally preceded by a trailing comma
        (`item , NEWLINE* )` and `item NEWLINE* )` are both accepted).

Nothing else: not before an operator (the expression ends there), not after `?`, `:`, `in`, `not`,
a prefix `-`/`!`, not inside grouping parentheses or index/slice brackets, not before a `,`, not
between the brackets of an empty list (`parseExprList` looks for the closing bracket *before* it
skips newlines).  `ParseNewlineProps.lean` proves that the model does not return the tree for a
break before an operator (all trees), after `?`, after `in`, after the `[` of an index, after
`[:`, in `f(⏎)` (all trees), after a prefix operator or `(`, before `)`, before `]` of an index and
before `,` (every fuel); harness/c20nl.go puts a break into every other token gap of every
generated expression and compares the real parser with the model there.

Gaps are numbered from left to right in the token order of the rendering: `gaps e` is the
number of gaps of `e`; a sub-expression that starts `k` gaps into its parent is printed with
`L.drop k`.  Executable, core Lean only (linked into the oracle).
-/
namespace Risor.C20.NL
open Risor.C01 Risor.C01.Pratt

/-- A layout: the `i`-th permitted gap (left to right) receives one NEWLINE token per element of
    `nl i`, the element being the token's literal (`"\n"`, or `"\r\n"` for a CRLF line end — the
    parser never looks at it); at a gap "before the closing bracket of a non-empty list" `comma i`
    says whether a trailing comma precedes the newlines (`comma` is not consulted at the other
    gaps). -/
structure Layout where
  nl : Nat → List String
  comma : Nat → Bool

/-- number of NEWLINE tokens in gap `i` -/
def Layout.count (L : Layout) (i : Nat) : Nat := (L.nl i).length

/-- the layout seen by a sub-expression that starts `k` gaps further right -/
def Layout.drop (L : Layout) (k : Nat) : Layout := ⟨fun i => L.nl (k + i), fun i => L.comma (k + i)⟩

/-- everything on one line, no trailing commas -/
def Layout.flat : Layout := ⟨fun _ => [], fun _ => false⟩

/-- no trailing commas anywhere -/
def Layout.noComma (L : Layout) : Prop := ∀ i, L.comma i = false

/-- the layout given by two finite lists (missing entries: no newline, no comma); used by the
    oracle for the layouts the harness draws -/
def Layout.ofLists (ns : List (List String)) (cs : List Bool) : Layout :=
  ⟨fun i => ns.getD i [], fun i => cs.getD i false⟩

/-- the same from newline counts, every literal being `"\n"` -/
def Layout.ofCounts (ns : List Nat) (cs : List Bool) : Layout :=
  Layout.ofLists (ns.map fun n => List.replicate n "\n") cs

/-- one NEWLINE token per literal -/
def nls (lits : List String) : List Token := lits.map fun s => ⟨.NEWLINE, s⟩

mutual
/-- number of permitted gaps in the rendering of `e` (parentheses add none) -/
def gaps : Expr → Nat
  | .int _ | .bool _ | .nil | .str _ | .ident _ => 0
  | .infix _ l r => gaps l + 1 + gaps r
  | .neg e | .not e => gaps e
  | .tern c a b => gaps c + gaps a + gaps b
  | .isIn x c | .notIn x c => gaps x + gaps c
  | .call f args => gaps f + gapsArgs args
  | .mcall o _ args => gaps o + 1 + gapsArgs args
  | .index e i => gaps e + gaps i
  | .slice e lo hi => gaps e + gapsOpt lo + gapsOpt hi
  | .list items => gapsArgs items
/-- gaps of a bracketed item list: none when empty -/
def gapsArgs : Args → Nat
  | .nil => 0
  | .cons e es => 1 + gaps e + gapsTail es
/-- gaps after the first item: one per comma and one before the closing bracket -/
def gapsTail : Args → Nat
  | .nil => 1
  | .cons e es => 1 + gaps e + gapsTail es
def gapsOpt : Opt → Nat
  | .none => 0
  | .some e => gaps e
end

mutual
/-- `render q fl e` with the newlines (and trailing commas) of layout `L` -/
def renderNL : Layout → Nat → Nat → Expr → List Token
  | _, _, _, .int n => [⟨.INT, toString n⟩]
  | _, _, _, .bool b => [tk (if b then .TRUE else .FALSE)]
  | _, _, _, .nil => [tk .NIL]
  | _, _, _, .str s => [⟨.STRING, s⟩]
  | _, _, _, .ident x => [⟨.IDENT, x⟩]
  | L, q, fl, .infix op l r =>
    wrap (decide (q < prec (opKind op)) && decide (fl ≤ prec (opKind op))) fl fun fl' =>
      renderNL L (prec (opKind op) - 1) (prec (opKind op)) l ++ [tk (opKind op)] ++ nls (L.nl (gaps l))
        ++ renderNL (L.drop (gaps l + 1)) (prec (opKind op)) fl' r
  | L, q, fl, .neg e =>
    wrap (decide (q < Level.PREFIX.num) && decide (fl ≤ Level.PREFIX.num)) fl fun fl' =>
      [tk .MINUS] ++ renderNL L Level.PREFIX.num fl' e
  | L, q, fl, .not e =>
    wrap (decide (q < Level.PREFIX.num) && decide (fl ≤ Level.PREFIX.num)) fl fun fl' =>
      [tk .BANG] ++ renderNL L Level.PREFIX.num fl' e
  | L, q, fl, .tern c a b =>
    wrap (decide (q < Level.TERNARY.num) && decide (fl ≤ Level.LOWEST.num)) fl fun fl' =>
      renderNL L Level.TERNARY.num Level.TERNARY.num c ++ [tk .QUESTION]
        ++ renderNL (L.drop (gaps c)) Level.TERNARY.num Level.LOWEST.num a ++ [tk .COLON]
        ++ renderNL (L.drop (gaps c + gaps a)) Level.TERNARY.num fl' b
  | L, q, fl, .isIn x c =>
    wrap (decide (q < Level.PREFIX.num) && decide (fl ≤ Level.PREFIX.num)) fl fun fl' =>
      renderNL L Level.PREFIX.num Level.PREFIX.num x ++ [tk .IN]
        ++ renderNL (L.drop (gaps x)) Level.PREFIX.num fl' c
  | L, q, fl, .notIn x c =>
    wrap (decide (q < Level.PREFIX.num) && decide (fl ≤ Level.PREFIX.num)) fl fun fl' =>
      renderNL L Level.PREFIX.num Level.PREFIX.num x ++ [tk .NOT, tk .IN]
        ++ renderNL (L.drop (gaps x)) Level.PREFIX.num fl' c
  | L, _, _, .call f args =>
    renderNL L Level.PREFIX.num Level.CALL.num f ++ [tk .LPAREN] ++ renderArgsNL (L.drop (gaps f)) .RPAREN args
  | L, _, _, .mcall o name args =>
    renderNL L Level.CALL.num Level.INDEX.num o ++ [tk .PERIOD] ++ nls (L.nl (gaps o))
      ++ [⟨.IDENT, name⟩, tk .LPAREN] ++ renderArgsNL (L.drop (gaps o + 1)) .RPAREN args
  | L, _, _, .index e i =>
    renderNL L Level.CALL.num Level.INDEX.num e ++ [tk .LBRACKET]
      ++ renderNL (L.drop (gaps e)) Level.LOWEST.num Level.LOWEST.num i ++ [tk .RBRACKET]
  | L, _, _, .slice e lo hi =>
    renderNL L Level.CALL.num Level.INDEX.num e ++ [tk .LBRACKET] ++ renderOptNL (L.drop (gaps e)) lo
      ++ [tk .COLON] ++ renderOptNL (L.drop (gaps e + gapsOpt lo)) hi ++ [tk .RBRACKET]
  | L, _, _, .list items => [tk .LBRACKET] ++ renderArgsNL L .RBRACKET items
/-- the items of a bracketed list *and its closing bracket* `en` (the opening one is printed by
    the caller): gap 0 is the one after the opening bracket -/
def renderArgsNL : Layout → Kind → Args → List Token
  | _, en, .nil => [tk en]
  | L, en, .cons e es =>
    nls (L.nl 0) ++ renderNL (L.drop 1) Level.LOWEST.num Level.LOWEST.num e ++ renderTailNL (L.drop (1 + gaps e)) en es
/-- what follows an item: `,` newlines item …, or (optional trailing comma) newlines closing bracket -/
def renderTailNL : Layout → Kind → Args → List Token
  | L, en, .nil => (if L.comma 0 then [tk .COMMA] else []) ++ nls (L.nl 0) ++ [tk en]
  | L, en, .cons e es =>
    [tk .COMMA] ++ nls (L.nl 0) ++ renderNL (L.drop 1) Level.LOWEST.num Level.LOWEST.num e
      ++ renderTailNL (L.drop (1 + gaps e)) en es
def renderOptNL : Layout → Opt → List Token
  | _, .none => []
  | L, .some e => renderNL L Level.LOWEST.num Level.LOWEST.num e
end

/-- the tokens of a whole expression under layout `L` -/
def renderNLTop (L : Layout) (e : Expr) : List Token := renderNL L Level.LOWEST.num Level.LOWEST.num e

/-- erase the NEWLINE tokens -/
def stripNl (toks : List Token) : List Token := toks.filter (fun t => t.kind != .NEWLINE)

/-- number of NEWLINE tokens -/
def countNl (toks : List Token) : Nat := (toks.filter (fun t => t.kind == .NEWLINE)).length

/-- `f 0 + … + f (n-1)` -/
def sumTo : Nat → (Nat → Nat) → Nat
  | 0, _ => 0
  | n + 1, f => sumTo n f + f n

end Risor.C20.NL
