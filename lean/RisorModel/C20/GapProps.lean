import RisorModel.C20.GapLemmas
/-!
C20 — property theorems about layout at ANY token gap of ANY text, about line comments at line
ends together with the positions of what follows them, and about non-ASCII runes.

`Props.lean` states the invisibility of blanks and comments at the lexer's current read position
(`lexKL f (comment ++ rest) prev = lexKL f rest prev`, every lexer state).  The theorems here
carry that to the middle of a text: whatever text `pre` comes first — any runes, multi-byte ones
included, since the model like the lexer works on RUNES and counts offsets in runes — as long
as the end of `pre` is a token gap (decidable guards `cutsAt` / `cutsAt2` of Model.lean).
Offsets, lines and columns of the tokens after a commented line are stated too: a line comment
of `n` runes moves the offsets behind it by exactly `n` and leaves lines and columns alone.

Non-ASCII runes outside strings and comments (answered `unsupported` by earlier versions of the
model) are classified by the tables of Go's package `unicode` (Unicode.lean, tied to the
toolchain's tables): an identifier may contain every letter and digit of Unicode, its literal is
its UTF-8 text, its offsets count runes.
-/
namespace Risor.C20

/-! ## 1. what is invisible at the read position is invisible at every token gap -/

/-- **Gap congruence.**  Let `d₁ :: u₁` and `d₂ :: u₂` be two continuations that read alike at
    every lexer state (every fuel, every previous token type).  Then for EVERY text `pre` whose
    end is a token gap under both continuations (`cutsAt2`), the whole texts `pre ++ d₁ :: u₁`
    and `pre ++ d₂ :: u₂` give the same token stream (kinds and literals).  `pre` is any rune
    list: non-ASCII identifiers, strings, comments with multi-byte runes — nothing in the
    statement counts bytes. -/
theorem lex_gap_congr : ∀ (f : Nat) (pre : Chars) (d₁ d₂ : Nat) (u₁ u₂ : Chars) (prev : String),
    (∀ f' prev', lexKL f' (d₁ :: u₁) prev' = lexKL f' (d₂ :: u₂) prev') →
    cutsAt2 f pre d₁ d₂ prev = true →
    lexKL f (pre ++ d₁ :: u₁) prev = lexKL f (pre ++ d₂ :: u₂) prev
  | 0, _, _, _, _, _, _, _, _ => rfl
  | f + 1, pre, d₁, d₂, u₁, u₂, prev, heq, hc => by
    unfold cutsAt2 at hc
    by_cases hall : pre.all isBlank = true
    · have hp : allBlank pre := fun c hc' => (List.all_eq_true.1 hall) c hc'
      rw [lex_blanks_ignored _ _ _ _ hp, lex_blanks_ignored _ _ _ _ hp]
      exact heq _ _
    · simp only [hall, Bool.false_eq_true, ↓reduceIte] at hc
      have loc : ∀ (d : Nat) (X : Chars), (scan (pre ++ [d]) prev).seen ≤ pre.length + 1 →
          scan (pre ++ d :: X) prev = scan (pre ++ [d]) prev := by
        intro d X hseen
        have := scan_local (pre ++ [d]) [] X prev (by simpa using hseen)
        simpa using this
      cases hout : (scan (pre ++ [d₁]) prev).out with
      | tok k l =>
        simp only [hout, Bool.and_eq_true, decide_eq_true_eq, beq_iff_eq] at hc
        obtain ⟨⟨⟨⟨⟨⟨hk, hn⟩, hs1⟩, hs2⟩, ho⟩, hnx⟩, hrec⟩ := hc
        have l1 := loc d₁ u₁ hs1
        have l2 := loc d₂ u₂ hs2
        rw [lexKL_succ, lexKL_succ, l1, l2, ho, hout, hnx]
        have hk' : (k == "EOF") = false := by simpa using hk
        simp only [hk', Bool.false_eq_true, ↓reduceIte]
        rw [List.drop_append_of_le_length hn, List.drop_append_of_le_length hn]
        rw [lex_gap_congr f (pre.drop (scan (pre ++ [d₁]) prev).next) d₁ d₂ u₁ u₂ k heq hrec]
      | errT k l c => simp [hout] at hc
      | err c => simp [hout] at hc

/-- the one-delimiter guard of `lex_space_invariant` is the two-delimiter guard with both
    delimiters equal -/
theorem cutsAt2_self : ∀ (f : Nat) (pre : Chars) (b : Nat) (prev : String),
    cutsAt f pre b prev = true → cutsAt2 f pre b b prev = true
  | 0, _, _, _, h => by simp [cutsAt] at h
  | f + 1, pre, b, prev, h => by
    unfold cutsAt at h
    unfold cutsAt2
    by_cases hall : pre.all isBlank = true
    · simp [hall]
    · simp only [hall, Bool.false_eq_true, ↓reduceIte] at h ⊢
      cases hout : (scan (pre ++ [b]) prev).out with
      | tok k l =>
        simp only [hout, Bool.and_eq_true, decide_eq_true_eq] at h
        obtain ⟨⟨⟨hk, hn⟩, hs⟩, hrec⟩ := h
        have ih := cutsAt2_self f _ b k hrec
        simp only [Bool.and_eq_true, decide_eq_true_eq, beq_self_eq_true, and_true]
        exact ⟨⟨⟨⟨hk, hn⟩, hs⟩, hs⟩, ih⟩
      | errT k l c => simp [hout] at h
      | err c => simp [hout] at h

/-! ## 2. line comments at the end of any line of any text -/

/-- **A line comment set directly after the last token of a line changes nothing** — for every
    text `pre` before it (any runes; `cutsAt2 … 35 10` / `cutsAt2 … 47 10`: the end of `pre` is
    a token gap whether a `#`, a `/` or the newline follows), every comment text `body` (any
    runes but newline and NUL) and every text `rest` after the line: the token stream of
    `pre #body⏎ rest` and of `pre //body⏎ rest` is that of `pre ⏎ rest`. -/
theorem lex_line_comment_at_line_end (f : Nat) (pre body rest : Chars) (prev : String)
    (hb : ∀ c ∈ body, c ≠ 10 ∧ c ≠ 0) :
    (cutsAt2 f pre 35 10 prev = true →
      lexKL f (pre ++ 35 :: (body ++ 10 :: rest)) prev = lexKL f (pre ++ 10 :: rest) prev) ∧
    (cutsAt2 f pre 47 10 prev = true →
      lexKL f (pre ++ 47 :: (47 :: body ++ 10 :: rest)) prev = lexKL f (pre ++ 10 :: rest) prev) := by
  constructor
  · intro hc
    apply lex_gap_congr f pre 35 10 _ _ prev _ hc
    intro f' prev'
    have := (lex_line_comment_invariant f' body rest prev' hb).2
    simpa using this
  · intro hc
    apply lex_gap_congr f pre 47 10 _ _ prev _ hc
    intro f' prev'
    have := (lex_line_comment_invariant f' body rest prev' hb).1
    simpa using this

/-- **… and so does a line comment after blanks** (`x := 1  // c`), and after blanks and any
    number of block comments: for every text `pre` whose end, followed by the blank `b`, is a
    token gap (`cutsAt`, the guard of `lex_space_invariant`), every run of blanks `ws`, every
    list of block comments `cs` (each a proper body, blanks after each), every comment text
    `body` and every `rest`: `pre b ws /*…*/… //body⏎ rest` reads as `pre b ⏎ rest`, and so does
    the `#` form. -/
theorem lex_line_comment_after_blanks (f : Nat) (pre : Chars) (b : Nat) (ws : Chars)
    (cs : List (Chars × Chars)) (body rest : Chars) (prev : String)
    (hbl : isBlank b = true) (hws : allBlank ws) (hcs : commentRunOk cs = true)
    (hb : ∀ c ∈ body, c ≠ 10 ∧ c ≠ 0) (hc : cutsAt f pre b prev = true) :
    lexKL f (pre ++ b :: (ws ++ (commentRun cs ++ ([47, 47] ++ body ++ 10 :: rest)))) prev
      = lexKL f (pre ++ b :: (10 :: rest)) prev ∧
    lexKL f (pre ++ b :: (ws ++ (commentRun cs ++ (35 :: body ++ 10 :: rest)))) prev
      = lexKL f (pre ++ b :: (10 :: rest)) prev := by
  have hc2 := cutsAt2_self f pre b prev hc
  have key : ∀ (X : Chars), (∀ f' prev', lexKL f' X prev' = lexKL f' (10 :: rest) prev') →
      lexKL f (pre ++ b :: (ws ++ X)) prev = lexKL f (pre ++ b :: (10 :: rest)) prev := by
    intro X hX
    apply lex_gap_congr f pre b b _ _ prev _ hc2
    intro f' prev'
    have e1 : b :: (ws ++ X) = (b :: ws) ++ X := by simp
    have e2 : b :: 10 :: rest = [b] ++ (10 :: rest) := by simp
    have a1 : allBlank (b :: ws) := by
      intro c hc'
      simp only [List.mem_cons] at hc'
      rcases hc' with h | h
      · exact h ▸ hbl
      · exact hws c h
    have a2 : allBlank [b] := by
      intro c hc'
      simp only [List.mem_cons, List.not_mem_nil, or_false] at hc'
      exact hc' ▸ hbl
    rw [e1, e2, lex_blanks_ignored _ _ _ _ a1, lex_blanks_ignored _ _ _ _ a2]
    exact hX f' prev'
  exact ⟨key _ (fun f' prev' => (lex_comments_then_line_comment f' cs body rest prev' hcs hb).1),
         key _ (fun f' prev' => (lex_comments_then_line_comment f' cs body rest prev' hcs hb).2)⟩

/-- non-vacuity, with multi-byte runes BEFORE the comment and inside it.
    `s := "é"` + ` # café` + newline + `y`: the runes `s`, ` `, `:=`, ` `, `"é"` (é = 233, two
    bytes in UTF-8), then the blank, the comment ` café` (c a f é) and the next line.  The guard
    holds and the theorem gives the token stream of `s := "é" ⏎y`. -/
example : cutsAt 9 [115, 32, 58, 61, 32, 34, 233, 34] 32 "" = true := by decide
example : lexKL 9 ([115, 32, 58, 61, 32, 34, 233, 34] ++ 32 :: ([] ++ (commentRun [] ++ (35 :: [32, 99, 97, 102, 233] ++ 10 :: [121])))) ""
    = lexKL 9 ([115, 32, 58, 61, 32, 34, 233, 34] ++ 32 :: (10 :: [121])) "" :=
  (lex_line_comment_after_blanks 9 _ 32 [] [] _ _ "" (by decide) (by decide) (by decide) (by decide) (by decide)).2
/-- … the same directly after the token, without a blank: `é1#→⏎y` (identifier `é1`) -/
example : cutsAt2 9 [233, 49] 35 10 "" = true := by decide
example : lexKL 9 ([233, 49] ++ 35 :: ([8594] ++ 10 :: [121])) "" = lexKL 9 ([233, 49] ++ 10 :: [121]) "" :=
  (lex_line_comment_at_line_end 9 _ _ _ "" (by decide)).1 (by decide)
/-- the guard is needed: `4 /` followed directly by `// c`: the three slashes are read as the
    comment opener `//` followed by `/ c` — the division sign is lost.  The end of `4 /` is not a
    token gap for a text that goes on with `/`, and `cutsAt2` says so. -/
example : cutsAt2 9 [52, 32, 47] 47 10 "" = false := by decide

/-! ## 3. … with positions: a comment of `n` runes moves what follows by `n` runes, on the same
      lines and columns -/

/-- **Offsets behind a line comment.**  At every lexer state the positional token stream of
    `#body⏎rest` read at offset `base` is the positional stream of `⏎rest` read at offset
    `base + 1 + |body|`; for `//body⏎rest` at `base + 2 + |body|`.  `|body|` is the number of
    RUNES of the comment text: every token behind the comment has exactly the offsets it has
    when the newline stands that many runes further on, whatever the runes are. -/
theorem lexPos_line_comment (f : Nat) (body rest : Chars) (base : Nat) (prev : String)
    (hb : ∀ c ∈ body, c ≠ 10 ∧ c ≠ 0) :
    lexPos f (35 :: body ++ 10 :: rest) base prev = lexPos f (10 :: rest) (base + (body.length + 1)) prev ∧
    lexPos f ([47, 47] ++ body ++ 10 :: rest) base prev = lexPos f (10 :: rest) (base + (body.length + 2)) prev := by
  cases f with
  | zero => exact ⟨rfl, rfl⟩
  | succ f =>
    constructor
    · rw [lexPos_succ, lexPos_succ, scan_hash_comment body rest prev hb, scan_newline]
      simp only [show (("EOL" : String) == "EOF") = false by decide, Bool.false_eq_true, ↓reduceIte]
      have e : 35 :: body ++ 10 :: rest = (35 :: body ++ [10]) ++ rest := by simp
      have hl : body.length + 2 = (35 :: body ++ [10]).length + 0 := by simp
      rw [e, hl, drop_add_append]
      simp only [List.drop_zero, List.drop_succ_cons, Nat.add_zero]
      have hlen : base + (35 :: body ++ [10]).length = base + (body.length + 1) + 1 := by
        simp only [List.length_cons, List.length_append, List.length_nil]; omega
      rw [hlen]
    · rw [lexPos_succ, lexPos_succ, scan_slash_comment body rest prev hb, scan_newline]
      simp only [show (("EOL" : String) == "EOF") = false by decide, Bool.false_eq_true, ↓reduceIte]
      have e : [47, 47] ++ body ++ 10 :: rest = ([47, 47] ++ body ++ [10]) ++ rest := by simp
      have hl : body.length + 3 = ([47, 47] ++ body ++ [10]).length + 0 := by simp
      rw [e, hl, drop_add_append]
      simp only [List.drop_zero, List.drop_succ_cons, Nat.add_zero]
      have hlen : base + ([47, 47] ++ body ++ [10]).length = base + (body.length + 2) + 1 := by
        simp only [List.length_cons, List.length_append, List.length_nil]; omega
      rw [hlen]

/-- **Lines and columns behind a commented line.**  Let `cm` be any text without a newline (a
    line comment with the blanks in front of it, say) inserted before the newline that ends a
    line: `pre cm ⏎ rest` against `pre ⏎ rest`.  Every offset up to the end of `pre` has the
    same position in both texts; every offset `k` runes behind the newline has, in the text with
    the comment, the position it has in the text without it moved by `|cm|` runes
    (`Pos.shift`): same line, same column, offset and line start `|cm|` larger.  So a token or a
    diagnostic behind a commented line is reported on the line and column it is reported on
    without the comment. -/
theorem positions_after_line_comment (pre cm rest : Chars) (hcm : ∀ c ∈ cm, c ≠ 10) :
    (∀ off, off ≤ pre.length → posAt (pre ++ (cm ++ 10 :: rest)) off = posAt (pre ++ 10 :: rest) off) ∧
    (∀ k, k ≤ rest.length →
      posAt (pre ++ (cm ++ 10 :: rest)) (pre.length + cm.length + 1 + k)
        = (posAt (pre ++ 10 :: rest) (pre.length + 1 + k)).shift cm.length) := by
  constructor
  · intro off h
    rw [posAt_le _ _ (by simp; omega), posAt_le _ _ (by simp; omega)]
    rw [List.take_append_of_le_length h, List.take_append_of_le_length h]
  · intro k hk
    rw [posAt_le _ _ (by simp; omega), posAt_le _ _ (by simp; omega)]
    have t1 : (pre ++ (cm ++ 10 :: rest)).take (pre.length + cm.length + 1 + k)
        = pre ++ (cm ++ (10 :: rest.take k)) := by
      have e : pre ++ (cm ++ 10 :: rest) = (pre ++ cm ++ [10]) ++ rest := by simp
      have hl : pre.length + cm.length + 1 + k = (pre ++ cm ++ [10]).length + k := by simp; omega
      rw [e, hl, List.take_length_add_append]
      simp
    have t2 : (pre ++ 10 :: rest).take (pre.length + 1 + k) = pre ++ (10 :: rest.take k) := by
      have e : pre ++ 10 :: rest = (pre ++ [10]) ++ rest := by simp
      have hl : pre.length + 1 + k = (pre ++ [10]).length + k := by simp
      rw [e, hl, List.take_length_add_append]
      simp
    rw [t1, t2, advance_append, advance_append, advance_append, advance_no_newline cm _ hcm]
    generalize advance ⟨0, 0, 0, 0⟩ pre = p
    simp only [advance, beq_self_eq_true, ↓reduceIte]
    have : (⟨p.char + cm.length + 1, p.line + 1, 0, p.char + cm.length + 1⟩ : Pos)
        = (⟨p.char + 1, p.line + 1, 0, p.char + 1⟩ : Pos).shift cm.length := by
      simp only [Pos.shift]
      congr 1 <;> omega
    rw [this, advance_shift]

/-- `s := "é" # café⏎y`: the `y` of line 2 sits at offset 17 = 10 + 7 (the comment with its blank
    has 7 RUNES — 8 bytes), line 2, column 1, line start 17; without the comment at offset 10 -/
example :
    posAt ([115, 32, 58, 61, 32, 34, 233, 34] ++ ([32, 35, 32, 99, 97, 102, 233] ++ 10 :: [121])) 16 = ⟨16, 1, 0, 16⟩ ∧
    posAt ([115, 32, 58, 61, 32, 34, 233, 34] ++ 10 :: [121]) 9 = ⟨9, 1, 0, 9⟩ := by decide

/-! ## 4. non-ASCII runes outside strings and comments -/

/-- **Identifiers over all of Unicode.**  For every first rune `c` that `isIdentifier` accepts
    and that is not an ASCII digit, every list `cs` of further identifier runes (ASCII letters,
    digits, `_`, or any rune `unicode.IsLetter` / `unicode.IsDigit` accepts) and every ASCII rune
    `d` that is not an identifier rune (a blank, a newline, an operator, `#`, the end of input
    `0`, …) followed by anything: one call of `Next` returns ONE identifier token (a keyword
    where the text is one) whose literal is the UTF-8 text of `c :: cs`, which begins at offset
    0, ends at the offset of its last RUNE (`|cs|`) and leaves the lexer on `d`, having looked
    at nothing behind `d`. -/
theorem lex_unicode_identifier (c : Nat) (cs rest : Chars) (d : Nat) (prev : String)
    (h1 : identRune c = true) (hnd : isDigit c = false) (h2 : ∀ x ∈ cs, identRune x = true)
    (hd1 : d ≤ 127) (hd2 : isIdent d = false) :
    scan (c :: cs ++ d :: rest) prev =
      ⟨.tok (identKind (utf8s (c :: cs)) prev) (utf8s (c :: cs)), 0, cs.length, cs.length + 1, cs.length + 2⟩ := by
  have hstart : stepChar (.start false) c = .more (.ident (utf8 c)) true := by
    unfold identRune at h1
    by_cases hc : c > 127
    · simp only [hc, ↓reduceIte] at h1
      exact step_start_uident hc h1
    · simp only [hc, ↓reduceIte] at h1
      rw [utf8_ascii hc]
      apply step_start_identFirst' c (by omega)
      simp only [isIdent, Bool.or_eq_true] at h1
      rcases h1 with (h | h) | h
      · simp [h]
      · rw [hnd] at h; exact absurd h (by simp)
      · simp [h]
  have hdelim : stepChar (.ident (utf8 c ++ utf8s cs)) d = .emit "IDENT?" (utf8 c ++ utf8s cs) .pushback false := by
    simp [stepChar, show ¬ d > 127 by omega, hd2]
  unfold scan
  have e : c :: cs ++ d :: rest = c :: (cs ++ d :: rest) := by simp
  rw [e, run_cons_more _ 0 0 hstart]
  rw [run_ident_runes cs (utf8 c) (d :: rest) (0 + 1) _ h2]
  simp only [run, hdelim, finish, ↓reduceIte, Bool.false_eq_true]
  simp only [fixOut, utf8s, List.flatMap_cons]
  congr 1 <;> omega

/-- a non-ASCII rune that is neither a letter nor a digit cannot begin a token, whatever follows:
    the lexer reports `invalid identifier` (as it does for `@`, `$`, `^`) -/
theorem lex_nonident_rune_refused (c : Nat) (rest : Chars) (prev : String)
    (hc : c > 127) (h : uIdent c = false) :
    (scan (c :: rest) prev).out = .err "invalid-identifier" := by
  unfold scan
  simp only [run, step_start_nonident hc h, finish, fixOut]

/-- non-vacuity on the classes: `é` (233), `λ` (955), `字` (23383), the Arabic-Indic digit `٣`
    (1635) are identifier runes; `→` (8594), `×` (215), `½` (189, a number but not a digit) and the
    emoji U+1F600 are not; `½` may not follow a number, `→` may -/
example : identRune 233 = true ∧ identRune 955 = true ∧ identRune 23383 = true ∧ identRune 1635 = true ∧
    identRune 8594 = false ∧ identRune 215 = false ∧ identRune 189 = false ∧ identRune 0x1F600 = false ∧
    uNumTrail 189 = true ∧ uNumTrail 8594 = false := by decide +kernel

/-- `größe := 1`: one identifier of 5 runes (6 bytes), then ` := 1` -/
example : scan ([103, 114, 246, 223, 101] ++ 32 :: [58, 61, 32, 49]) ""
    = ⟨.tok "IDENT" [103, 114, 195, 182, 195, 159, 101], 0, 4, 5, 6⟩ := by decide +kernel

end Risor.C20
