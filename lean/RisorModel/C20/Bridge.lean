import RisorModel.C20.Model
import RisorModel.C01.Pratt
/-!
C20 / C01 — the bridge between the two halves of the front end.

`Model.lean` is the CHARACTER-level lexer machine (`scan`, `lexKL`, `lexAll`); C01's `Pratt.lean`
is the TOKEN-level parser model with its printer `render : Expr → List Token`.  This file defines
what joins them:

* `spell : Token → Chars` — the canonical source spelling of a token: the literal text for
  identifiers, integers, operators, punctuation and keywords; for a string literal the value
  between double quotes with the escapes of `spellChar`;
* `spellWith ts gaps` — the spellings separated by the given gaps (a gap = blanks, then any
  number of block comments, each followed by blanks), by a single space where no gap is given; `spellAll ts` = single spaces
  everywhere; `renderSrc e = spellAll (renderTop e)` — the source text of an expression tree;
* `tokOK` — the decidable well-formedness of a token (what the lexer can produce from a spelling);
  `exprOK` — the leaves of a tree are well-formed;
* `toToken : Out → Token` — the adapter from the lexer model's output (token type as a string,
  literal as bytes) to the parser model's tokens: the type is looked up among `token.Type`
  values, the literal is UTF-8 decoded — the conversion harness/c01parse.go applies to the REAL
  lexer's tokens (`Hex(Type):Hex(Literal)` decoded by `decodeToken`), compared with it on every
  generated expression by the oracle request `C20 bridge`;
* `lexTokens src` — `lexAll src` converted, without the final EOF (the parser model's end of
  input is the empty list); `none` when the lexer reports an error.

The theorems are in BridgeProps.lean.  Executable, core Lean only.
-/
namespace Risor.C20
open Risor.C01.Pratt

/-- the code points of a string -/
def codes (s : String) : Chars := s.toList.map Char.toNat

/-! ### spelling -/

/-- how one rune of a string value is written between double quotes: the lexer's one-letter
    escapes for the runes that have one, `\x00` for NUL (a NUL rune is the lexer's end of
    input), the rune itself otherwise (non-ASCII runes included) -/
def spellChar (c : Nat) : Chars :=
  if c == 34 then [92, 34]          -- \"
  else if c == 92 then [92, 92]     -- \\
  else if c == 10 then [92, 110]    -- \n
  else if c == 13 then [92, 114]    -- \r
  else if c == 9 then [92, 116]     -- \t
  else if c == 7 then [92, 97]      -- \a
  else if c == 8 then [92, 98]      -- \b
  else if c == 12 then [92, 102]    -- \f
  else if c == 11 then [92, 118]    -- \v
  else if c == 27 then [92, 101]    -- \e
  else if c == 0 then [92, 120, 48, 48]   -- \x00
  else [c]

/-- a string value between double quotes -/
def spellStr (cs : Chars) : Chars := 34 :: (cs.flatMap spellChar ++ [34])

/-- the canonical source spelling of a token -/
def spell (t : Token) : Chars :=
  match t.kind with
  | .STRING => spellStr (codes t.lit)
  | _ => codes t.lit

/-! ### gaps and texts -/

/-- what may stand between two tokens — everything the lexer skips inside one line: a run of
    blanks (`lead`), then any number of block comments, each followed by a run of blanks
    (`comments`: body, blanks after the comment).  Every sequence of blank runs and block
    comments that begins with a blank has this form.  (Before the repair of
    `C20-adjacent-comments` a gap held at most ONE comment.) -/
structure Gap where
  lead : Chars
  comments : List (Chars × Chars)
  deriving DecidableEq, Repr

/-- blanks only -/
def Gap.blanks (ws : Chars) : Gap := ⟨ws, []⟩

/-- blanks, one block comment, blanks -/
def Gap.comment (ws₁ body ws₂ : Chars) : Gap := ⟨ws₁, [(body, ws₂)]⟩

def Gap.text (g : Gap) : Chars := g.lead ++ commentRun g.comments

/-- a gap begins with at least one space or tab (it delimits the token before it); every
    comment body satisfies `properBody` (no `*/` inside, no NUL: the hypothesis of
    `lex_block_comment_invariant`), every separator is made of spaces and tabs -/
def Gap.ok (g : Gap) : Bool :=
  !g.lead.isEmpty && g.lead.all isBlank && commentRunOk g.comments

/-- the spellings of `ts` separated by the gaps `gs` in turn (a single space once they run out);
    nothing before the first token or after the last -/
def spellWith : List Token → List Gap → Chars
  | [], _ => []
  | [t], _ => spell t
  | t :: t' :: ts, [] => spell t ++ (32 :: spellWith (t' :: ts) [])
  | t :: t' :: ts, g :: gs => spell t ++ (g.text ++ spellWith (t' :: ts) gs)

/-- what may follow a spelled token: the end of the text, or a space/tab -/
def Delim (rest : Chars) : Prop := rest = [] ∨ ∃ b r, rest = b :: r ∧ isBlank b = true

/-- the spellings joined by single spaces -/
def spellAll (ts : List Token) : Chars := spellWith ts []

/-- the source text of an expression tree: the spellings of its rendered tokens, joined by
    single spaces -/
def renderSrc (e : Expr) : Chars := spellAll (renderTop e)

/-! ### well-formed tokens -/

/-- identifier text: a letter or `_`, then letters, digits, `_` (ASCII), and not a keyword -/
def identOK (s : String) : Bool :=
  match codes s with
  | [] => false
  | c :: cs => (isLetter c || c == 95) && cs.all isIdent && !(keywords.any fun e => e.1 == s)

/-- decimal integer literal without a leading zero (`0` itself included) -/
def intOK (s : String) : Bool :=
  match codes s with
  | [] => false
  | [c] => isDigit c
  | c :: cs => isDigit c && c != 48 && cs.all isDigit

/-- token kinds with a fixed text that is both their spelling and their literal: all 39
    operator and punctuation kinds, and the keywords whose `Kind.text` is the source word -/
def fixedKinds : List Kind :=
  [.AND, .ASSIGN, .ASTERISK, .ASTERISK_EQUALS, .BANG, .COLON, .COMMA, .DECLARE, .EQ, .GT, .GT_GT,
   .GT_EQUALS, .LBRACE, .LBRACKET, .LPAREN, .LT, .LT_LT, .LT_EQUALS, .MINUS, .MINUS_EQUALS,
   .MINUS_MINUS, .MOD, .NOT_EQ, .PIPE, .OR, .PERIOD, .PLUS, .AMPERSAND, .PLUS_EQUALS, .PLUS_PLUS,
   .POW, .QUESTION, .RBRACE, .RBRACKET, .RPAREN, .SEMICOLON, .SEND, .SLASH, .SLASH_EQUALS,
   .TRUE, .FALSE, .NIL, .IN, .NOT, .CASE, .SWITCH]

/-- `tokOK t`: `t` is a token the lexer produces from `spell t` -/
def tokOK (t : Token) : Bool :=
  match t.kind with
  | .IDENT => identOK t.lit
  | .INT => intOK t.lit
  | .STRING => true
  | k => fixedKinds.contains k && t.lit == k.text

mutual
/-- the leaves of the tree are well-formed: identifiers and method names satisfy `identOK`
    (integers are printed by `toString`, strings are arbitrary) -/
def exprOK : Expr → Bool
  | .int _ | .bool _ | .nil | .str _ => true
  | .ident x => identOK x
  | .infix _ l r => exprOK l && exprOK r
  | .neg e | .not e => exprOK e
  | .tern c a b => exprOK c && exprOK a && exprOK b
  | .isIn x c | .notIn x c => exprOK x && exprOK c
  | .call f args => exprOK f && argsOK args
  | .mcall o name args => exprOK o && identOK name && argsOK args
  | .index e i => exprOK e && exprOK i
  | .slice e lo hi => exprOK e && optOK lo && optOK hi
  | .list items => argsOK items
def argsOK : Args → Bool
  | .nil => true
  | .cons e es => exprOK e && argsOK es
def optOK : Opt → Bool
  | .none => true
  | .some e => exprOK e
end

/-! ### what the lexer answers for a spelled token -/

/-- the literal the lexer records: the UTF-8 bytes of a string's value, the text otherwise -/
def litBytes (t : Token) : List Nat :=
  match t.kind with
  | .STRING => utf8s (codes t.lit)
  | _ => codes t.lit

def outOf (t : Token) : Out := .tok t.kind.typ (litBytes t)

/-! ### the adapter -/

/-- `token.Type` string ↦ kind (`ILLEGAL` for a string that is no token type) -/
def kindOfTyp (s : String) : Kind := (Kind.all.find? fun k => k.typ == s).getD .ILLEGAL

/-- UTF-8 decoding (`fuel` ≥ number of bytes); a truncated or impossible sequence decodes to
    U+FFFD (such literals are not compared) -/
def decodeF : Nat → List Nat → Chars
  | 0, _ => []
  | _, [] => []
  | f + 1, b :: bs =>
    if b < 0x80 then b :: decodeF f bs
    else if b < 0xE0 then
      match bs with
      | b1 :: r => ((b - 0xC0) * 64 + (b1 - 0x80)) :: decodeF f r
      | _ => [0xFFFD]
    else if b < 0xF0 then
      match bs with
      | b1 :: b2 :: r => ((b - 0xE0) * 4096 + (b1 - 0x80) * 64 + (b2 - 0x80)) :: decodeF f r
      | _ => [0xFFFD]
    else
      match bs with
      | b1 :: b2 :: b3 :: r =>
        ((b - 0xF0) * 262144 + (b1 - 0x80) * 4096 + (b2 - 0x80) * 64 + (b3 - 0x80)) :: decodeF f r
      | _ => [0xFFFD]

/-- the literal as the parser model's `String` -/
def bytesToString (bs : List Nat) : String := strOf (decodeF bs.length bs)

/-- **the adapter**: a lexer output as a token of the parser model.  Total; the outputs that
    carry an error map to `ILLEGAL` (and `toTokens` refuses the stream). -/
def toToken : Out → Token
  | .tok k l => ⟨kindOfTyp k, bytesToString l⟩
  | .errT _ l _ => ⟨.ILLEGAL, bytesToString l⟩
  | .err _ => ⟨.ILLEGAL, ""⟩

/-- the token list handed to the parser: everything before the EOF token; `none` if the lexer
    reported an error (the real parser then fails with that error) -/
def toTokens : List Out → Option (List Token)
  | [] => some []
  | .tok k l :: rest =>
    if k == "EOF" then some [] else (toTokens rest).map (toToken (.tok k l) :: ·)
  | _ :: _ => none

/-- kinds and literals of the whole source, as compared with the real lexer (`lexAll`) -/
def lexOuts (src : Chars) : List Out := (lexAll src).map (·.out)

/-- lexer model, then adapter -/
def lexTokens (src : Chars) : Option (List Token) := toTokens (lexOuts src)

end Risor.C20
