import RisorModel.C20.ParseNewlineLemmas
/-!
C20 — parser level: breaking a line where the grammar accepts it never changes the syntax tree.

Stated over the token-level model of risor's Pratt expression parser (`parseExpr`,
RisorModel/C01/Pratt.lean — tied to parser/parser.go by the regenerated precedence table,
registrations and parse levels of C01's PrattTies, and run on the REAL lexer's tokens of every
generated expression, with and without newlines, by harness/c01parse.go and harness/c20nl.go).

`renderNL L q fl e` (ParseNewline.lean) is the printed form of the tree `e` with one NEWLINE token
per element of `L.nl i` (the element is the token's literal, `"\n"` or `"\r\n"`) in the `i`-th
*permitted* gap, counted from the left, and — where `L.comma i` says so — a
trailing comma before the newlines that precede the closing bracket of a non-empty list.
Permitted gaps, exactly the places where parser.go skips newlines inside an expression of the
core:
  * after the operator token of `+ - * / % ** << >> & < <= > >= == != && ||`  (`parseInfixExpr`);
  * after the `.` of a method call                                            (`parseGetAttr`);
  * in call arguments, method-call arguments and list literals with at least one item
    (`parseNodeList`/`parseExprList`): after the opening bracket, after each `,`, and before the
    closing bracket (with or without a trailing comma).
The theorems quantify over ALL layouts (`Layout` is a pair of arbitrary functions: any number of
newlines in any gap), ALL trees of the expression core with unnested ternaries (the class of
`parse_render`; unbounded depth) and all continuations that do not extend the expression.

That the permitted set is tight is shown by `newline_before_operator_ends_expression` (general)
and the `*_fails` / `*_not_skipped` counterexamples at the end: every other gap of a rendering makes the parse
stop early or fail.
-/
namespace Risor.C20.NL
open Risor.C01 Risor.C01.Pratt

/-- **Newline invariance (`parse_newline_invariant`).**  For every expression tree `e` whose
    ternaries are unnested, EVERY layout `L` and every continuation `rest` that does not extend
    the expression (empty, or first token without an infix function: EOF, a newline, `)`, `]`,
    `,`, `:`, `;`, `}` …) there is a fuel from which on the parser, started at LOWEST with the
    `tern` flag clear on the tokens of `e` laid out by `L`, followed by `rest`, returns exactly
    `e` and leaves exactly `rest`. -/
theorem parse_newline_invariant (e : Expr) (L : Layout) (rest : List Token)
    (he : unnested e = true) (hr : stopsExpr rest = true) :
    ∃ fuel, ∀ f, fuel ≤ f →
      parseExpr f Level.LOWEST.num (renderNLTop L e ++ rest) = some (e, rest) := by
  have hr' := (stopsExpr_iff_firstOp rest).1 hr
  obtain ⟨N, h⟩ := InvNL.doneLowest (invNL_all e) L (t := false) (by simpa [okT] using he) hr'
  exact ⟨N, fun f hf => h f hf⟩

/-- the whole input is the expression -/
theorem parse_newline_invariant_all (e : Expr) (L : Layout) (he : unnested e = true) :
    ∃ fuel, ∀ f, fuel ≤ f → parseExpr f Level.LOWEST.num (renderNLTop L e) = some (e, []) := by
  simpa using parse_newline_invariant e L [] he rfl

/-- **Operand positions.**  The same at every precedence level and with the `tern` flag in
    either state (inside a ternary's branches the tree must contain no ternary): the text laid
    out for an operand position of level `q` followed by a token of precedence at most `fl`,
    parsed at a level `p ≤ q` with `fl ≤ p`, gives the tree back. -/
theorem parse_newline_invariant_operand (e : Expr) (L : Layout) (t : Bool) (q fl p : Nat)
    (rest : List Token) (he : okT t e = true) (hpq : p ≤ q) (hp : p ≤ Level.PREFIX.num)
    (hfl : fl ≤ p) (hr : firstOp rest ≤ fl) :
    ∃ fuel, ∀ f, fuel ≤ f → parseNode f t p (renderNL L q fl e ++ rest) = some (e, rest) :=
  (invNL_all e L t q fl p rest he hpq hp hr).done (by omega)

/-- **Any two layouts of the same tree parse alike** (and to that tree): from some fuel on the
    parser returns the same result on both token lists. -/
theorem layouts_agree (e : Expr) (L₁ L₂ : Layout) (rest : List Token)
    (he : unnested e = true) (hr : stopsExpr rest = true) :
    ∃ fuel, ∀ f, fuel ≤ f →
      parseExpr f Level.LOWEST.num (renderNLTop L₁ e ++ rest)
        = parseExpr f Level.LOWEST.num (renderNLTop L₂ e ++ rest) ∧
      parseExpr f Level.LOWEST.num (renderNLTop L₁ e ++ rest) = some (e, rest) := by
  obtain ⟨f₁, h₁⟩ := parse_newline_invariant e L₁ rest he hr
  obtain ⟨f₂, h₂⟩ := parse_newline_invariant e L₂ rest he hr
  refine ⟨f₁ + f₂, fun f hf => ?_⟩
  rw [h₁ f (by omega), h₂ f (by omega)]
  exact ⟨rfl, rfl⟩

/-- the flat layout (no newline, no trailing comma) is the one-line printer of C01 -/
theorem renderNLTop_flat (e : Expr) : renderNLTop Layout.flat e = renderTop e :=
  renderNL_flat e _ _

/-- **Breaking lines does not change the tree**: a laid-out text parses to what the one-line
    text parses to. -/
theorem newline_variant_parses_as_one_line (e : Expr) (L : Layout) (rest : List Token)
    (he : unnested e = true) (hr : stopsExpr rest = true) :
    ∃ fuel, ∀ f, fuel ≤ f →
      parseExpr f Level.LOWEST.num (renderNLTop L e ++ rest)
        = parseExpr f Level.LOWEST.num (renderTop e ++ rest) := by
  obtain ⟨N, h⟩ := layouts_agree e L Layout.flat rest he hr
  refine ⟨N, fun f hf => ?_⟩
  rw [← renderNLTop_flat]
  exact (h f hf).1

/-- C01's round trip `parse_render` is the special case of the flat layout (proved again from
    `parse_newline_invariant`, not from C01's theorem). -/
theorem parse_render_of_newline_invariant (e : Expr) (rest : List Token) (he : unnested e = true)
    (hr : stopsExpr rest = true) :
    ∃ fuel, ∀ f, fuel ≤ f → parseExpr f Level.LOWEST.num (renderTop e ++ rest) = some (e, rest) := by
  rw [← renderNLTop_flat]
  exact parse_newline_invariant e Layout.flat rest he hr

/-- … and `parse_render_all` likewise -/
theorem parse_render_all_of_newline_invariant (e : Expr) (he : unnested e = true) :
    ∃ fuel, ∀ f, fuel ≤ f → parseExpr f Level.LOWEST.num (renderTop e) = some (e, []) := by
  rw [← renderNLTop_flat]
  exact parse_newline_invariant_all e Layout.flat he

/-- **A layout adds nothing but NEWLINE tokens**: erasing them from a rendering without
    trailing commas gives the one-line rendering, for every tree and layout.  (So `renderNL`
    really is "the same text with line breaks", not some other printer.) -/
theorem stripNl_renderNLTop (e : Expr) (L : Layout) (hL : L.noComma) :
    stripNl (renderNLTop L e) = renderTop e :=
  stripNl_renderNL e L _ _ hL

/-- **The gap numbering is exact**: the laid-out text of `e` contains exactly
    `L.count 0 + … + L.count (gaps e - 1)` NEWLINE tokens (`L.count i` = length of `L.nl i`) — every index below `gaps e` is consulted
    exactly once and no index from `gaps e` on is consulted at all.  Hence "every layout" in
    the theorems above really is "any number of newlines, independently, in each permitted gap". -/
theorem newline_count (e : Expr) (L : Layout) : countNl (renderNLTop L e) = sumTo (gaps e) L.count :=
  countNl_renderNL e L _ _

/-- one newline in gap `i` alone: one NEWLINE token if `e` has a gap `i`, none otherwise -/
theorem single_gap_count (e : Expr) (i : Nat) :
    countNl (renderNLTop (Layout.single i) e) = if i < gaps e then 1 else 0 := by
  rw [newline_count, sumTo_single]

/-- two admissible trees whose laid-out texts coincide (under any two layouts) are equal -/
theorem renderNL_injective (e₁ e₂ : Expr) (L₁ L₂ : Layout) (h₁ : unnested e₁ = true)
    (h₂ : unnested e₂ = true) (h : renderNLTop L₁ e₁ = renderNLTop L₂ e₂) : e₁ = e₂ := by
  obtain ⟨f₁, p₁⟩ := parse_newline_invariant_all e₁ L₁ h₁
  obtain ⟨f₂, p₂⟩ := parse_newline_invariant_all e₂ L₂ h₂
  have a := p₁ (f₁ + f₂) (by omega)
  have b := p₂ (f₁ + f₂) (by omega)
  rw [h, b] at a
  injection a with a
  injection a with a
  exact a.symm

/-! ## the permitted set is tight -/

/-- **A newline BEFORE a binary operator ends the expression** — for all operand trees, all
    operators and all layouts of the operands: `l NEWLINE op r` is read as `l` alone, the
    newline and everything after it left in the input; in particular it is not read as
    `l op r`.  (In a program the statement ends there and `op r` starts the next one.) -/
theorem newline_before_operator_ends_expression (op : BinOp) (l r : Expr) (L L' : Layout)
    (hl : unnested l = true) :
    ∃ fuel, ∀ f, fuel ≤ f →
      parseExpr f Level.LOWEST.num
          (renderNL L (prec (opKind op) - 1) (prec (opKind op)) l ++ tk .NEWLINE :: tk (opKind op)
            :: renderNL L' (prec (opKind op)) Level.LOWEST.num r)
        = some (l, tk .NEWLINE :: tk (opKind op) :: renderNL L' (prec (opKind op)) Level.LOWEST.num r) ∧
      parseExpr f Level.LOWEST.num
          (renderNL L (prec (opKind op) - 1) (prec (opKind op)) l ++ tk .NEWLINE :: tk (opKind op)
            :: renderNL L' (prec (opKind op)) Level.LOWEST.num r)
        ≠ some (.infix op l r, []) := by
  have hge := prec_opKind_ge op
  have hfo : firstOp (tk .NEWLINE :: tk (opKind op) :: renderNL L' (prec (opKind op)) Level.LOWEST.num r)
      ≤ 1 := Nat.le_of_eq (firstOp_cons_noInfix _ rfl)
  obtain ⟨N, h⟩ := (invNL_all l L false (prec (opKind op) - 1) (prec (opKind op)) 1 _
    (by simpa [okT] using hl) (by omega) (by omega) (Nat.le_trans hfo (by omega))).done hfo
  refine ⟨N, fun f hf => ?_⟩
  have := h f hf
  refine ⟨this, ?_⟩
  rw [show parseExpr f Level.LOWEST.num _ = parseNode f false 1 _ from rfl, this]
  intro hc
  injection hc with hc
  injection hc with _ hc
  cases hc

/-- **A newline after `?` makes the parse fail**, for all trees and layouts. -/
theorem newline_after_question_fails (c : Expr) (L : Layout) (R : List Token) (hc : unnested c = true) :
    ∃ fuel, ∀ f, fuel ≤ f →
      parseExpr f Level.LOWEST.num
        (renderNL L Level.TERNARY.num Level.TERNARY.num c ++ tk .QUESTION :: tk .NEWLINE :: R) = none := by
  have hq : firstOp (tk .QUESTION :: tk .NEWLINE :: R) ≤ 6 :=
    Nat.le_of_eq (firstOp_cons_infix (fn := .parseTernary) _ rfl)
  exact cont_fail (invNL_all c L false 6 6 1 _ (by simpa [okT] using hc) (by omega) (by omega) hq)
    (fun f => loop_question_newline_fails f 1 c R (by omega))

/-- **A newline after `in` makes the parse fail**, for all trees and layouts. -/
theorem newline_after_in_fails (x : Expr) (L : Layout) (R : List Token) (hx : unnested x = true) :
    ∃ fuel, ∀ f, fuel ≤ f →
      parseExpr f Level.LOWEST.num
        (renderNL L Level.PREFIX.num Level.PREFIX.num x ++ tk .IN :: tk .NEWLINE :: R) = none := by
  have hq : firstOp (tk .IN :: tk .NEWLINE :: R) ≤ 13 :=
    Nat.le_of_eq (firstOp_cons_infix (fn := .parseIn) _ rfl)
  exact cont_fail (invNL_all x L false 13 13 1 _ (by simpa [okT] using hx) (by omega) (by omega) hq)
    (fun f => loop_in_newline_fails f false 1 x R (by omega))

/-- **A newline after the `[` of an index or slice is not skipped**: the model does not return a
    tree.  (`none` stands for "the real parser records an error or builds another node": here the
    REAL parser does the latter — `parseIndex` does not check what `parseExpression` returned for
    the NEWLINE token and silently drops the bound, `x[⏎1:2]` is read as `x[:2]`; recorded as
    finding C20-newline-in-slice-drops-bound and compared case by case in harness/c20nl.go.  What
    matters for tightness is shared by model and code: the tree of the one-line text is NOT
    returned.) -/
theorem newline_after_index_bracket_not_skipped (e : Expr) (L : Layout) (R : List Token)
    (he : unnested e = true) :
    ∃ fuel, ∀ f, fuel ≤ f →
      parseExpr f Level.LOWEST.num
        (renderNL L Level.CALL.num Level.INDEX.num e ++ tk .LBRACKET :: tk .NEWLINE :: R) = none := by
  have hq : firstOp (tk .LBRACKET :: tk .NEWLINE :: R) ≤ 15 :=
    Nat.le_of_eq (firstOp_cons_infix (fn := .parseIndex) _ rfl)
  exact cont_fail (invNL_all e L false 14 15 1 _ (by simpa [okT] using he) (by omega) (by omega) hq)
    (fun f => loop_index_newline_fails f false 1 e R (by omega))

/-- the same after the `:` of a slice without lower bound, `e[: NEWLINE …` (same remark) -/
theorem newline_after_slice_colon_not_skipped (e : Expr) (L : Layout) (R : List Token)
    (he : unnested e = true) :
    ∃ fuel, ∀ f, fuel ≤ f →
      parseExpr f Level.LOWEST.num
        (renderNL L Level.CALL.num Level.INDEX.num e ++ tk .LBRACKET :: tk .COLON :: tk .NEWLINE :: R)
        = none := by
  have hq : firstOp (tk .LBRACKET :: tk .COLON :: tk .NEWLINE :: R) ≤ 15 :=
    Nat.le_of_eq (firstOp_cons_infix (fn := .parseIndex) _ rfl)
  exact cont_fail (invNL_all e L false 14 15 1 _ (by simpa [okT] using he) (by omega) (by omega) hq)
    (fun f => loop_slice_colon_newline_fails f false 1 e R (by omega))

/-- **A newline between the brackets of an EMPTY argument list makes the parse fail**
    (`f( NEWLINE )`): `parseNodeList` tests for the closing bracket before it skips newlines.
    This is why `gapsArgs .nil = 0`. -/
theorem newline_in_empty_call_fails (fn : Expr) (L : Layout) (R : List Token) (hf : unnested fn = true) :
    ∃ fuel, ∀ f, fuel ≤ f →
      parseExpr f Level.LOWEST.num
        (renderNL L Level.PREFIX.num Level.CALL.num fn ++ tk .LPAREN :: tk .NEWLINE :: tk .RPAREN :: R)
        = none := by
  have hq : firstOp (tk .LPAREN :: tk .NEWLINE :: tk .RPAREN :: R) ≤ 14 :=
    Nat.le_of_eq (firstOp_cons_infix (fn := .parseCall) _ rfl)
  exact cont_fail (invNL_all fn L false 13 14 1 _ (by simpa [okT] using hf) (by omega) (by omega) hq)
    (fun f => loop_call_newline_empty_fails f false 1 fn R (by omega))

/-- a NEWLINE where an operand must start fails for every fuel: after a prefix `-` or `!`, after
    the `(` of a grouping, at the very start -/
theorem newline_at_operand_start_fails (f : Nat) (R : List Token) :
    parseExpr f Level.LOWEST.num (tk .NEWLINE :: R) = none ∧
    parseExpr f Level.LOWEST.num (tk .MINUS :: tk .NEWLINE :: R) = none ∧
    parseExpr f Level.LOWEST.num (tk .BANG :: tk .NEWLINE :: R) = none ∧
    parseExpr f Level.LOWEST.num (tk .LPAREN :: tk .NEWLINE :: R) = none := by
  have hm1 : prefixFn (tk .MINUS).kind = some .parsePrefixExpr := rfl
  have hm2 : isPostfix (tk .MINUS).kind = false := rfl
  have hb1 : prefixFn (tk .BANG).kind = some .parsePrefixExpr := rfl
  have hb2 : isPostfix (tk .BANG).kind = false := rfl
  have hp1 : prefixFn (tk .LPAREN).kind = some .parseGroupedExpr := rfl
  have hp2 : isPostfix (tk .LPAREN).kind = false := rfl
  refine ⟨parseNode_newline f false _ R, ?_, ?_, ?_⟩
  · cases f with
    | zero => rfl
    | succ f =>
      cases f with
      | zero => simp [parseExpr, parseNode, prefixP]
      | succ f => simp [parseExpr, parseNode, prefixP, hm1, hm2, parseNode_newline]
  · cases f with
    | zero => rfl
    | succ f =>
      cases f with
      | zero => simp [parseExpr, parseNode, prefixP]
      | succ f => simp [parseExpr, parseNode, prefixP, hb1, hb2, parseNode_newline]
  · cases f with
    | zero => rfl
    | succ f =>
      cases f with
      | zero => simp [parseExpr, parseNode, prefixP]
      | succ f => simp [parseExpr, parseNode, prefixP, hp1, hp2, parseNode_newline]

private def ia : Expr := .ident "a"
private def ib : Expr := .ident "b"
private def ic : Expr := .ident "c"
private def idt (x : String) : Token := ⟨.IDENT, x⟩
private def NL : Token := tk .NEWLINE
/-- a NEWLINE token as the lexer produces it (literal `"\n"`) -/
private def LF : Token := ⟨.NEWLINE, "\n"⟩

/-- `( a NEWLINE )`: a newline before the `)` of a grouping is not skipped — no fuel parses it -/
theorem newline_before_group_close_fails (f : Nat) :
    parseExpr f Level.LOWEST.num [tk .LPAREN, idt "a", NL, tk .RPAREN] = none := by
  refine parseNode_none_of_prefixP (fun g => ?_) f _
  cases g with
  | zero => rfl
  | succ g => exact prefixP_group_newline_fails (parseNode_ident_newline g false 1 "a" _ (by omega))

/-- `[ a NEWLINE , b ]`: a newline before a comma is not skipped — no fuel parses it -/
theorem newline_before_comma_fails (f : Nat) :
    parseExpr f Level.LOWEST.num [tk .LBRACKET, idt "a", NL, tk .COMMA, idt "b", tk .RBRACKET] = none := by
  have hp1 : prefixFn (tk .LBRACKET).kind = some .parseList := rfl
  have hp2 : isPostfix (tk .LBRACKET).kind = false := rfl
  refine parseNode_none_of_prefixP (fun g => ?_) f _
  cases g with
  | zero => rfl
  | succ g =>
    have key : exprList g false .RBRACKET [idt "a", NL, tk .COMMA, idt "b", tk .RBRACKET] = none := by
      cases g with
      | zero => rfl
      | succ g =>
        exact exprList_item_newline_comma_fails (by decide) (by decide) (by decide)
          (parseNode_ident_newline g false 1 "a" _ (by omega))
    simp [prefixP, hp1, hp2, key]

/-- `a [ b NEWLINE ]`: a newline before the `]` of an index is not skipped — no fuel parses it -/
theorem newline_before_index_close_fails (f : Nat) :
    parseExpr f Level.LOWEST.num [idt "a", tk .LBRACKET, idt "b", NL, tk .RBRACKET] = none := by
  refine parseNode_ident_then_none (fun g => ?_) f
  refine loop_none_of_infixP (fn := .parseIndex) (by decide) rfl (fun k => ?_) g
  cases k with
  | zero => rfl
  | succ k =>
    exact infixP_index_newline_fails (by decide) (parseNode_ident_newline k false 1 "b" _ (by omega))

/-! ## non-vacuity: concrete trees and layouts, evaluated -/

/-- `f(a + b, [1, 2], x.m(c))` -/
private def sample : Expr :=
  .call (.ident "f")
    (.cons (.infix .add ia ib)
      (.cons (.list (.cons (.int 1) (.cons (.int 2) .nil)))
        (.cons (.mcall (.ident "x") "m" (.cons ic .nil)) .nil)))

example : gaps sample = 11 := by decide
example : unnested sample = true := by decide

/-- a layout that uses every kind of gap: `f(⏎a +⏎⏎b,⏎[⏎1, 2,⏎], x.⏎m(c⏎)⏎)` -/
private def lay : Layout :=
  Layout.ofCounts [1, 2, 1, 1, 0, 1, 0, 1, 0, 1, 1]
    [false, false, false, false, false, true, false, false, false, false, false]

example : renderNLTop lay sample =
    [idt "f", tk .LPAREN, LF, idt "a", tk .PLUS, LF, LF, idt "b", tk .COMMA, LF,
     tk .LBRACKET, LF, ⟨.INT, "1"⟩, tk .COMMA, ⟨.INT, "2"⟩, tk .COMMA, LF, tk .RBRACKET, tk .COMMA,
     idt "x", tk .PERIOD, LF, idt "m", tk .LPAREN, idt "c", LF, tk .RPAREN, LF, tk .RPAREN] := by
  decide
example : parseExpr 40 1 (renderNLTop lay sample) = some (sample, []) := by decide
example : parseExpr 40 1 (renderNLTop lay sample ++ [NL, idt "z"]) = some (sample, [NL, idt "z"]) := by
  decide
example : renderNLTop Layout.flat sample = renderTop sample := by decide
/-- the theorem applies to it (and to `sample` nested in itself any number of times) -/
example : ∃ fuel, ∀ f, fuel ≤ f →
    parseExpr f 1 (renderNLTop lay (.infix .mul sample (.neg sample))) = some (.infix .mul sample (.neg sample), []) :=
  parse_newline_invariant_all _ lay (by decide)
/-- a thousand newlines (LF or CRLF) after every operator, bracket, comma and dot -/
example : ∃ fuel, ∀ f, fuel ≤ f →
    parseExpr f 1 (renderNLTop ⟨fun i => List.replicate 1000 (if i % 3 == 0 then "\r\n" else "\n"), fun i => i % 2 == 0⟩ sample) = some (sample, []) :=
  parse_newline_invariant_all _ _ (by decide)
/-- the same text with the newline BEFORE the `+` stops after `a` -/
example : parseExpr 40 1 [idt "a", NL, tk .PLUS, idt "b"] = some (ia, [NL, tk .PLUS, idt "b"]) := by decide
example : parseExpr 40 1 [idt "a", tk .PLUS, NL, idt "b"] = some (.infix .add ia ib, []) := by decide
/-- `[⏎]` fails, `[⏎a⏎]` and `[a,⏎]` are the list of `a` -/
example : parseExpr 40 1 [tk .LBRACKET, NL, tk .RBRACKET] = none := by decide
example : parseExpr 40 1 [tk .LBRACKET, NL, idt "a", NL, tk .RBRACKET] = some (.list (.cons ia .nil), []) := by
  decide
example : parseExpr 40 1 [tk .LBRACKET, idt "a", tk .COMMA, NL, tk .RBRACKET] = some (.list (.cons ia .nil), []) := by
  decide

end Risor.C20.NL
