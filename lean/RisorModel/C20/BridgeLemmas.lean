import RisorModel.C20.Bridge
import RisorModel.C20.Props
import RisorModel.C01.PrattProps
/-! Helper lemmas for the lexer/parser bridge (BridgeProps.lean): what one call of `Next` does on
    the spelling of each token class (maximal munch up to a delimiter), gaps, the adapter's
    round trip, and the well-formedness of rendered tokens. -/
namespace Risor.C20
open Risor.C01.Pratt

/-! ### delimiters -/

theorem isBlank_cases {b : Nat} (h : isBlank b = true) : b = 32 ∨ b = 9 := by
  simpa [isBlank] using h

theorem delim_nil : Delim [] := Or.inl rfl

theorem delim_cons {b : Nat} (r : Chars) (h : isBlank b = true) : Delim (b :: r) :=
  Or.inr ⟨b, r, rfl, h⟩

theorem delim_append {ws : Chars} (r : Chars) (hne : ws ≠ []) (h : allBlank ws) : Delim (ws ++ r) := by
  cases ws with
  | nil => exact absurd rfl hne
  | cons b t => exact Or.inr ⟨b, t ++ r, rfl, h b (by simp)⟩

theorem finish_emit_out (k : String) (l : List Nat) (m : Mode) (f : Bool) (i st : Nat) :
    (finish (.emit k l m f) i st).out = .tok k l := by cases m <;> rfl

theorem finish_pushback_next (k : String) (l : List Nat) (f : Bool) (i st : Nat) :
    (finish (.emit k l .pushback f) i st).next = i := rfl

theorem finish_consume_next (k : String) (l : List Nat) (f : Bool) (i st : Nat) :
    (finish (.emit k l .consume f) i st).next = i + 1 := rfl

/-- a state that emits on every delimiter emits at a delimiter -/
theorem run_at_delim {s : St} {k : String} {l : List Nat} {m : Mode} {fr : Bool}
    (h : ∀ d, (d = 0 ∨ d = 32 ∨ d = 9) → stepChar s d = .emit k l m fr)
    (rest : Chars) (hd : Delim rest) (i st : Nat) :
    run s rest i st = finish (.emit k l m fr) i st := by
  rcases hd with rfl | ⟨b, r, rfl, hb⟩
  · rw [run_nil, h 0 (Or.inl rfl)]
  · have := h b (Or.inr (isBlank_cases hb))
    simp only [run, this]

/-! ### identifiers -/

theorem isIdent_lt {c : Nat} (h : isIdent c = true) : c < 128 := by
  simp only [isIdent, isLetter, isDigit, Bool.or_eq_true, Bool.and_eq_true, decide_eq_true_eq, beq_iff_eq] at h
  omega

theorem step_start_identFirst : ∀ c, c < 128 → (isLetter c || c == 95) = true →
    stepChar (.start false) c = .more (.ident [c]) true := by decide

theorem step_ident_more (acc : Chars) {c : Nat} (h : isIdent c = true) :
    stepChar (.ident acc) c = .more (.ident (acc ++ [c])) false := by
  have := isIdent_lt h
  simp [stepChar, h, show ¬ c > 127 by omega]

theorem step_ident_delim (acc : Chars) (d : Nat) (h : d = 0 ∨ d = 32 ∨ d = 9) :
    stepChar (.ident acc) d = .emit "IDENT?" acc .pushback false := by
  rcases h with rfl | rfl | rfl <;> rfl

theorem run_ident_body : ∀ (cs acc tail : Chars) (i st : Nat), (∀ c ∈ cs, isIdent c = true) →
    run (.ident acc) (cs ++ tail) i st = run (.ident (acc ++ cs)) tail (i + cs.length) st
  | [], acc, tail, i, st, _ => by simp
  | c :: cs, acc, tail, i, st, h => by
    simp only [List.cons_append]
    rw [run_cons_more _ i st (step_ident_more acc (h c (by simp)))]
    simp only [Bool.false_eq_true, ↓reduceIte]
    rw [run_ident_body cs (acc ++ [c]) tail (i + 1) st (fun d hd => h d (by simp [hd]))]
    simp only [List.append_assoc, List.singleton_append, List.length_cons]
    congr 1
    omega

theorem strOf_codes (s : String) : strOf (codes s) = s := by
  simp [strOf, codes, List.map_map, Function.comp_def, String.ofList_toList]

theorem identKind_nonkeyword (txt : Chars) (prev : String)
    (h : (keywords.any fun e => e.1 == strOf txt) = false) : identKind txt prev = "IDENT" := by
  have hf : keywords.find? (fun e => e.1 == strOf txt) = none := by
    rw [List.find?_eq_none]
    intro x hx hp
    have : (keywords.any fun e => e.1 == strOf txt) = true := List.any_eq_true.2 ⟨x, hx, hp⟩
    rw [h] at this
    cases this
  unfold identKind
  simp only [hf]
  split <;> rfl

theorem fixOut_identQ (prev : String) (l : List Nat) :
    fixOut prev (.tok "IDENT?" l) = .tok (identKind l prev) l := rfl

/-- one call of `Next` on an identifier followed by a delimiter -/
theorem scan_ident (s : String) (h : identOK s = true) (rest : Chars) (hd : Delim rest) (prev : String) :
    (scan (codes s ++ rest) prev).out = .tok "IDENT" (codes s) ∧
    (scan (codes s ++ rest) prev).next = (codes s).length := by
  unfold identOK at h
  cases hc : codes s with
  | nil => rw [hc] at h; cases h
  | cons c cs =>
    rw [hc] at h
    simp only [Bool.and_eq_true, Bool.not_eq_true'] at h
    obtain ⟨⟨h1, h2⟩, h3⟩ := h
    have hcs : ∀ d ∈ cs, isIdent d = true := fun d hd => (List.all_eq_true.1 h2) d hd
    have hlt : c < 128 := by
      simp only [isLetter, Bool.or_eq_true, Bool.and_eq_true, decide_eq_true_eq, beq_iff_eq] at h1
      omega
    have hrun : run (.start false) (c :: cs ++ rest) 0 0
        = finish (.emit "IDENT?" (c :: cs) .pushback false) (0 + 1 + cs.length) 0 := by
      simp only [List.cons_append]
      rw [run_cons_more _ 0 0 (step_start_identFirst c hlt h1)]
      simp only [↓reduceIte]
      rw [run_ident_body cs [c] rest (0 + 1) 0 hcs]
      exact run_at_delim (step_ident_delim _) rest hd _ _
    have hk : identKind (c :: cs) prev = "IDENT" := by
      apply identKind_nonkeyword
      rw [← hc, strOf_codes]; exact h3
    constructor
    · rw [scan_out, hrun, finish_emit_out, fixOut_identQ, hk]
    · rw [scan_next, hrun, finish_pushback_next]; simp; omega

end Risor.C20

namespace Risor.C20
open Risor.C01.Pratt

/-! ### integer literals -/

theorem isDigit_lt {c : Nat} (h : isDigit c = true) : c < 128 := by
  simp only [isDigit, Bool.and_eq_true, decide_eq_true_eq] at h
  omega

theorem step_start_digit : ∀ c, c < 128 → isDigit c = true → (c != 48) = true →
    stepChar (.start false) c = .more (.num .dec [c]) true := by decide

theorem step_num_more (acc : Chars) {c : Nat} (h : isDigit c = true) :
    stepChar (.num .dec acc) c = .more (.num .dec (acc ++ [c])) false := by
  simp [stepChar, accepts, h]

theorem step_num_delim (acc : Chars) (d : Nat) (h : d = 0 ∨ d = 32 ∨ d = 9) :
    stepChar (.num .dec acc) d = .emit "INT" acc .pushback false := by
  rcases h with rfl | rfl | rfl <;> rfl

theorem step_num0_delim (d : Nat) (h : d = 0 ∨ d = 32 ∨ d = 9) :
    stepChar .num0 d = .emit "INT" [48] .pushback false := by
  rcases h with rfl | rfl | rfl <;> rfl

theorem run_num_body : ∀ (cs acc tail : Chars) (i st : Nat), (∀ c ∈ cs, isDigit c = true) →
    run (.num .dec acc) (cs ++ tail) i st = run (.num .dec (acc ++ cs)) tail (i + cs.length) st
  | [], acc, tail, i, st, _ => by simp
  | c :: cs, acc, tail, i, st, h => by
    simp only [List.cons_append]
    rw [run_cons_more _ i st (step_num_more acc (h c (by simp)))]
    simp only [Bool.false_eq_true, ↓reduceIte]
    rw [run_num_body cs (acc ++ [c]) tail (i + 1) st (fun d hd => h d (by simp [hd]))]
    simp only [List.append_assoc, List.singleton_append, List.length_cons]
    congr 1
    omega

theorem fixOut_other (prev k : String) (l : List Nat) (h : k ≠ "IDENT?") :
    fixOut prev (.tok k l) = .tok k l := by
  unfold fixOut
  split
  · rename_i heq; injection heq with h1 _; exact absurd h1 h
  · rfl

/-- one call of `Next` on a decimal literal followed by a delimiter -/
theorem scan_int (s : String) (h : intOK s = true) (rest : Chars) (hd : Delim rest) (prev : String) :
    (scan (codes s ++ rest) prev).out = .tok "INT" (codes s) ∧
    (scan (codes s ++ rest) prev).next = (codes s).length := by
  unfold intOK at h
  cases hc : codes s with
  | nil => rw [hc] at h; cases h
  | cons c cs =>
    rw [hc] at h
    by_cases h48 : c = 48
    · -- `0`: by `intOK` nothing follows it
      subst h48
      have hnil : cs = [] := by
        cases cs with
        | nil => rfl
        | cons d ds => simp at h
      subst hnil
      have hrun : run (.start false) ([48] ++ rest) 0 0
          = finish (.emit "INT" [48] .pushback false) (0 + 1) 0 := by
        simp only [List.cons_append, List.nil_append]
        rw [run_cons_more _ 0 0 (by decide : stepChar (.start false) 48 = .more .num0 true)]
        exact run_at_delim step_num0_delim rest hd _ _
      constructor
      · rw [scan_out, hrun, finish_emit_out, fixOut_other _ _ _ (by decide)]
      · rw [scan_next, hrun, finish_pushback_next]; rfl
    · have hd1 : isDigit c = true ∧ ∀ d ∈ cs, isDigit d = true := by
        cases cs with
        | nil => exact ⟨by simpa using h, by simp⟩
        | cons d ds =>
          simp only [Bool.and_eq_true] at h
          exact ⟨h.1.1, fun x hx => (List.all_eq_true.1 h.2) x hx⟩
      have hrun : run (.start false) (c :: cs ++ rest) 0 0
          = finish (.emit "INT" (c :: cs) .pushback false) (0 + 1 + cs.length) 0 := by
        simp only [List.cons_append]
        rw [run_cons_more _ 0 0 (step_start_digit c (isDigit_lt hd1.1) hd1.1 (by simpa using h48))]
        simp only [↓reduceIte]
        rw [run_num_body cs [c] rest (0 + 1) 0 hd1.2]
        exact run_at_delim (step_num_delim _) rest hd _ _
      constructor
      · rw [scan_out, hrun, finish_emit_out, fixOut_other _ _ _ (by decide)]
      · rw [scan_next, hrun, finish_pushback_next]; simp; omega

/-! ### string literals -/

theorem step_str_plain (acc : List Nat) {c : Nat} (h0 : c ≠ 0) (h10 : c ≠ 10) (h34 : c ≠ 34) (h92 : c ≠ 92) :
    stepChar (.str 34 "STRING" acc) c = .more (.str 34 "STRING" (acc ++ utf8 c)) false := by
  simp [stepChar, h0, h10, h34, h92]

/-- the spelling of one rune of the value appends the rune's UTF-8 bytes to the literal -/
theorem run_str_char (c : Nat) (acc : List Nat) (tail : Chars) (i st : Nat) :
    run (.str 34 "STRING" acc) (spellChar c ++ tail) i st
      = run (.str 34 "STRING" (acc ++ utf8 c)) tail (i + (spellChar c).length) st := by
  unfold spellChar
  split
  · rename_i h; have := beq_iff_eq.1 h; subst this; rfl
  split
  · rename_i h; have := beq_iff_eq.1 h; subst this; rfl
  split
  · rename_i h; have := beq_iff_eq.1 h; subst this; rfl
  split
  · rename_i h; have := beq_iff_eq.1 h; subst this; rfl
  split
  · rename_i h; have := beq_iff_eq.1 h; subst this; rfl
  split
  · rename_i h; have := beq_iff_eq.1 h; subst this; rfl
  split
  · rename_i h; have := beq_iff_eq.1 h; subst this; rfl
  split
  · rename_i h; have := beq_iff_eq.1 h; subst this; rfl
  split
  · rename_i h; have := beq_iff_eq.1 h; subst this; rfl
  split
  · rename_i h; have := beq_iff_eq.1 h; subst this; rfl
  split
  · rename_i h; have := beq_iff_eq.1 h; subst this; rfl
  · rename_i h34 h92 h10 _ _ _ _ _ _ _ h0
    simp only [List.cons_append, List.nil_append]
    rw [run_cons_more _ i st (step_str_plain acc (by simpa using h0) (by simpa using h10)
      (by simpa using h34) (by simpa using h92))]
    simp

theorem run_str_body : ∀ (cs : Chars) (acc : List Nat) (tail : Chars) (i st : Nat),
    run (.str 34 "STRING" acc) (cs.flatMap spellChar ++ tail) i st
      = run (.str 34 "STRING" (acc ++ utf8s cs)) tail (i + (cs.flatMap spellChar).length) st
  | [], acc, tail, i, st => by simp [utf8s]
  | c :: cs, acc, tail, i, st => by
    simp only [List.flatMap_cons, List.append_assoc]
    rw [run_str_char c acc _ i st, run_str_body cs (acc ++ utf8 c) tail _ st]
    simp only [utf8s, List.flatMap_cons, List.append_assoc, List.length_append]
    congr 1
    omega

/-- one call of `Next` on a double-quoted string (whatever follows it) -/
theorem scan_str (cs : Chars) (rest : Chars) (prev : String) :
    (scan (spellStr cs ++ rest) prev).out = .tok "STRING" (utf8s cs) ∧
    (scan (spellStr cs ++ rest) prev).next = (spellStr cs).length := by
  have hrun : run (.start false) (spellStr cs ++ rest) 0 0
      = finish (.emit "STRING" (utf8s cs) .consume false) (0 + 1 + (cs.flatMap spellChar).length) 0 := by
    simp only [spellStr, List.cons_append, List.append_assoc, List.nil_append]
    rw [run_cons_more _ 0 0 (by decide : stepChar (.start false) 34 = .more (.str 34 "STRING" []) true)]
    simp only [↓reduceIte]
    rw [run_str_body cs [] (34 :: rest) (0 + 1) 0]
    simp only [List.nil_append, run]
    rfl
  constructor
  · rw [scan_out, hrun, finish_emit_out, fixOut_other _ _ _ (by decide)]
  · rw [scan_next, hrun, finish_consume_next]; simp [spellStr]; omega

end Risor.C20

namespace Risor.C20
open Risor.C01.Pratt

/-! ### operators, punctuation, keywords -/

/-- one call of `Next` on the text of a fixed-text token followed by a delimiter -/
theorem scan_fixed (k : Kind) (h : fixedKinds.contains k = true) (rest : Chars) (hd : Delim rest)
    (prev : String) :
    (scan (codes k.text ++ rest) prev).out = .tok k.typ (codes k.text) ∧
    (scan (codes k.text ++ rest) prev).next = (codes k.text).length := by
  rcases hd with rfl | ⟨b, r, rfl, hb⟩
  · cases k <;> first | (exact absurd h (by decide)) | exact ⟨rfl, rfl⟩
  · rcases isBlank_cases hb with rfl | rfl
    · cases k <;> first | (exact absurd h (by decide)) | exact ⟨rfl, rfl⟩
    · cases k <;> first | (exact absurd h (by decide)) | exact ⟨rfl, rfl⟩

/-! ### the adapter: UTF-8 decoding undoes the lexer's encoding -/

theorem char_toNat_lt (c : Char) : c.toNat < 1114112 := by
  have h := c.valid
  simp only [UInt32.isValidChar, Nat.isValidChar] at h
  show c.val.toNat < 1114112
  omega

theorem decodeF_1 (f b : Nat) (bs : List Nat) (h : b < 0x80) : decodeF (f + 1) (b :: bs) = b :: decodeF f bs := by
  show (if b < 0x80 then b :: decodeF f bs else _) = _
  rw [if_pos h]

theorem decodeF_2 (f b b1 : Nat) (r : List Nat) (h1 : ¬ b < 0x80) (h2 : b < 0xE0) :
    decodeF (f + 1) (b :: b1 :: r) = ((b - 0xC0) * 64 + (b1 - 0x80)) :: decodeF f r := by
  show (if b < 0x80 then _ else if b < 0xE0 then _ else _) = _
  rw [if_neg h1, if_pos h2]

theorem decodeF_3 (f b b1 b2 : Nat) (r : List Nat) (h1 : ¬ b < 0x80) (h2 : ¬ b < 0xE0) (h3 : b < 0xF0) :
    decodeF (f + 1) (b :: b1 :: b2 :: r) = ((b - 0xE0) * 4096 + (b1 - 0x80) * 64 + (b2 - 0x80)) :: decodeF f r := by
  show (if b < 0x80 then _ else if b < 0xE0 then _ else if b < 0xF0 then _ else _) = _
  rw [if_neg h1, if_neg h2, if_pos h3]

theorem decodeF_4 (f b b1 b2 b3 : Nat) (r : List Nat) (h1 : ¬ b < 0x80) (h2 : ¬ b < 0xE0) (h3 : ¬ b < 0xF0) :
    decodeF (f + 1) (b :: b1 :: b2 :: b3 :: r)
      = ((b - 0xF0) * 262144 + (b1 - 0x80) * 4096 + (b2 - 0x80) * 64 + (b3 - 0x80)) :: decodeF f r := by
  show (if b < 0x80 then _ else if b < 0xE0 then _ else if b < 0xF0 then _ else _) = _
  rw [if_neg h1, if_neg h2, if_neg h3]

theorem decodeF_utf8 (c : Nat) (hc : c < 1114112) (rest : List Nat) (f : Nat) :
    decodeF (f + 1) (utf8 c ++ rest) = c :: decodeF f rest := by
  by_cases h1 : c < 0x80
  · simp only [utf8, if_pos h1, List.cons_append, List.nil_append]
    exact decodeF_1 _ _ _ h1
  by_cases h2 : c < 0x800
  · simp only [utf8, if_neg h1, if_pos h2, List.cons_append, List.nil_append]
    have e := decodeF_2 f (0xC0 + c / 64) (0x80 + c % 64) rest (by omega) (by omega)
    have e2 : (0xC0 + c / 64 - 0xC0) * 64 + (0x80 + c % 64 - 0x80) = c := by omega
    rw [e2] at e
    exact e
  by_cases h3 : c < 0x10000
  · simp only [utf8, if_neg h1, if_neg h2, if_pos h3, List.cons_append, List.nil_append]
    have e := decodeF_3 f (0xE0 + c / 4096) (0x80 + c / 64 % 64) (0x80 + c % 64) rest (by omega) (by omega) (by omega)
    have e2 : (0xE0 + c / 4096 - 0xE0) * 4096 + (0x80 + c / 64 % 64 - 0x80) * 64 + (0x80 + c % 64 - 0x80) = c := by omega
    rw [e2] at e
    exact e
  · simp only [utf8, if_neg h1, if_neg h2, if_neg h3, List.cons_append, List.nil_append]
    have e := decodeF_4 f (0xF0 + c / 262144) (0x80 + c / 4096 % 64) (0x80 + c / 64 % 64) (0x80 + c % 64) rest (by omega) (by omega) (by omega)
    have e2 : (0xF0 + c / 262144 - 0xF0) * 262144 + (0x80 + c / 4096 % 64 - 0x80) * 4096 + (0x80 + c / 64 % 64 - 0x80) * 64 + (0x80 + c % 64 - 0x80) = c := by omega
    rw [e2] at e
    exact e

theorem utf8_length_pos (c : Nat) : 0 < (utf8 c).length := by
  unfold utf8; split; · simp
  split; · simp
  split <;> simp

theorem length_le_utf8s : ∀ cs : Chars, cs.length ≤ (utf8s cs).length
  | [] => by simp [utf8s]
  | c :: cs => by
    have := length_le_utf8s cs
    have := utf8_length_pos c
    simp only [utf8s, List.flatMap_cons, List.length_append, List.length_cons] at *
    omega

theorem decodeF_utf8s : ∀ (cs : Chars) (f : Nat), cs.length ≤ f → (∀ c ∈ cs, c < 1114112) →
    decodeF f (utf8s cs) = cs
  | [], f, _, _ => by cases f <;> rfl
  | c :: cs, 0, h, _ => by simp at h
  | c :: cs, f + 1, h, hc => by
    have e : utf8s (c :: cs) = utf8 c ++ utf8s cs := by simp [utf8s]
    rw [e, decodeF_utf8 c (hc c (by simp)), decodeF_utf8s cs f (by simpa using h) (fun d hd => hc d (by simp [hd]))]

theorem decodeF_ascii : ∀ (bs : List Nat) (f : Nat), bs.length ≤ f → (∀ b ∈ bs, b < 128) →
    decodeF f bs = bs
  | [], f, _, _ => by cases f <;> rfl
  | b :: bs, 0, h, _ => by simp at h
  | b :: bs, f + 1, h, hb => by
    rw [decodeF_1 _ _ _ (hb b (by simp)), decodeF_ascii bs f (by simpa using h) (fun d hd => hb d (by simp [hd]))]

theorem bytesToString_utf8s (s : String) : bytesToString (utf8s (codes s)) = s := by
  unfold bytesToString
  rw [decodeF_utf8s _ _ (length_le_utf8s _), strOf_codes]
  intro c hc
  simp only [codes, List.mem_map] at hc
  obtain ⟨ch, _, rfl⟩ := hc
  exact char_toNat_lt ch

theorem bytesToString_ascii (s : String) (h : ∀ c ∈ codes s, c < 128) : bytesToString (codes s) = s := by
  unfold bytesToString
  rw [decodeF_ascii _ _ (Nat.le_refl _) h, strOf_codes]

end Risor.C20

namespace Risor.C20
open Risor.C01.Pratt

/-! ### one call of `Next` on any well-formed token -/

theorem tokOK_other (k : Kind) (lit : String) (h1 : k ≠ .IDENT) (h2 : k ≠ .INT) (h3 : k ≠ .STRING) :
    tokOK ⟨k, lit⟩ = (fixedKinds.contains k && lit == k.text) := by
  cases k <;> first | rfl | contradiction

theorem spell_other (k : Kind) (lit : String) (h3 : k ≠ .STRING) : spell ⟨k, lit⟩ = codes lit := by
  cases k <;> first | rfl | contradiction

theorem litBytes_other (k : Kind) (lit : String) (h3 : k ≠ .STRING) : litBytes ⟨k, lit⟩ = codes lit := by
  cases k <;> first | rfl | contradiction

/-- a well-formed token is an identifier, an integer, a string, or `tk k` for a fixed kind -/
theorem tokOK_cases {t : Token} (h : tokOK t = true) :
    (t.kind = .IDENT ∧ identOK t.lit = true) ∨ (t.kind = .INT ∧ intOK t.lit = true) ∨ t.kind = .STRING ∨
    (fixedKinds.contains t.kind = true ∧ t = tk t.kind) := by
  obtain ⟨k, lit⟩ := t
  by_cases h1 : k = .IDENT
  · subst h1; exact Or.inl ⟨rfl, h⟩
  by_cases h2 : k = .INT
  · subst h2; exact Or.inr (Or.inl ⟨rfl, h⟩)
  by_cases h3 : k = .STRING
  · subst h3; exact Or.inr (Or.inr (Or.inl rfl))
  rw [tokOK_other k lit h1 h2 h3, Bool.and_eq_true, beq_iff_eq] at h
  refine Or.inr (Or.inr (Or.inr ⟨h.1, ?_⟩))
  show (⟨k, lit⟩ : Token) = ⟨k, k.text⟩
  rw [h.2]

/-- **maximal munch, per token**: on the spelling of a well-formed token followed by the end of
    the text or a blank, one call of `Next` returns exactly that token (type and literal) and
    resumes right after the spelling -/
theorem scan_spell (t : Token) (h : tokOK t = true) (rest : Chars) (hd : Delim rest) (prev : String) :
    (scan (spell t ++ rest) prev).out = outOf t ∧
    (scan (spell t ++ rest) prev).next = (spell t).length := by
  rcases tokOK_cases h with ⟨hk, hok⟩ | ⟨hk, hok⟩ | hk | ⟨hf, ht⟩
  · obtain ⟨k, lit⟩ := t
    simp only at hk hok; subst hk
    exact scan_ident lit hok rest hd prev
  · obtain ⟨k, lit⟩ := t
    simp only at hk hok; subst hk
    exact scan_int lit hok rest hd prev
  · obtain ⟨k, lit⟩ := t
    simp only at hk; subst hk
    exact scan_str (codes lit) rest prev
  · rw [ht]
    have hs : (tk t.kind).kind ≠ .STRING := by
      intro e; rw [tk_kind] at e; rw [e] at hf; revert hf; decide
    have e1 : spell (tk t.kind) = codes t.kind.text := spell_other _ _ (by simpa [tk_kind] using hs)
    have e2 : outOf (tk t.kind) = .tok t.kind.typ (codes t.kind.text) := by
      unfold outOf; rw [show litBytes (tk t.kind) = codes t.kind.text from litBytes_other _ _ (by simpa [tk_kind] using hs)]; rfl
    rw [e1, e2]
    exact scan_fixed t.kind hf rest hd prev

theorem typ_ne_eof {t : Token} (h : tokOK t = true) : (t.kind.typ == "EOF") = false := by
  rcases tokOK_cases h with ⟨hk, _⟩ | ⟨hk, _⟩ | hk | ⟨hf, _⟩
  · rw [hk]; decide
  · rw [hk]; decide
  · rw [hk]; decide
  · revert hf; cases t.kind <;> decide

theorem spell_ne_nil {t : Token} (h : tokOK t = true) : 0 < (spell t).length := by
  have h1 := (scan_spell t h [] delim_nil "").2
  have h2 := run_seen_gt (spell t ++ []) (.start false) 0 0
  rcases tokOK_cases h with ⟨hk, hok⟩ | ⟨hk, hok⟩ | hk | ⟨hf, ht⟩
  · obtain ⟨k, lit⟩ := t
    simp only at hk hok; subst hk
    show 0 < (codes lit).length
    unfold identOK at hok
    cases hc : codes lit with
    | nil => rw [hc] at hok; cases hok
    | cons c cs => simp
  · obtain ⟨k, lit⟩ := t
    simp only at hk hok; subst hk
    show 0 < (codes lit).length
    unfold intOK at hok
    cases hc : codes lit with
    | nil => rw [hc] at hok; cases hok
    | cons c cs => simp
  · obtain ⟨k, lit⟩ := t
    simp only at hk; subst hk
    show 0 < (spellStr (codes lit)).length
    simp [spellStr]
  · rw [ht]; revert hf; cases t.kind <;> decide

/-- one step of the token loop on a spelled token -/
theorem lexKL_spell_step (t : Token) (h : tokOK t = true) (rest : Chars) (hd : Delim rest) (f : Nat)
    (prev : String) :
    lexKL (f + 1) (spell t ++ rest) prev = outOf t :: lexKL f rest t.kind.typ := by
  obtain ⟨ho, hn⟩ := scan_spell t h rest hd prev
  rw [lexKL_succ, ho]
  show (if (t.kind.typ == "EOF") = true then _ else _) = _
  rw [typ_ne_eof h, hn]
  simp only [Bool.false_eq_true, ↓reduceIte, List.drop_left]
  rfl

theorem lexKL_nil (f : Nat) (prev : String) : lexKL (f + 1) [] prev = [.tok "EOF" []] := rfl

/-! ### gaps -/

theorem allBlank_of_all {ws : Chars} (h : ws.all isBlank = true) : allBlank ws :=
  fun c hc => (List.all_eq_true.1 h) c hc

/-- a well-formed gap is invisible, whatever follows it -/
theorem gap_invisible (g : Gap) (hg : g.ok = true) (f : Nat) (more : Chars) (prev : String) :
    lexKL f (g.text ++ more) prev = lexKL f more prev := by
  simp only [Gap.ok, Bool.and_eq_true] at hg
  obtain ⟨⟨_, h1⟩, hc⟩ := hg
  have e : g.text ++ more = g.lead ++ (commentRun g.comments ++ more) := by
    simp [Gap.text]
  rw [e, lex_blanks_ignored f g.lead _ prev (allBlank_of_all h1),
    lex_comment_run_invariant f g.comments more prev hc]

theorem gap_delim (g : Gap) (hg : g.ok = true) (more : Chars) : Delim (g.text ++ more) := by
  simp only [Gap.ok, Bool.and_eq_true, Bool.not_eq_true', List.isEmpty_eq_false_iff] at hg
  simp only [Gap.text, List.append_assoc]
  exact delim_append _ hg.1.1 (allBlank_of_all hg.1.2)

/-- a non-empty spelled list is the first spelling followed by a delimiter -/
theorem spellWith_cons (t : Token) (ts : List Token) (gs : List Gap) (hg : ∀ g ∈ gs, g.ok = true) :
    ∃ r, spellWith (t :: ts) gs = spell t ++ r ∧ Delim r := by
  cases ts with
  | nil => exact ⟨[], by simp [spellWith], delim_nil⟩
  | cons t' ts =>
    cases gs with
    | nil => exact ⟨32 :: spellWith (t' :: ts) [], rfl, delim_cons _ (by decide)⟩
    | cons g gs => exact ⟨g.text ++ spellWith (t' :: ts) gs, rfl, gap_delim g (hg g (by simp)) _⟩

/-- **the token loop on a spelled list**: kinds and literals of the tokens, then EOF -/
theorem lexKL_spellWith : ∀ (ts : List Token) (gs : List Gap) (f : Nat) (prev : String),
    (∀ t ∈ ts, tokOK t = true) → (∀ g ∈ gs, g.ok = true) → ts.length + 1 ≤ f →
    lexKL f (spellWith ts gs) prev = ts.map outOf ++ [.tok "EOF" []]
  | [], gs, f, prev, _, _, hf => by
    obtain ⟨f', rfl⟩ : ∃ f', f = f' + 1 := ⟨f - 1, by omega⟩
    rfl
  | [t], gs, f, prev, ht, _, hf => by
    obtain ⟨f', rfl⟩ : ∃ f', f = f' + 1 + 1 := ⟨f - 2, by simp at hf; omega⟩
    have := lexKL_spell_step t (ht t (by simp)) [] delim_nil (f' + 1) prev
    simp only [List.append_nil] at this
    simp only [spellWith, this, lexKL_nil, List.map_cons, List.map_nil, List.cons_append, List.nil_append]
  | t :: t' :: ts, gs, f, prev, ht, hg, hf => by
    obtain ⟨f', rfl⟩ : ∃ f', f = f' + 1 := ⟨f - 1, by omega⟩
    have hts : ∀ x ∈ t' :: ts, tokOK x = true := fun x hx => ht x (by simp [hx])
    cases gs with
    | nil =>
      obtain ⟨r, hr, hdr⟩ := spellWith_cons t' ts [] (by simp)
      have ih := lexKL_spellWith (t' :: ts) [] f' t.kind.typ hts (by simp) (by simp at hf ⊢; omega)
      show lexKL (f' + 1) (spell t ++ (32 :: spellWith (t' :: ts) [])) prev = _
      rw [lexKL_spell_step t (ht t (by simp)) _ (delim_cons _ (by decide)) f' prev]
      have hb := lex_blanks_ignored f' [32] (spellWith (t' :: ts) []) t.kind.typ (by decide)
      simp only [List.cons_append, List.nil_append] at hb
      rw [hb, ih]
      rfl
    | cons g gs =>
      have hgs : ∀ x ∈ gs, x.ok = true := fun x hx => hg x (by simp [hx])
      obtain ⟨r, hr, hdr⟩ := spellWith_cons t' ts gs hgs
      have ih := lexKL_spellWith (t' :: ts) gs f' t.kind.typ hts hgs (by simp at hf ⊢; omega)
      show lexKL (f' + 1) (spell t ++ (g.text ++ spellWith (t' :: ts) gs)) prev = _
      rw [lexKL_spell_step t (ht t (by simp)) _ (gap_delim g (hg g (by simp)) _) f' prev]
      rw [gap_invisible g (hg g (by simp)) f' _ _, ih]
      rfl

theorem length_le_spellWith : ∀ (ts : List Token) (gs : List Gap), (∀ t ∈ ts, tokOK t = true) →
    ts.length ≤ (spellWith ts gs).length
  | [], _, _ => by simp
  | [t], gs, ht => by
    have := spell_ne_nil (ht t (by simp))
    simp only [spellWith, List.length_cons, List.length_nil]; omega
  | t :: t' :: ts, [], ht => by
    have := spell_ne_nil (ht t (by simp))
    have ih := length_le_spellWith (t' :: ts) [] (fun x hx => ht x (by simp [hx]))
    simp only [spellWith, List.length_cons, List.length_append] at ih ⊢; omega
  | t :: t' :: ts, g :: gs, ht => by
    have := spell_ne_nil (ht t (by simp))
    have ih := length_le_spellWith (t' :: ts) gs (fun x hx => ht x (by simp [hx]))
    simp only [spellWith, List.length_cons, List.length_append] at ih ⊢; omega

/-! ### the adapter undoes `outOf` -/

theorem kindOfTyp_typ (k : Kind) : kindOfTyp k.typ = k := by cases k <;> decide

theorem codes_lt_of_all {cs : Chars} {p : Nat → Bool} (hp : ∀ c, p c = true → c < 128)
    (h : cs.all p = true) : ∀ c ∈ cs, c < 128 :=
  fun c hc => hp c ((List.all_eq_true.1 h) c hc)

theorem toToken_outOf (t : Token) (h : tokOK t = true) : toToken (outOf t) = t := by
  rcases tokOK_cases h with ⟨hk, hok⟩ | ⟨hk, hok⟩ | hk | ⟨hf, ht⟩
  · obtain ⟨k, lit⟩ := t
    simp only at hk hok; subst hk
    show (⟨kindOfTyp "IDENT", bytesToString (codes lit)⟩ : Token) = _
    rw [show kindOfTyp "IDENT" = .IDENT by decide, bytesToString_ascii]
    unfold identOK at hok
    cases hc : codes lit with
    | nil => rw [hc] at hok; cases hok
    | cons c cs =>
      rw [hc] at hok
      simp only [Bool.and_eq_true] at hok
      intro d hd
      rcases List.mem_cons.1 hd with rfl | hd
      · have h1 := hok.1.1
        simp only [isLetter, Bool.or_eq_true, Bool.and_eq_true, decide_eq_true_eq, beq_iff_eq] at h1
        omega
      · exact isIdent_lt ((List.all_eq_true.1 hok.1.2) d hd)
  · obtain ⟨k, lit⟩ := t
    simp only at hk hok; subst hk
    show (⟨kindOfTyp "INT", bytesToString (codes lit)⟩ : Token) = _
    rw [show kindOfTyp "INT" = .INT by decide, bytesToString_ascii]
    unfold intOK at hok
    cases hc : codes lit with
    | nil => rw [hc] at hok; cases hok
    | cons c cs =>
      rw [hc] at hok
      intro d hd
      cases cs with
      | nil =>
        have : d = c := by simpa using hd
        subst this
        exact isDigit_lt (by simpa using hok)
      | cons e es =>
        simp only [Bool.and_eq_true] at hok
        rcases List.mem_cons.1 hd with rfl | hd
        · exact isDigit_lt hok.1.1
        · exact isDigit_lt ((List.all_eq_true.1 hok.2) d hd)
  · obtain ⟨k, lit⟩ := t
    simp only at hk; subst hk
    show (⟨kindOfTyp "STRING", bytesToString (utf8s (codes lit))⟩ : Token) = _
    rw [show kindOfTyp "STRING" = .STRING by decide, bytesToString_utf8s]
  · rw [ht]
    revert hf
    cases t.kind <;> first | (intro hf; exact absurd hf (by decide)) | (intro _; decide)

theorem toTokens_outs : ∀ (ts : List Token), (∀ t ∈ ts, tokOK t = true) →
    toTokens (ts.map outOf ++ [.tok "EOF" []]) = some ts
  | [], _ => rfl
  | t :: ts, h => by
    have ih := toTokens_outs ts (fun x hx => h x (by simp [hx]))
    show toTokens (.tok t.kind.typ (litBytes t) :: (ts.map outOf ++ [.tok "EOF" []])) = _
    unfold toTokens
    rw [typ_ne_eof (h t (by simp))]
    simp only [Bool.false_eq_true, ↓reduceIte, ih, Option.map_some]
    rw [show Out.tok t.kind.typ (litBytes t) = outOf t from rfl, toToken_outOf t (h t (by simp))]

end Risor.C20

namespace Risor.C20
open Risor.C01.Pratt

/-! ### rendered tokens are well-formed -/

theorem digitChar_toNat_isDigit {n : Nat} (h : n < 10) : isDigit n.digitChar.toNat = true := by
  have : n = 0 ∨ n = 1 ∨ n = 2 ∨ n = 3 ∨ n = 4 ∨ n = 5 ∨ n = 6 ∨ n = 7 ∨ n = 8 ∨ n = 9 := by omega
  rcases this with rfl | rfl | rfl | rfl | rfl | rfl | rfl | rfl | rfl | rfl <;> decide

theorem digitChar_ne_zero {n : Nat} (h : n < 10) (h0 : 0 < n) : n.digitChar.toNat ≠ 48 := by
  have : n = 1 ∨ n = 2 ∨ n = 3 ∨ n = 4 ∨ n = 5 ∨ n = 6 ∨ n = 7 ∨ n = 8 ∨ n = 9 := by omega
  rcases this with rfl | rfl | rfl | rfl | rfl | rfl | rfl | rfl | rfl <;> decide

/-- the decimal digits of `n`: all digits, and no leading zero unless `n = 0` -/
theorem toDigits_shape (n : Nat) :
    ∃ c cs, (Nat.toDigits 10 n).map Char.toNat = c :: cs ∧ isDigit c = true ∧
      (∀ d ∈ cs, isDigit d = true) ∧ (0 < n → c ≠ 48) ∧ (n = 0 → cs = []) := by
  induction n using Nat.strongRecOn with
  | _ n ih =>
    rw [Nat.toDigits_eq_if (by decide : 1 < 10)]
    split
    · rename_i hlt
      exact ⟨n.digitChar.toNat, [], rfl, digitChar_toNat_isDigit hlt, by simp,
        fun h0 => digitChar_ne_zero hlt h0, fun _ => rfl⟩
    · rename_i hge
      obtain ⟨c, cs, hc, h1, h2, h3, _⟩ := ih (n / 10) (by omega)
      refine ⟨c, cs ++ [(n % 10).digitChar.toNat], by simp [hc], h1, ?_, fun _ => h3 (by omega), fun h0 => by omega⟩
      intro d hd
      rcases List.mem_append.1 hd with hd | hd
      · exact h2 d hd
      · have : d = (n % 10).digitChar.toNat := by simpa using hd
        rw [this]; exact digitChar_toNat_isDigit (Nat.mod_lt _ (by decide))

theorem intOK_toString (n : Nat) : intOK (toString n) = true := by
  obtain ⟨c, cs, hc, h1, h2, h3, h4⟩ := toDigits_shape n
  have e : codes (toString n) = c :: cs := by
    simp only [codes, Nat.toString_eq_repr, Nat.toList_repr]
    exact hc
  unfold intOK
  rw [e]
  cases cs with
  | nil => exact h1
  | cons d ds =>
    have hn : 0 < n := by
      rcases Nat.eq_zero_or_pos n with h0 | h0
      · have := h4 h0; cases this
      · exact h0
    simp only [Bool.and_eq_true, bne_iff_ne, ne_eq]
    exact ⟨⟨h1, h3 hn⟩, List.all_eq_true.2 h2⟩

def AllOK (ts : List Token) : Prop := ∀ t ∈ ts, tokOK t = true

theorem AllOK.nil : AllOK [] := fun _ h => by cases h

theorem AllOK.append {a b : List Token} (ha : AllOK a) (hb : AllOK b) : AllOK (a ++ b) := by
  intro t ht
  rcases List.mem_append.1 ht with h | h
  · exact ha t h
  · exact hb t h

theorem AllOK.cons {t : Token} {a : List Token} (ht : tokOK t = true) (ha : AllOK a) : AllOK (t :: a) := by
  intro x hx
  rcases List.mem_cons.1 hx with rfl | h
  · exact ht
  · exact ha x h

theorem AllOK.single {t : Token} (ht : tokOK t = true) : AllOK [t] := AllOK.cons ht AllOK.nil

theorem AllOK.wrap {ok : Bool} {fl : Nat} {g : Nat → List Token} (h : ∀ fl', AllOK (g fl')) :
    AllOK (Risor.C01.Pratt.wrap ok fl g) := by
  unfold Risor.C01.Pratt.wrap
  split
  · exact h fl
  · exact (AllOK.append (AllOK.single (by decide)) (h _)).append (AllOK.single (by decide))

theorem tokOK_opKind (op : Risor.C01.BinOp) : tokOK (tk (opKind op)) = true := by cases op <;> decide

mutual
theorem render_ok : ∀ (e : Expr) (q fl : Nat), exprOK e = true → AllOK (render q fl e)
  | .int n, _, _, _ => by rw [render]; exact AllOK.single (intOK_toString n)
  | .bool b, _, _, _ => by rw [render]; cases b <;> exact AllOK.single (by decide)
  | .nil, _, _, _ => by rw [render]; exact AllOK.single (by decide)
  | .str s, _, _, _ => by rw [render]; exact AllOK.single rfl
  | .ident x, _, _, h => by rw [render]; rw [exprOK] at h; exact AllOK.single h
  | .infix op l r, q, fl, h => by
    rw [exprOK, Bool.and_eq_true] at h
    rw [render]
    refine AllOK.wrap fun fl' => ?_
    exact      ((render_ok l _ _ h.1).append (AllOK.single (tokOK_opKind op))).append (render_ok r _ _ h.2)
  | .neg e, q, fl, h => by
    rw [exprOK] at h
    rw [render]
    refine AllOK.wrap fun fl' => ?_
    exact (AllOK.single (by decide)).append (render_ok e _ _ h)
  | .not e, q, fl, h => by
    rw [exprOK] at h
    rw [render]
    refine AllOK.wrap fun fl' => ?_
    exact (AllOK.single (by decide)).append (render_ok e _ _ h)
  | .tern c a b, q, fl, h => by
    rw [exprOK, Bool.and_eq_true, Bool.and_eq_true] at h
    rw [render]
    refine AllOK.wrap fun fl' => ?_
    exact      ((((render_ok c _ _ h.1.1).append (AllOK.single (by decide))).append (render_ok a _ _ h.1.2)).append
        (AllOK.single (by decide))).append (render_ok b _ _ h.2)
  | .isIn x c, q, fl, h => by
    rw [exprOK, Bool.and_eq_true] at h
    rw [render]
    refine AllOK.wrap fun fl' => ?_
    exact      ((render_ok x _ _ h.1).append (AllOK.single (by decide))).append (render_ok c _ _ h.2)
  | .notIn x c, q, fl, h => by
    rw [exprOK, Bool.and_eq_true] at h
    rw [render]
    refine AllOK.wrap fun fl' => ?_
    exact      ((render_ok x _ _ h.1).append (AllOK.cons (by decide) (AllOK.single (by decide)))).append (render_ok c _ _ h.2)
  | .call f args, q, fl, h => by
    rw [exprOK, Bool.and_eq_true] at h
    rw [render]
    exact (((render_ok f _ _ h.1).append (AllOK.single (by decide))).append (renderArgs_ok args h.2)).append
      (AllOK.single (by decide))
  | .mcall o name args, q, fl, h => by
    rw [exprOK, Bool.and_eq_true, Bool.and_eq_true] at h
    rw [render]
    exact (((render_ok o _ _ h.1.1).append
      (AllOK.cons (by decide) (AllOK.cons (t := ⟨.IDENT, name⟩) h.1.2 (AllOK.single (by decide))))).append (renderArgs_ok args h.2)).append
      (AllOK.single (by decide))
  | .index e i, q, fl, h => by
    rw [exprOK, Bool.and_eq_true] at h
    rw [render]
    exact (((render_ok e _ _ h.1).append (AllOK.single (by decide))).append (render_ok i _ _ h.2)).append
      (AllOK.single (by decide))
  | .slice e lo hi, q, fl, h => by
    rw [exprOK, Bool.and_eq_true, Bool.and_eq_true] at h
    rw [render]
    exact (((((render_ok e _ _ h.1.1).append (AllOK.single (by decide))).append (renderOpt_ok lo h.1.2)).append
      (AllOK.single (by decide))).append (renderOpt_ok hi h.2)).append (AllOK.single (by decide))
  | .list items, q, fl, h => by
    rw [exprOK] at h
    rw [render]
    exact ((AllOK.single (by decide)).append (renderArgs_ok items h)).append (AllOK.single (by decide))
theorem renderArgs_ok : ∀ (a : Args), argsOK a = true → AllOK (renderArgs a)
  | .nil, _ => by rw [renderArgs]; exact AllOK.nil
  | .cons e es, h => by
    rw [argsOK, Bool.and_eq_true] at h
    rw [renderArgs]
    exact (render_ok e _ _ h.1).append (renderTail_ok es h.2)
theorem renderTail_ok : ∀ (a : Args), argsOK a = true → AllOK (renderTail a)
  | .nil, _ => by rw [renderTail]; exact AllOK.nil
  | .cons e es, h => by
    rw [argsOK, Bool.and_eq_true] at h
    rw [renderTail]
    exact ((AllOK.single (by decide)).append (render_ok e _ _ h.1)).append (renderTail_ok es h.2)
theorem renderOpt_ok : ∀ (o : Opt), optOK o = true → AllOK (renderOpt o)
  | .none, _ => by rw [renderOpt]; exact AllOK.nil
  | .some e, h => by
    rw [optOK] at h
    rw [renderOpt]
    exact render_ok e _ _ h
end

end Risor.C20
