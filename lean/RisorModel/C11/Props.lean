import RisorModel.C11.Lemmas
/-!
C11 — property theorems.  "Scripts can reach only the globals the host configuration allows."

* `reach` is a complete decision procedure for reachability by access paths of ANY length,
  for every finite graph (`reach_sound_complete`).  The harness runs it on the real object
  graph of every generated Config.
* On the Config model (`St`, `denyParts`, `overrideParts` = risor_config.go as it is): the
  object registered under a removed name is unreachable by every path, a replacement is the
  end of every path that uses the replaced name, removals never create new paths, and edits
  made through one Config never change what another Config sees when their module objects
  are distinct.
* Dotted names of ANY depth (`m.f`, `m.sub.f`, `a.b.c.f`, …): `C11_deny_any_depth` /
  `C11_override_any_depth` prove the full statements `C11_full_deny` / `C11_full_override` for
  the code as it is, by induction on the module path (`resolveImpl_eq_spec`).  Before the
  repair of `resolveModule` in /repo ("fix: resolve a nested module path by descending one
  module per component", finding C11-nested-module-path) the statements were false for names
  with two or more intermediate modules: the pre-fix resolver is kept as `preFixResolve` and the
  refutations as `C11_fixed_nested_deny_was_ignored` / `C11_fixed_nested_override_was_ignored`.

* Host-owned inputs (section 9): the host's Go maps are heap objects with identity that several
  option sequences may name; for the code as it is (`WithGlobals` copies) no option sequence and no
  `Config.init` writes a host map (`host_inputs_never_written`) and every configuration built in
  a shared world is a function of its own option sequence (`configs_independent_shared_inputs`,
  `shared_inputs_each_own_sequence`); the variant that adopts the caller's map is refuted.

* Host objects (section 10): a replacement builtin / host value may be installed by any number of
  configurations; for the code as it is (`Module.Override` writes the module's table only) no
  `Config.init` and no sequence of builds writes a builtin's back-pointer (`init_never_writes_back`,
  `host_objects_never_written(_seq)`) and a configuration built later changes no access result of an
  earlier one, whatever objects the two share (`later_build_keeps_accesses`); the variant in which
  Override adopts the replacement is refuted (`adopting_override_writes_host_object`,
  `adopting_override_opens_path`, `shared_replacement_witness`).

All statements quantify over ALL states, names, graphs and paths; nothing is bounded.
-/
namespace Risor.C11

/-! ## 1. reachability is decided completely -/

/-- **Soundness and completeness of `reach`.** For every graph `g`, root set and node `t`:
    `t` is in `reach g roots` iff some root is joined to `t` by a path — a list of
    intermediate nodes of ANY length whose consecutive nodes are joined by edges of `g`.
    So one run of `reach` settles every access path, not the paths up to a bound. -/
theorem reach_sound_complete (g : Graph) (roots : List Id) (t : Id) :
    t ∈ reach g roots ↔ ∃ r ∈ roots, ∃ p : List Id, IsPath g r p t := by
  constructor
  · intro h
    exact reachAux_sound g roots g.length roots g
      (fun v hv => ⟨v, hv, [], rfl⟩) (fun e he => he) t h
  · rintro ⟨r, hr, p, hp⟩
    have hc := reachAux_closed g g.length roots g (fun e he => Or.inl he) (Nat.le_refl _)
    exact closed_path g _ hc.1 r p t (hc.2 r hr) hp

/-- The Boolean the oracle answers with: `reachable = false` means that NO path of any
    length leads from a root to `t`. -/
theorem unreachable_iff_no_path (g : Graph) (roots : List Id) (t : Id) :
    reachable g roots t = false ↔ ∀ r ∈ roots, ∀ p : List Id, ¬ IsPath g r p t := by
  have h := reach_sound_complete g roots t
  unfold reachable
  constructor
  · intro hf r hr p hp
    have : t ∈ reach g roots := h.2 ⟨r, hr, p, hp⟩
    have : (reach g roots).contains t = true := by simpa using this
    rw [hf] at this
    cases this
  · intro hn
    cases hc : (reach g roots).contains t with
    | false => rfl
    | true =>
      have : t ∈ reach g roots := by simpa using hc
      obtain ⟨r, hr, p, hp⟩ := h.1 this
      exact absurd hp (hn r hr p)

/-- A node that no edge enters and that is not a root is unreachable: the graph-level fact
    behind "removing the only registration makes the object unreachable". -/
theorem no_incoming_unreachable (g : Graph) (roots : List Id) (t : Id) (hr : t ∉ roots)
    (hin : ∀ e ∈ g, e.dst ≠ t) : t ∉ reach g roots := by
  intro h
  obtain ⟨r, hrm, p, hp⟩ := (reach_sound_complete g roots t).1 h
  rcases isPath_last g r p t hp with h1 | ⟨e, he, hd⟩
  · exact hr (h1 ▸ hrm)
  · exact hin e he hd

/-- Removing edges never makes anything new reachable. -/
theorem reach_mono (g g' : Graph) (hsub : ∀ e ∈ g, e ∈ g') (roots : List Id) (t : Id)
    (h : t ∈ reach g roots) : t ∈ reach g' roots := by
  obtain ⟨r, hr, p, hp⟩ := (reach_sound_complete g roots t).1 h
  exact (reach_sound_complete g' roots t).2 ⟨r, hr, p, isPath_mono g g' hsub r p t hp⟩

/-! ## 2. denied names -/

/-- `t` is registered in `st` under the top-level name `n` and nowhere else: every edge of
    the script-visible graph that enters `t` is the identifier or import edge of `n`
    (no alias under another name, no container holding it, no back-reference). -/
def SoleTop (st : St) (n : Name) (t : Id) : Prop :=
  ∀ e ∈ graphOf st, e.dst = t → e.src = root ∧ (e.lbl = .ident n ∨ e.lbl = .imp n)

/-- `t` is registered in `st` as attribute `a` of module `tm` and nowhere else. -/
def SoleMember (st : St) (tm : Id) (a : Name) (t : Id) : Prop :=
  ∀ e ∈ graphOf st, e.dst = t → e.src = tm ∧ e.lbl = .attr a

/-- **deny_removes_edge (top level).** After `WithoutGlobal(n)` for an undotted `n`, the
    identifier `n` does not resolve and `import n` fails, whatever attribute chain follows:
    for every state, name and chain. -/
theorem deny_top_access_fails (st : St) (n : Name) (imp : Bool) (attrs : List Name) :
    access (denyParts st [n]) imp n attrs = none := by
  have h0 : tget (denyParts st [n]).globals n = none := tget_terase_self st.globals n
  unfold access
  simp only [h0]
  induction attrs with
  | nil => rfl
  | cons a r ih => simpa [List.foldl_cons] using ih

/-- **Unreachability of a denied top-level object.** For every state `st`, name `n` and object
    `t` that is registered only under `n` (`SoleTop`): after `WithoutGlobal(n)` no access
    path of any length leads from the script's global scope to `t` — identifiers, imports,
    attribute chains, getattr and `__module__` back-references included, since all of them
    are edges of `graphOf`. -/
theorem deny_top_unreachable (st : St) (n : Name) (t : Id) (ht : t ≠ root)
    (hs : SoleTop st n t) : t ∉ reach (graphOf (denyParts st [n])) [root] := by
  apply no_incoming_unreachable
  · simpa using ht
  · intro e he hd
    have he' : e ∈ graphOf { st with globals := terase st.globals n } := he
    rcases edge_cases _ e he' with ⟨k, hk, _, hl⟩ | ⟨tb, k, htb, hl, hk⟩ | ⟨hb, hl⟩
    · obtain ⟨hk1, hk2⟩ := mem_terase hk
      have := hs ⟨root, .ident k, e.dst⟩ (ident_edge_mem hk1) hd
      rcases this.2 with h | h
      · simp only [Lbl.ident.injEq] at h
        exact hk2 h
      · cases h
    · have := hs ⟨e.src, .attr k, e.dst⟩ (member_edge_mem (st := st) htb hk) hd
      rcases this.2 with h | h <;> cases h
    · have := hs ⟨e.src, .back, e.dst⟩ (back_edge_mem (st := st) hb) hd
      rcases this.2 with h | h <;> cases h

/-- the core of a member removal/replacement: if `f` keeps only entries that were there
    under another key or do not point at `t`, no edge enters `t` any more -/
theorem modsEdit_no_edge_into (st : St) (tm : Id) (a : Name) (t : Id) (f : Table → Table)
    (hf : ∀ tb k x, (k, x) ∈ f tb → ((k, x) ∈ tb ∧ k ≠ a) ∨ x ≠ t)
    (hs : SoleMember st tm a t) :
    ∀ e ∈ graphOf { st with mods := modsUpdate st.mods tm f }, e.dst ≠ t := by
  intro e he hd
  rcases edge_cases_modsEdit st tm f e he with ⟨k, hk, _, _⟩ | ⟨tb, k, htb, _, hk⟩ | ⟨hb, _⟩
  · have := hs ⟨root, .ident k, e.dst⟩ (ident_edge_mem hk) hd
    cases this.2
  · by_cases hsrc : e.src = tm
    · simp only [hsrc, ↓reduceIte] at hk
      rcases hf tb k e.dst hk with ⟨h1, h2⟩ | h
      · have := hs ⟨e.src, .attr k, e.dst⟩ (member_edge_mem (st := st) htb h1) hd
        simp only [Lbl.attr.injEq] at this
        exact h2 this.2
      · exact h hd
    · simp only [hsrc, ↓reduceIte] at hk
      have := hs ⟨e.src, .attr k, e.dst⟩ (member_edge_mem (st := st) htb hk) hd
      exact hsrc this.1
  · have := hs ⟨e.src, .back, e.dst⟩ (back_edge_mem (st := st) hb) hd
    cases this.2

/-- `Module.Override(a, nil)` on module `tm`: the object that was registered only as `tm.a`
    is unreachable afterwards, by every path. -/
theorem overrideMod_none_unreachable (st : St) (tm : Id) (a : Name) (t : Id) (tbl : Table)
    (ha : a ≠ dunderName) (htab : st.table tm = some tbl) (hget : (tget tbl a).isSome = true)
    (ht : t ≠ root) (hs : SoleMember st tm a t) :
    t ∉ reach (graphOf (overrideMod st tm a none)) [root] := by
  rw [overrideMod_eq st tm a none tbl ha htab hget]
  apply no_incoming_unreachable
  · simpa using ht
  · apply modsEdit_no_edge_into st tm a t _ _ hs
    intro tb k x hk
    exact Or.inl (mem_terase hk)

/-- **deny_removes_edge (module member).** After `Override(a, nil)` the attribute step `a`
    on that module fails (`x.a`, `getattr(x, "a")`, `from x import a` alike). -/
theorem overrideMod_none_attr_fails (st : St) (tm : Id) (a : Name) (tbl : Table)
    (ha : a ≠ dunderName) (htab : st.table tm = some tbl) (hget : (tget tbl a).isSome = true) :
    attrStep (overrideMod st tm a none) tm a = none := by
  rw [overrideMod_eq st tm a none tbl ha htab hget]
  have h : mtable st.mods tm = some tbl := htab
  simp [attrStep, St.table, mtable_modsUpdate, h, editTable, ha, tget_terase_self]

/-- The hypotheses shared by the member theorems: in `st` the dotted name `mname.mp….last`
    names attribute `last` of module `tm` (reached from global `mname` by descending through
    the modules `mp`), it currently holds `t`, and `t` is registered nowhere else. -/
def MemberSite (st : St) (mname : Name) (attr : List Name) (tm : Id) (last : Name)
    (t : Id) : Prop :=
  ∃ (m : Id) (mp : List Name) (tbl : Table),
    tget st.globals mname = some m ∧ st.isModule m = true ∧
    splitLast attr = some (mp, last) ∧ resolveSpec st m mp = some tm ∧
    st.table tm = some tbl ∧ tget tbl last = some t ∧
    last ≠ dunderName ∧ t ≠ root ∧ SoleMember st tm last t

/-- **Unreachability of a denied module member (what the property demands).** With module
    paths resolved by descending (`denySpec`): for every state and every dotted name that
    names an object registered only there, no path of any length reaches it afterwards. -/
theorem denySpec_member_unreachable (st : St) (mname : Name) (attr : List Name) (tm : Id)
    (last : Name) (t : Id) (h : MemberSite st mname attr tm last t) :
    t ∉ reach (graphOf (denySpec st (mname :: attr))) [root] := by
  obtain ⟨m, mp, tbl, hg, hmod, hsplit, hres, htab, hget, hname, hroot, hsole⟩ := h
  unfold denySpec
  rw [denyWith_cons _ _ _ _ (splitLast_ne_nil hsplit),
    editMember_eq resolveSpec st mname attr none m tm mp last hg hmod hsplit hres]
  exact overrideMod_none_unreachable st tm last t tbl hname htab (by simp [hget]) hroot hsole

/-- The full statement for the code as it is (`denyParts` uses `resolveImpl`, the loop of
    `resolveModule` in risor_config.go): for EVERY state and EVERY dotted name — any number of
    intermediate modules — that names an object registered only there, no path of any length
    reaches the object after the denial. -/
def C11_full_deny : Prop :=
  ∀ (st : St) (mname : Name) (attr : List Name) (tm : Id) (last : Name) (t : Id),
    MemberSite st mname attr tm last t →
    t ∉ reach (graphOf (denyParts st (mname :: attr))) [root]

/-- The code as it is applies a denylist entry exactly as the property demands: for every
    state and every name (dotted or not, of any depth, resolvable or not) `denyParts` and
    `denySpec` give the same state. -/
theorem denyParts_eq_spec (st : St) (parts : List Name) : denyParts st parts = denySpec st parts := by
  have h : resolveImpl = resolveSpec := by
    funext st m mp; exact resolveImpl_eq_spec st m mp
  unfold denyParts denySpec
  rw [h]

/-- **Denied module member, names of any depth.** For the code as it is, every state and every
    dotted name `mname.mp….last` — with zero, one, two or any number of intermediate modules
    `mp` — that names an object registered only there: after `WithoutGlobal` of that name no
    path of any length reaches the object.  (Until the repair of `resolveModule` this carried
    the guard `deepName = false`.) -/
theorem C11_deny_any_depth (st : St) (mname : Name) (attr : List Name) (tm : Id) (last : Name)
    (t : Id) (h : MemberSite st mname attr tm last t) :
    t ∉ reach (graphOf (denyParts st (mname :: attr))) [root] := by
  rw [denyParts_eq_spec]
  exact denySpec_member_unreachable st mname attr tm last t h

/-- the full statement holds -/
theorem C11_full_deny_holds : C11_full_deny := C11_deny_any_depth

/-! ### the repaired defect (C11-nested-module-path), kept as checked statements -/

/-- HISTORICAL: the full deny statement for the code as it WAS (`preFixDenyParts` uses
    `preFixResolve`: every path component looked up in the root module). -/
def C11_preFix_full_deny : Prop :=
  ∀ (st : St) (mname : Name) (attr : List Name) (tm : Id) (last : Name) (t : Id),
    MemberSite st mname attr tm last t →
    t ∉ reach (graphOf (preFixDenyParts st (mname :: attr))) [root]

/-- host module `a{ b{ c{ f } } }`: a = 1, b = 2, c = 3, f = 4 -/
def nestedWitness : St :=
  { globals := [([97], 1)],
    mods := [(1, [([98], 2)]), (2, [([99], 3)]), (3, [([102], 4)])],
    back := [(4, 3)] }

theorem nestedWitness_site : MemberSite nestedWitness [97] [[98], [99], [102]] 3 [102] 4 :=
  ⟨1, [[98], [99]], [([102], 4)], by decide, by decide, by decide, by decide, by decide,
    by decide, by decide, by decide, by unfold SoleMember; decide⟩

/-- **BEFORE the repair (finding C11-nested-module-path).** With host module `a{b{c{f}}}`,
    `WithoutGlobal("a.b.c.f")` left `f` reachable: `resolveModule(a, [b, c])` looked `c` up in
    `a`, failed, and the denial was dropped. -/
theorem C11_fixed_nested_deny_was_ignored : ¬ C11_preFix_full_deny := by
  intro h
  exact h nestedWitness [97] [[98], [99], [102]] 3 [102] 4 nestedWitness_site (by decide)

/-- … and the SAME witness under the code as it is: `f` is reachable before the denial and by
    no path afterwards. -/
theorem C11_fixed_nested_deny_now_applies :
    reachable (graphOf nestedWitness) [root] 4 = true ∧
    reachable (graphOf (preFixDenyParts nestedWitness [[97], [98], [99], [102]])) [root] 4 = true ∧
    reachable (graphOf (denyParts nestedWitness [[97], [98], [99], [102]])) [root] 4 = false := by
  decide

/-- HISTORICAL: what did hold before the repair — the statement under the guard
    `deepName = false` (at most one intermediate module: `m.a` and `m.sub.a`). -/
theorem C11_fixed_preFix_shallow_deny (st : St) (mname : Name) (attr : List Name) (tm : Id) (last : Name)
    (t : Id) (hguard : deepName (mname :: attr) = false)
    (h : MemberSite st mname attr tm last t) :
    t ∉ reach (graphOf (preFixDenyParts st (mname :: attr))) [root] := by
  obtain ⟨m, mp, tbl, hg, hmod, hsplit, hres, htab, hget, hname, hroot, hsole⟩ := h
  have hlen := splitLast_length hsplit
  have hshort : mp.length ≤ 1 := by
    simp only [deepName, List.length_cons, decide_eq_false_iff_not, Nat.not_le] at hguard
    omega
  have : preFixDenyParts st (mname :: attr) = denySpec st (mname :: attr) := by
    unfold preFixDenyParts denySpec
    rw [denyWith_cons _ _ _ _ (splitLast_ne_nil hsplit), denyWith_cons _ _ _ _ (splitLast_ne_nil hsplit),
      editMember_eq resolveSpec st mname attr none m tm mp last hg hmod hsplit hres,
      editMember_eq preFixResolve st mname attr none m tm mp last hg hmod hsplit
        (by rw [preFixResolve_short st m mp hshort]; exact hres)]
  rw [this]
  exact denySpec_member_unreachable st mname attr tm last t
    ⟨m, mp, tbl, hg, hmod, hsplit, hres, htab, hget, hname, hroot, hsole⟩

/-- **Removals never create paths**: every object reachable after any `WithoutGlobal` entry
    (any name, dotted or not, resolvable or not, deep or not) was reachable before it. -/
theorem deny_reach_subset (st : St) (parts : List Name) (t : Id)
    (h : t ∈ reach (graphOf (denyParts st parts)) [root]) : t ∈ reach (graphOf st) [root] := by
  refine reach_mono _ _ ?_ [root] t h
  match parts with
  | [] => exact fun e he => he
  | [n] => exact graphOf_eraseGlobal_subset st n
  | mname :: a :: r =>
    show ∀ e ∈ graphOf (editMember resolveImpl st mname (a :: r) none), e ∈ graphOf st
    rcases editMember_cases resolveImpl st mname (a :: r) none with h0 | ⟨m, mp, last, tm, _, _, _, _, h1⟩
    · rw [h0]; exact fun e he => he
    · rw [h1]
      rcases overrideMod_cases st tm last none with h2 | h2
      · rw [h2]; exact fun e he => he
      · rw [h2]
        exact graphOf_modsEdit_subset st tm _ (fun tb kv hkv => (mem_terase hkv).1)

/-! ## 3. overrides -/

/-- **override_visible_on_every_path (top level).** After `WithGlobalOverride(n, v)` for an
    undotted `n`, every identifier edge and every import edge named `n` ends in the
    replacement `v`: whatever path a script takes, if its step is "the global `n`" it lands
    on `v`.  For every state. -/
theorem override_top_visible (st : St) (n : Name) (v : Id) :
    ∀ e ∈ graphOf (overrideParts st [n] v), e.src = root →
      (e.lbl = .ident n ∨ e.lbl = .imp n) → e.dst = v := by
  intro e he _ hl
  have he' : e ∈ graphOf { st with globals := tput st.globals n v } := he
  rcases edge_cases _ e he' with ⟨k, hk, _, hl2⟩ | ⟨tb, k, _, hl2, _⟩ | ⟨_, hl2⟩
  · have hkn : k = n := by
      rcases hl with h | h <;> rcases hl2 with h2 | h2 <;> rw [h] at h2 <;> cases h2 <;> rfl
    exact mem_tput hk hkn
  · rcases hl with h | h <;> rw [h] at hl2 <;> cases hl2
  · rcases hl with h | h <;> rw [h] at hl2 <;> cases hl2

/-- `Module.Override(a, v)`: every edge labelled `a` that leaves module `tm` ends in `v`. -/
theorem overrideMod_some_visible (st : St) (tm : Id) (a : Name) (v : Id) (tbl : Table)
    (ha : a ≠ dunderName) (htab : st.table tm = some tbl) (hget : (tget tbl a).isSome = true) :
    ∀ e ∈ graphOf (overrideMod st tm a (some v)), e.src = tm → e.lbl = .attr a → e.dst = v := by
  rw [overrideMod_eq st tm a (some v) tbl ha htab hget]
  intro e he hsrc hl
  rcases edge_cases_modsEdit st tm _ e he with ⟨k, _, _, hl2⟩ | ⟨tb, k, _, hl2, hk⟩ | ⟨_, hl2⟩
  · rcases hl2 with h | h <;> rw [hl] at h <;> cases h
  · simp only [hsrc, ↓reduceIte, editTable] at hk
    rw [hl] at hl2
    simp only [Lbl.attr.injEq] at hl2
    rcases mem_treplace hk with h1 | h1
    · exact h1.2
    · exact absurd hl2.symm h1.2
  · rw [hl] at hl2; cases hl2

/-- **override_visible_on_every_path (module member, what the property demands).** With
    descending resolution: after `WithGlobalOverride("mname.….last", v)` every edge labelled
    `last` out of the named module ends in `v`, and the object that was registered there is
    unreachable by every path (if it was registered only there and is not `v` itself). -/
theorem overrideSpec_member (st : St) (mname : Name) (attr : List Name) (tm : Id) (last : Name)
    (t v : Id) (h : MemberSite st mname attr tm last t) :
    (∀ e ∈ graphOf (overrideSpec st (mname :: attr) v), e.src = tm → e.lbl = .attr last → e.dst = v) ∧
    (t ≠ v → t ∉ reach (graphOf (overrideSpec st (mname :: attr) v)) [root]) := by
  obtain ⟨m, mp, tbl, hg, hmod, hsplit, hres, htab, hget, hname, hroot, hsole⟩ := h
  have hsome : (tget tbl last).isSome = true := by simp [hget]
  unfold overrideSpec
  rw [overrideWith_cons _ _ _ _ _ (splitLast_ne_nil hsplit),
    editMember_eq resolveSpec st mname attr (some v) m tm mp last hg hmod hsplit hres]
  refine ⟨overrideMod_some_visible st tm last v tbl hname htab hsome, ?_⟩
  intro htv
  rw [overrideMod_eq st tm last (some v) tbl hname htab hsome]
  apply no_incoming_unreachable
  · simpa using hroot
  · apply modsEdit_no_edge_into st tm last t _ _ hsole
    intro tb k x hk
    rcases mem_treplace hk with h1 | h1
    · exact Or.inr (fun hx => htv (hx.symm.trans h1.2))
    · exact Or.inl h1

/-- The full override statement for the code as it is: for EVERY state and EVERY dotted name of
    any depth, every edge labelled `last` out of the named module ends in the replacement, and
    the object that was registered there is unreachable by every path (if it was registered
    only there and is not the replacement itself). -/
def C11_full_override : Prop :=
  ∀ (st : St) (mname : Name) (attr : List Name) (tm : Id) (last : Name) (t v : Id),
    MemberSite st mname attr tm last t →
    (∀ e ∈ graphOf (overrideParts st (mname :: attr) v), e.src = tm → e.lbl = .attr last → e.dst = v) ∧
    (t ≠ v → t ∉ reach (graphOf (overrideParts st (mname :: attr) v)) [root])

/-- The code as it is applies an overrides entry exactly as the property demands, for every
    state, name (of any depth) and value. -/
theorem overrideParts_eq_spec (st : St) (parts : List Name) (v : Id) :
    overrideParts st parts v = overrideSpec st parts v := by
  have h : resolveImpl = resolveSpec := by
    funext st m mp; exact resolveImpl_eq_spec st m mp
  unfold overrideParts overrideSpec
  rw [h]

/-- **Overridden module member, names of any depth**: for the code as it is.  (Until the
    repair of `resolveModule` this carried the guard `deepName = false`.) -/
theorem C11_override_any_depth (st : St) (mname : Name) (attr : List Name) (tm : Id) (last : Name)
    (t v : Id) (h : MemberSite st mname attr tm last t) :
    (∀ e ∈ graphOf (overrideParts st (mname :: attr) v), e.src = tm → e.lbl = .attr last → e.dst = v) ∧
    (t ≠ v → t ∉ reach (graphOf (overrideParts st (mname :: attr) v)) [root]) := by
  rw [overrideParts_eq_spec]
  exact overrideSpec_member st mname attr tm last t v h

/-- the full statement holds -/
theorem C11_full_override_holds : C11_full_override := C11_override_any_depth

/-- The whole of `Config.init` (any denylist, any overrides, in any order given) on the code as
    it is equals what the property demands. -/
theorem initCfg_eq_spec (st : St) (denies : List (List Name)) (ovs : List (List Name × Id)) :
    initCfg st denies ovs = initSpec st denies ovs := by
  have hd : denyParts = denySpec := by funext s p; exact denyParts_eq_spec s p
  have ho : overrideParts = overrideSpec := by funext s p v; exact overrideParts_eq_spec s p v
  unfold initCfg initSpec
  rw [hd, ho]

/-- HISTORICAL: the override statement (first half) for the code as it WAS. -/
def C11_preFix_full_override : Prop :=
  ∀ (st : St) (mname : Name) (attr : List Name) (tm : Id) (last : Name) (t v : Id),
    MemberSite st mname attr tm last t →
    ∀ e ∈ graphOf (preFixOverrideParts st (mname :: attr) v), e.src = tm → e.lbl = .attr last → e.dst = v

/-- **BEFORE the repair.** `WithGlobalOverride("a.b.c.f", v)` on host module `a{b{c{f}}}` was
    dropped: the script still observed the original `f` (4), not `v` (9). -/
theorem C11_fixed_nested_override_was_ignored : ¬ C11_preFix_full_override := by
  intro h
  have := h nestedWitness [97] [[98], [99], [102]] 3 [102] 4 9 nestedWitness_site ⟨3, .attr [102], 4⟩
    (by decide) rfl rfl
  exact absurd this (by decide)

/-- … and the same witness under the code as it is: the script observes `v` (9). -/
theorem C11_fixed_nested_override_now_applies :
    access (preFixOverrideParts nestedWitness [[97], [98], [99], [102]] 9) false [97] [[98], [99], [102]] = some 4 ∧
    access (overrideParts nestedWitness [[97], [98], [99], [102]] 9) false [97] [[98], [99], [102]] = some 9 := by
  decide

/-- HISTORICAL: the override theorem that held before the repair, under `deepName = false`. -/
theorem C11_fixed_preFix_shallow_override (st : St) (mname : Name) (attr : List Name) (tm : Id) (last : Name)
    (t v : Id) (hguard : deepName (mname :: attr) = false)
    (h : MemberSite st mname attr tm last t) :
    (∀ e ∈ graphOf (preFixOverrideParts st (mname :: attr) v), e.src = tm → e.lbl = .attr last → e.dst = v) ∧
    (t ≠ v → t ∉ reach (graphOf (preFixOverrideParts st (mname :: attr) v)) [root]) := by
  have h' := h
  obtain ⟨m, mp, tbl, hg, hmod, hsplit, hres, htab, hget, hname, hroot, hsole⟩ := h
  have hlen := splitLast_length hsplit
  have hshort : mp.length ≤ 1 := by
    simp only [deepName, List.length_cons, decide_eq_false_iff_not, Nat.not_le] at hguard
    omega
  have : preFixOverrideParts st (mname :: attr) v = overrideSpec st (mname :: attr) v := by
    unfold preFixOverrideParts overrideSpec
    rw [overrideWith_cons _ _ _ _ _ (splitLast_ne_nil hsplit), overrideWith_cons _ _ _ _ _ (splitLast_ne_nil hsplit),
      editMember_eq resolveSpec st mname attr (some v) m tm mp last hg hmod hsplit hres,
      editMember_eq preFixResolve st mname attr (some v) m tm mp last hg hmod hsplit
        (by rw [preFixResolve_short st m mp hshort]; exact hres)]
  rw [this]
  exact overrideSpec_member st mname attr tm last t v h'

/-! ## 4. independence of configurations -/

/-- Script-visible results depend only on the part of the heap the configuration can reach:
    if `st'` has the same globals and back-pointers as `st` and the same attribute table for
    every object of a set `S` that contains `st`'s globals and is closed under attribute
    steps, then EVERY access attempt (identifier or import, any attribute chain) gives the
    same result in `st'` as in `st`. -/
theorem access_congr (st st' : St) (S : Id → Prop)
    (hg : st'.globals = st.globals) (hb : st'.back = st.back)
    (hglob : ∀ n x, tget st.globals n = some x → S x)
    (hclosed : ∀ x a y, S x → attrStep st x a = some y → S y)
    (hframe : ∀ x, S x → st'.table x = st.table x) :
    ∀ imp first attrs, access st' imp first attrs = access st imp first attrs := by
  intro imp first attrs
  have hstep : ∀ x a, S x → attrStep st' x a = attrStep st x a := by
    intro x a hx
    simp only [attrStep, hframe x hx, hb]
  have hfold : ∀ (attrs : List Name) (cur : Option Id), (∀ x, cur = some x → S x) →
      attrs.foldl (fun cur a => cur.bind fun x => attrStep st' x a) cur =
      attrs.foldl (fun cur a => cur.bind fun x => attrStep st x a) cur := by
    intro attrs
    induction attrs with
    | nil => intro cur _; rfl
    | cons a r ih =>
      intro cur hcur
      simp only [List.foldl_cons]
      cases cur with
      | none => exact ih none (fun x h => by cases h)
      | some x =>
        have hx := hcur x rfl
        simp only [Option.bind_some, hstep x a hx]
        exact ih _ (fun y hy => hclosed x a y hx hy)
  unfold access
  simp only [hg]
  cases hget : tget st.globals first with
  | none => exact hfold attrs none (fun x h => by cases h)
  | some x =>
    have hx := hglob first x hget
    have hm : st'.isModule x = st.isModule x := by simp only [St.isModule, hframe x hx]
    simp only [hm]
    apply hfold
    intro y hy
    split at hy
    · cases hy
    · cases hy; exact hx

/-- the module a dotted entry edits is one the configuration itself can reach (by the global
    `mname`, then one member edge per path component) -/
theorem resolveImpl_reachable (st : St) (mname : Name) (m : Id) (mp : List Name) (tm : Id)
    (hm : tget st.globals mname = some m) (hres : resolveImpl st m mp = some tm) :
    tm ∈ reach (graphOf st) [root] := by
  apply (reach_sound_complete _ _ _).2
  refine ⟨root, by simp, ?_⟩
  have e0 : ∃ e ∈ graphOf st, e.src = root ∧ e.dst = m :=
    ⟨⟨root, .ident mname, m⟩, ident_edge_mem (tget_mem hm), rfl, rfl⟩
  rw [resolveImpl_eq_spec] at hres
  obtain ⟨p, hp⟩ := resolveSpec_path st m mp tm hres
  exact ⟨m :: p, e0, hp⟩

/-- **Frame.** An edit made through a configuration changes the attribute table of no
    object, except possibly one module that this configuration can itself reach. -/
theorem editMember_frame (st : St) (mname : Name) (attr : List Name) (v : Option Id) (x : Id) :
    (editMember resolveImpl st mname attr v).table x = st.table x ∨
      (st.isModule x = true ∧ x ∈ reach (graphOf st) [root]) := by
  rcases editMember_cases resolveImpl st mname attr v with h0 | ⟨m, mp, last, tm, hm, _, _, hres, h1⟩
  · rw [h0]; exact Or.inl rfl
  · rw [h1]
    by_cases hx : x = tm
    · subst hx
      cases htab : st.table x with
      | none =>
        left
        unfold overrideMod
        split
        · exact htab
        · simp only [htab]
      | some t =>
        right
        exact ⟨by simp [St.isModule, htab], resolveImpl_reachable st mname m mp x hm hres⟩
    · exact Or.inl (overrideMod_table_other st tm last v x hx)

/-- the two kinds of edit a Config applies in `init` -/
inductive IsEdit : (St → St) → Prop
  | deny (parts : List Name) : IsEdit (fun s => denyParts s parts)
  | override (parts : List Name) (v : Id) : IsEdit (fun s => overrideParts s parts v)

theorem edit_frame (edit : St → St) (he : IsEdit edit) (st : St) (x : Id) :
    ((edit st).table x = st.table x ∨ (st.isModule x = true ∧ x ∈ reach (graphOf st) [root])) ∧
    (edit st).back = st.back := by
  cases he with
  | deny parts =>
    match parts with
    | [] => exact ⟨Or.inl rfl, rfl⟩
    | [n] => exact ⟨Or.inl rfl, rfl⟩
    | mname :: a :: r =>
      refine ⟨editMember_frame st mname (a :: r) none x, ?_⟩
      show (editMember resolveImpl st mname (a :: r) none).back = st.back
      rcases editMember_cases resolveImpl st mname (a :: r) none with h0 | ⟨_, _, last, tm, _, _, _, _, h1⟩
      · rw [h0]
      · rw [h1]; exact (overrideMod_globals st tm last none).2
  | override parts v =>
    match parts with
    | [] => exact ⟨Or.inl rfl, rfl⟩
    | [n] => exact ⟨Or.inl rfl, rfl⟩
    | mname :: a :: r =>
      refine ⟨editMember_frame st mname (a :: r) (some v) x, ?_⟩
      show (editMember resolveImpl st mname (a :: r) (some v)).back = st.back
      rcases editMember_cases resolveImpl st mname (a :: r) (some v) with h0 | ⟨_, _, last, tm, _, _, _, _, h1⟩
      · rw [h0]
      · rw [h1]; exact (overrideMod_globals st tm last (some v)).2

/-- **configs_independent.** Two configurations live on one heap (`st1`, `st2`: same module
    heap, each its own globals table).  If no MODULE is reachable from
    both (default globals are built fresh per Config), then any denylist or override entry
    applied through configuration 1 — any name, deep or not — leaves the result of EVERY
    access attempt of configuration 2 unchanged. -/
theorem configs_independent (st1 st2 : St) (edit : St → St) (he : IsEdit edit)
    (hheap : st2.mods = st1.mods)
    (hfresh : ∀ x, x ∈ reach (graphOf st1) [root] → x ∈ reach (graphOf st2) [root] →
      st1.isModule x = false) :
    ∀ imp first attrs,
      access { st2 with mods := (edit st1).mods } imp first attrs = access st2 imp first attrs := by
  apply access_congr st2 { st2 with mods := (edit st1).mods } (fun x => x ∈ reach (graphOf st2) [root]) rfl rfl
  · intro n x hx
    exact (reach_sound_complete _ _ _).2 ⟨root, by simp, [x],
      ⟨⟨root, .ident n, x⟩, ident_edge_mem (tget_mem hx), rfl, rfl⟩, rfl⟩
  · intro x a y hx hy
    obtain ⟨r, hr, p, hp⟩ := (reach_sound_complete _ _ _).1 hx
    have hedge : ∃ e ∈ graphOf st2, e.src = x ∧ e.dst = y := by
      unfold attrStep at hy
      split at hy
      · rename_i t ht
        split at hy
        · cases hy
        · exact ⟨⟨x, .attr a, y⟩, member_edge_mem (st := st2) (mtable_mem ht) (tget_mem hy), rfl, rfl⟩
      · split at hy
        · exact ⟨⟨x, .back, y⟩, back_edge_mem (st := st2) (bget_mem hy), rfl, rfl⟩
        · cases hy
    obtain ⟨e, hem, hes, hed⟩ := hedge
    exact (reach_sound_complete _ _ _).2 ⟨r, hr, p ++ [y], isPath_snoc _ r p x y hp e hem hes hed⟩
  · intro x hx
    show mtable (edit st1).mods x = mtable st2.mods x
    rw [hheap]
    rcases (edit_frame edit he st1 x).1 with h | ⟨hmod, hreach⟩
    · exact h
    · have := hfresh x hreach hx
      rw [hmod] at this
      cases this

/-- both configurations hold the SAME module object (1) under the global `m` -/
def sharedWitness : St := { globals := [([109], 1)], mods := [(1, [([102], 2)])], back := [(2, 1)] }

/-- **Freshness is necessary.** If two configurations share a module object, a removal made
    through one is seen by the other: before, configuration 2 evaluates `m.f` to object 2;
    after configuration 1 denies `m.f`, it fails.  (This is what a package-level cache of
    default modules would cause.) -/
theorem shared_module_interferes :
    access sharedWitness false [109] [[102]] = some 2 ∧
    access { sharedWitness with mods := (denyParts sharedWitness [[109], [102]]).mods }
      false [109] [[102]] = none := by
  decide

/-! ## 5. non-vacuity -/

/-- default-like state: global `os` (1) = module{ exit ↦ 2, getenv ↦ 3 }, global `len` ↦ 4;
    builtins point back at their module -/
def sampleState : St :=
  { globals := [([111, 115], 1), ([108, 101, 110], 4)],
    mods := [(1, [([101], 2), ([103], 3)])],
    back := [(2, 1), (3, 1), (4, 9)] }

/-- `MemberSite` is satisfiable by a shallow name (`os.e` in the sample state) and by a deep one
    (`a.b.c.f` in `nestedWitness`, `deepName = true`). -/
example : MemberSite sampleState [111, 115] [[101]] 1 [101] 2 ∧ deepName [[111, 115], [101]] = false :=
  ⟨⟨1, [], [([101], 2), ([103], 3)], by decide, by decide, by decide, by decide, by decide,
    by decide, by decide, by decide, by unfold SoleMember; decide⟩, by decide⟩
example : MemberSite nestedWitness [97] [[98], [99], [102]] 3 [102] 4 ∧
    deepName [[97], [98], [99], [102]] = true := ⟨nestedWitness_site, by decide⟩

/-- … and the theorem's conclusion is not trivial: the member IS reachable before the deny
    (directly and through its sibling's `__module__`), and is not afterwards. -/
example : reachable (graphOf sampleState) [root] 2 = true ∧
    reachable (graphOf (denyParts sampleState [[111, 115], [101]])) [root] 2 = false ∧
    access sampleState false [111, 115] [[103], dunderModule, [101]] = some 2 ∧
    access (denyParts sampleState [[111, 115], [101]]) false [111, 115] [[103], dunderModule, [101]] = none := by
  decide

/-- `SoleTop` is satisfiable: `len` in the sample state; denying the MODULE `os` is a case
    where `SoleTop` also holds although its members point back at it (they become
    unreachable together with it). -/
example : SoleTop sampleState [108, 101, 110] 4 := by unfold SoleTop; decide

/-- a back-reference defeats a removal when the referring builtin stays registered elsewhere:
    global `g` (3) is ALSO a member of module `os` (1); denying `os` leaves the module
    reachable through `g.__module__` — `SoleTop` fails, and `reach` reports it. -/
example :
    let st : St := { globals := [([111, 115], 1), ([103], 3)], mods := [(1, [([103], 3)])], back := [(3, 1)] }
    reachable (graphOf (denyParts st [[111, 115]])) [root] 1 = true := by
  decide

/-- the freshness hypothesis of `configs_independent` is satisfiable with both
    configurations non-empty: module 1 for configuration 1, module 5 for configuration 2. -/
example :
    let st1 : St := { globals := [([109], 1)], mods := [(1, [([102], 2)]), (5, [([102], 6)])], back := [] }
    let st2 : St := { st1 with globals := [([109], 5)] }
    (∀ x, x ∈ reach (graphOf st1) [root] → x ∈ reach (graphOf st2) [root] → st1.isModule x = false) ∧
    access st2 false [109] [[102]] = some 6 := by
  decide

/-! ## 6. sequences of configuration options

`applyOpts` folds ANY sequence of options (WithGlobal(s), WithoutGlobal(s), WithGlobalOverride,
WithoutDefaultGlobals — any names, dotted or not, repeated, in any order) into the fields of
`Config`; `initFrom` is `Config.init` with the iteration orders of the two Go maps as
parameters.  The theorems hold for every sequence and every iteration order. -/

theorem mem_denylist_foldl (opts : List Opt) (c : Cfg) (n : Name) :
    n ∈ (opts.foldl applyOpt c).denylist ↔ n ∈ c.denylist ∨ Opt.without n ∈ opts := by
  induction opts generalizing c with
  | nil => simp
  | cons o opts ih =>
    simp only [List.foldl_cons]
    rw [ih]
    cases o with
    | withGlobal m v => simp [applyOpt]
    | override m v => simp [applyOpt]
    | noDefaults => simp [applyOpt]
    | without m =>
      by_cases hc : c.denylist.contains m = true
      · have hm : m ∈ c.denylist := by simpa using hc
        simp only [applyOpt, hc, ↓reduceIte, List.mem_cons, Opt.without.injEq]
        constructor
        · rintro (h | h)
          · exact Or.inl h
          · exact Or.inr (Or.inr h)
        · rintro (h | h | h)
          · exact Or.inl h
          · exact Or.inl (h ▸ hm)
          · exact Or.inr h
      · simp only [applyOpt, hc, Bool.false_eq_true, ↓reduceIte, List.mem_append, List.mem_singleton,
          List.mem_cons, Opt.without.injEq, List.not_mem_nil, or_false]
        constructor
        · rintro ((h | h) | h)
          · exact Or.inl h
          · exact Or.inr (Or.inl h)
          · exact Or.inr (Or.inr h)
        · rintro (h | h | h)
          · exact Or.inl (Or.inl h)
          · exact Or.inl (Or.inr h)
          · exact Or.inr h

/-- The denylist after the whole sequence holds exactly the names some `WithoutGlobal(s)` of the
    sequence mentions — wherever it stands: no other option ever takes a name off it. -/
theorem mem_denylist (opts : List Opt) (n : Name) :
    n ∈ (applyOpts opts).denylist ↔ deniedIn opts n = true := by
  unfold applyOpts deniedIn
  rw [mem_denylist_foldl]
  simp [Cfg.empty]

/-- **Last override wins.** Appending `WithGlobalOverride(m, v)` to any sequence makes `v` the
    override in force for `m` and changes no other name's override. -/
theorem lastOverride_append (opts : List Opt) (n m : Name) (v : Id) :
    lastOverride (opts ++ [.override m v]) n = if m = n then some v else lastOverride opts n := by
  simp only [lastOverride, applyOpts, List.foldl_append, List.foldl_cons, List.foldl_nil, applyOpt]
  exact tget_tput _ m v n

/-- … and no option of another kind changes an override. -/
theorem lastOverride_append_other (opts : List Opt) (o : Opt) (n : Name)
    (h : ∀ m v, o ≠ .override m v) : lastOverride (opts ++ [o]) n = lastOverride opts n := by
  simp only [lastOverride, applyOpts, List.foldl_append, List.foldl_cons, List.foldl_nil]
  cases o with
  | override m v => exact absurd rfl (h m v)
  | withGlobal m v => rfl
  | without m => rfl
  | noDefaults => rfl

/-- **The final binding of every top-level name, for every option sequence** (closed form of
    the code as it is).  For every sequence `opts`, default table, heap, every enumeration
    `ds` of the denylist and `os` of the overrides (= every iteration order of the two Go maps)
    and every undotted name `n`:
    * if an override for `n` is in force, `n` is bound to it;
    * otherwise, if `n` was denied ANYWHERE in the sequence, `n` is unbound — a
      `WithGlobal(n, ·)` before or after the denial does not bring it back, and neither do
      the defaults;
    * otherwise `n` has its merged (host/default) binding. -/
theorem optseq_top_binding (opts : List Opt) (dflt : Table) (mods : List (Id × Table))
    (back : List (Id × Id)) (ds : List Name) (os : Table) (n : Name)
    (hn : undotted n = true)
    (hds : EnumSet (applyOpts opts).denylist ds) (hos : EnumMap (applyOpts opts).overrides os) :
    tget (initFrom (applyOpts opts) dflt mods back ds os).globals n =
      match lastOverride opts n with
      | some v => some v
      | none =>
        if deniedIn opts n then none
        else tget (mergeDefaults (applyOpts opts).noDefaults (applyOpts opts).globals dflt) n := by
  have hsplit : splitDots n = [n] := by simpa [undotted] using hn
  unfold initFrom initCfg
  cases hlo : lastOverride opts n with
  | some v =>
    show tget (St.globals (List.foldl _ _ _)) n = some v
    apply overrides_globals_hit
    · intro pv hpv hk
      obtain ⟨kv, hkv, rfl⟩ := List.mem_map.1 hpv
      have hkn : kv.1 = n := splitDots_single _ _ hk
      have := hos.1 kv hkv
      rw [hkn] at this
      have h2 : tget (applyOpts opts).overrides n = some v := hlo
      rw [h2] at this
      exact (Option.some.inj this).symm
    · right
      exact ⟨(splitDots n, v), List.mem_map.2 ⟨(n, v), hos.2 n v hlo, rfl⟩, hsplit⟩
  | none =>
    show tget (St.globals (List.foldl _ _ _)) n = _
    rw [overrides_globals_miss, denies_globals]
    · have hiff : [n] ∈ ds.map splitDots ↔ deniedIn opts n = true := by
        rw [← mem_denylist, ← hds n]
        constructor
        · intro h
          obtain ⟨m, hm, hk⟩ := List.mem_map.1 h
          exact (splitDots_single _ _ hk) ▸ hm
        · intro h
          exact List.mem_map.2 ⟨n, h, hsplit⟩
      by_cases hd : deniedIn opts n = true
      · simp [hd, hiff.2 hd]
      · have : ¬ [n] ∈ ds.map splitDots := fun h => hd (hiff.1 h)
        simp [hd, this]
    · intro pv hpv hk
      obtain ⟨kv, hkv, rfl⟩ := List.mem_map.1 hpv
      have hkn : kv.1 = n := splitDots_single _ _ hk
      have := hos.1 kv hkv
      rw [hkn] at this
      have h2 : tget (applyOpts opts).overrides n = none := hlo
      rw [h2] at this
      cases this

/-- **The code meets the Spec for option sequences**: for every sequence, iteration order and
    top-level name, the final binding is one `allowedTop` permits. -/
theorem optseq_meets_spec (opts : List Opt) (dflt : Table) (mods : List (Id × Table))
    (back : List (Id × Id)) (ds : List Name) (os : Table) (n : Name)
    (hn : undotted n = true)
    (hds : EnumSet (applyOpts opts).denylist ds) (hos : EnumMap (applyOpts opts).overrides os) :
    allowedTop opts n (tget (initFrom (applyOpts opts) dflt mods back ds os).globals n) = true := by
  rw [optseq_top_binding opts dflt mods back ds os n hn hds hos]
  unfold allowedTop
  cases lastOverride opts n with
  | some v => simp
  | none =>
    by_cases hd : deniedIn opts n = true
    · simp [hd]
    · simp [hd]

/-- **A denied name stays denied.** If `WithoutGlobal(n)` occurs anywhere in the sequence and no
    override for `n` is in force, `n` is unbound in the end — whatever else the sequence
    contains (in particular `WithGlobal(n, v)` AFTER the denial) and whatever `n`'s default is. -/
theorem optseq_denied_stays_denied (opts : List Opt) (dflt : Table) (mods : List (Id × Table))
    (back : List (Id × Id)) (ds : List Name) (os : Table) (n : Name)
    (hn : undotted n = true)
    (hds : EnumSet (applyOpts opts).denylist ds) (hos : EnumMap (applyOpts opts).overrides os)
    (hden : deniedIn opts n = true) (hov : lastOverride opts n = none) :
    tget (initFrom (applyOpts opts) dflt mods back ds os).globals n = none := by
  rw [optseq_top_binding opts dflt mods back ds os n hn hds hos, hov]
  simp [hden]

/-- … and so no identifier or import path through `n` exists at all. -/
theorem optseq_denied_access_fails (opts : List Opt) (dflt : Table) (mods : List (Id × Table))
    (back : List (Id × Id)) (ds : List Name) (os : Table) (n : Name)
    (hn : undotted n = true)
    (hds : EnumSet (applyOpts opts).denylist ds) (hos : EnumMap (applyOpts opts).overrides os)
    (hden : deniedIn opts n = true) (hov : lastOverride opts n = none)
    (imp : Bool) (attrs : List Name) :
    access (initFrom (applyOpts opts) dflt mods back ds os) imp n attrs = none := by
  have h0 := optseq_denied_stays_denied opts dflt mods back ds os n hn hds hos hden hov
  unfold access
  simp only [h0]
  induction attrs with
  | nil => rfl
  | cons a r ih => simpa [List.foldl_cons] using ih

/-- **An override in force is the binding**, whatever the rest of the sequence does to the name
    (deny it, supply it, override it earlier). -/
theorem optseq_override_visible (opts : List Opt) (dflt : Table) (mods : List (Id × Table))
    (back : List (Id × Id)) (ds : List Name) (os : Table) (n : Name) (v : Id)
    (hn : undotted n = true)
    (hds : EnumSet (applyOpts opts).denylist ds) (hos : EnumMap (applyOpts opts).overrides os)
    (hov : lastOverride opts n = some v) :
    tget (initFrom (applyOpts opts) dflt mods back ds os).globals n = some v := by
  rw [optseq_top_binding opts dflt mods back ds os n hn hds hos, hov]

/-- the hypotheses are satisfiable and the statement bites: deny `exec` (default object 7), then
    supply the host's own object 9 under the same name — `exec` is unbound, in both iteration
    orders; the Spec rejects the default object as its binding and accepts `none` and 9. -/
example :
    let opts := [Opt.without [101], Opt.withGlobal [101] 9]
    EnumSet (applyOpts opts).denylist [[101]] ∧ EnumMap (applyOpts opts).overrides [] ∧
    tget (initFrom (applyOpts opts) [([101], 7)] [] [] [[101]] []).globals [101] = none ∧
    allowedTop opts [101] (some 7) = false ∧ allowedTop opts [101] none = true ∧
    allowedTop opts [101] (some 9) = true ∧
    allowedTop [Opt.withGlobal [101] 9, Opt.without [101]] [101] (some 9) = false := by
  refine ⟨?_, ?_, by decide, by decide, by decide, by decide, by decide⟩
  · intro x; simp [applyOpts, applyOpt, Cfg.empty]
  · refine ⟨?_, ?_⟩
    · intro kv h; cases h
    · intro k v h; simp [applyOpts, applyOpt, Cfg.empty, tget] at h

/-! ### module members under sequences of edits -/

/-- one edit never ADDS an attribute to any module: what is not a member stays not a member -/
theorem edit_keeps_absent (edit : St → St) (he : IsEdit edit) (st : St) (x : Id) (a : Name)
    (t : Table) (ht : st.table x = some t) (ha : tget t a = none) :
    ∃ t', (edit st).table x = some t' ∧ tget t' a = none := by
  have key : ∀ (mname : Name) (attr : List Name) (v : Option Id),
      ∃ t', (editMember resolveImpl st mname attr v).table x = some t' ∧ tget t' a = none := by
    intro mname attr v
    rcases editMember_cases resolveImpl st mname attr v with h0 | ⟨_, _, last, tm, _, _, _, _, h1⟩
    · rw [h0]; exact ⟨t, ht, ha⟩
    · rw [h1]
      rcases overrideMod_cases st tm last v with h2 | h2
      · rw [h2]; exact ⟨t, ht, ha⟩
      · rw [h2]
        have hm : mtable st.mods x = some t := ht
        refine ⟨if x = tm then editTable last v t else t, ?_, ?_⟩
        · show mtable (modsUpdate st.mods tm (editTable last v)) x = _
          rw [mtable_modsUpdate, hm]; rfl
        · by_cases hx : x = tm
          · simp only [hx, ↓reduceIte]
            cases v with
            | none =>
              show tget (terase t last) a = none
              rw [tget_terase]; simp [ha]
            | some y =>
              show tget (treplace t last y) a = none
              rw [tget_treplace]; simp [ha]
          · simp only [hx, ↓reduceIte]; exact ha
  cases he with
  | deny parts =>
    match parts with
    | [] => exact ⟨t, ht, ha⟩
    | [n] => exact ⟨t, ht, ha⟩
    | mname :: b :: r => exact key mname (b :: r) none
  | override parts v =>
    match parts with
    | [] => exact ⟨t, ht, ha⟩
    | [n] => exact ⟨t, ht, ha⟩
    | mname :: b :: r => exact key mname (b :: r) (some v)

/-- **Config.init never adds a member to a module**, for every list of denylist entries and
    overrides in every order (`Module.Override` refuses names that are not current
    attributes). -/
theorem init_never_adds_members (st : St) (ds : List (List Name)) (os : List (List Name × Id))
    (x : Id) (a : Name) (t : Table) (ht : st.table x = some t) (ha : tget t a = none) :
    ∃ t', (initCfg st ds os).table x = some t' ∧ tget t' a = none := by
  unfold initCfg
  have hd : ∀ (ds : List (List Name)) (st : St) (t : Table), st.table x = some t → tget t a = none →
      ∃ t', (ds.foldl denyParts st).table x = some t' ∧ tget t' a = none := by
    intro ds
    induction ds with
    | nil => intro st t ht ha; exact ⟨t, ht, ha⟩
    | cons p ds ih =>
      intro st t ht ha
      obtain ⟨t1, h1, h2⟩ := edit_keeps_absent _ (IsEdit.deny p) st x a t ht ha
      exact ih _ t1 h1 h2
  have ho : ∀ (os : List (List Name × Id)) (st : St) (t : Table), st.table x = some t → tget t a = none →
      ∃ t', (os.foldl (fun s pv => overrideParts s pv.1 pv.2) st).table x = some t' ∧ tget t' a = none := by
    intro os
    induction os with
    | nil => intro st t ht ha; exact ⟨t, ht, ha⟩
    | cons pv os ih =>
      intro st t ht ha
      obtain ⟨t1, h1, h2⟩ := edit_keeps_absent _ (IsEdit.override pv.1 pv.2) st x a t ht ha
      exact ih _ t1 h1 h2
  obtain ⟨t1, h1, h2⟩ := hd ds st t ht ha
  exact ho os _ t1 h1 h2

/-- **A denied member stays denied.** Once `Override(a, nil)` removed attribute `a` from module
    `tm`, NO further list of denylist entries and overrides (any names, any order — including
    `WithGlobalOverride("….a", v)` for the same name) makes `tm.a` resolve again. -/
theorem denied_member_stays_denied (st : St) (tm : Id) (a : Name) (tbl : Table)
    (ha : a ≠ dunderName) (htab : st.table tm = some tbl) (hget : (tget tbl a).isSome = true)
    (ds : List (List Name)) (os : List (List Name × Id)) :
    attrStep (initCfg (overrideMod st tm a none) ds os) tm a = none := by
  have h0 : (overrideMod st tm a none).table tm = some (terase tbl a) := by
    rw [overrideMod_eq st tm a none tbl ha htab hget]
    have hm : mtable st.mods tm = some tbl := htab
    show mtable (modsUpdate st.mods tm (editTable a none)) tm = _
    rw [mtable_modsUpdate, hm]; simp [editTable]
  obtain ⟨t', h1, h2⟩ := init_never_adds_members _ ds os tm a _ h0 (tget_terase_self tbl a)
  simp [attrStep, h1, ha, h2]

/-! ## 7. a reused virtual machine

`vmBegin` is `RunCode` up to the first instruction on a VM with ANY history; `vmAccess` is what
a script compiled against configuration `g` obtains in that run. -/

theorem foldl_bind_none (f : Id → Name → Option Id) (attrs : List Name) :
    attrs.foldl (fun cur a => cur.bind fun x => f x a) none = none := by
  induction attrs with
  | nil => rfl
  | cons a r ih => simpa [List.foldl_cons] using ih

/-- **Identifiers on a reused VM see exactly the run's own configuration.** For every VM state
    (any earlier runs with any configurations: `vm` is arbitrary), every heap, every
    configuration `g` and every access path that starts with an identifier: the result in the
    run is the result the configuration alone determines.  Nothing an earlier configuration
    bound — a member it kept, an object it had under the same name — is observable. -/
theorem reuse_ident_own_config (mods : List (Id × Table)) (back : List (Id × Id)) (vm : VM)
    (g : Table) (hg : IsMap g) (first : Name) (attrs : List Name) :
    vmAccess mods back (vmBegin mods vm g) g false first attrs =
      access ⟨g, mods, back⟩ false first attrs := by
  unfold vmAccess access
  have hstart : (if (tget g first).isSome then tget (vmBegin mods vm g).globals first else none) =
      (match tget g first with
        | some x => if false && !(⟨g, mods, back⟩ : St).isModule x then none else some x
        | none => none) := by
    cases hf : tget g first with
    | none => simp
    | some x =>
      simp only [Option.isSome_some, ↓reduceIte, Bool.false_and, Bool.false_eq_true]
      show tget (putAll vm.input g) first = some x
      apply putAll_hit
      · intro kv hkv hk
        have := hg kv.1 kv.2 hkv
        rw [hk, hf] at this
        exact (Option.some.inj this).symm
      · exact Or.inr ⟨(first, x), tget_mem hf, rfl⟩
  simp only [Bool.false_eq_true, ↓reduceIte]
  rw [hstart]
  rfl

/-- **Imports on a VM that has run before fail** (as the code is: `resetForNewCode` empties
    the importable modules after the options were applied) — so no module of an earlier
    configuration can be imported in a later run. -/
theorem reuse_import_later_runs (mods : List (Id × Table)) (back : List (Id × Id)) (vm : VM)
    (g : Table) (h : vm.runs ≠ 0) (first : Name) (attrs : List Name) :
    vmAccess mods back (vmBegin mods vm g) g true first attrs = none := by
  unfold vmAccess
  have : (vmBegin mods vm g).modules = [] := by
    simp [vmBegin, vmApply, h]
  simp only [this, ↓reduceIte, tget]
  exact foldl_bind_none _ attrs

/-- **Imports in the first run of a fresh VM obtain only what the configuration holds**: the
    result is a failure or exactly the configuration's own result. -/
theorem reuse_import_first_run (mods : List (Id × Table)) (back : List (Id × Id))
    (g : Table) (hg : IsMap g) (first : Name) (attrs : List Name) :
    vmAccess mods back (vmBegin mods VM.empty g) g true first attrs = none ∨
    vmAccess mods back (vmBegin mods VM.empty g) g true first attrs =
      access ⟨g, mods, back⟩ true first attrs := by
  unfold vmAccess access
  simp only [↓reduceIte]
  cases hm : tget (vmBegin mods VM.empty g).modules first with
  | none => left; exact foldl_bind_none _ attrs
  | some x =>
    right
    have hmem : (first, x) ∈ (vmBegin mods VM.empty g).modules := tget_mem hm
    have hmem2 : (first, x) ∈ putAll [] ((putAll [] g).filter fun kv => isMod mods kv.2) := hmem
    rcases mem_putAll _ _ _ hmem2 with h | h
    · cases h
    · obtain ⟨h1, h2⟩ := List.mem_filter.1 h
      rcases mem_putAll _ _ _ h1 with h3 | h3
      · cases h3
      · have hgx : tget g first = some x := hg first x h3
        have hmod : (⟨g, mods, back⟩ : St).isModule x = true := h2
        simp only [hgx, hmod, Bool.not_true, Bool.and_false, Bool.false_eq_true, ↓reduceIte]
        rfl

/-- an evaluation whose source does not compile (unbound identifier) yields nothing, exactly
    as `vmAccess` says; so the theorems about `vmAccess (vmBegin …)` describe every evaluation -/
theorem vmEval_result (mods : List (Id × Table)) (back : List (Id × Id)) (vm : VM) (g : Table)
    (imp : Bool) (first : Name) (attrs : List Name) :
    (vmEval mods back vm g imp first attrs).2 =
      vmAccess mods back (vmBegin mods vm g) g imp first attrs := by
  unfold vmEval
  split
  · rename_i h
    simp only [Bool.and_eq_true, Bool.not_eq_eq_eq_not, Bool.not_true, Option.isNone_iff_eq_none] at h
    unfold vmAccess
    simp only [h.1, Bool.false_eq_true, ↓reduceIte, h.2, Option.isSome_none]
    exact (foldl_bind_none _ attrs).symm
  · rfl

theorem vmRuns_runs (hist : List (List (Id × Table) × Table)) (vm : VM) :
    (vmRuns vm hist).runs = vm.runs + hist.length := by
  induction hist generalizing vm with
  | nil => rfl
  | cons h hist ih =>
    show (vmRuns (vmBegin h.1 vm h.2) hist).runs = _
    rw [ih]
    simp only [vmBegin, vmApply, List.length_cons]
    omega

/-- **Every evaluation on a reused VM sees only its own configuration.** For every history of
    earlier runs on a VM created empty (any number, any configurations, any heaps), the next
    run with configuration `g` gives, for every access path: by identifier exactly what `g`
    alone determines; by import either a failure or what `g` alone determines. -/
theorem reuse_each_run_sees_own_config (hist : List (List (Id × Table) × Table))
    (mods : List (Id × Table)) (back : List (Id × Id)) (g : Table) (hg : IsMap g)
    (first : Name) (attrs : List Name) :
    vmAccess mods back (vmBegin mods (vmRuns VM.empty hist) g) g false first attrs =
      access ⟨g, mods, back⟩ false first attrs ∧
    (vmAccess mods back (vmBegin mods (vmRuns VM.empty hist) g) g true first attrs = none ∨
     vmAccess mods back (vmBegin mods (vmRuns VM.empty hist) g) g true first attrs =
      access ⟨g, mods, back⟩ true first attrs) := by
  refine ⟨reuse_ident_own_config mods back _ g hg first attrs, ?_⟩
  cases hist with
  | nil => exact reuse_import_first_run mods back g hg first attrs
  | cons h r =>
    left
    apply reuse_import_later_runs
    rw [vmRuns_runs]
    simp

/-- non-vacuity: run 1 with `os`(1) = {getenv ↦ 2}, run 2 with a fresh `os`(5) = {} (member
    removed), same name, no new name: run 2's `os.getenv` fails and `os` is module 5. -/
example :
    let mods : List (Id × Table) := [(1, [([103], 2)]), (5, [])]
    let vm1 := vmBegin mods VM.empty [([111, 115], 1)]
    vmAccess mods [] vm1 [([111, 115], 1)] false [111, 115] [[103]] = some 2 ∧
    vmAccess mods [] (vmBegin mods vm1 [([111, 115], 5)]) [([111, 115], 5)] false [111, 115] [[103]] = none ∧
    vmAccess mods [] (vmBegin mods vm1 [([111, 115], 5)]) [([111, 115], 5)] false [111, 115] [] = some 5 := by
  decide

/-! ## 8. a configuration built later on the same heap -/

theorem reach_closed (g : Graph) (roots : List Id) :
    Closed g (reach g roots) ∧ ∀ r ∈ roots, r ∈ reach g roots :=
  reachAux_closed g g.length roots g (fun e he => Or.inl he) (Nat.le_refl _)

/-- if the set reachable in `g'` is closed under the edges of `g`, everything reachable in `g`
    is reachable in `g'` -/
theorem reach_subset_of_closed (g g' : Graph) (roots : List Id)
    (hc : Closed g (reach g' roots)) (t : Id) (h : t ∈ reach g roots) : t ∈ reach g' roots := by
  obtain ⟨r, hr, p, hp⟩ := (reach_sound_complete g roots t).1 h
  exact closed_path g _ hc r p t ((reach_closed g' roots).2 r hr) hp

/-- **Edges that start outside the reachable set add nothing**: for every graph, root set and
    set of extra edges none of which leaves a reachable node, reachability is unchanged. -/
theorem reach_extend (g extra : Graph) (roots : List Id)
    (h : ∀ e ∈ extra, e.src ∉ reach g roots) (t : Id) :
    t ∈ reach (g ++ extra) roots ↔ t ∈ reach g roots := by
  constructor
  · apply reach_subset_of_closed
    intro e he hsrc
    rcases List.mem_append.1 he with h1 | h1
    · exact (reach_closed g roots).1 e h1 hsrc
    · exact absurd hsrc (h e h1)
  · exact reach_mono g (g ++ extra) (fun e he => List.mem_append.2 (Or.inl he)) roots t

theorem global_reachable (st : St) (k : Name) (x : Id) (h : (k, x) ∈ st.globals) :
    x ∈ reach (graphOf st) [root] :=
  (reach_sound_complete _ _ _).2 ⟨root, by simp, [x],
    ⟨⟨root, .ident k, x⟩, ident_edge_mem h, rfl, rfl⟩, rfl⟩

/-- **Building another configuration creates no path for this one.** `addConfig` allocates
    modules and builtins (with back-pointers) that this configuration cannot reach and writes
    nothing that exists (`Builtin.module` is never re-aimed, no existing table is touched).
    Then for EVERY object: it is reachable from this configuration's globals afterwards iff it
    was before — a denied object stays unreachable whatever is built later. -/
theorem later_config_no_new_paths (st : St) (newMods : List (Id × Table)) (newBack : List (Id × Id))
    (h1 : ∀ it ∈ newMods, it.1 ∉ reach (graphOf st) [root])
    (h2 : ∀ bm ∈ newBack, bm.1 ∉ reach (graphOf st) [root]) (t : Id) :
    t ∈ reach (graphOf (addConfig st newMods newBack)) [root] ↔ t ∈ reach (graphOf st) [root] := by
  constructor
  · apply reach_subset_of_closed
    intro e he hsrc
    rcases edge_cases _ e he with ⟨k, hk, _, _⟩ | ⟨tb, k, htb, _, hk⟩ | ⟨hb, _⟩
    · exact global_reachable st k e.dst hk
    · rcases List.mem_append.1 htb with h | h
      · exact (reach_closed _ _).1 ⟨e.src, .attr k, e.dst⟩ (member_edge_mem (st := st) h hk) hsrc
      · exact absurd hsrc (h1 _ h)
    · rcases List.mem_append.1 hb with h | h
      · exact (reach_closed _ _).1 ⟨e.src, .back, e.dst⟩ (back_edge_mem (st := st) h) hsrc
      · exact absurd hsrc (h2 _ h)
  · apply reach_subset_of_closed
    intro e he hsrc
    rcases edge_cases _ e he with ⟨k, hk, _, _⟩ | ⟨tb, k, htb, _, hk⟩ | ⟨hb, _⟩
    · exact global_reachable (addConfig st newMods newBack) k e.dst hk
    · exact (reach_closed _ _).1 ⟨e.src, .attr k, e.dst⟩
        (member_edge_mem (st := addConfig st newMods newBack) (List.mem_append.2 (Or.inl htb)) hk) hsrc
    · exact (reach_closed _ _).1 ⟨e.src, .back, e.dst⟩
        (back_edge_mem (st := addConfig st newMods newBack) (List.mem_append.2 (Or.inl hb))) hsrc

/-- configuration A: `os`(1) = {exit ↦ 2, getenv ↦ 3}; a later configuration B has its own
    module 5 = {exit ↦ 2, getenv ↦ 3} built from the SAME builtin objects, whose back-pointers
    now lead to module 5 -/
def sharedBuiltinWitness : St :=
  { globals := [([111, 115], 1)],
    mods := [(1, [([101], 2), ([103], 3)]), (5, [([101], 2), ([103], 3)])],
    back := [(2, 5), (3, 5)] }

/-- **Why builtins must not be shared between module instances.** If a later configuration's
    module is built from the same builtin objects and their `__module__` follows it, denying
    `os.exit` in configuration A leaves the object reachable from A:
    `os.getenv.__module__.exit`.  (The hypotheses of `later_config_no_new_paths` and
    `SoleMember` exclude exactly this.) -/
theorem shared_builtin_defeats_deny :
    reachable (graphOf (denyParts sharedBuiltinWitness [[111, 115], [101]])) [root] 2 = true ∧
    access (denyParts sharedBuiltinWitness [[111, 115], [101]]) false [111, 115] [[101]] = none ∧
    access (denyParts sharedBuiltinWitness [[111, 115], [101]]) false [111, 115]
      [[103], dunderModule, [101]] = some 2 := by
  decide

/-- non-vacuity of `later_config_no_new_paths`: A = `os`(1) = {exit ↦ 2} with `os.exit` denied;
    B brings module 5 = {exit ↦ 6} with builtin 6 ↦ 5; object 2 is unreachable before and
    after B is built. -/
example :
    let a := denyParts { globals := [([111, 115], 1)], mods := [(1, [([101], 2)])], back := [(2, 1)] } [[111, 115], [101]]
    (∀ it ∈ [((5 : Id), ([([101], 6)] : Table))], it.1 ∉ reach (graphOf a) [root]) ∧
    (∀ bm ∈ [((6 : Id), (5 : Id))], bm.1 ∉ reach (graphOf a) [root]) ∧
    reachable (graphOf (addConfig a [(5, [([101], 6)])] [(6, 5)])) [root] 2 = false := by
  decide

/-! ## 9. host-owned inputs shared between configurations

The host's Go maps have identity (`World.heap`); several option sequences may name the same map
(`HOpt.globalsMap h`).  `build false` is `NewConfig(opts...)` of the code as it is (`WithGlobals`
copies), `build true` the contrast in which `WithGlobals` adopts the host's map; `runBuilds` builds
any number of configurations one after the other in one world.  `ownGlobals` is the Spec: the
configuration's globals as a function of its own option sequence only. -/

/-- the statement "building a configuration writes no host map", for either variant of
    `WithGlobals` -/
def HostInputsNeverWritten (adopt : Bool) : Prop :=
  ∀ (w : World) (b : Build), (build adopt w b).1.heap = w.heap

/-- **host_inputs_never_written.** For the code as it is (`WithGlobals` copies the entries):
    for EVERY world (any host maps, shared by any number of option sequences), every option
    sequence — any mixture of `WithGlobals(m)` for any host maps `m`, the same map several times,
    `WithGlobal`, `WithoutGlobal(s)`, `WithGlobalOverride`, `WithoutDefaultGlobals` — every default
    table and every iteration order, folding the options and running `Config.init` leaves every
    host-supplied map exactly as it was (same keys, same values). -/
theorem host_inputs_never_written : HostInputsNeverWritten false :=
  fun w b => (build_copy w b).1

/-- **A configuration's globals are a function of its own option sequence.**  Whatever the
    world contains (modules and builtins of other configurations, any module heap), the built
    Config owns its globals map and its contents are `ownGlobals`: the fold of ITS options over
    the host maps' contents, then `Config.init` — so every theorem of section 6
    (`optseq_top_binding`, `optseq_meets_spec`, `optseq_denied_stays_denied`, …) applies to it
    with `opts := flatten w.heap b.opts`. -/
theorem build_own_sequence (w : World) (b : Build) :
    (build false w b).2 = ⟨none, ownGlobals w.heap b⟩ :=
  (build_copy w b).2

/-- what a built Config of the code as it is shows does not depend on the host maps' later
    contents -/
theorem visible_own (t : Table) (heap : List (Id × Table)) :
    (⟨none, t⟩ : Built).visible heap = t := rfl

/-- any number of configurations, one after the other: no host map is written and the k-th
    result is what the k-th request gives alone on the ORIGINAL host maps -/
theorem runBuilds_copy (bs : List Build) (w : World) :
    (runBuilds false w bs).1.heap = w.heap ∧
    (runBuilds false w bs).2 = bs.map fun b => (⟨none, ownGlobals w.heap b⟩ : Built) := by
  induction bs generalizing w with
  | nil => exact ⟨rfl, rfl⟩
  | cons b bs ih =>
    obtain ⟨h1, h2⟩ := ih (build false w b).1
    have hb := build_copy w b
    simp only [runBuilds, List.map_cons]
    rw [h1, h2, hb.1, hb.2]
    exact ⟨rfl, rfl⟩

/-- **host_inputs_never_written, sequences of configurations.** -/
theorem host_inputs_never_written_seq (w : World) (bs : List Build) :
    (runBuilds false w bs).1.heap = w.heap :=
  (runBuilds_copy bs w).1

/-- **configs_independent_shared_inputs.**  Two configurations whose option sequences may name
    the SAME host maps (and the same objects inside them), built in one world in either order:
    * neither build writes a host map;
    * each built Config is exactly what its own request gives alone — `ownGlobals` of ITS
      sequence over the host maps as the host wrote them — whether it is built first or second;
    * what the first Config shows is the same after the second was built (at the final heap).
    For all worlds, option sequences, default tables and iteration orders. -/
theorem configs_independent_shared_inputs (w : World) (b1 b2 : Build) :
    let r1 := build false w b1
    let r2 := build false r1.1 b2
    r2.1.heap = w.heap ∧
    r1.2 = ⟨none, ownGlobals w.heap b1⟩ ∧ r2.2 = ⟨none, ownGlobals w.heap b2⟩ ∧
    r2.2 = (build false w b2).2 ∧
    r1.2.visible r2.1.heap = ownGlobals w.heap b1 ∧ r2.2.visible r2.1.heap = ownGlobals w.heap b2 := by
  intro r1 r2
  have h1 := build_copy w b1
  have h2 := build_copy r1.1 b2
  have h3 := build_copy w b2
  have e1 : r1.1.heap = w.heap := h1.1
  have e2 : r2.2 = ⟨none, ownGlobals w.heap b2⟩ := by rw [← e1]; exact h2.2
  refine ⟨h2.1.trans e1, h1.2, e2, e2.trans h3.2.symm, ?_, ?_⟩
  · rw [show r1.2 = _ from h1.2]; rfl
  · rw [e2]; rfl

/-- **Any number of configurations, any order.**  For every list of requests over shared host
    maps: the list of built Configs is the list of their `ownGlobals` — position by position. -/
theorem shared_inputs_each_own_sequence (w : World) (bs : List Build) :
    (runBuilds false w bs).2 = bs.map fun b => (⟨none, ownGlobals w.heap b⟩ : Built) :=
  (runBuilds_copy bs w).2

/-- … hence building the same requests in another order (permissive before restrictive or the
    reverse, or any interleaving of whole builds) yields the same Configs, permuted. -/
theorem shared_inputs_order_irrelevant (w : World) (bs bs' : List Build) (h : bs.Perm bs') :
    (runBuilds false w bs).2.Perm (runBuilds false w bs').2 := by
  rw [shared_inputs_each_own_sequence, shared_inputs_each_own_sequence]
  exact h.map _

/-! ### contrast: `WithGlobals` adopts the host's map -/

/-- host map 7 = {x ↦ 9}; the permissive request (defaults: `os` ↦ module 1) and the restrictive
    one (`WithoutDefaultGlobals`), both `WithGlobals(m)` with the SAME map -/
def adoptWorld : World := ⟨[(7, [([120], 9)])], [], []⟩
def permissive : Build := ⟨[.globalsMap 7], [([111, 115], 1)], [(1, [])], [], [], []⟩
def restrictive : Build := ⟨[.opt .noDefaults, .globalsMap 7], [([111, 115], 5)], [(5, [])], [], [], []⟩

/-- **Counterexample (adopting variant).**  `NewConfig(WithGlobals(m))` writes the default
    globals into the HOST's map. -/
theorem adopting_writes_host_map : ¬ HostInputsNeverWritten true := by
  intro h
  exact absurd (h adoptWorld permissive) (by decide)

/-- **Counterexample (adopting variant): configurations interfere, in both orders.**
    Permissive then restrictive: the restrictive Config — `WithoutDefaultGlobals` — binds `os` to
    the module the PERMISSIVE Config's defaults created (1).  Restrictive then permissive: the
    restrictive Config, built first and correct then (`os` unbound), binds `os` once the
    permissive one has been built.  With the code as it is, `os` is unbound in both. -/
theorem adopting_configs_interfere :
    (let r := runBuilds true adoptWorld [permissive, restrictive]
     r.2.map (fun b => tget (b.visible r.1.heap) [111, 115]) = [some 1, some 1]) ∧
    (let r := runBuilds true adoptWorld [restrictive, permissive]
     tget ((build true adoptWorld restrictive).2.visible (build true adoptWorld restrictive).1.heap) [111, 115] = none ∧
     r.2.map (fun b => tget (b.visible r.1.heap) [111, 115]) = [some 1, some 1]) ∧
    (let r := runBuilds false adoptWorld [permissive, restrictive]
     r.2.map (fun b => tget (b.visible r.1.heap) [111, 115]) = [some 1, none] ∧ r.1.heap = adoptWorld.heap) := by
  decide

/-- non-vacuity: a world with two host maps, one request naming both (one of them twice) and a
    nil map, a denial and an override: the host maps are untouched and the result is the fold of
    the flattened sequence -/
example :
    let w : World := ⟨[(7, [([120], 9), ([121], 8)]), (8, [([120], 6)])], [], []⟩
    let b : Build := ⟨[.globalsMap 7, .opt (.without [121]), .globalsMap 8, .globalsMap 3, .globalsMap 7,
      .opt (.override [122] 4)], [([111, 115], 1)], [], [], [[121]], [([122], 4)]⟩
    flatten w.heap b.opts = [.withGlobal [120] 9, .withGlobal [121] 8, .without [121], .withGlobal [120] 6,
      .withGlobal [120] 9, .withGlobal [121] 8, .override [122] 4] ∧
    (build false w b).1.heap = w.heap ∧
    (build false w b).2.own = [([120], 9), ([111, 115], 1), ([122], 4)] := by
  decide

/-! ## 10. host OBJECTS shared between configurations

The value of a `WithGlobalOverride` / `WithGlobal(s)` option is an object of the host; the host may
install the same object (a replacement builtin created once) in any number of configurations that
differ in what else they deny or override.  `World.back` holds the `Builtin.module` field of every
builtin that exists — host replacements included (a builtin the host created has none: `__module__`
is nil, id 1).  `buildO false` is `NewConfig(opts...)` with `Module.Override` as it is (it stores the
replacement in the table and writes nothing else; `= build false`, `buildO_false`); `buildO true` is
the contrast in which Override re-aims the replacement's back-pointer at the edited module. -/

/-- **Config.init never writes a back-pointer.**  For every state, every list of denylist entries
    and every list of overrides (any names, any depth, any values — builtins, modules, values):
    the `Builtin.module` field of every builtin is after `Config.init` what it was before. -/
theorem init_never_writes_back (st : St) (ds : List (List Name)) (os : List (List Name × Id)) :
    (initCfg st ds os).back = st.back := by
  unfold initCfg
  have hd : ∀ (ds : List (List Name)) (s : St), (ds.foldl denyParts s).back = s.back := by
    intro ds
    induction ds with
    | nil => intro s; rfl
    | cons p ds ih =>
      intro s
      simp only [List.foldl_cons]
      rw [ih]
      exact (edit_frame _ (IsEdit.deny p) s root).2
  have ho : ∀ (os : List (List Name × Id)) (s : St),
      (os.foldl (fun s pv => overrideParts s pv.1 pv.2) s).back = s.back := by
    intro os
    induction os with
    | nil => intro s; rfl
    | cons pv os ih =>
      intro s
      simp only [List.foldl_cons]
      rw [ih]
      exact (edit_frame _ (IsEdit.override pv.1 pv.2) s root).2
  rw [ho, hd]

/-- building a configuration adds the back-pointers of ITS fresh default builtins and changes no
    other (all worlds, all option sequences) -/
theorem build_back (w : World) (b : Build) : (build false w b).1.back = w.back ++ b.newBack := by
  unfold build initFrom
  simp only [init_never_writes_back]

/-- the statement "building a configuration leaves the `Builtin.module` field of every builtin that
    already exists as it is", for either Override rule -/
def HostObjectsNeverWritten (adoptOv : Bool) : Prop :=
  ∀ (w : World) (b : Build) (x m : Id),
    bget w.back x = some m → bget (buildO adoptOv w b).1.back x = some m

/-- **host_objects_never_written.**  For the code as it is: for EVERY world (any builtins of the
    host and of earlier configurations), every option sequence — in particular any number of
    `WithGlobalOverride(name, r)` / `WithGlobal(name, r)` with a builtin `r` that other option
    sequences name too —, every default table and every iteration order: `__module__` of every
    existing builtin is after the build what it was before. -/
theorem host_objects_never_written : HostObjectsNeverWritten false := by
  intro w b x m h
  rw [buildO_false, build_back, bget_append, h]

/-- … and after any number of builds, one after the other -/
theorem host_objects_never_written_seq (bs : List Build) (w : World) (x m : Id)
    (h : bget w.back x = some m) : bget (runBuildsO false w bs).1.back x = some m := by
  induction bs generalizing w with
  | nil => exact h
  | cons b bs ih =>
    simp only [runBuildsO]
    exact ih _ (host_objects_never_written w b x m h)

/-- `access_congr` with the back-pointers compared only on the set `S` (the part of the heap the
    configuration can reach): same globals, same back-pointer and same attribute table for every
    object of `S`, `S` contains the globals and is closed under attribute steps — then EVERY access
    attempt gives the same result. -/
theorem access_congr_on (st st' : St) (S : Id → Prop)
    (hg : st'.globals = st.globals)
    (hb : ∀ x, S x → bget st'.back x = bget st.back x)
    (hglob : ∀ n x, tget st.globals n = some x → S x)
    (hclosed : ∀ x a y, S x → attrStep st x a = some y → S y)
    (hframe : ∀ x, S x → st'.table x = st.table x) :
    ∀ imp first attrs, access st' imp first attrs = access st imp first attrs := by
  intro imp first attrs
  have hstep : ∀ x a, S x → attrStep st' x a = attrStep st x a := by
    intro x a hx
    simp only [attrStep, hframe x hx, hb x hx]
  have hfold : ∀ (attrs : List Name) (cur : Option Id), (∀ x, cur = some x → S x) →
      attrs.foldl (fun cur a => cur.bind fun x => attrStep st' x a) cur =
      attrs.foldl (fun cur a => cur.bind fun x => attrStep st x a) cur := by
    intro attrs
    induction attrs with
    | nil => intro cur _; rfl
    | cons a r ih =>
      intro cur hcur
      simp only [List.foldl_cons]
      cases cur with
      | none => exact ih none (fun x h => by cases h)
      | some x =>
        have hx := hcur x rfl
        simp only [Option.bind_some, hstep x a hx]
        exact ih _ (fun y hy => hclosed x a y hx hy)
  unfold access
  simp only [hg]
  cases hget : tget st.globals first with
  | none => exact hfold attrs none (fun x h => by cases h)
  | some x =>
    have hx := hglob first x hget
    have hm : st'.isModule x = st.isModule x := by simp only [St.isModule, hframe x hx]
    simp only [hm]
    apply hfold
    intro y hy
    split at hy
    · cases hy
    · cases hy; exact hx

/-- one attribute step (member or `__module__`) from a reachable object ends in a reachable object -/
theorem attrStep_reachable (st : St) (x : Id) (a : Name) (y : Id)
    (hx : x ∈ reach (graphOf st) [root]) (hy : attrStep st x a = some y) :
    y ∈ reach (graphOf st) [root] := by
  obtain ⟨r, hr, p, hp⟩ := (reach_sound_complete _ _ _).1 hx
  have hedge : ∃ e ∈ graphOf st, e.src = x ∧ e.dst = y := by
    unfold attrStep at hy
    split at hy
    · rename_i t ht
      split at hy
      · cases hy
      · exact ⟨⟨x, .attr a, y⟩, member_edge_mem (st := st) (mtable_mem ht) (tget_mem hy), rfl, rfl⟩
    · split at hy
      · exact ⟨⟨x, .back, y⟩, back_edge_mem (st := st) (bget_mem hy), rfl, rfl⟩
      · cases hy
  obtain ⟨e, hem, hes, hed⟩ := hedge
  exact (reach_sound_complete _ _ _).2 ⟨r, hr, p ++ [y], isPath_snoc _ r p x y hp e hem hes hed⟩

/-- the statement "a configuration built LATER changes no access result of this configuration",
    for either Override rule.  `g` = the globals of this configuration, `w` = the world it lives in
    (after its own build), `b` = the later build.  Hypotheses: the later build's FRESH default
    builtins are not already reachable from this configuration, and the later build edits the
    attribute table of no object this configuration reaches (it edits only modules reachable from
    its own globals: `editMember_frame`; configurations share no module when the defaults are
    fresh per Config).  NOTHING is assumed about the values of the options: the two configurations
    may name the same replacement objects. -/
def LaterBuildKeepsAccesses (adoptOv : Bool) : Prop :=
  ∀ (w : World) (g : Table) (b : Build),
    (∀ bm ∈ b.newBack, bm.1 ∉ reach (graphOf ⟨g, w.mods, w.back⟩) [root]) →
    (∀ x ∈ reach (graphOf ⟨g, w.mods, w.back⟩) [root],
      mtable (buildO adoptOv w b).1.mods x = mtable w.mods x) →
    ∀ imp first attrs,
      accessIn (buildO adoptOv w b).1 g imp first attrs = accessIn w g imp first attrs

/-- **later_build_keeps_accesses.**  For the code as it is: for every world, every configuration
    in it and every later build — whatever objects its option sequence shares with this
    configuration (the same replacement builtin under the same or another name, the same host
    values) — EVERY access attempt of this configuration (identifier or import, then any chain of
    attribute and `__module__` steps, of any length) gives after the later build exactly what it
    gave before: a removed member stays unobtainable through `replacement.__module__` too. -/
theorem later_build_keeps_accesses : LaterBuildKeepsAccesses false := by
  intro w g b hfresh hframe
  unfold accessIn
  apply access_congr_on ⟨g, w.mods, w.back⟩ ⟨g, (buildO false w b).1.mods, (buildO false w b).1.back⟩
    (fun x => x ∈ reach (graphOf ⟨g, w.mods, w.back⟩) [root]) rfl
  · intro x hx
    show bget (buildO false w b).1.back x = bget w.back x
    rw [buildO_false, build_back, bget_append]
    cases hbx : bget w.back x with
    | some m => rfl
    | none =>
      show bget b.newBack x = none
      cases hn : bget b.newBack x with
      | none => rfl
      | some m => exact absurd hx (hfresh _ (bget_mem hn))
  · intro n x hx
    exact global_reachable ⟨g, w.mods, w.back⟩ n x (tget_mem hx)
  · intro x a y hx hy
    exact attrStep_reachable _ x a y hx hy
  · intro x hx
    exact hframe x hx

/-! ### contrast: `Module.Override` adopts the replacement -/

/-- `os`, `exit`, `getenv`, `os.exit`, `os.getenv` as bytes -/
def nOs : Name := [111, 115]
def nExit : Name := [101, 120, 105, 116]
def nGetenv : Name := [103, 101, 116, 101, 110, 118]
def nOsExit : Name := nOs ++ [46] ++ nExit
def nOsGetenv : Name := nOs ++ [46] ++ nGetenv

/-- the host's replacement builtin 9, created once, without a module (`__module__` = nil = 1) -/
def objWorld : World := ⟨[], [], [(9, 1)]⟩

/-- the restricted tenant: `WithoutGlobal("os.getenv")`, `WithGlobalOverride("os.exit", r)`; its
    fresh defaults: `os` ↦ module 2 = {exit ↦ 3, getenv ↦ 4} -/
def victim : Build :=
  ⟨[.opt (.without nOsGetenv), .opt (.override nOsExit 9)], [(nOs, 2)],
   [(2, [(nExit, 3), (nGetenv, 4)])], [(3, 2), (4, 2)], [nOsGetenv], [(nOsExit, 9)]⟩

/-- another tenant: only `WithGlobalOverride("os.exit", r)` with the SAME `r`; its fresh defaults:
    `os` ↦ module 5 = {exit ↦ 6, getenv ↦ 7} -/
def tenantB : Build :=
  ⟨[.opt (.override nOsExit 9)], [(nOs, 5)],
   [(5, [(nExit, 6), (nGetenv, 7)])], [(6, 5), (7, 5)], [], [(nOsExit, 9)]⟩

/-- **Counterexample (adopting variant).**  Building ONE configuration writes the host's object:
    the replacement's `__module__` is nil before and the configuration's `os` module afterwards. -/
theorem adopting_override_writes_host_object : ¬ HostObjectsNeverWritten true := by
  intro h
  exact absurd (h objWorld victim 9 1 (by decide)) (by decide)

/-- **Counterexample (adopting variant): a later build opens a path.**  All hypotheses of
    `LaterBuildKeepsAccesses` hold for the victim and the later tenant B (fresh defaults, B edits
    only its own module), yet `os.exit.__module__.getenv` changes under the victim's configuration. -/
theorem adopting_override_opens_path : ¬ LaterBuildKeepsAccesses true := by
  intro h
  have := h (buildO true objWorld victim).1 (buildO true objWorld victim).2.own tenantB
    (by decide) (by decide) false nOs [nExit, dunderModule, nGetenv]
  revert this
  decide

/-- **What the script of the restricted tenant obtains, both variants.**  `a` = the victim built,
    `b` = tenant B built afterwards; all accesses under the VICTIM's globals.
    Adopting variant: `os.getenv` fails (removed), `os.exit.__module__.getenv` fails right after the
    victim's own build and yields B's `getenv` (7) once B is built; 7 is reachable from the victim's
    globals.  Code as it is: `os.exit` is the replacement, `os.exit.__module__` is nil at both
    times, the chain fails at both times, 7 is unreachable, the replacement's back-pointer is nil. -/
theorem shared_replacement_witness :
    (let a := buildO true objWorld victim
     let b := buildO true a.1 tenantB
     accessIn b.1 a.2.own false nOs [nGetenv] = none ∧
     accessIn a.1 a.2.own false nOs [nExit, dunderModule, nGetenv] = none ∧
     accessIn b.1 a.2.own false nOs [nExit, dunderModule, nGetenv] = some 7 ∧
     reachable (graphOf ⟨a.2.own, b.1.mods, b.1.back⟩) [root] 7 = true) ∧
    (let a := buildO false objWorld victim
     let b := buildO false a.1 tenantB
     accessIn b.1 a.2.own false nOs [nExit] = some 9 ∧
     accessIn a.1 a.2.own false nOs [nExit, dunderModule] = some 1 ∧
     accessIn b.1 a.2.own false nOs [nExit, dunderModule] = some 1 ∧
     accessIn a.1 a.2.own false nOs [nExit, dunderModule, nGetenv] = none ∧
     accessIn b.1 a.2.own false nOs [nExit, dunderModule, nGetenv] = none ∧
     reachable (graphOf ⟨a.2.own, b.1.mods, b.1.back⟩) [root] 7 = false ∧
     bget b.1.back 9 = some 1) := by
  decide

/-- non-vacuity of `later_build_keeps_accesses`: its hypotheses hold for the victim and tenant B
    (which share the replacement 9), and the victim does obtain the replacement under `os.exit` -/
example :
    (∀ bm ∈ tenantB.newBack, bm.1 ∉ reach (graphOf ⟨(buildO false objWorld victim).2.own,
      (buildO false objWorld victim).1.mods, (buildO false objWorld victim).1.back⟩) [root]) ∧
    (∀ x ∈ reach (graphOf ⟨(buildO false objWorld victim).2.own,
      (buildO false objWorld victim).1.mods, (buildO false objWorld victim).1.back⟩) [root],
      mtable (buildO false (buildO false objWorld victim).1 tenantB).1.mods x =
        mtable (buildO false objWorld victim).1.mods x) ∧
    accessIn (buildO false objWorld victim).1 (buildO false objWorld victim).2.own false nOs [nExit] = some 9 := by
  decide

/-! ## 11. Options that do not speak about globals

A real option sequence mixes the global-related options with others (`WithConcurrency`,
`WithFilename`, `WithOS`, …: `XOpt.flag k`).  For the code as it is they are irrelevant to the
globals: the configuration is the one its global-related options alone determine, so every
theorem of section 6 holds for the mixed sequence, wherever the other options stand. -/

theorem applyXOpts_foldl_core (xs : List XOpt) (s : XCfg) :
    (xs.foldl applyXOpt s).c = (core xs).foldl applyOpt s.c := by
  induction xs generalizing s with
  | nil => rfl
  | cons x xs ih =>
    cases x with
    | opt o => simp only [List.foldl_cons, core]; rw [ih]; rfl
    | flag k => simp only [List.foldl_cons, core]; rw [ih]; rfl

/-- the global-related fields after a mixed sequence are those its global-related options
    leave -/
theorem applyXOpts_core (xs : List XOpt) : (applyXOpts xs).c = applyOpts (core xs) := by
  unfold applyXOpts applyOpts
  rw [applyXOpts_foldl_core]

theorem mem_core (xs : List XOpt) (o : Opt) : o ∈ core xs ↔ XOpt.opt o ∈ xs := by
  induction xs with
  | nil => simp [core]
  | cons x xs ih =>
    cases x with
    | opt p => simp [core, ih]
    | flag k => simp [core, ih]

/-- **Other options are irrelevant to the globals**: for every mixed sequence the initialised
    configuration (globals, every module table, every back-pointer) is the one of its
    global-related options alone — whichever other options it contains and wherever. -/
theorem xoptseq_flags_irrelevant (xs : List XOpt) (dflt : Table) (mods : List (Id × Table))
    (back : List (Id × Id)) (ds : List Name) (os : Table) :
    initFromX (applyXOpts xs) dflt mods back ds os =
      initFrom (applyOpts (core xs)) dflt mods back ds os := by
  unfold initFromX
  rw [applyXOpts_core]

/-- **The effect of a removal does not depend on an unrelated option**: two sequences with the
    same global-related options give the same configuration. -/
theorem xoptseq_same_core (xs ys : List XOpt) (h : core xs = core ys) (dflt : Table)
    (mods : List (Id × Table)) (back : List (Id × Id)) (ds : List Name) (os : Table) :
    initFromX (applyXOpts xs) dflt mods back ds os =
      initFromX (applyXOpts ys) dflt mods back ds os := by
  rw [xoptseq_flags_irrelevant, xoptseq_flags_irrelevant, h]

/-- **The code meets the Spec for mixed option sequences.** -/
theorem xoptseq_meets_spec (xs : List XOpt) (dflt : Table) (mods : List (Id × Table))
    (back : List (Id × Id)) (ds : List Name) (os : Table) (n : Name)
    (hn : undotted n = true)
    (hds : EnumSet (applyXOpts xs).c.denylist ds) (hos : EnumMap (applyXOpts xs).c.overrides os) :
    allowedTop (core xs) n (tget (initFromX (applyXOpts xs) dflt mods back ds os).globals n) = true := by
  rw [xoptseq_flags_irrelevant]
  rw [applyXOpts_core] at hds hos
  exact optseq_meets_spec (core xs) dflt mods back ds os n hn hds hos

/-- **A denied name stays denied, whatever other options the sequence contains**: if
    `WithoutGlobal(n)` occurs anywhere in the mixed sequence and no override for `n` is in
    force, `n` is unbound in the end. -/
theorem xoptseq_denied_stays_denied (xs : List XOpt) (dflt : Table) (mods : List (Id × Table))
    (back : List (Id × Id)) (ds : List Name) (os : Table) (n : Name)
    (hn : undotted n = true)
    (hds : EnumSet (applyXOpts xs).c.denylist ds) (hos : EnumMap (applyXOpts xs).c.overrides os)
    (hden : XOpt.opt (.without n) ∈ xs) (hov : lastOverride (core xs) n = none) :
    tget (initFromX (applyXOpts xs) dflt mods back ds os).globals n = none := by
  rw [xoptseq_flags_irrelevant]
  rw [applyXOpts_core] at hds hos
  have hd : deniedIn (core xs) n = true := by
    unfold deniedIn
    exact List.contains_iff_mem.mpr ((mem_core xs _).mpr hden)
  exact optseq_denied_stays_denied (core xs) dflt mods back ds os n hn hds hos hd hov

/-- … and no identifier or import path through `n` exists. -/
theorem xoptseq_denied_access_fails (xs : List XOpt) (dflt : Table) (mods : List (Id × Table))
    (back : List (Id × Id)) (ds : List Name) (os : Table) (n : Name)
    (hn : undotted n = true)
    (hds : EnumSet (applyXOpts xs).c.denylist ds) (hos : EnumMap (applyXOpts xs).c.overrides os)
    (hden : XOpt.opt (.without n) ∈ xs) (hov : lastOverride (core xs) n = none)
    (imp : Bool) (attrs : List Name) :
    access (initFromX (applyXOpts xs) dflt mods back ds os) imp n attrs = none := by
  rw [xoptseq_flags_irrelevant]
  rw [applyXOpts_core] at hds hos
  have hd : deniedIn (core xs) n = true := by
    unfold deniedIn
    exact List.contains_iff_mem.mpr ((mem_core xs _).mpr hden)
  exact optseq_denied_access_fails (core xs) dflt mods back ds os n hn hds hos hd hov imp attrs

/-- With `WithoutDefaultGlobals` and no host global, no override: the globals are empty —
    whatever other options are given. -/
theorem xoptseq_noDefaults_empty (xs : List XOpt) (dflt : Table) (mods : List (Id × Table))
    (back : List (Id × Id))
    (hcore : core xs = [.noDefaults]) :
    (initFromX (applyXOpts xs) dflt mods back [] []).globals = [] := by
  rw [xoptseq_flags_irrelevant, hcore]
  rfl

/-- CONTRAST: a last init step that, under flag 0, re-installs the default object of a missing
    name brings a removed name back (the Spec rejects the binding), and whether the removal
    works then depends on the unrelated option — with the code as it is (`initFromX`) the name
    is unbound in both sequences.  ([115] = "s", default object 7.) -/
theorem restoring_flag_defeats_denial :
    let xs := [XOpt.flag 0, XOpt.opt (.without [115])]
    let ys := [XOpt.opt (.without [115])]
    let dflt : Table := [([115], 7)]
    core xs = core ys ∧
    tget (initFromX (applyXOpts xs) dflt [] [] [[115]] []).globals [115] = none ∧
    tget (initFromXRestoring 0 [[115]] (applyXOpts xs) dflt [] [] [[115]] []).globals [115] = some 7 ∧
    allowedTop (core xs) [115] (some 7) = false ∧
    tget (initFromXRestoring 0 [[115]] (applyXOpts ys) dflt [] [] [[115]] []).globals [115] = none := by
  decide

end Risor.C11
