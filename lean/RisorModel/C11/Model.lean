/-
C11 — executable model of how a risor `Config` builds the global environment a script sees
(risor_config.go: init = applyDefaultGlobals; applyDenylist; applyOverrides;
object/module.go: Module.GetAttr / Override; object/builtin.go: `__module__`;
vm/vm.go: modules importable by name = the globals that are modules) and of what
"reachable" means for a script (graph reachability over identifier / import / attribute /
back-reference edges).

Two parts:

* `reach` — a complete reachability procedure on finite labelled graphs.  One run decides
  whether ANY access path (of any length) leads from the roots to a target
  (`Props.reach_sound_complete`).  The harness dumps the REAL object graph of a Config
  and the oracle runs `reach` on it.

* `St`, `denyParts`, `overrideParts`, `initCfg` — the Impl model of `Config.init`, defects
  included: `resolveImpl` reproduces `resolveModule`, which looks every component of a
  nested module path up in the ROOT module instead of descending.  `resolveSpec` is what
  the property demands (descend component by component).

Object identities are natural numbers; `root = 0` stands for the script's global scope.
Core Lean only.
-/
namespace Risor.C11

abbrev Id := Nat

/-- the script's global scope (source of identifier and import edges) -/
def root : Id := 0

/-- names are byte strings (Go strings), as lists of byte values -/
abbrev Name := List Nat

/-- `__name__` -/
def dunderName : Name := [95, 95, 110, 97, 109, 101, 95, 95]

/-- how a script takes a step: an identifier of the global scope, an `import`, an attribute
    (`x.a`, `getattr(x, "a")`, `from x import a`, container item), or the `__module__`
    back-reference of a builtin -/
inductive Lbl where
  | ident (n : Name)
  | imp (n : Name)
  | attr (n : Name)
  | back
deriving DecidableEq, Repr

structure Edge where
  src : Id
  lbl : Lbl
  dst : Id
deriving DecidableEq, Repr

abbrev Graph := List Edge

/-! ## Reachability -/

/-- edges whose source is already visited -/
def fire (vis : List Id) (es : Graph) : Graph := es.filter fun e => vis.contains e.src

/-- edges whose source is not yet visited -/
def rest (vis : List Id) (es : Graph) : Graph := es.filter fun e => !vis.contains e.src

/-- Round-based closure: every round moves the targets of all edges leaving the visited set
    into the visited set and drops those edges; it stops when no remaining edge leaves the
    visited set.  Each non-final round consumes at least one edge, so `fuel = number of
    edges` always suffices (`Lemmas.reachAux_closed`). -/
def reachAux : Nat → List Id → Graph → List Id
  | 0, vis, _ => vis
  | n + 1, vis, es =>
    if (fire vis es).isEmpty then vis
    else reachAux n (vis ++ (fire vis es).map (·.dst)) (rest vis es)

def reach (g : Graph) (roots : List Id) : List Id := reachAux g.length roots g

def reachable (g : Graph) (roots : List Id) (t : Id) : Bool := (reach g roots).contains t

/-- `IsPath g a p t`: `p` lists the nodes visited after `a`; consecutive nodes are joined by
    an edge of `g`; the walk ends in `t`.  `p` may have any length (0 = stay at `a`). -/
def IsPath (g : Graph) : Id → List Id → Id → Prop
  | a, [], t => a = t
  | a, b :: p, t => (∃ e ∈ g, e.src = a ∧ e.dst = b) ∧ IsPath g b p t

/-! ## Tables (Go maps with string keys) -/

abbrev Table := List (Name × Id)

def tget : Table → Name → Option Id
  | [], _ => none
  | (k, v) :: t, n => if k = n then some v else tget t n

/-- `delete(m, n)` -/
def terase (t : Table) (n : Name) : Table := t.filter fun kv => kv.1 != n

/-- `m[n] = v` for a key that is present -/
def treplace (t : Table) (n : Name) (v : Id) : Table :=
  t.map fun kv => if kv.1 = n then (kv.1, v) else kv

/-- `m[n] = v` -/
def tput (t : Table) (n : Name) (v : Id) : Table :=
  if (tget t n).isSome then treplace t n v else t ++ [(n, v)]

/-- Go `strings.Split(name, ".")` on bytes ('.' = 46); always at least one component -/
def splitDots : Name → List Name
  | [] => [[]]
  | c :: cs =>
    if c = 46 then [] :: splitDots cs
    else match splitDots cs with
      | [] => [[c]]
      | h :: t => (c :: h) :: t

/-! ## Config state -/

/-- `globals`: Config.globals (name ↦ object).  `mods`: the heap of module objects, each
    with its `builtins` attribute table (edited in place by `Module.Override`).
    `back`: the immutable `Builtin.module` back-pointer of every builtin (builtin ↦ its
    module, or ↦ the `nil` object when it has none), observable as `__module__`. -/
structure St where
  globals : Table
  mods : List (Id × Table)
  back : List (Id × Id)
deriving Repr, DecidableEq

def mtable : List (Id × Table) → Id → Option Table
  | [], _ => none
  | (i, t) :: r, m => if i = m then some t else mtable r m

def St.table (st : St) (m : Id) : Option Table := mtable st.mods m

def St.isModule (st : St) (m : Id) : Bool := (st.table m).isSome

def bget : List (Id × Id) → Id → Option Id
  | [], _ => none
  | (k, v) :: t, n => if k = n then some v else bget t n

def modsUpdate (mods : List (Id × Table)) (m : Id) (f : Table → Table) : List (Id × Table) :=
  mods.map fun it => if it.1 = m then (it.1, f it.2) else it

/-- the table edit of `Override`: delete (`none`) or replace (`some x`) -/
def editTable (a : Name) (v : Option Id) (t : Table) : Table :=
  match v with
  | none => terase t a
  | some x => treplace t a x

/-- `Module.Override(name, value)`; `v = none` is Override(name, nil) = delete.
    `__name__` is refused; a name that is not a current attribute is refused (the error is
    ignored by the callers in risor_config.go). -/
def overrideMod (st : St) (m : Id) (name : Name) (v : Option Id) : St :=
  if name = dunderName then st
  else match st.table m with
    | none => st
    | some t =>
      if (tget t name).isSome then
        { st with mods := modsUpdate st.mods m (editTable name v) }
      else st

/-- `Module.GetAttr(name)` when the result is itself a module -/
def memberModule (st : St) (m : Id) (n : Name) : Option Id :=
  if n = dunderName then none
  else match st.table m with
    | none => none
    | some t =>
      match tget t n with
      | some x => if st.isModule x then some x else none
      | none => none

/-- the loop of `resolveModule` (risor_config.go): every component is looked up in the ROOT
    module `m`; the last hit is returned -/
def resolveLoop (st : St) (m : Id) : List Name → Option Id → Option Id
  | [], r => r
  | n :: ns, _ =>
    match memberModule st m n with
    | some x => resolveLoop st m ns (some x)
    | none => none

/-- `resolveModule(m, path)` as the code is -/
def resolveImpl (st : St) (m : Id) (path : List Name) : Option Id :=
  match path with
  | [] => some m
  | _ => resolveLoop st m path none

/-- what "the nested module named by `path`" means: descend one component at a time -/
def resolveSpec (st : St) (m : Id) : List Name → Option Id
  | [] => some m
  | n :: ns =>
    match memberModule st m n with
    | some x => resolveSpec st x ns
    | none => none

/-- (all but last, last) of a non-empty list -/
def splitLast : List Name → Option (List Name × Name)
  | [] => none
  | [x] => some ([], x)
  | x :: y :: r =>
    match splitLast (y :: r) with
    | some (i, l) => some (x :: i, l)
    | none => none

/-- the member edit shared by applyDenylist (v = none) and applyOverrides (v = some _) for a
    dotted name `mname.attr…`, parametrised by the module-path resolver -/
def editMember (resolve : St → Id → List Name → Option Id)
    (st : St) (mname : Name) (attr : List Name) (v : Option Id) : St :=
  match tget st.globals mname with
  | none => st
  | some m =>
    if st.isModule m then
      match splitLast attr with
      | none => st
      | some (mp, last) =>
        match resolve st m mp with
        | some tm => overrideMod st tm last v
        | none => st
    else st

/-- one denylist entry; `parts` = the name split on "." -/
def denyWith (resolve : St → Id → List Name → Option Id) (st : St) : List Name → St
  | [] => st
  | [n] => { st with globals := terase st.globals n }
  | mname :: attr => editMember resolve st mname attr none

/-- one overrides entry -/
def overrideWith (resolve : St → Id → List Name → Option Id) (st : St) (parts : List Name)
    (v : Id) : St :=
  match parts with
  | [] => st
  | [n] => { st with globals := tput st.globals n v }
  | mname :: attr => editMember resolve st mname attr (some v)

def denyParts := denyWith resolveImpl
def overrideParts := overrideWith resolveImpl
def denySpec := denyWith resolveSpec
def overrideSpec := overrideWith resolveSpec

/-- applyDefaultGlobals: defaults are written OVER whatever the options put into
    cfg.globals, unless WithoutDefaultGlobals -/
def mergeDefaults (without : Bool) (host dflt : Table) : Table :=
  if without then host else dflt.foldl (fun g kv => tput g kv.1 kv.2) host

/-- `Config.init`: denylist first, overrides second (in the iteration order given) -/
def initCfg (st : St) (denies : List (List Name)) (ovs : List (List Name × Id)) : St :=
  ovs.foldl (fun s pv => overrideParts s pv.1 pv.2) (denies.foldl denyParts st)

def initSpec (st : St) (denies : List (List Name)) (ovs : List (List Name × Id)) : St :=
  ovs.foldl (fun s pv => overrideSpec s pv.1 pv.2) (denies.foldl denySpec st)

/-! ## The graph a script can walk -/

def identEdges (g : Table) : Graph := g.map fun kv => ⟨root, .ident kv.1, kv.2⟩

/-- vm.go: every global that is a module is importable under its global name -/
def importEdges (st : St) : Graph :=
  (st.globals.filter fun kv => st.isModule kv.2).map fun kv => ⟨root, .imp kv.1, kv.2⟩

def memberEdges (mods : List (Id × Table)) : Graph :=
  mods.flatMap fun it => it.2.map fun kv => ⟨it.1, .attr kv.1, kv.2⟩

def backEdges (back : List (Id × Id)) : Graph := back.map fun bm => ⟨bm.1, .back, bm.2⟩

def graphOf (st : St) : Graph :=
  identEdges st.globals ++ importEdges st ++ memberEdges st.mods ++ backEdges st.back

/-- the object registered under a dotted name in `st` (proper, descending resolution) -/
def target (st : St) : List Name → Option Id
  | [] => none
  | [n] => tget st.globals n
  | mname :: attr =>
    match tget st.globals mname with
    | none => none
    | some m =>
      match splitLast attr with
      | none => none
      | some (mp, last) =>
        match resolveSpec st m mp with
        | some tm => if last = dunderName then none else (st.table tm).bind fun t => tget t last
        | none => none

/-- guard of the known finding: a dotted name with two or more intermediate module
    components (`a.b.c.f`), the only shape on which `resolveImpl` and `resolveSpec` differ -/
def deepName (parts : List Name) : Bool := decide (4 ≤ parts.length)

/-! ## Script access attempts on the skeleton -/

/-- `__module__` -/
def dunderModule : Name := [95, 95, 109, 111, 100, 117, 108, 101, 95, 95]

/-- one attribute step as a script performs it (`x.a`, `getattr(x, "a")`): a module member,
    or the `__module__` back-reference of a builtin.  `none` = the access fails. -/
def attrStep (st : St) (x : Id) (a : Name) : Option Id :=
  match st.table x with
  | some t => if a = dunderName then none else tget t a
  | none => if a = dunderModule then bget st.back x else none

/-- `first` = identifier (`imp = false`) or `import first` (`imp = true`), then attributes -/
def access (st : St) (imp : Bool) (first : Name) (attrs : List Name) : Option Id :=
  let start : Option Id :=
    match tget st.globals first with
    | some x => if imp && !st.isModule x then none else some x
    | none => none
  attrs.foldl (fun cur a => cur.bind fun x => attrStep st x a) start

/-- freshness of two configs' object sets (identity disjointness, exempt ids removed) -/
def sharedIds (a b exempt : List Id) : List Id :=
  a.filter fun x => b.contains x && !exempt.contains x

end Risor.C11
