/-
C11 — executable model of how a risor `Config` builds the global environment a script sees
(risor_config.go: init = applyDefaultGlobals; applyDenylist; applyOverrides;
object/module.go: Module.GetAttr / Override; object/builtin.go: `__module__`;
vm/vm.go: modules importable by name = the globals that are modules) and of what
"reachable" means for a script (graph reachability over identifier / import / attribute /
back-reference edges).

Two parts:

* `reach` — a complete reachability procedure on finite labelled graphs.  One run decides
  whether ANY access path (of any length) leads from the roots to a target
  (`Props.reach_sound_complete`).  The harness dumps the REAL object graph of a Config
  and the oracle runs `reach` on it.

* `St`, `denyParts`, `overrideParts`, `initCfg` — the Impl model of `Config.init`:
  `resolveImpl` reproduces `resolveModule` as repaired in /repo (a cursor that descends one
  module per path component); `resolveSpec` is what the property demands (descend component
  by component) and `Lemmas.resolveImpl_eq_spec` shows they agree on every path.  The
  resolver as it was BEFORE the repair — every component looked up in the ROOT module — is
  kept as the historical definitions `preFixResolve`, `preFixDenyParts`, `preFixOverrideParts`.

* `HOpt`, `HCfg`, `build`, `runBuilds` — the host's Go maps as heap objects with identity,
  `cfg.globals` as a reference, any number of configurations built in one world
  (`adopt = false`: risor_options.go as it is, `WithGlobals` copies; `adopt = true`: contrast).

* `overrideModO`, `initCfgO`, `buildO`, `runBuildsO`, `accessIn` — host OBJECTS (replacement builtins,
  host values) shared between configurations built in one world: `adopt = false` is
  object/module.go as it is (`Module.Override` writes the module's table only, no back-pointer);
  `adopt = true` is the contrast in which Override re-aims the replacement's `Builtin.module`.

* `XOpt`, `XCfg`, `applyXOpts`, `core`, `initFromX` — option sequences that mix the global-related
  options with options writing other Config fields (WithConcurrency, WithFilename, WithOS);
  `initFromXRestoring` is the contrast in which init re-installs missing defaults under a flag.

Object identities are natural numbers; `root = 0` stands for the script's global scope.
Core Lean only.
-/
namespace Risor.C11

abbrev Id := Nat

/-- the script's global scope (source of identifier and import edges) -/
def root : Id := 0

/-- names are byte strings (Go strings), as lists of byte values -/
abbrev Name := List Nat

/-- `__name__` -/
def dunderName : Name := [95, 95, 110, 97, 109, 101, 95, 95]

/-- how a script takes a step: an identifier of the global scope, an `import`, an attribute
    (`x.a`, `getattr(x, "a")`, `from x import a`, container item), or the `__module__`
    back-reference of a builtin -/
inductive Lbl where
  | ident (n : Name)
  | imp (n : Name)
  | attr (n : Name)
  | back
deriving DecidableEq, Repr

structure Edge where
  src : Id
  lbl : Lbl
  dst : Id
deriving DecidableEq, Repr

abbrev Graph := List Edge

/-! ## Reachability -/

/-- edges whose source is already visited -/
def fire (vis : List Id) (es : Graph) : Graph := es.filter fun e => vis.contains e.src

/-- edges whose source is not yet visited -/
def rest (vis : List Id) (es : Graph) : Graph := es.filter fun e => !vis.contains e.src

/-- Round-based closure: every round moves the targets of all edges leaving the visited set
    into the visited set and drops those edges; it stops when no remaining edge leaves the
    visited set.  Each non-final round consumes at least one edge, so `fuel = number of
    edges` always suffices (`Lemmas.reachAux_closed`). -/
def reachAux : Nat → List Id → Graph → List Id
  | 0, vis, _ => vis
  | n + 1, vis, es =>
    if (fire vis es).isEmpty then vis
    else reachAux n (vis ++ (fire vis es).map (·.dst)) (rest vis es)

def reach (g : Graph) (roots : List Id) : List Id := reachAux g.length roots g

def reachable (g : Graph) (roots : List Id) (t : Id) : Bool := (reach g roots).contains t

/-- `IsPath g a p t`: `p` lists the nodes visited after `a`; consecutive nodes are joined by
    an edge of `g`; the walk ends in `t`.  `p` may have any length (0 = stay at `a`). -/
def IsPath (g : Graph) : Id → List Id → Id → Prop
  | a, [], t => a = t
  | a, b :: p, t => (∃ e ∈ g, e.src = a ∧ e.dst = b) ∧ IsPath g b p t

/-! ## Tables (Go maps with string keys) -/

abbrev Table := List (Name × Id)

def tget : Table → Name → Option Id
  | [], _ => none
  | (k, v) :: t, n => if k = n then some v else tget t n

/-- `delete(m, n)` -/
def terase (t : Table) (n : Name) : Table := t.filter fun kv => kv.1 != n

/-- `m[n] = v` for a key that is present -/
def treplace (t : Table) (n : Name) (v : Id) : Table :=
  t.map fun kv => if kv.1 = n then (kv.1, v) else kv

/-- `m[n] = v` -/
def tput (t : Table) (n : Name) (v : Id) : Table :=
  if (tget t n).isSome then treplace t n v else t ++ [(n, v)]

/-- Go `strings.Split(name, ".")` on bytes ('.' = 46); always at least one component -/
def splitDots : Name → List Name
  | [] => [[]]
  | c :: cs =>
    if c = 46 then [] :: splitDots cs
    else match splitDots cs with
      | [] => [[c]]
      | h :: t => (c :: h) :: t

/-! ## Config state -/

/-- `globals`: Config.globals (name ↦ object).  `mods`: the heap of module objects, each
    with its `builtins` attribute table (edited in place by `Module.Override`).
    `back`: the immutable `Builtin.module` back-pointer of every builtin (builtin ↦ its
    module, or ↦ the `nil` object when it has none), observable as `__module__`. -/
structure St where
  globals : Table
  mods : List (Id × Table)
  back : List (Id × Id)
deriving Repr, DecidableEq

def mtable : List (Id × Table) → Id → Option Table
  | [], _ => none
  | (i, t) :: r, m => if i = m then some t else mtable r m

def St.table (st : St) (m : Id) : Option Table := mtable st.mods m

def St.isModule (st : St) (m : Id) : Bool := (st.table m).isSome

def bget : List (Id × Id) → Id → Option Id
  | [], _ => none
  | (k, v) :: t, n => if k = n then some v else bget t n

def modsUpdate (mods : List (Id × Table)) (m : Id) (f : Table → Table) : List (Id × Table) :=
  mods.map fun it => if it.1 = m then (it.1, f it.2) else it

/-- the table edit of `Override`: delete (`none`) or replace (`some x`) -/
def editTable (a : Name) (v : Option Id) (t : Table) : Table :=
  match v with
  | none => terase t a
  | some x => treplace t a x

/-- `Module.Override(name, value)`; `v = none` is Override(name, nil) = delete.
    `__name__` is refused; a name that is not a current attribute is refused (the error is
    ignored by the callers in risor_config.go). -/
def overrideMod (st : St) (m : Id) (name : Name) (v : Option Id) : St :=
  if name = dunderName then st
  else match st.table m with
    | none => st
    | some t =>
      if (tget t name).isSome then
        { st with mods := modsUpdate st.mods m (editTable name v) }
      else st

/-- `Module.GetAttr(name)` when the result is itself a module -/
def memberModule (st : St) (m : Id) (n : Name) : Option Id :=
  if n = dunderName then none
  else match st.table m with
    | none => none
    | some t =>
      match tget t n with
      | some x => if st.isModule x then some x else none
      | none => none

/-- the loop of `resolveModule` (risor_config.go) as repaired ("fix: resolve a nested module
    path by descending one module per component"): `cur` is the module found so far (Go:
    `result`, which starts at the root module `m`); each component is looked up in `cur` and the
    module found becomes the next `cur` -/
def resolveLoop (st : St) : Id → List Name → Option Id
  | cur, [] => some cur
  | cur, n :: ns =>
    match memberModule st cur n with
    | some x => resolveLoop st x ns
    | none => none

/-- `resolveModule(m, path)` as the code is (the `len(attr) == 0` early return, then the loop) -/
def resolveImpl (st : St) (m : Id) (path : List Name) : Option Id :=
  match path with
  | [] => some m
  | _ => resolveLoop st m path

/-- HISTORICAL (before the repair): the loop of `resolveModule` looked every component up in
    the ROOT module `m`; the last hit was returned -/
def preFixResolveLoop (st : St) (m : Id) : List Name → Option Id → Option Id
  | [], r => r
  | n :: ns, _ =>
    match memberModule st m n with
    | some x => preFixResolveLoop st m ns (some x)
    | none => none

/-- HISTORICAL: `resolveModule(m, path)` as the code was before the repair (recorded finding
    C11-nested-module-path; `Props.C11_fixed_nested_deny_was_ignored`) -/
def preFixResolve (st : St) (m : Id) (path : List Name) : Option Id :=
  match path with
  | [] => some m
  | _ => preFixResolveLoop st m path none

/-- what "the nested module named by `path`" means: descend one component at a time -/
def resolveSpec (st : St) (m : Id) : List Name → Option Id
  | [] => some m
  | n :: ns =>
    match memberModule st m n with
    | some x => resolveSpec st x ns
    | none => none

/-- (all but last, last) of a non-empty list -/
def splitLast : List Name → Option (List Name × Name)
  | [] => none
  | [x] => some ([], x)
  | x :: y :: r =>
    match splitLast (y :: r) with
    | some (i, l) => some (x :: i, l)
    | none => none

/-- the member edit shared by applyDenylist (v = none) and applyOverrides (v = some _) for a
    dotted name `mname.attr…`, parametrised by the module-path resolver -/
def editMember (resolve : St → Id → List Name → Option Id)
    (st : St) (mname : Name) (attr : List Name) (v : Option Id) : St :=
  match tget st.globals mname with
  | none => st
  | some m =>
    if st.isModule m then
      match splitLast attr with
      | none => st
      | some (mp, last) =>
        match resolve st m mp with
        | some tm => overrideMod st tm last v
        | none => st
    else st

/-- one denylist entry; `parts` = the name split on "." -/
def denyWith (resolve : St → Id → List Name → Option Id) (st : St) : List Name → St
  | [] => st
  | [n] => { st with globals := terase st.globals n }
  | mname :: attr => editMember resolve st mname attr none

/-- one overrides entry -/
def overrideWith (resolve : St → Id → List Name → Option Id) (st : St) (parts : List Name)
    (v : Id) : St :=
  match parts with
  | [] => st
  | [n] => { st with globals := tput st.globals n v }
  | mname :: attr => editMember resolve st mname attr (some v)

def denyParts := denyWith resolveImpl
def overrideParts := overrideWith resolveImpl
def denySpec := denyWith resolveSpec
def overrideSpec := overrideWith resolveSpec
/-- HISTORICAL: one denylist / overrides entry as applied before the repair -/
def preFixDenyParts := denyWith preFixResolve
def preFixOverrideParts := overrideWith preFixResolve

/-- applyDefaultGlobals: defaults are written OVER whatever the options put into
    cfg.globals, unless WithoutDefaultGlobals -/
def mergeDefaults (without : Bool) (host dflt : Table) : Table :=
  if without then host else dflt.foldl (fun g kv => tput g kv.1 kv.2) host

/-- `Config.init`: denylist first, overrides second (in the iteration order given) -/
def initCfg (st : St) (denies : List (List Name)) (ovs : List (List Name × Id)) : St :=
  ovs.foldl (fun s pv => overrideParts s pv.1 pv.2) (denies.foldl denyParts st)

def initSpec (st : St) (denies : List (List Name)) (ovs : List (List Name × Id)) : St :=
  ovs.foldl (fun s pv => overrideSpec s pv.1 pv.2) (denies.foldl denySpec st)

/-! ## The graph a script can walk -/

def identEdges (g : Table) : Graph := g.map fun kv => ⟨root, .ident kv.1, kv.2⟩

/-- vm.go: every global that is a module is importable under its global name -/
def importEdges (st : St) : Graph :=
  (st.globals.filter fun kv => st.isModule kv.2).map fun kv => ⟨root, .imp kv.1, kv.2⟩

def memberEdges (mods : List (Id × Table)) : Graph :=
  mods.flatMap fun it => it.2.map fun kv => ⟨it.1, .attr kv.1, kv.2⟩

def backEdges (back : List (Id × Id)) : Graph := back.map fun bm => ⟨bm.1, .back, bm.2⟩

def graphOf (st : St) : Graph :=
  identEdges st.globals ++ importEdges st ++ memberEdges st.mods ++ backEdges st.back

/-- the object registered under a dotted name in `st` (proper, descending resolution) -/
def target (st : St) : List Name → Option Id
  | [] => none
  | [n] => tget st.globals n
  | mname :: attr =>
    match tget st.globals mname with
    | none => none
    | some m =>
      match splitLast attr with
      | none => none
      | some (mp, last) =>
        match resolveSpec st m mp with
        | some tm => if last = dunderName then none else (st.table tm).bind fun t => tget t last
        | none => none

/-- a dotted name with two or more intermediate module components (`a.b.c.f`): the only shape
    on which the pre-fix resolver `preFixResolve` and `resolveSpec` differed (it was the guard of
    the repaired finding C11-nested-module-path; no theorem about the code as it is carries it
    any more — the oracle still reports it so that the harness can count such names) -/
def deepName (parts : List Name) : Bool := decide (4 ≤ parts.length)

/-! ## Script access attempts on the skeleton -/

/-- `__module__` -/
def dunderModule : Name := [95, 95, 109, 111, 100, 117, 108, 101, 95, 95]

/-- one attribute step as a script performs it (`x.a`, `getattr(x, "a")`): a module member,
    or the `__module__` back-reference of a builtin.  `none` = the access fails. -/
def attrStep (st : St) (x : Id) (a : Name) : Option Id :=
  match st.table x with
  | some t => if a = dunderName then none else tget t a
  | none => if a = dunderModule then bget st.back x else none

/-- `first` = identifier (`imp = false`) or `import first` (`imp = true`), then attributes -/
def access (st : St) (imp : Bool) (first : Name) (attrs : List Name) : Option Id :=
  let start : Option Id :=
    match tget st.globals first with
    | some x => if imp && !st.isModule x then none else some x
    | none => none
  attrs.foldl (fun cur a => cur.bind fun x => attrStep st x a) start

/-- freshness of two configs' object sets (identity disjointness, exempt ids removed) -/
def sharedIds (a b exempt : List Id) : List Id :=
  a.filter fun x => b.contains x && !exempt.contains x

/-! ## Option sequences (risor_options.go) -/

/-- one configuration option as the host writes it.  `WithGlobals(m)` is one `withGlobal`
    per entry, `WithoutGlobals(ns…)` one `without` per name. -/
inductive Opt where
  | withGlobal (n : Name) (v : Id)
  | without (n : Name)
  | override (n : Name) (v : Id)
  | noDefaults
deriving DecidableEq, Repr

/-- the fields of `Config` the options write before `init` runs -/
structure Cfg where
  globals : Table
  denylist : List Name
  overrides : Table
  noDefaults : Bool
deriving Repr, DecidableEq

def Cfg.empty : Cfg := ⟨[], [], [], false⟩

/-- the option functions of risor_options.go as they are: every one writes its own field,
    none looks at what an earlier option did -/
def applyOpt (c : Cfg) : Opt → Cfg
  | .withGlobal n v => { c with globals := tput c.globals n v }
  | .without n => { c with denylist := if c.denylist.contains n then c.denylist else c.denylist ++ [n] }
  | .override n v => { c with overrides := tput c.overrides n v }
  | .noDefaults => { c with noDefaults := true }

/-- `NewConfig(opts...)` before `init` -/
def applyOpts (opts : List Opt) : Cfg := opts.foldl applyOpt Cfg.empty

/-- `Config.init` on the fields the options left, with the iteration orders of the two Go maps
    (`ds` enumerates the denylist, `os` the overrides) as parameters -/
def initFrom (c : Cfg) (dflt : Table) (mods : List (Id × Table)) (back : List (Id × Id))
    (ds : List Name) (os : Table) : St :=
  initCfg ⟨mergeDefaults c.noDefaults c.globals dflt, mods, back⟩
    (ds.map splitDots) (os.map fun kv => (splitDots kv.1, kv.2))

/-- the same with descending module-path resolution (what the property demands) -/
def initFromSpec (c : Cfg) (dflt : Table) (mods : List (Id × Table)) (back : List (Id × Id))
    (ds : List Name) (os : Table) : St :=
  initSpec ⟨mergeDefaults c.noDefaults c.globals dflt, mods, back⟩
    (ds.map splitDots) (os.map fun kv => (splitDots kv.1, kv.2))

/-- `ds` enumerates the set `s` (any order, repetitions allowed) -/
def EnumSet (s ds : List Name) : Prop := ∀ x, x ∈ ds ↔ x ∈ s

/-- `os` enumerates the map `m`: every entry of `os` is the entry of its key in `m`, and every
    key of `m` occurs (any order) — what ranging over a Go map yields -/
def EnumMap (m os : Table) : Prop :=
  (∀ kv ∈ os, tget m kv.1 = some kv.2) ∧ (∀ k v, tget m k = some v → (k, v) ∈ os)

/-- a name without '.' : it denotes a top-level global -/
def undotted (n : Name) : Bool := decide (splitDots n = [n])

/-- the override in force for the exact name `n` after the whole sequence: the LAST
    `WithGlobalOverride(n, ·)` (`Props.lastOverride_append`) -/
def lastOverride (opts : List Opt) (n : Name) : Option Id := tget (applyOpts opts).overrides n

/-- some `WithoutGlobal(n)` occurs in the sequence -/
def deniedIn (opts : List Opt) (n : Name) : Bool := opts.contains (.without n)

/-- the value the host supplied for `n` with WithGlobal(s) AFTER its last `WithoutGlobal(n)` -/
def hostAfterDeny (opts : List Opt) (n : Name) : Option Id :=
  opts.foldl (fun acc o =>
    match o with
    | .without m => if m = n then none else acc
    | .withGlobal m v => if m = n then some v else acc
    | _ => acc) none

/-- **Spec for option sequences** (top-level name `n`, final binding `b`):
    * an override in force is what the name is bound to;
    * otherwise, if the host denied `n` anywhere in the sequence, the name is unbound — or, at
      most, bound to what the host itself supplied under `n` after the last denial ("last
      explicit decision wins"); in particular it is never the default object and never a
      value supplied before the denial;
    * names the host neither denied nor overrode are not constrained by this property. -/
def allowedTop (opts : List Opt) (n : Name) (b : Option Id) : Bool :=
  match lastOverride opts n with
  | some v => b == some v
  | none => if deniedIn opts n then (b == none || b == hostAfterDeny opts n) else true

/-! ## A reused virtual machine (vm/vm.go: applyOptions, RunCode, resetForNewCode) -/

/-- `inputGlobals` only ever grows; `globals` is re-converted from it by every
    `applyOptions`; `modules` are the importable names; `runs` = `startCount` -/
structure VM where
  input : Table
  globals : Table
  modules : Table
  runs : Nat
deriving Repr, DecidableEq

/-- `vm.NewEmpty()` -/
def VM.empty : VM := ⟨[], [], [], 0⟩

def putAll (t g : Table) : Table := g.foldl (fun t kv => tput t kv.1 kv.2) t

def isMod (mods : List (Id × Table)) (x : Id) : Bool := (mtable mods x).isSome

/-- `applyOptions(cfg.VMOpts())`: the configuration's globals are written over
    `inputGlobals`, ALL of `inputGlobals` becomes `globals`, every global that is a module
    becomes importable -/
def vmApply (mods : List (Id × Table)) (vm : VM) (g : Table) : VM :=
  let input := putAll vm.input g
  { vm with input := input, globals := input,
            modules := putAll vm.modules (input.filter fun kv => isMod mods kv.2) }

/-- `RunCode` up to the first instruction: `applyOptions`, `start` (startCount++), and
    `resetForNewCode` — which empties `modules` — on every start but the first -/
def vmBegin (mods : List (Id × Table)) (vm : VM) (g : Table) : VM :=
  let v := vmApply mods vm g
  { v with runs := v.runs + 1, modules := if v.runs = 0 then v.modules else [] }

/-- what a script obtains in a run that was compiled against configuration `g` (the compiler
    knows exactly the names of `g`; `LoadGlobal` reads `vm.globals` by name; `import` reads
    `vm.modules`), then attribute steps on the heap -/
def vmAccess (mods : List (Id × Table)) (back : List (Id × Id)) (vm : VM) (g : Table)
    (imp : Bool) (first : Name) (attrs : List Name) : Option Id :=
  let h : St := ⟨[], mods, back⟩
  let start : Option Id :=
    if imp then tget vm.modules first
    else if (tget g first).isSome then tget vm.globals first else none
  attrs.foldl (fun cur a => cur.bind fun x => attrStep h x a) start

/-- one evaluation as `risor.Eval(…, WithVM(vm))` performs it: the source is compiled against the
    configuration first; an identifier the configuration does not bind is a COMPILE error and
    the VM is not touched; otherwise `RunCode` -/
def vmEval (mods : List (Id × Table)) (back : List (Id × Id)) (vm : VM) (g : Table)
    (imp : Bool) (first : Name) (attrs : List Name) : VM × Option Id :=
  if !imp && (tget g first).isNone then (vm, none)
  else (vmBegin mods vm g, vmAccess mods back (vmBegin mods vm g) g imp first attrs)

/-- a history of runs on one VM: each with the heap as it was then and its configuration -/
def vmRuns (vm : VM) (hist : List (List (Id × Table) × Table)) : VM :=
  hist.foldl (fun v h => vmBegin h.1 v h.2) vm

/-- `g` is a map: every entry is THE entry of its key -/
def IsMap (g : Table) : Prop := ∀ k v, (k, v) ∈ g → tget g k = some v

/-! ## A second configuration on the same heap -/

/-- building another Config allocates new modules and new builtins (with their
    back-pointers); nothing that exists is written -/
def addConfig (st : St) (newMods : List (Id × Table)) (newBack : List (Id × Id)) : St :=
  { st with mods := st.mods ++ newMods, back := st.back ++ newBack }

/-! ## Host-owned inputs shared between configurations (risor_options.go: WithGlobals)

The host's Go maps are OBJECTS WITH IDENTITY: the same map value may be handed to
`risor.WithGlobals` in several option sequences (several Configs / evaluations, one after the
other or at the same time).  `heap` holds them (`mtable heap h` = the entries of map `h`; an
identity that is not in the heap is the nil map).  A Config's `globals` field is a REFERENCE:
either the map `NewConfig` allocated (`gref = none`, contents in `c.globals`) or — only in the
contrast variant `adopt = true` — the host's own map (`gref = some h`).  Every write to
`cfg.globals` (the option functions, `applyDefaultGlobals`, `applyDenylist`, `applyOverrides`)
goes through that reference. -/

/-- an option as the host writes it; `globalsMap h` = `WithGlobals(m)` with `m` the host map of
    identity `h` -/
inductive HOpt where
  | globalsMap (h : Id)
  | opt (o : Opt)
deriving DecidableEq, Repr

/-- a Config under construction, next to the host's maps -/
structure HCfg where
  heap : List (Id × Table)
  gref : Option Id
  c : Cfg
deriving Repr, DecidableEq

/-- the map `cfg.globals` refers to -/
def HCfg.globals (s : HCfg) : Table :=
  match s.gref with
  | none => s.c.globals
  | some h => (mtable s.heap h).getD []

/-- a write through `cfg.globals`: into the Config's own map, or into the host's -/
def HCfg.setGlobals (s : HCfg) (t : Table) : HCfg :=
  match s.gref with
  | none => { s with c := { s.c with globals := t } }
  | some h => { s with heap := modsUpdate s.heap h (fun _ => t) }

/-- the option functions.  `adopt = false` is risor_options.go AS IT IS: `WithGlobals` ranges over
    the host's map and stores every entry into the map the Config allocated.  `adopt = true` is
    the contrast ("no-copy fast path"): when the Config has no globals yet and the map is not
    nil, the host's map itself becomes `cfg.globals`. -/
def applyHOpt (adopt : Bool) (s : HCfg) : HOpt → HCfg
  | .globalsMap h =>
    match mtable s.heap h with
    | none => s
    | some t =>
      if adopt && s.globals.isEmpty then { s with gref := some h }
      else s.setGlobals (putAll s.globals t)
  | .opt o =>
    match o with
    | .withGlobal n v => s.setGlobals (tput s.globals n v)
    | o => { s with c := applyOpt s.c o }

/-- one request to build a configuration: the option sequence, the FRESH default objects
    `DefaultGlobals()` hands to this Config (table, modules, back-pointers), and the iteration
    orders of its denylist and overrides maps -/
structure Build where
  opts : List HOpt
  dflt : Table
  newMods : List (Id × Table)
  newBack : List (Id × Id)
  ds : List Name
  os : Table
deriving Repr, DecidableEq

/-- everything configurations built in one process share: the host's maps, the heap of module
    objects and the builtins' back-pointers -/
structure World where
  heap : List (Id × Table)
  mods : List (Id × Table)
  back : List (Id × Id)
deriving Repr, DecidableEq

/-- a built Config: where its globals live -/
structure Built where
  gref : Option Id
  own : Table
deriving Repr, DecidableEq

/-- the globals a built Config holds when the host's maps are `heap` (`cfg.Globals()` then) -/
def Built.visible (b : Built) (heap : List (Id × Table)) : Table :=
  match b.gref with
  | none => b.own
  | some h => (mtable heap h).getD []

/-- `NewConfig(opts...)`: fold the options, then `Config.init` on the map `cfg.globals` refers
    to; what `init` leaves in the globals is written back THROUGH the reference -/
def build (adopt : Bool) (w : World) (b : Build) : World × Built :=
  let s := b.opts.foldl (applyHOpt adopt) ⟨w.heap, none, Cfg.empty⟩
  let st := initFrom { s.c with globals := s.globals } b.dflt (w.mods ++ b.newMods)
    (w.back ++ b.newBack) b.ds b.os
  let s' := s.setGlobals st.globals
  (⟨s'.heap, st.mods, st.back⟩, ⟨s'.gref, s'.c.globals⟩)

/-- several configurations built one after the other in one world -/
def runBuilds (adopt : Bool) : World → List Build → World × List Built
  | w, [] => (w, [])
  | w, b :: bs =>
    let r := build adopt w b
    let rs := runBuilds adopt r.1 bs
    (rs.1, r.2 :: rs.2)

/-- the option sequence with every `WithGlobals(m)` spelled out as one `WithGlobal` per entry the
    host's map `m` had in `heap0` (a nil map: nothing) -/
def flatten (heap0 : List (Id × Table)) : List HOpt → List Opt
  | [] => []
  | .globalsMap h :: r =>
    ((mtable heap0 h).getD []).map (fun kv => Opt.withGlobal kv.1 kv.2) ++ flatten heap0 r
  | .opt o :: r => o :: flatten heap0 r

/-- **Spec**: the globals of a configuration are a function of ITS OWN option sequence and of the
    contents the host's maps have as the host wrote them (`heap0`) — `applyOpts`/`initFrom` of
    section "Option sequences" on the flattened sequence; no other configuration, no earlier
    evaluation and no module heap enters -/
def ownGlobals (heap0 : List (Id × Table)) (b : Build) : Table :=
  (initFrom (applyOpts (flatten heap0 b.opts)) b.dflt [] [] b.ds b.os).globals

/-! ## Host OBJECTS shared between configurations (object/module.go: Module.Override;
object/builtin.go: the `module` field)

The value handed to `WithGlobalOverride` (or to `WithGlobal(s)`) is an OBJECT of the host.  A host
creates such a replacement once and installs the same object in any number of configurations
(one per tenant), which differ in what else they deny or override.  The only state of a builtin
function a script can follow is its `Builtin.module` field (`__module__`): `St.back` / `World.back`.
`Module.Override` as it is stores the replacement in the module's table and writes nothing else —
the replacement keeps the back-pointer the host gave it (none: `__module__` is nil).  The contrast
variant ("a replacement becomes a member like any other") re-aims the replacement's back-pointer at
the module being edited; every configuration built later then re-aims the ONE shared field at ITS
module. -/

/-- `builtin.module = m` for the builtin `b`; an object that has no such field (no entry in
    `back`: a module, a string, a container) is left alone -/
def bput (back : List (Id × Id)) (b m : Id) : List (Id × Id) :=
  back.map fun e => if e.1 = b then (e.1, m) else e

/-- `Module.Override(name, value)` finds `name` among the attributes of `m` (and is not refused) -/
def overrideHits (st : St) (m : Id) (name : Name) : Bool :=
  name != dunderName &&
    match st.table m with
    | some t => (tget t name).isSome
    | none => false

/-- `Module.Override(name, value)` with the treatment of the replacement as a parameter.
    `adopt = false` is object/module.go AS IT IS (`overrideMod`: only the table is written).
    `adopt = true` is the contrast: a replacement that is stored also gets `module = m`. -/
def overrideModO (adopt : Bool) (st : St) (m : Id) (name : Name) (v : Option Id) : St :=
  let st' := overrideMod st m name v
  match v with
  | some x => if adopt && overrideHits st m name then { st' with back := bput st'.back x m } else st'
  | none => st'

/-- `editMember` (resolver as repaired) over `overrideModO` -/
def editMemberO (adopt : Bool) (st : St) (mname : Name) (attr : List Name) (v : Option Id) : St :=
  match tget st.globals mname with
  | none => st
  | some m =>
    if st.isModule m then
      match splitLast attr with
      | none => st
      | some (mp, last) =>
        match resolveImpl st m mp with
        | some tm => overrideModO adopt st tm last v
        | none => st
    else st

/-- one overrides entry (`applyOverrides`) over `overrideModO` -/
def overridePartsO (adopt : Bool) (st : St) (parts : List Name) (v : Id) : St :=
  match parts with
  | [] => st
  | [n] => { st with globals := tput st.globals n v }
  | mname :: attr => editMemberO adopt st mname attr (some v)

/-- `Config.init` over `overrideModO` (removals are `Override(name, nil)`: nothing is stored) -/
def initCfgO (adopt : Bool) (st : St) (denies : List (List Name)) (ovs : List (List Name × Id)) : St :=
  ovs.foldl (fun s pv => overridePartsO adopt s pv.1 pv.2) (denies.foldl denyParts st)

/-- `NewConfig(opts...)` in a world (`WithGlobals` copies: risor_options.go as it is) with the
    Override rule as a parameter; `buildO false = build false` (`Lemmas.buildO_false`) -/
def buildO (adoptOv : Bool) (w : World) (b : Build) : World × Built :=
  let s := b.opts.foldl (applyHOpt false) ⟨w.heap, none, Cfg.empty⟩
  let st := initCfgO adoptOv
    ⟨mergeDefaults s.c.noDefaults s.globals b.dflt, w.mods ++ b.newMods, w.back ++ b.newBack⟩
    (b.ds.map splitDots) (b.os.map fun kv => (splitDots kv.1, kv.2))
  let s' := s.setGlobals st.globals
  (⟨s'.heap, st.mods, st.back⟩, ⟨s'.gref, s'.c.globals⟩)

/-- several configurations built one after the other in one world; the result lists, for every
    build, the built Config and the world right after that build -/
def runBuildsO (adoptOv : Bool) : World → List Build → World × List (Built × World)
  | w, [] => (w, [])
  | w, b :: bs =>
    let r := buildO adoptOv w b
    let rs := runBuildsO adoptOv r.1 bs
    (rs.1, (r.2, r.1) :: rs.2)

/-- what a script obtains under a configuration whose globals are `g`, in the world `w` (the
    module heap and the back-pointers as they are THEN — after any number of later builds) -/
def accessIn (w : World) (g : Table) (imp : Bool) (first : Name) (attrs : List Name) : Option Id :=
  access ⟨g, w.mods, w.back⟩ imp first attrs

/-! ## Options that do not speak about globals (WithConcurrency, WithFilename, WithOS, …)

A host combines the options of section "Option sequences" with options that configure something
else.  They write a Config field of their own; `Config.init` as it is reads none of these
fields when it computes the globals (tie `Ties.initReads_tie`). -/

/-- an option sequence as the host writes it: the global-related options plus `flag k` — an
    option that writes only the Config field number `k` (0 `withConcurrency`, 1 `filename`,
    2 `os`, 3 `localImportPath`…; the number only tells the fields apart) -/
inductive XOpt where
  | opt (o : Opt)
  | flag (k : Nat)
deriving DecidableEq, Repr

/-- the Config fields: those of `Cfg` and the set of other fields that were written -/
structure XCfg where
  c : Cfg
  flags : List Nat
deriving Repr, DecidableEq

def applyXOpt (s : XCfg) : XOpt → XCfg
  | .opt o => { s with c := applyOpt s.c o }
  | .flag k => { s with flags := if s.flags.contains k then s.flags else s.flags ++ [k] }

/-- `NewConfig(opts...)` before `init`, all options -/
def applyXOpts (xs : List XOpt) : XCfg := xs.foldl applyXOpt ⟨Cfg.empty, []⟩

/-- the global-related options of a sequence, in order -/
def core : List XOpt → List Opt
  | [] => []
  | .opt o :: r => o :: core r
  | .flag _ :: r => core r

/-- `Config.init` as it is on all the fields: the three steps of `initFrom`; the other fields
    are not consulted -/
def initFromX (x : XCfg) (dflt : Table) (mods : List (Id × Table)) (back : List (Id × Id))
    (ds : List Name) (os : Table) : St :=
  initFrom x.c dflt mods back ds os

/-- CONTRAST (not the code): a last step of `init` that, when field `k` was written, makes sure
    the names `names` are bound by installing the default object of each one that is missing
    from the globals — "so that the feature the flag enables is usable without the defaults".
    A name can be missing because the host removed it (`Props.restoring_flag_defeats_denial`). -/
def initFromXRestoring (k : Nat) (names : List Name) (x : XCfg) (dflt : Table)
    (mods : List (Id × Table)) (back : List (Id × Id)) (ds : List Name) (os : Table) : St :=
  let st := initFrom x.c dflt mods back ds os
  if x.flags.contains k then
    { st with globals := names.foldl (fun g n =>
        match tget g n, tget dflt n with
        | none, some v => tput g n v
        | _, _ => g) st.globals }
  else st

end Risor.C11
