import RisorModel.C11.Model
/-!
C11 — helper lemmas: the round-based closure `reachAux` computes exactly the nodes joined
to the roots by a path; table and heap edits.
-/
namespace Risor.C11

/-! ## paths -/

theorem isPath_snoc (g : Graph) (a : Id) (p : List Id) (t b : Id)
    (h : IsPath g a p t) (e : Edge) (he : e ∈ g) (hs : e.src = t) (hd : e.dst = b) :
    IsPath g a (p ++ [b]) b := by
  induction p generalizing a with
  | nil =>
    simp only [IsPath] at h
    subst h
    exact ⟨⟨e, he, hs, hd⟩, rfl⟩
  | cons c p ih =>
    obtain ⟨h1, h2⟩ := h
    exact ⟨h1, ih c h2⟩

/-- a path either stays where it started or enters its end through an edge -/
theorem isPath_last (g : Graph) (a : Id) (p : List Id) (t : Id) (h : IsPath g a p t) :
    a = t ∨ ∃ e ∈ g, e.dst = t := by
  induction p generalizing a with
  | nil => exact Or.inl h
  | cons c p ih =>
    obtain ⟨⟨e, he, _, hd⟩, h2⟩ := h
    cases ih c h2 with
    | inl h => exact Or.inr ⟨e, he, by rw [hd, h]⟩
    | inr h => exact Or.inr h

theorem isPath_mono (g g' : Graph) (hsub : ∀ e ∈ g, e ∈ g') (a : Id) (p : List Id) (t : Id)
    (h : IsPath g a p t) : IsPath g' a p t := by
  induction p generalizing a with
  | nil => exact h
  | cons c p ih =>
    obtain ⟨⟨e, he, h1, h2⟩, h3⟩ := h
    exact ⟨⟨e, hsub e he, h1, h2⟩, ih c h3⟩

/-- joined to a root by a path of some length -/
def Reach (g : Graph) (roots : List Id) (t : Id) : Prop :=
  ∃ r ∈ roots, ∃ p, IsPath g r p t

/-! ## the closure -/

theorem length_fire_add_rest (vis : List Id) (es : Graph) :
    (fire vis es).length + (rest vis es).length = es.length := by
  induction es with
  | nil => rfl
  | cons e es ih =>
    unfold fire rest at *
    by_cases h : vis.contains e.src = true
    · simp only [List.filter_cons, h, ↓reduceIte, Bool.not_true, Bool.false_eq_true,
        List.length_cons]
      omega
    · simp only [Bool.not_eq_true] at h
      simp only [List.filter_cons, h, Bool.false_eq_true, ↓reduceIte, Bool.not_false,
        List.length_cons]
      omega

theorem mem_fire {vis : List Id} {es : Graph} {e : Edge} :
    e ∈ fire vis es ↔ e ∈ es ∧ e.src ∈ vis := by
  simp [fire, List.mem_filter]

theorem mem_rest {vis : List Id} {es : Graph} {e : Edge} :
    e ∈ rest vis es ↔ e ∈ es ∧ e.src ∉ vis := by
  simp [rest, List.mem_filter]

/-- soundness: everything collected is joined to a root by a path -/
theorem reachAux_sound (g : Graph) (roots : List Id) (n : Nat) (vis : List Id) (es : Graph)
    (hv : ∀ v ∈ vis, Reach g roots v) (hes : ∀ e ∈ es, e ∈ g) :
    ∀ v ∈ reachAux n vis es, Reach g roots v := by
  induction n generalizing vis es with
  | zero => exact hv
  | succ n ih =>
    unfold reachAux
    split
    · exact hv
    · apply ih
      · intro v hvm
        rcases List.mem_append.1 hvm with h | h
        · exact hv v h
        · obtain ⟨e, he, hd⟩ := List.mem_map.1 h
          obtain ⟨he1, he2⟩ := mem_fire.1 he
          obtain ⟨r, hr, p, hp⟩ := hv e.src he2
          exact ⟨r, hr, p ++ [v], isPath_snoc g r p e.src v hp e (hes e he1) rfl hd⟩
      · intro e he
        exact hes e (mem_rest.1 he).1

/-- closed under the edges of `g` -/
def Closed (g : Graph) (vis : List Id) : Prop := ∀ e ∈ g, e.src ∈ vis → e.dst ∈ vis

/-- completeness invariant: every edge of `g` is still pending or already satisfied; with
    fuel ≥ the number of pending edges the result is closed and contains the start set -/
theorem reachAux_closed (g : Graph) (n : Nat) (vis : List Id) (es : Graph)
    (hinv : ∀ e ∈ g, e ∈ es ∨ e.dst ∈ vis) (hn : es.length ≤ n) :
    Closed g (reachAux n vis es) ∧ ∀ v ∈ vis, v ∈ reachAux n vis es := by
  induction n generalizing vis es with
  | zero =>
    have : es = [] := List.length_eq_zero_iff.1 (Nat.le_zero.1 hn)
    subst this
    refine ⟨?_, fun v hv => hv⟩
    intro e he _
    rcases hinv e he with h | h
    · cases h
    · exact h
  | succ n ih =>
    unfold reachAux
    split
    · rename_i hempty
      refine ⟨?_, fun v hv => hv⟩
      intro e he hsrc
      rcases hinv e he with h | h
      · have : e ∈ fire vis es := mem_fire.2 ⟨h, hsrc⟩
        rw [List.isEmpty_iff.1 hempty] at this
        cases this
      · exact h
    · rename_i hne
      have hlen := length_fire_add_rest vis es
      have hpos : 0 < (fire vis es).length := by
        cases hf : fire vis es with
        | nil => simp [hf] at hne
        | cons _ _ => simp
      have := ih (vis ++ (fire vis es).map (·.dst)) (rest vis es) (by
        intro e he
        rcases hinv e he with h | h
        · by_cases hs : e.src ∈ vis
          · right
            exact List.mem_append.2 (Or.inr (List.mem_map.2 ⟨e, mem_fire.2 ⟨h, hs⟩, rfl⟩))
          · left
            exact mem_rest.2 ⟨h, hs⟩
        · right
          exact List.mem_append.2 (Or.inl h)) (by omega)
      exact ⟨this.1, fun v hv => this.2 v (List.mem_append.2 (Or.inl hv))⟩

theorem closed_path (g : Graph) (vis : List Id) (hc : Closed g vis) (a : Id) (p : List Id)
    (t : Id) (ha : a ∈ vis) (h : IsPath g a p t) : t ∈ vis := by
  induction p generalizing a with
  | nil => exact h ▸ ha
  | cons c p ih =>
    obtain ⟨⟨e, he, h1, h2⟩, h3⟩ := h
    exact ih c (h2 ▸ hc e he (h1 ▸ ha)) h3

end Risor.C11

namespace Risor.C11

/-! ## tables -/

theorem tget_mem {t : Table} {n : Name} {v : Id} (h : tget t n = some v) : (n, v) ∈ t := by
  induction t with
  | nil => cases h
  | cons kv t ih =>
    obtain ⟨k, x⟩ := kv
    unfold tget at h
    split at h
    · rename_i hk
      cases h
      subst hk
      exact List.mem_cons_self
    · exact List.mem_cons_of_mem _ (ih h)

theorem tget_terase_self (t : Table) (n : Name) : tget (terase t n) n = none := by
  induction t with
  | nil => rfl
  | cons kv t ih =>
    obtain ⟨k, x⟩ := kv
    by_cases hk : k = n
    · simp [terase, hk] at *
      exact ih
    · have : (k != n) = true := by simpa using hk
      simp only [terase, List.filter_cons, this, ↓reduceIte]
      unfold tget
      simp only [hk, ↓reduceIte]
      exact ih

theorem mem_terase {t : Table} {n : Name} {kv : Name × Id} (h : kv ∈ terase t n) :
    kv ∈ t ∧ kv.1 ≠ n := by
  simpa [terase, List.mem_filter] using h

theorem mem_treplace {t : Table} {n : Name} {v : Id} {kv : Name × Id} (h : kv ∈ treplace t n v) :
    (kv.1 = n ∧ kv.2 = v) ∨ (kv ∈ t ∧ kv.1 ≠ n) := by
  obtain ⟨kv0, hm, he⟩ := List.mem_map.1 h
  by_cases hk : kv0.1 = n
  · simp only [hk, ↓reduceIte] at he
    subst he
    exact Or.inl ⟨rfl, rfl⟩
  · simp only [hk, ↓reduceIte] at he
    subst he
    exact Or.inr ⟨hm, hk⟩

/-! ## the module heap -/

theorem mtable_mem {mods : List (Id × Table)} {m : Id} {t : Table} (h : mtable mods m = some t) :
    (m, t) ∈ mods := by
  induction mods with
  | nil => cases h
  | cons it r ih =>
    obtain ⟨i, tb⟩ := it
    unfold mtable at h
    split at h
    · rename_i hi
      cases h
      subst hi
      exact List.mem_cons_self
    · exact List.mem_cons_of_mem _ (ih h)

theorem mtable_modsUpdate (mods : List (Id × Table)) (m : Id) (f : Table → Table) (i : Id) :
    mtable (modsUpdate mods m f) i = (mtable mods i).map fun t => if i = m then f t else t := by
  induction mods with
  | nil => rfl
  | cons it r ih =>
    obtain ⟨j, tb⟩ := it
    by_cases hj : j = m
    · subst hj
      by_cases hi : j = i
      · subst hi
        simp [modsUpdate, mtable]
      · have hi' : ¬ i = j := fun h => hi h.symm
        simp only [modsUpdate, List.map_cons, ↓reduceIte, mtable, hi] at ih ⊢
        exact ih
    · by_cases hi : j = i
      · subst hi
        simp [modsUpdate, mtable, hj]
      · simp only [modsUpdate, List.map_cons, hj, ↓reduceIte, mtable, hi] at ih ⊢
        exact ih

theorem mem_modsUpdate {mods : List (Id × Table)} {m : Id} {f : Table → Table} {it : Id × Table}
    (h : it ∈ modsUpdate mods m f) :
    ∃ tb, (it.1, tb) ∈ mods ∧ it.2 = if it.1 = m then f tb else tb := by
  obtain ⟨it0, hm, he⟩ := List.mem_map.1 h
  by_cases hi : it0.1 = m
  · simp only [hi, ↓reduceIte] at he
    subst he
    exact ⟨it0.2, by simpa [← hi] using hm, by simp⟩
  · simp only [hi, ↓reduceIte] at he
    subst he
    exact ⟨it0.2, hm, by simp [hi]⟩

/-! ## edges of the script-visible graph -/

theorem mem_graphOf {st : St} {e : Edge} :
    e ∈ graphOf st ↔ e ∈ identEdges st.globals ∨ e ∈ importEdges st ∨ e ∈ memberEdges st.mods ∨
      e ∈ backEdges st.back := by
  simp [graphOf, List.mem_append]

theorem ident_edge_mem {st : St} {k : Name} {v : Id} (h : (k, v) ∈ st.globals) :
    (⟨root, .ident k, v⟩ : Edge) ∈ graphOf st :=
  mem_graphOf.2 (Or.inl (List.mem_map.2 ⟨(k, v), h, rfl⟩))

theorem member_edge_mem {st : St} {i : Id} {tb : Table} {k : Name} {v : Id}
    (hi : (i, tb) ∈ st.mods) (h : (k, v) ∈ tb) : (⟨i, .attr k, v⟩ : Edge) ∈ graphOf st :=
  mem_graphOf.2 (Or.inr (Or.inr (Or.inl
    (List.mem_flatMap.2 ⟨(i, tb), hi, List.mem_map.2 ⟨(k, v), h, rfl⟩⟩))))

theorem back_edge_mem {st : St} {b m : Id} (h : (b, m) ∈ st.back) :
    (⟨b, .back, m⟩ : Edge) ∈ graphOf st :=
  mem_graphOf.2 (Or.inr (Or.inr (Or.inr (List.mem_map.2 ⟨(b, m), h, rfl⟩))))

theorem bget_mem {l : List (Id × Id)} {b m : Id} (h : bget l b = some m) : (b, m) ∈ l := by
  induction l with
  | nil => cases h
  | cons kv t ih =>
    obtain ⟨k, x⟩ := kv
    unfold bget at h
    split at h
    · rename_i hk
      cases h
      subst hk
      exact List.mem_cons_self
    · exact List.mem_cons_of_mem _ (ih h)

/-- the shape of an edge of the graph of a state whose module heap was edited at `tm` by `f` -/
theorem edge_cases_modsEdit (st : St) (tm : Id) (f : Table → Table) (e : Edge)
    (he : e ∈ graphOf { st with mods := modsUpdate st.mods tm f }) :
    (∃ k, (k, e.dst) ∈ st.globals ∧ e.src = root ∧ (e.lbl = .ident k ∨ e.lbl = .imp k)) ∨
    (∃ tb k, (e.src, tb) ∈ st.mods ∧ e.lbl = .attr k ∧
      (k, e.dst) ∈ (if e.src = tm then f tb else tb)) ∨
    ((e.src, e.dst) ∈ st.back ∧ e.lbl = .back) := by
  rcases mem_graphOf.1 he with h | h | h | h
  · obtain ⟨kv, hm, rfl⟩ := List.mem_map.1 h
    exact Or.inl ⟨kv.1, hm, rfl, Or.inl rfl⟩
  · obtain ⟨kv, hm, rfl⟩ := List.mem_map.1 h
    exact Or.inl ⟨kv.1, (List.mem_filter.1 hm).1, rfl, Or.inr rfl⟩
  · obtain ⟨it, hit, hk⟩ := List.mem_flatMap.1 h
    obtain ⟨kv, hkv, rfl⟩ := List.mem_map.1 hk
    obtain ⟨tb, htb, h2⟩ := mem_modsUpdate hit
    exact Or.inr (Or.inl ⟨tb, kv.1, htb, rfl, by simpa [← h2] using hkv⟩)
  · obtain ⟨bm, hm, rfl⟩ := List.mem_map.1 h
    exact Or.inr (Or.inr ⟨hm, rfl⟩)

theorem overrideMod_eq (st : St) (tm : Id) (a : Name) (v : Option Id) (tbl : Table)
    (ha : a ≠ dunderName) (htab : st.table tm = some tbl) (hget : (tget tbl a).isSome = true) :
    overrideMod st tm a v = { st with mods := modsUpdate st.mods tm (editTable a v) } := by
  simp [overrideMod, ha, htab, hget]

/-- `Override` touches the table of one module only -/
theorem overrideMod_table_other (st : St) (tm : Id) (a : Name) (v : Option Id) (x : Id)
    (hx : x ≠ tm) : (overrideMod st tm a v).table x = st.table x := by
  unfold overrideMod
  split
  · rfl
  · split
    · rfl
    · split
      · simp only [St.table, mtable_modsUpdate, hx, ↓reduceIte]
        cases mtable st.mods x <;> rfl
      · rfl

theorem overrideMod_globals (st : St) (tm : Id) (a : Name) (v : Option Id) :
    (overrideMod st tm a v).globals = st.globals ∧ (overrideMod st tm a v).back = st.back := by
  unfold overrideMod
  split
  · exact ⟨rfl, rfl⟩
  · split
    · exact ⟨rfl, rfl⟩
    · split <;> exact ⟨rfl, rfl⟩

/-! ## module-path resolution -/

/-- the cursor loop of the repaired `resolveModule` IS the descending resolution, from every
    starting module and for paths of every length (induction on the path) -/
theorem resolveLoop_eq_spec (st : St) (cur : Id) (mp : List Name) :
    resolveLoop st cur mp = resolveSpec st cur mp := by
  induction mp generalizing cur with
  | nil => rfl
  | cons n ns ih =>
    simp only [resolveLoop, resolveSpec]
    cases memberModule st cur n with
    | none => rfl
    | some x => exact ih x

/-- `resolveModule` as it is resolves every module path — of ANY depth — the way the property
    demands -/
theorem resolveImpl_eq_spec (st : St) (m : Id) (mp : List Name) :
    resolveImpl st m mp = resolveSpec st m mp := by
  cases mp with
  | nil => rfl
  | cons n ns => exact resolveLoop_eq_spec st m (n :: ns)

/-- HISTORICAL: the pre-fix resolver agreed with the descending resolution on paths with at
    most one component (which is why only names `a.b.c.f` and deeper showed the defect) -/
theorem preFixResolve_short (st : St) (m : Id) (mp : List Name) (h : mp.length ≤ 1) :
    preFixResolve st m mp = resolveSpec st m mp := by
  match mp, h with
  | [], _ => rfl
  | [n], _ =>
    simp only [preFixResolve, preFixResolveLoop, resolveSpec]

theorem splitLast_length {l : List Name} {mp : List Name} {last : Name}
    (h : splitLast l = some (mp, last)) : l.length = mp.length + 1 := by
  induction l generalizing mp with
  | nil => cases h
  | cons x r ih =>
    cases r with
    | nil =>
      simp only [splitLast, Option.some.injEq, Prod.mk.injEq] at h
      obtain ⟨rfl, _⟩ := h
      rfl
    | cons y r =>
      simp only [splitLast] at h
      split at h
      · rename_i i l hs
        simp only [Option.some.injEq, Prod.mk.injEq] at h
        obtain ⟨rfl, rfl⟩ := h
        have := ih hs
        simp only [List.length_cons] at this ⊢
        omega
      · cases h

end Risor.C11

namespace Risor.C11

/-- the shape of an edge of the script-visible graph -/
theorem edge_cases (st : St) (e : Edge) (he : e ∈ graphOf st) :
    (∃ k, (k, e.dst) ∈ st.globals ∧ e.src = root ∧ (e.lbl = .ident k ∨ e.lbl = .imp k)) ∨
    (∃ tb k, (e.src, tb) ∈ st.mods ∧ e.lbl = .attr k ∧ (k, e.dst) ∈ tb) ∨
    ((e.src, e.dst) ∈ st.back ∧ e.lbl = .back) := by
  rcases mem_graphOf.1 he with h | h | h | h
  · obtain ⟨kv, hm, rfl⟩ := List.mem_map.1 h
    exact Or.inl ⟨kv.1, hm, rfl, Or.inl rfl⟩
  · obtain ⟨kv, hm, rfl⟩ := List.mem_map.1 h
    exact Or.inl ⟨kv.1, (List.mem_filter.1 hm).1, rfl, Or.inr rfl⟩
  · obtain ⟨it, hit, hk⟩ := List.mem_flatMap.1 h
    obtain ⟨kv, hkv, rfl⟩ := List.mem_map.1 hk
    exact Or.inr (Or.inl ⟨it.2, kv.1, hit, rfl, hkv⟩)
  · obtain ⟨bm, hm, rfl⟩ := List.mem_map.1 h
    exact Or.inr (Or.inr ⟨hm, rfl⟩)

theorem isModule_modsUpdate (st : St) (tm : Id) (f : Table → Table) (x : Id) :
    ({ st with mods := modsUpdate st.mods tm f } : St).isModule x = st.isModule x := by
  simp only [St.isModule, St.table, mtable_modsUpdate]
  cases mtable st.mods x <;> rfl

/-- an edit that only drops table entries only drops edges -/
theorem graphOf_modsEdit_subset (st : St) (tm : Id) (f : Table → Table)
    (hf : ∀ tb kv, kv ∈ f tb → kv ∈ tb) :
    ∀ e ∈ graphOf { st with mods := modsUpdate st.mods tm f }, e ∈ graphOf st := by
  intro e he
  rcases mem_graphOf.1 he with h | h | h | h
  · exact mem_graphOf.2 (Or.inl h)
  · refine mem_graphOf.2 (Or.inr (Or.inl ?_))
    obtain ⟨kv, hm, rfl⟩ := List.mem_map.1 h
    obtain ⟨h1, h2⟩ := List.mem_filter.1 hm
    rw [isModule_modsUpdate] at h2
    exact List.mem_map.2 ⟨kv, List.mem_filter.2 ⟨h1, h2⟩, rfl⟩
  · obtain ⟨it, hit, hk⟩ := List.mem_flatMap.1 h
    obtain ⟨kv, hkv, rfl⟩ := List.mem_map.1 hk
    obtain ⟨tb, htb, h2⟩ := mem_modsUpdate hit
    have : kv ∈ tb := by
      rw [h2] at hkv
      by_cases hi : it.1 = tm
      · simp only [hi, ↓reduceIte] at hkv
        exact hf tb kv hkv
      · simpa [hi] using hkv
    exact member_edge_mem (st := st) htb this
  · exact mem_graphOf.2 (Or.inr (Or.inr (Or.inr h)))

theorem graphOf_eraseGlobal_subset (st : St) (n : Name) :
    ∀ e ∈ graphOf { st with globals := terase st.globals n }, e ∈ graphOf st := by
  intro e he
  rcases mem_graphOf.1 he with h | h | h | h
  · obtain ⟨kv, hm, rfl⟩ := List.mem_map.1 h
    exact mem_graphOf.2 (Or.inl (List.mem_map.2 ⟨kv, (mem_terase hm).1, rfl⟩))
  · obtain ⟨kv, hm, rfl⟩ := List.mem_map.1 h
    obtain ⟨h1, h2⟩ := List.mem_filter.1 hm
    exact mem_graphOf.2 (Or.inr (Or.inl
      (List.mem_map.2 ⟨kv, List.mem_filter.2 ⟨(mem_terase h1).1, h2⟩, rfl⟩)))
  · exact mem_graphOf.2 (Or.inr (Or.inr (Or.inl h)))
  · exact mem_graphOf.2 (Or.inr (Or.inr (Or.inr h)))

theorem overrideMod_cases (st : St) (tm : Id) (a : Name) (v : Option Id) :
    overrideMod st tm a v = st ∨
      overrideMod st tm a v = { st with mods := modsUpdate st.mods tm (editTable a v) } := by
  unfold overrideMod
  split
  · exact Or.inl rfl
  · split
    · exact Or.inl rfl
    · split
      · exact Or.inr rfl
      · exact Or.inl rfl

/-- a dotted entry edits nothing, or performs one `Override` on a module `tm` that the
    resolver returned for a module `m` registered as a global -/
theorem editMember_cases (resolve : St → Id → List Name → Option Id) (st : St) (mname : Name)
    (attr : List Name) (v : Option Id) :
    editMember resolve st mname attr v = st ∨
      ∃ m mp last tm, tget st.globals mname = some m ∧ st.isModule m = true ∧
        splitLast attr = some (mp, last) ∧ resolve st m mp = some tm ∧
        editMember resolve st mname attr v = overrideMod st tm last v := by
  unfold editMember
  split
  · exact Or.inl rfl
  · rename_i m hm
    split
    · rename_i hmod
      split
      · exact Or.inl rfl
      · rename_i mp last hs
        split
        · rename_i tm hres
          exact Or.inr ⟨m, mp, last, tm, hm, hmod, hs, hres, rfl⟩
        · exact Or.inl rfl
    · exact Or.inl rfl

end Risor.C11

namespace Risor.C11

/-! ## helpers for the property theorems -/

theorem tget_none_not_mem {t : Table} {n : Name} (h : tget t n = none) (x : Id) : (n, x) ∉ t := by
  induction t with
  | nil => simp
  | cons kv t ih =>
    obtain ⟨k, y⟩ := kv
    unfold tget at h
    split at h
    · cases h
    · rename_i hk
      intro hm
      rcases List.mem_cons.1 hm with h1 | h1
      · simp only [Prod.mk.injEq] at h1
        exact hk h1.1.symm
      · exact ih h h1

theorem mem_tput {t : Table} {n : Name} {v : Id} {kv : Name × Id} (h : kv ∈ tput t n v)
    (hk : kv.1 = n) : kv.2 = v := by
  unfold tput at h
  split at h
  · rcases mem_treplace h with h1 | h1
    · exact h1.2
    · exact absurd hk h1.2
  · rename_i hnone
    rcases List.mem_append.1 h with h1 | h1
    · have hn : tget t n = none := by
        cases hg : tget t n with
        | none => rfl
        | some _ => simp [hg] at hnone
      obtain ⟨k, x⟩ := kv
      simp only at hk
      subst hk
      exact absurd h1 (tget_none_not_mem hn x)
    · simp only [List.mem_singleton] at h1
      rw [h1]

/-- what a dotted name `mname.attr…` edits when module paths are resolved with `resolve` -/
theorem editMember_eq (resolve : St → Id → List Name → Option Id) (st : St) (mname : Name)
    (attr : List Name) (v : Option Id) (m tm : Id) (mp : List Name) (last : Name)
    (hm : tget st.globals mname = some m) (hmod : st.isModule m = true)
    (hsplit : splitLast attr = some (mp, last)) (hres : resolve st m mp = some tm) :
    editMember resolve st mname attr v = overrideMod st tm last v := by
  simp [editMember, hm, hmod, hsplit, hres]

theorem denyWith_cons (resolve : St → Id → List Name → Option Id) (st : St) (mname : Name)
    (attr : List Name) (h : attr ≠ []) :
    denyWith resolve st (mname :: attr) = editMember resolve st mname attr none := by
  cases attr with
  | nil => exact absurd rfl h
  | cons _ _ => rfl

theorem overrideWith_cons (resolve : St → Id → List Name → Option Id) (st : St) (mname : Name)
    (attr : List Name) (v : Id) (h : attr ≠ []) :
    overrideWith resolve st (mname :: attr) v = editMember resolve st mname attr (some v) := by
  cases attr with
  | nil => exact absurd rfl h
  | cons _ _ => rfl

theorem splitLast_ne_nil {attr mp : List Name} {last : Name} (h : splitLast attr = some (mp, last)) :
    attr ≠ [] := by
  intro h0
  subst h0
  cases h

theorem memberModule_edge (st : St) (m : Id) (n : Name) (x : Id) (h : memberModule st m n = some x) :
    ∃ e ∈ graphOf st, e.src = m ∧ e.dst = x := by
  unfold memberModule at h
  split at h
  · cases h
  · split at h
    · cases h
    · rename_i t ht
      split at h
      · rename_i y hy
        split at h
        · cases h
          exact ⟨⟨m, .attr n, x⟩, member_edge_mem (st := st) (mtable_mem ht) (tget_mem hy), rfl, rfl⟩
        · cases h
      · cases h

end Risor.C11

namespace Risor.C11

/-! ## lookups after writes (option sequences, reused VMs) -/

theorem tget_terase (t : Table) (m n : Name) :
    tget (terase t m) n = if m = n then none else tget t n := by
  induction t with
  | nil => simp [terase, tget]
  | cons kv t ih =>
    obtain ⟨k, x⟩ := kv
    have ih' : tget (List.filter (fun kv => kv.1 != m) t) n = if m = n then none else tget t n := ih
    by_cases hk : k = m
    · subst hk
      by_cases hn : k = n
      · subst hn
        simpa [terase] using ih'
      · simp [terase, tget, hn, ih']
    · have hkm : (k != m) = true := by simpa using hk
      by_cases hn : m = n
      · subst hn
        simp [terase, tget, hk, ih']
      · by_cases hkn : k = n
        · subst hkn
          simp [terase, tget, hk, hn]
        · simp [terase, tget, hk, hn, hkn, ih']

theorem tget_treplace (t : Table) (m : Name) (v : Id) (n : Name) :
    tget (treplace t m v) n =
      if m = n then (if (tget t n).isSome then some v else none) else tget t n := by
  induction t with
  | nil => simp [treplace, tget]
  | cons kv t ih =>
    obtain ⟨k, x⟩ := kv
    have ih' : tget (List.map (fun kv => if kv.1 = m then (kv.1, v) else kv) t) n =
        if m = n then (if (tget t n).isSome then some v else none) else tget t n := ih
    by_cases hk : k = m
    · subst hk
      by_cases hn : k = n
      · simp [treplace, tget, hn]
      · simp [treplace, tget, hn, ih']
    · by_cases hn : m = n
      · subst hn
        simp [treplace, tget, hk, ih']
      · by_cases hkn : k = n
        · subst hkn
          simp [treplace, tget, hk, hn]
        · simp [treplace, tget, hk, hn, hkn, ih']

theorem tget_append (a b : Table) (n : Name) :
    tget (a ++ b) n = match tget a n with
      | some x => some x
      | none => tget b n := by
  induction a with
  | nil => simp [tget]
  | cons kv a ih =>
    obtain ⟨k, x⟩ := kv
    by_cases hk : k = n
    · simp [tget, hk]
    · simp [tget, hk, ih]

theorem tget_tput (t : Table) (m : Name) (v : Id) (n : Name) :
    tget (tput t m v) n = if m = n then some v else tget t n := by
  unfold tput
  split
  · rename_i h
    rw [tget_treplace]
    by_cases hn : m = n
    · subst hn; simp [h]
    · simp [hn]
  · rename_i h
    have hnone : tget t m = none := by
      cases hg : tget t m with
      | none => rfl
      | some _ => simp [hg] at h
    rw [tget_append]
    by_cases hn : m = n
    · subst hn; simp [hnone, tget]
    · cases hg : tget t n <;> simp [tget, hn]

theorem mem_tput' {t : Table} {n : Name} {v : Id} {kv : Name × Id} (h : kv ∈ tput t n v) :
    kv ∈ t ∨ kv = (n, v) := by
  unfold tput at h
  split at h
  · rcases mem_treplace h with h1 | h1
    · exact Or.inr (Prod.ext h1.1 h1.2)
    · exact Or.inl h1.1
  · rcases List.mem_append.1 h with h1 | h1
    · exact Or.inl h1
    · exact Or.inr (by simpa using h1)

theorem putAll_miss (g t0 : Table) (n : Name) (h : ∀ kv ∈ g, kv.1 ≠ n) :
    tget (putAll t0 g) n = tget t0 n := by
  induction g generalizing t0 with
  | nil => rfl
  | cons kv g ih =>
    show tget (putAll (tput t0 kv.1 kv.2) g) n = _
    rw [ih _ (fun kv' hm => h kv' (List.mem_cons_of_mem _ hm)), tget_tput]
    simp [h kv List.mem_cons_self]

theorem putAll_hit (g t0 : Table) (n : Name) (v : Id) (hv : ∀ kv ∈ g, kv.1 = n → kv.2 = v)
    (h : tget t0 n = some v ∨ ∃ kv ∈ g, kv.1 = n) : tget (putAll t0 g) n = some v := by
  induction g generalizing t0 with
  | nil =>
    rcases h with h | ⟨kv, hm, _⟩
    · exact h
    · cases hm
  | cons kv g ih =>
    show tget (putAll (tput t0 kv.1 kv.2) g) n = _
    apply ih _ (fun kv' hm => hv kv' (List.mem_cons_of_mem _ hm))
    by_cases hk : kv.1 = n
    · left
      rw [tget_tput, hv kv List.mem_cons_self hk]
      simp [hk]
    · rcases h with h | ⟨kv', hm, hk'⟩
      · left; rw [tget_tput]; simp [hk, h]
      · rcases List.mem_cons.1 hm with h1 | h1
        · subst h1; exact absurd hk' hk
        · exact Or.inr ⟨kv', h1, hk'⟩

theorem mem_putAll (g t0 : Table) (kv : Name × Id) (h : kv ∈ putAll t0 g) : kv ∈ t0 ∨ kv ∈ g := by
  induction g generalizing t0 with
  | nil => exact Or.inl h
  | cons kv0 g ih =>
    have h' : kv ∈ putAll (tput t0 kv0.1 kv0.2) g := h
    rcases ih _ h' with h1 | h1
    · rcases mem_tput' h1 with h2 | h2
      · exact Or.inl h2
      · exact Or.inr (h2 ▸ List.mem_cons_self)
    · exact Or.inr (List.mem_cons_of_mem _ h1)

/-! ## names -/

theorem splitDots_ne_nil (n : Name) : splitDots n ≠ [] := by
  cases n with
  | nil => simp [splitDots]
  | cons c cs =>
    unfold splitDots
    split
    · simp
    · split <;> simp

theorem splitDots_single (m n : Name) (h : splitDots m = [n]) : m = n := by
  induction m generalizing n with
  | nil => simp [splitDots] at h; exact h.symm
  | cons c cs ih =>
    unfold splitDots at h
    split at h
    · simp only [List.cons.injEq] at h
      exact absurd h.2 (splitDots_ne_nil cs)
    · split at h
      · rename_i h0
        exact absurd h0 (splitDots_ne_nil cs)
      · rename_i hd tl h0
        simp only [List.cons.injEq] at h
        obtain ⟨h1, h2⟩ := h
        subst h2
        rw [ih hd h0, ← h1]

/-! ## Config.init and the globals table -/

theorem editMember_globals (resolve : St → Id → List Name → Option Id) (st : St) (mname : Name)
    (attr : List Name) (v : Option Id) :
    (editMember resolve st mname attr v).globals = st.globals := by
  rcases editMember_cases resolve st mname attr v with h | ⟨_, _, last, tm, _, _, _, _, h⟩
  · rw [h]
  · rw [h]; exact (overrideMod_globals st tm last v).1

theorem denyParts_globals (st : St) (p : List Name) (n : Name) :
    tget (denyParts st p).globals n = if p = [n] then none else tget st.globals n := by
  match p with
  | [] => simp [denyParts, denyWith]
  | [m] =>
    show tget (terase st.globals m) n = _
    rw [tget_terase]
    by_cases h : m = n <;> simp [h]
  | mname :: a :: r =>
    show tget (editMember resolveImpl st mname (a :: r) none).globals n = _
    rw [editMember_globals]
    simp

theorem overrideParts_globals (st : St) (p : List Name) (v : Id) (n : Name) :
    tget (overrideParts st p v).globals n = if p = [n] then some v else tget st.globals n := by
  match p with
  | [] => simp [overrideParts, overrideWith]
  | [m] =>
    show tget (tput st.globals m v) n = _
    rw [tget_tput]
    by_cases h : m = n <;> simp [h]
  | mname :: a :: r =>
    show tget (editMember resolveImpl st mname (a :: r) (some v)).globals n = _
    rw [editMember_globals]
    simp

theorem denies_globals (ds : List (List Name)) (st : St) (n : Name) :
    tget (ds.foldl denyParts st).globals n = if [n] ∈ ds then none else tget st.globals n := by
  induction ds generalizing st with
  | nil => simp
  | cons p ds ih =>
    simp only [List.foldl_cons]
    rw [ih, denyParts_globals]
    by_cases h1 : [n] ∈ ds
    · simp [h1]
    · by_cases h2 : p = [n]
      · simp [h2]
      · have : ¬ [n] = p := fun h => h2 h.symm
        simp [h1, h2, this]

theorem overrides_globals_miss (os : List (List Name × Id)) (st : St) (n : Name)
    (h : ∀ pv ∈ os, pv.1 ≠ [n]) :
    tget (os.foldl (fun s pv => overrideParts s pv.1 pv.2) st).globals n = tget st.globals n := by
  induction os generalizing st with
  | nil => rfl
  | cons pv os ih =>
    simp only [List.foldl_cons]
    rw [ih _ (fun pv' hm => h pv' (List.mem_cons_of_mem _ hm)), overrideParts_globals]
    simp [h pv List.mem_cons_self]

theorem overrides_globals_hit (os : List (List Name × Id)) (st : St) (n : Name) (v : Id)
    (hv : ∀ pv ∈ os, pv.1 = [n] → pv.2 = v)
    (h : tget st.globals n = some v ∨ ∃ pv ∈ os, pv.1 = [n]) :
    tget (os.foldl (fun s pv => overrideParts s pv.1 pv.2) st).globals n = some v := by
  induction os generalizing st with
  | nil =>
    rcases h with h | ⟨pv, hm, _⟩
    · exact h
    · cases hm
  | cons pv os ih =>
    simp only [List.foldl_cons]
    apply ih _ (fun pv' hm => hv pv' (List.mem_cons_of_mem _ hm))
    by_cases hk : pv.1 = [n]
    · left
      rw [overrideParts_globals, hv pv List.mem_cons_self hk]
      simp [hk]
    · rcases h with h | ⟨pv', hm, hk'⟩
      · left; rw [overrideParts_globals]; simp [hk, h]
      · rcases List.mem_cons.1 hm with h1 | h1
        · subst h1; exact absurd hk' hk
        · exact Or.inr ⟨pv', h1, hk'⟩

/-! ## host-owned inputs shared between configurations (Model: HOpt, build, runBuilds) -/

theorem applyOpt_withGlobals_fold (t : Table) (c : Cfg) :
    (t.map fun kv => Opt.withGlobal kv.1 kv.2).foldl applyOpt c =
      { c with globals := putAll c.globals t } := by
  induction t generalizing c with
  | nil => rfl
  | cons kv t ih =>
    simp only [List.map_cons, List.foldl_cons]
    rw [ih]
    simp [applyOpt, putAll]

/-- the code as it is never re-aims `cfg.globals` and never touches a host map: one option -/
theorem applyHOpt_copy (heap : List (Id × Table)) (c : Cfg) (o : HOpt) :
    applyHOpt false ⟨heap, none, c⟩ o = ⟨heap, none, (flatten heap [o]).foldl applyOpt c⟩ := by
  cases o with
  | globalsMap h =>
    simp only [applyHOpt, flatten, List.append_nil]
    cases hm : mtable heap h with
    | none => simp
    | some t =>
      simp only [Bool.false_and, Bool.false_eq_true, ↓reduceIte, Option.getD_some]
      rw [applyOpt_withGlobals_fold]
      rfl
  | opt o =>
    cases o <;> rfl

theorem flatten_cons (heap : List (Id × Table)) (o : HOpt) (r : List HOpt) :
    flatten heap (o :: r) = flatten heap [o] ++ flatten heap r := by
  cases o <;> simp [flatten]

/-- … and any sequence of options: the fold over the host's spelling equals the fold of
    `applyOpt` over the flattened sequence, the reference stays the Config's own map, and the
    host's maps are what they were -/
theorem applyHOpts_copy (opts : List HOpt) (heap : List (Id × Table)) (c : Cfg) :
    opts.foldl (applyHOpt false) ⟨heap, none, c⟩ =
      ⟨heap, none, (flatten heap opts).foldl applyOpt c⟩ := by
  induction opts generalizing c with
  | nil => rfl
  | cons o r ih =>
    rw [List.foldl_cons, flatten_cons heap o r, List.foldl_append, applyHOpt_copy, ih]

/-- the globals table `Config.init` produces does not depend on the module heap -/
theorem initCfg_globals_indep (g : Table) (m m' : List (Id × Table)) (k k' : List (Id × Id))
    (ds : List (List Name)) (os : List (List Name × Id)) :
    (initCfg ⟨g, m, k⟩ ds os).globals = (initCfg ⟨g, m', k'⟩ ds os).globals := by
  unfold initCfg
  have hd : ∀ (ds : List (List Name)) (s s' : St), s.globals = s'.globals →
      (ds.foldl denyParts s).globals = (ds.foldl denyParts s').globals := by
    intro ds
    induction ds with
    | nil => intro s s' h; exact h
    | cons p ds ih =>
      intro s s' h
      simp only [List.foldl_cons]
      apply ih
      match p with
      | [] => exact h
      | [n] => show terase s.globals n = terase s'.globals n; rw [h]
      | mname :: a :: r =>
        show (editMember resolveImpl s mname (a :: r) none).globals =
          (editMember resolveImpl s' mname (a :: r) none).globals
        rw [editMember_globals, editMember_globals, h]
  have ho : ∀ (os : List (List Name × Id)) (s s' : St), s.globals = s'.globals →
      (os.foldl (fun s pv => overrideParts s pv.1 pv.2) s).globals =
      (os.foldl (fun s pv => overrideParts s pv.1 pv.2) s').globals := by
    intro os
    induction os with
    | nil => intro s s' h; exact h
    | cons pv os ih =>
      intro s s' h
      simp only [List.foldl_cons]
      apply ih
      match hp : pv.1 with
      | [] => simp only [overrideParts, overrideWith]; exact h
      | [n] => show tput s.globals n pv.2 = tput s'.globals n pv.2; rw [h]
      | mname :: a :: r =>
        show (editMember resolveImpl s mname (a :: r) (some pv.2)).globals =
          (editMember resolveImpl s' mname (a :: r) (some pv.2)).globals
        rw [editMember_globals, editMember_globals, h]
  exact ho os _ _ (hd ds _ _ rfl)

/-- closed form of `build` for the code as it is -/
theorem build_copy (w : World) (b : Build) :
    (build false w b).1.heap = w.heap ∧ (build false w b).2 = ⟨none, ownGlobals w.heap b⟩ := by
  unfold build
  simp only [applyHOpts_copy]
  refine ⟨rfl, ?_⟩
  simp only [HCfg.setGlobals, HCfg.globals, ownGlobals, initFrom, applyOpts]
  congr 1
  exact initCfg_globals_indep _ _ _ _ _ _ _

/-- the module a path resolves to (descending) is joined to the starting module by a path of
    member edges — one edge per component -/
theorem resolveSpec_path (st : St) (m : Id) (mp : List Name) (tm : Id)
    (h : resolveSpec st m mp = some tm) : ∃ p : List Id, IsPath (graphOf st) m p tm := by
  induction mp generalizing m with
  | nil =>
    simp only [resolveSpec, Option.some.injEq] at h
    exact ⟨[], h⟩
  | cons n ns ih =>
    simp only [resolveSpec] at h
    split at h
    · rename_i x hx
      obtain ⟨p, hp⟩ := ih x h
      exact ⟨x :: p, memberModule_edge st m n x hx, hp⟩
    · cases h

/-! ### host objects shared between configurations: `overrideModO false` is the code as it is -/

theorem overrideModO_false (st : St) (m : Id) (name : Name) (v : Option Id) :
    overrideModO false st m name v = overrideMod st m name v := by
  unfold overrideModO
  cases v <;> simp

theorem editMemberO_false (st : St) (mname : Name) (attr : List Name) (v : Option Id) :
    editMemberO false st mname attr v = editMember resolveImpl st mname attr v := by
  unfold editMemberO editMember
  simp only [overrideModO_false]

theorem overridePartsO_false (st : St) (parts : List Name) (v : Id) :
    overridePartsO false st parts v = overrideParts st parts v := by
  unfold overridePartsO overrideParts overrideWith
  split <;> simp only [editMemberO_false]

theorem initCfgO_false (st : St) (ds : List (List Name)) (os : List (List Name × Id)) :
    initCfgO false st ds os = initCfg st ds os := by
  unfold initCfgO initCfg
  simp only [overridePartsO_false]

theorem buildO_false (w : World) (b : Build) : buildO false w b = build false w b := by
  unfold buildO build initFrom
  simp only [initCfgO_false]

theorem bget_append (a b : List (Id × Id)) (x : Id) :
    bget (a ++ b) x = match bget a x with
      | some m => some m
      | none => bget b x := by
  induction a with
  | nil => rfl
  | cons e a ih =>
    obtain ⟨k, v⟩ := e
    simp only [List.cons_append, bget]
    split
    · rfl
    · exact ih

end Risor.C11
