import RisorModel.Util
import RisorModel.C11.Model
import RisorModel.Generated.C11
/-!
Line-protocol front end of the C11 model (requests after the leading `C11` field).

  universe                                   → hex names regenerated from /repo (attribute-name universe)
  facts                                      → regenerated control facts (init order, resolveModule shape)
  reach  <edges> <roots> <targets>           → one 0/1 per target (Model.reach on the dumped REAL graph)
  config <without> <host> <dflt> <mods> <back> <denies> <ovs> <accesses>
                                             → final Impl state, per-deny / per-override Spec verdicts, access outcomes
  shared <ids> <ids> <exempt>                → identities two configs have in common

Lists: items joined by `,`, `-` = empty.  Names are `x` + lowercase hex of the bytes.
table item `xname=id`; mods item `id:table` joined by `|`; edge `src>dst>label`;
access item `i;xname;xattr;…` (identifier first) or `m;…` (import first).
-/
namespace Risor.C11
open Risor.Util

def items (s : String) (sep : String := ",") : List String :=
  if s = "-" || s = "" then [] else s.splitOn sep

def parseName (s : String) : Option Name :=
  match s.toList with
  | 'x' :: r => fromHexChars r
  | _ => none

def showName (s : Name) : String := "x" ++ toHex s

def parseKV (s : String) : Option (Name × Id) :=
  match s.splitOn "=" with
  | [k, v] => do
    let k ← parseName k
    let v ← v.toNat?
    pure (k, v)
  | _ => none

def parseTable (s : String) : Option Table := (items s).mapM parseKV

def parseMods (s : String) : Option (List (Id × Table)) :=
  (items s "|").mapM fun it =>
    match it.splitOn ":" with
    | [i, t] => do
      let i ← i.toNat?
      let t ← parseTable t
      pure (i, t)
    | _ => none

def parseBack (s : String) : Option (List (Id × Id)) :=
  (items s).mapM fun it =>
    match it.splitOn "=" with
    | [a, b] => do
      let a ← a.toNat?
      let b ← b.toNat?
      pure (a, b)
    | _ => none

def parseIds (s : String) : Option (List Id) := (items s).mapM (·.toNat?)

def parseEdges (s : String) : Option Graph :=
  (items s).mapM fun it =>
    match it.splitOn ">" with
    | a :: b :: l => do
      let a ← a.toNat?
      let b ← b.toNat?
      let _ := l
      pure ⟨a, .attr [], b⟩
    | _ => none

def splitName (n : Name) : List Name := splitDots n

def parseDenies (s : String) : Option (List (List Name)) :=
  (items s).mapM fun it => (parseName it).map splitName

def parseOvs (s : String) : Option (List (List Name × Id)) :=
  (items s).mapM fun it =>
    match it.splitOn "=" with
    | [k, v] => do
      let k ← parseName k
      let v ← v.toNat?
      pure (splitName k, v)
    | _ => none

def parseAccesses (s : String) : Option (List (Bool × Name × List Name)) :=
  (items s).mapM fun it =>
    match it.splitOn ";" with
    | k :: f :: r => do
      let f ← parseName f
      let r ← r.mapM parseName
      pure (k == "m", f, r)
    | _ => none

def showTable (t : Table) : String :=
  if t.isEmpty then "-" else ",".intercalate (t.map fun kv => showName kv.1 ++ "=" ++ toString kv.2)

def showMods (m : List (Id × Table)) : String :=
  if m.isEmpty then "-" else
    "|".intercalate (m.map fun it => toString it.1 ++ ":" ++ (if it.2.isEmpty then "" else showTable it.2))

def showOpt : Option Id → String
  | some x => toString x
  | none => "n"

def bit (b : Bool) : String := if b then "1" else "0"

def joinOr (xs : List String) : String := if xs.isEmpty then "-" else ",".intercalate xs

def handleConfig (without host dflt mods back denies ovs accs : String) : String :=
  match parseTable host, parseTable dflt, parseMods mods, parseBack back,
        parseDenies denies, parseOvs ovs, parseAccesses accs with
  | some host, some dflt, some mods, some back, some denies, some ovs, some accs =>
    let st0 : St := ⟨mergeDefaults (without == "1") host dflt, mods, back⟩
    let impl := initCfg st0 denies ovs
    let spec := initSpec st0 denies ovs
    let gi := graphOf impl
    let gs := graphOf spec
    let ri := reach gi [root]
    let rs := reach gs [root]
    let dOut := denies.map fun p =>
      let t := target st0 p
      let r := match t with
        | some t => bit (ri.contains t) ++ ":" ++ bit (rs.contains t)
        | none => "0:0"
      showOpt t ++ ":" ++ r ++ ":" ++ bit (deepName p)
    let oOut := ovs.map fun pv =>
      let t := target st0 pv.1
      let r := match t with
        | some t => bit (ri.contains t && t != pv.2)
        | none => "0"
      -- what a script obtains under exactly this name in the final Impl / Spec state
      let seen (s : St) := match pv.1 with
        | [] => none
        | f :: a => access s false f a
      showOpt t ++ ":" ++ r ++ ":" ++ showOpt (seen impl) ++ ":" ++ showOpt (seen spec) ++ ":" ++ bit (deepName pv.1)
    let aOut := accs.map fun a => showOpt (access impl a.1 a.2.1 a.2.2)
    "ok\t" ++ showTable impl.globals ++ "\t" ++ showMods impl.mods ++ "\t" ++ joinOr dOut ++ "\t" ++
      joinOr oOut ++ "\t" ++ joinOr aOut ++ "\t" ++ bit (decide (impl = spec))
  | _, _, _, _, _, _, _ => "error\tbad-config-request"

def handle : List String → String
  | ["universe"] => joinOr (Risor.Generated.C11.attrUniverse.map fun n => showName (strBytes n))
  | ["facts"] =>
    "init=" ++ ">".intercalate Risor.Generated.C11.initOrder ++
    "\tresolveInRoot=" ++ bit Risor.Generated.C11.resolveLooksUpInRoot ++
    "\tdottedKeys=" ++ toString Risor.Generated.C11.dottedMemberKeys.length
  | ["reach", edges, roots, targets] =>
    match parseEdges edges, parseIds roots, parseIds targets with
    | some g, some r, some ts =>
      let vis := reach g r
      "ok\t" ++ (if ts.isEmpty then "-" else String.join (ts.map fun t => bit (vis.contains t)))
    | _, _, _ => "error\tbad-reach-request"
  | ["config", without, host, dflt, mods, back, denies, ovs, accs] =>
    handleConfig without host dflt mods back denies ovs accs
  | ["shared", a, b, ex] =>
    match parseIds a, parseIds b, parseIds ex with
    | some a, some b, some ex => "ok\t" ++ joinOr ((sharedIds a b ex).map toString)
    | _, _, _ => "error\tbad-shared-request"
  | _ => "error\tunknown-request"

end Risor.C11
