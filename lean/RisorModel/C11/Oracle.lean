import RisorModel.Util
/-! Line-protocol front end of the C11 model (stub until the model exists). -/
namespace Risor.C11

def handle : List String → String
  | _ => "error\tnot-implemented"

end Risor.C11
