import RisorModel.Util
import RisorModel.C11.Model
import RisorModel.Generated.C11
/-!
Line-protocol front end of the C11 model (requests after the leading `C11` field).

  universe                                   → hex names regenerated from /repo (attribute-name universe)
  facts                                      → regenerated control facts (init order, resolveModule shape)
  reach  <edges> <roots> <targets>           → one 0/1 per target (Model.reach on the dumped REAL graph)
  config <without> <host> <dflt> <mods> <back> <denies> <ovs> <accesses>
                                             → final Impl state, per-deny / per-override Spec verdicts, access outcomes
  shared <ids> <ids> <exempt>                → identities two configs have in common
  optcfg <dflt> <mods> <back> <opts> <rev> <accesses>
                                             → like `config`, but the Config fields are folded from the OPTION SEQUENCE by
                                               Model.applyOpts (rev = 1: both Go maps iterated in reverse); per-deny /
                                               per-override items are prefixed with the name
  optspec <opts> <bindings>                  → Model.allowedTop for each `xname=id|n` (final binding of a top-level name)
  vmseq  <mods> <back> <tables> <evals>      → evaluations on ONE reused VM (Model.vmEval = vmBegin / vmAccess): tables joined by `/`,
                                               eval item `k~access`; per evaluation `impl:spec`

  hostseq <adopt> <heap> <mods> <back> <builds>
                                             → configurations built one after the other in ONE world whose host maps have identity
                                               (Model.runBuilds; adopt = 0: the code as it is).  heap/mods: `id:table|…`; builds
                                               joined by `/`, each `opts~dflt~rev`; option item `G;id` = WithGlobals(host map id)
                                               (an id that is not in the heap = the nil map).  Reply: per build (joined by `/`)
                                               `visible-right-after-the-build~ownGlobals (Spec)~visible-at-the-end~heap-after-the-build`,
                                               then the final heap and the final module heap

  objseq <adoptOv> <mods> <back> <builds> <evals>
                                             → configurations that share host OBJECTS (replacement builtins, host values), built one
                                               after the other in ONE world (Model.runBuildsO; adoptOv = 0: Module.Override as it is).
                                               mods/back: the host's modules and the back-pointers of the host's builtins; builds joined
                                               by `/`, each `opts~dflt~newMods~newBack~rev` (the build's FRESH default objects); evals
                                               joined by `,`, each `stage~k~access` = the access under the globals of build k in the
                                               world after build `stage` (stage ≥ k).  Reply: per build (joined by `/`)
                                               `globals~back~mods` right after the build, then per eval
                                               `at-the-stage:right-after-its-own-build:built-alone-in-the-initial-world`

Option item: `g;xname;id` (WithGlobal), `d;xname` (WithoutGlobal), `o;xname;id` (WithGlobalOverride), `n`
(WithoutDefaultGlobals).
Lists: items joined by `,`, `-` = empty.  Names are `x` + lowercase hex of the bytes.
table item `xname=id`; mods item `id:table` joined by `|`; edge `src>dst>label`;
access item `i;xname;xattr;…` (identifier first) or `m;…` (import first).
-/
namespace Risor.C11
open Risor.Util

def items (s : String) (sep : String := ",") : List String :=
  if s = "-" || s = "" then [] else s.splitOn sep

def parseName (s : String) : Option Name :=
  match s.toList with
  | 'x' :: r => fromHexChars r
  | _ => none

def showName (s : Name) : String := "x" ++ toHex s

def parseKV (s : String) : Option (Name × Id) :=
  match s.splitOn "=" with
  | [k, v] => do
    let k ← parseName k
    let v ← v.toNat?
    pure (k, v)
  | _ => none

def parseTable (s : String) : Option Table := (items s).mapM parseKV

def parseMods (s : String) : Option (List (Id × Table)) :=
  (items s "|").mapM fun it =>
    match it.splitOn ":" with
    | [i, t] => do
      let i ← i.toNat?
      let t ← parseTable t
      pure (i, t)
    | _ => none

def parseBack (s : String) : Option (List (Id × Id)) :=
  (items s).mapM fun it =>
    match it.splitOn "=" with
    | [a, b] => do
      let a ← a.toNat?
      let b ← b.toNat?
      pure (a, b)
    | _ => none

def parseIds (s : String) : Option (List Id) := (items s).mapM (·.toNat?)

def parseEdges (s : String) : Option Graph :=
  (items s).mapM fun it =>
    match it.splitOn ">" with
    | a :: b :: l => do
      let a ← a.toNat?
      let b ← b.toNat?
      let _ := l
      pure ⟨a, .attr [], b⟩
    | _ => none

def splitName (n : Name) : List Name := splitDots n

def parseDenies (s : String) : Option (List (List Name)) :=
  (items s).mapM fun it => (parseName it).map splitName

def parseOvs (s : String) : Option (List (List Name × Id)) :=
  (items s).mapM fun it =>
    match it.splitOn "=" with
    | [k, v] => do
      let k ← parseName k
      let v ← v.toNat?
      pure (splitName k, v)
    | _ => none

def parseAccesses (s : String) : Option (List (Bool × Name × List Name)) :=
  (items s).mapM fun it =>
    match it.splitOn ";" with
    | k :: f :: r => do
      let f ← parseName f
      let r ← r.mapM parseName
      pure (k == "m", f, r)
    | _ => none

def showTable (t : Table) : String :=
  if t.isEmpty then "-" else ",".intercalate (t.map fun kv => showName kv.1 ++ "=" ++ toString kv.2)

def showMods (m : List (Id × Table)) : String :=
  if m.isEmpty then "-" else
    "|".intercalate (m.map fun it => toString it.1 ++ ":" ++ (if it.2.isEmpty then "" else showTable it.2))

def showOpt : Option Id → String
  | some x => toString x
  | none => "n"

def bit (b : Bool) : String := if b then "1" else "0"

def joinOr (xs : List String) : String := if xs.isEmpty then "-" else ",".intercalate xs

/-- the reply shared by `config` and `optcfg`: `denies`/`ovs` carry the name they came from -/
def configReply (st0 : St) (denies : List (Name × List Name)) (ovs : List (Name × List Name × Id))
    (accs : List (Bool × Name × List Name)) (named : Bool) : String :=
  let dl := denies.map (·.2)
  let ol := ovs.map fun x => (x.2.1, x.2.2)
  let impl := initCfg st0 dl ol
  let spec := initSpec st0 dl ol
  let gi := graphOf impl
  let gs := graphOf spec
  let ri := reach gi [root]
  let rs := reach gs [root]
  let pre (n : Name) := if named then showName n ++ ":" else ""
  let dOut := denies.map fun np =>
    let p := np.2
    let t := target st0 p
    let r := match t with
      | some t => bit (ri.contains t) ++ ":" ++ bit (rs.contains t)
      | none => "0:0"
    pre np.1 ++ showOpt t ++ ":" ++ r ++ ":" ++ bit (deepName p)
  let oOut := ovs.map fun npv =>
    let pv := npv.2
    let t := target st0 pv.1
    let r := match t with
      | some t => bit (ri.contains t && t != pv.2)
      | none => "0"
    -- what a script obtains under exactly this name in the final Impl / Spec state
    let seen (s : St) := match pv.1 with
      | [] => none
      | f :: a => access s false f a
    pre npv.1 ++ showOpt t ++ ":" ++ r ++ ":" ++ showOpt (seen impl) ++ ":" ++ showOpt (seen spec) ++ ":" ++ bit (deepName pv.1)
  let aOut := accs.map fun a => showOpt (access impl a.1 a.2.1 a.2.2)
  "ok\t" ++ showTable impl.globals ++ "\t" ++ showMods impl.mods ++ "\t" ++ joinOr dOut ++ "\t" ++
    joinOr oOut ++ "\t" ++ joinOr aOut ++ "\t" ++ bit (decide (impl = spec))

def parseDenyNames (s : String) : Option (List Name) := (items s).mapM parseName

def parseOvNames (s : String) : Option (List (Name × Id)) :=
  (items s).mapM fun it =>
    match it.splitOn "=" with
    | [k, v] => do
      let k ← parseName k
      let v ← v.toNat?
      pure (k, v)
    | _ => none

def handleConfig (without host dflt mods back denies ovs accs : String) : String :=
  match parseTable host, parseTable dflt, parseMods mods, parseBack back,
        parseDenyNames denies, parseOvNames ovs, parseAccesses accs with
  | some host, some dflt, some mods, some back, some denies, some ovs, some accs =>
    let st0 : St := ⟨mergeDefaults (without == "1") host dflt, mods, back⟩
    configReply st0 (denies.map fun n => (n, splitName n)) (ovs.map fun kv => (kv.1, splitName kv.1, kv.2)) accs false
  | _, _, _, _, _, _, _ => "error\tbad-config-request"

def parseOpt (s : String) : Option Opt :=
  match s.splitOn ";" with
  | ["g", n, v] => do
    let n ← parseName n
    let v ← v.toNat?
    pure (.withGlobal n v)
  | ["d", n] => (parseName n).map .without
  | ["o", n, v] => do
    let n ← parseName n
    let v ← v.toNat?
    pure (.override n v)
  | ["n"] => some .noDefaults
  | _ => none

def parseOpts (s : String) : Option (List Opt) := (items s).mapM parseOpt

/-- a mixed sequence: `f;k` is an option that writes only the Config field number `k` -/
def parseXOpt (s : String) : Option XOpt :=
  match s.splitOn ";" with
  | ["f", k] => k.toNat?.map .flag
  | _ => (parseOpt s).map .opt

def parseXOpts (s : String) : Option (List XOpt) := (items s).mapM parseXOpt

def handleOptCfg (dflt mods back opts rev accs : String) : String :=
  match parseTable dflt, parseMods mods, parseBack back, parseXOpts opts, parseAccesses accs with
  | some dflt, some mods, some back, some xs, some accs =>
    -- the fold over ALL options (Model.applyXOpts); initFromX reads the `c` part only
    let c := (applyXOpts xs).c
    let ds := if rev == "1" then c.denylist.reverse else c.denylist
    let os := if rev == "1" then c.overrides.reverse else c.overrides
    let st0 : St := ⟨mergeDefaults c.noDefaults c.globals dflt, mods, back⟩
    -- configReply folds exactly Model.initFrom / initFromSpec c dflt mods back ds os
    configReply st0 (ds.map fun n => (n, splitDots n)) (os.map fun kv => (kv.1, splitDots kv.1, kv.2)) accs true ++
      "\t" ++ bit c.noDefaults
  | _, _, _, _, _ => "error\tbad-optcfg-request"

def parseBindings (s : String) : Option (List (Name × Option Id)) :=
  (items s).mapM fun it =>
    match it.splitOn "=" with
    | [k, v] => do
      let k ← parseName k
      if v == "n" then pure (k, none) else do
        let v ← v.toNat?
        pure (k, some v)
    | _ => none

def handleOptSpec (opts bs : String) : String :=
  match parseXOpts opts, parseBindings bs with
  | some xs, some bs =>
    -- Spec for a mixed sequence: allowedTop of its global-related options (Props.xoptseq_meets_spec)
    let opts := core xs
    "ok\t" ++ joinOr (bs.map fun nb =>
      bit (allowedTop opts nb.1 nb.2) ++ ":" ++ showOpt (lastOverride opts nb.1) ++ ":" ++
        bit (deniedIn opts nb.1) ++ ":" ++ showOpt (hostAfterDeny opts nb.1) ++ ":" ++ bit (undotted nb.1))
  | _, _ => "error\tbad-optspec-request"

def parseEvals (s : String) : Option (List (Nat × Bool × Name × List Name)) :=
  (items s).mapM fun it =>
    match it.splitOn "~" with
    | [k, a] => do
      let k ← k.toNat?
      match ← parseAccesses a with
      | [acc] => pure (k, acc)
      | _ => none
    | _ => none

def handleVmSeq (mods back tables evals : String) : String :=
  match parseMods mods, parseBack back, (tables.splitOn "/").mapM parseTable, parseEvals evals with
  | some mods, some back, some tables, some evals =>
    let step (acc : VM × List String) (ev : Nat × Bool × Name × List Name) : VM × List String :=
      let g := tables.getD ev.1 []
      let r := vmEval mods back acc.1 g ev.2.1 ev.2.2.1 ev.2.2.2
      let spec := access ⟨g, mods, back⟩ ev.2.1 ev.2.2.1 ev.2.2.2
      (r.1, acc.2 ++ [showOpt r.2 ++ ":" ++ showOpt spec])
    "ok\t" ++ joinOr (evals.foldl step (VM.empty, [])).2
  | _, _, _, _ => "error\tbad-vmseq-request"

def parseHOpt (s : String) : Option HOpt :=
  match s.splitOn ";" with
  | ["G", h] => h.toNat?.map .globalsMap
  | _ => (parseOpt s).map .opt

def parseBuild (heap : List (Id × Table)) (adopt : Bool) (s : String) : Option Build :=
  match s.splitOn "~" with
  | [opts, dflt, rev] => do
    let opts ← (items opts).mapM parseHOpt
    let dflt ← parseTable dflt
    -- the iteration orders of the denylist / overrides maps: as the options left them, or reversed
    let c := (opts.foldl (applyHOpt adopt) ⟨heap, none, Cfg.empty⟩).c
    let ds := if rev == "1" then c.denylist.reverse else c.denylist
    let os := if rev == "1" then c.overrides.reverse else c.overrides
    pure ⟨opts, dflt, [], [], ds, os⟩
  | _ => none

def handleHostSeq (adopt heap mods back builds : String) : String :=
  let ad := adopt == "1"
  match parseMods heap, parseMods mods, parseBack back with
  | some heap, some mods, some back =>
    -- a build's denylist/override orders are read off the fold over the heap AS IT IS THEN
    let step (acc : World × List (Build × Built × List (Id × Table)) × Bool) (b : String) :=
      match parseBuild acc.1.heap ad b with
      | some bd =>
        let r := build ad acc.1 bd
        (r.1, acc.2.1 ++ [(bd, r.2, r.1.heap)], acc.2.2)
      | none => (acc.1, acc.2.1, false)
    let fin := (builds.splitOn "/").foldl step (⟨heap, mods, back⟩, [], true)
    if !fin.2.2 then "error\tbad-hostseq-build" else
    let outs := fin.2.1.map fun x =>
      showTable (x.2.1.visible x.2.2) ++ "~" ++ showTable (ownGlobals heap x.1) ++ "~" ++
        showTable (x.2.1.visible fin.1.heap) ++ "~" ++ showMods x.2.2
    "ok\t" ++ "/".intercalate outs ++ "\t" ++ showMods fin.1.heap ++ "\t" ++ showMods fin.1.mods
  | _, _, _ => "error\tbad-hostseq-request"

def showBack (b : List (Id × Id)) : String :=
  joinOr (b.map fun e => toString e.1 ++ "=" ++ toString e.2)

def parseBuildO (s : String) : Option Build :=
  match s.splitOn "~" with
  | [opts, dflt, nm, nb, rev] => do
    let opts ← (items opts).mapM parseHOpt
    let dflt ← parseTable dflt
    let nm ← parseMods nm
    let nb ← parseBack nb
    let c := (opts.foldl (applyHOpt false) ⟨[], none, Cfg.empty⟩).c
    let ds := if rev == "1" then c.denylist.reverse else c.denylist
    let os := if rev == "1" then c.overrides.reverse else c.overrides
    pure ⟨opts, dflt, nm, nb, ds, os⟩
  | _ => none

def parseStagedEvals (s : String) : Option (List (Nat × Nat × Bool × Name × List Name)) :=
  (items s).mapM fun it =>
    match it.splitOn "~" with
    | [st, k, a] => do
      let st ← st.toNat?
      let k ← k.toNat?
      match ← parseAccesses a with
      | [acc] => pure (st, k, acc)
      | _ => none
    | _ => none

def handleObjSeq (adopt mods back builds evals : String) : String :=
  match parseMods mods, parseBack back, (builds.splitOn "/").mapM parseBuildO, parseStagedEvals evals with
  | some mods, some back, some bs, some evs =>
    let ad := adopt == "1"
    let w0 : World := ⟨[], mods, back⟩
    let r := (runBuildsO ad w0 bs).2
    let alones := bs.map (buildO ad w0)
    let outs := r.map fun bw =>
      showTable bw.1.own ++ "~" ++ showBack bw.2.back ++ "~" ++ showMods bw.2.mods
    let ev := evs.map fun e =>
      match r[e.2.1]?, r[e.1]?, alones[e.2.1]? with
      | some kb, some sb, some al =>
        let a := e.2.2
        showOpt (accessIn sb.2 kb.1.own a.1 a.2.1 a.2.2) ++ ":" ++
          showOpt (accessIn kb.2 kb.1.own a.1 a.2.1 a.2.2) ++ ":" ++
          showOpt (accessIn al.1 al.2.own a.1 a.2.1 a.2.2)
      | _, _, _ => "e"
    "ok\t" ++ "/".intercalate outs ++ "\t" ++ joinOr ev
  | _, _, _, _ => "error\tbad-objseq-request"

def handle : List String → String
  | ["universe"] => joinOr (Risor.Generated.C11.attrUniverse.map fun n => showName (strBytes n))
  | ["facts"] =>
    "init=" ++ ">".intercalate Risor.Generated.C11.initOrder ++
    "\tresolveInRoot=" ++ bit Risor.Generated.C11.resolveLooksUpInRoot ++
    "\tdottedKeys=" ++ toString Risor.Generated.C11.dottedMemberKeys.length
  | ["reach", edges, roots, targets] =>
    match parseEdges edges, parseIds roots, parseIds targets with
    | some g, some r, some ts =>
      let vis := reach g r
      "ok\t" ++ (if ts.isEmpty then "-" else String.join (ts.map fun t => bit (vis.contains t)))
    | _, _, _ => "error\tbad-reach-request"
  | ["config", without, host, dflt, mods, back, denies, ovs, accs] =>
    handleConfig without host dflt mods back denies ovs accs
  | ["optcfg", dflt, mods, back, opts, rev, accs] => handleOptCfg dflt mods back opts rev accs
  | ["optspec", opts, bs] => handleOptSpec opts bs
  | ["vmseq", mods, back, tables, evals] => handleVmSeq mods back tables evals
  | ["hostseq", adopt, heap, mods, back, builds] => handleHostSeq adopt heap mods back builds
  | ["objseq", adopt, mods, back, builds, evals] => handleObjSeq adopt mods back builds evals
  | ["shared", a, b, ex] =>
    match parseIds a, parseIds b, parseIds ex with
    | some a, some b, some ex => "ok\t" ++ joinOr ((sharedIds a b ex).map toString)
    | _, _, _ => "error\tbad-shared-request"
  | _ => "error\tunknown-request"

end Risor.C11
