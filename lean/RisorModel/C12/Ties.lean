import RisorModel.C12.Model
import RisorModel.C12.Virtual
import RisorModel.Generated.C12
/-!
C12 ties: what the extractor read from `/repo` on this run equals the reviewed tables and facts
the theorems in `Props.lean` are stated over.
-/
namespace Risor.C12

/-- `getOS` precedence, `initContext`, the entry points, `Clone`, `cloneCallAsync`, `cloneCallSync`,
    `importModule`, `GetDefaultOS`, `DynamicAttr.ResolveAttr`, and the way risor's top-level API
    configures an existing machine (`Config.VMOpts` passes `vm.WithOS` only for an OS that was
    given; `Eval`/`EvalCode`/`Call` → `RunCodeOnVM`/`RunCode` → `applyOptions`; `vm.WithOS` assigns
    `vm.os`) are written as reviewed -/
theorem facts_tie : Risor.Generated.C12.facts = codeFacts := by decide

/-- E9: the functions of modules/{os,filepath,fmt}, builtins, object/file*.go that touch an OS, their
    direct uses of OS-touching Go packages and the OS-interface methods they call are as reviewed -/
theorem inventory_tie : Risor.Generated.C12.inventory = reviewedInventory := by decide

/-- every script-visible function or attribute of the os, filepath and fmt modules (`Module()` and
    `Builtins()` tables) is implemented by a Go function that the operation table exercises -/
theorem exports_covered :
    (Risor.Generated.C12.exports.all fun e => allOps.any fun o => o.goFn == e.2) = true := by decide

/-- the functions of os/virtual.go and of the files a `VirtualOS` hands out (nil_file.go, buffer_file.go,
    in_memory_file.go) use exactly the reviewed members of OS-touching Go packages: the constant
    `os.PathSeparator` in two methods and nothing else — in particular `VirtualOS.Exit` uses none -/
theorem virtual_sinks_tie : Risor.Generated.C12.virtualSinks = V.reviewedVSinks := by decide

end Risor.C12
