import RisorModel.C13.Model
/-!
C12, second part — the state of the OS implementation risor itself ships for hosts: `os.VirtualOS`
(os/virtual.go).  Executable model, core Lean only.

The first part (`Model.lean`) shows *which* implementation every call of a script lands on.  What a
host hands to `risor.WithOS` is, in practice, a `VirtualOS`; the property ("the host's implementation
mediates all access") is empty if that implementation answers a call by asking the real process.
This file models the script-visible state of a `VirtualOS` as the code keeps it — the working
directory, the environment, the values given with the `With…` options, the mount table — and what
every script-visible operation answers from it:

* `Chdir` stores its argument **verbatim** (no normalisation, no resolution against anything),
  `Getwd` returns the stored string;
* `filepath.abs` (modules/filepath) is `Clean p` for an absolute `p` and `Join(Getwd(), p)` otherwise;
* every file operation resolves its path arguments with `findMount` (the model of C13:
  `Join(cwd, p)` for a relative path, `Clean`, longest mount on a component boundary) and hands the
  mount's file system the path relative to the mount's target;
* `Setenv`/`Unsetenv`/`Getenv`/`Environ` work on the map given with `WithEnvironment`;
* `TempDir`, `UserHomeDir`, `UserCacheDir`, `UserConfigDir`, `Hostname`, `Getpid`, `Getuid`, `Args`
  return the configured values (the three directory getters fail when nothing was configured);
* users and groups cannot be configured from outside the package (unexported fields), so
  `CurrentUser`/`Lookup…` fail.

**The model has no parameter that describes the real process** (its working directory, environment,
temp directory, pid, host name, users): `vrun` is a function of the host's configuration and of the
operations alone.  That *is* the Spec of this part — the answers of a `VirtualOS` are determined by
what the host configured and what the script did — and the harness compares the real code with it
in two different states of the real process.
-/
namespace Risor.C12.V
open Risor.C13 (Path cleanStr join2 isAbs findMount)

/-- what the host configured with the options of `NewVirtualOS` -/
structure Cfg where
  cwd : Path
  env : List (Path × Path)
  tmp : Path
  home : Path
  cache : Path
  conf : Path
  hostname : Path
  pid : Nat
  uid : Nat
  args : List Path
  /-- mount targets (keys of the mount table are the targets) -/
  mounts : List Path
  deriving Repr

/-- the mutable part of a `VirtualOS` -/
structure St where
  cwd : Path
  env : List (Path × Path)
  deriving Repr, DecidableEq

def Cfg.init (c : Cfg) : St := { cwd := c.cwd, env := c.env }

/-- the script-visible operations (one constructor per way of using the state) -/
inductive VOp where
  /-- `os.chdir(d)` / `cd(d)` -/
  | chdir (d : Path)
  | getwd
  /-- `filepath.abs(p)` -/
  | abs (p : Path)
  | setenv (k v : Path)
  | unsetenv (k : Path)
  | getenv (k : Path)
  | environ
  | tempDir | homeDir | cacheDir | configDir | hostname | getpid | getuid | args
  /-- `os.current_user()`, `os.lookup_user/uid/group/gid(x)` -/
  | lookup
  /-- a file operation naming these paths (`os.read_file(p)`, `os.rename(p, q)`, `cp(p, q)`, …) -/
  | file (ps : List Path)
  /-- a file operation on the working directory itself (`os.read_dir()`, `ls()`): the path is `Getwd()` -/
  | fileCwd
  /-- `os.mkdir_temp(dir, pattern)` -/
  | mkdirTemp (dir pat : Path)
  /-- an operation whose answer does not depend on the modelled state (`print`, `os.stdout.write`, …) -/
  | opaque
  deriving Repr, DecidableEq

/-- what the script observes -/
inductive Out where
  | nil
  | str (s : Path)
  | int (n : Nat)
  | strs (l : List Path)
  | env (l : List (Path × Path))
  /-- the operation fails -/
  | err
  /-- for each path argument: the mount (target) chosen and the path handed to its file system,
      or `none` when no mount serves the path; the script-visible result depends on the content of
      the host's file system, which is not modelled -/
  | paths (l : List (Option (Path × Path)))
  /-- a directory `<random>-pat` is created at the top of the file system mounted for `tmp`
      (`target`), and `Join(tmp, <random>-pat)` is returned -/
  | temp (target tmp pat : Path)
  /-- not modelled -/
  | any
  deriving Repr, DecidableEq

def envSet (e : List (Path × Path)) (k v : Path) : List (Path × Path) :=
  (k, v) :: e.filter (fun x => x.1 != k)

def envDel (e : List (Path × Path)) (k : Path) : List (Path × Path) :=
  e.filter (fun x => x.1 != k)

def envGet (e : List (Path × Path)) (k : Path) : Path :=
  match e.find? (fun x => x.1 == k) with
  | some x => x.2
  | none => []

/-- model of `filepath.Abs` of modules/filepath under a `VirtualOS` whose `Getwd` returns `cwd` -/
def absPath (cwd p : Path) : Path :=
  if isAbs p then cleanStr p else join2 cwd p

def dirOrErr (d : Path) : Out := if d.isEmpty then .err else .str d

/-- the state after an operation -/
def next (s : St) : VOp → St
  | .chdir d => { s with cwd := d }
  | .setenv k v => { s with env := envSet s.env k v }
  | .unsetenv k => { s with env := envDel s.env k }
  | _ => s

/-- what an operation answers in state `s` -/
def out (c : Cfg) (s : St) : VOp → Out
  | .chdir _ | .setenv _ _ | .unsetenv _ => .nil
  | .getwd => .str s.cwd
  | .abs p => .str (absPath s.cwd p)
  | .getenv k => .str (envGet s.env k)
  | .environ => .env s.env
  | .tempDir => .str c.tmp
  | .homeDir => dirOrErr c.home
  | .cacheDir => dirOrErr c.cache
  | .configDir => dirOrErr c.conf
  | .hostname => .str c.hostname
  | .getpid => .int c.pid
  | .getuid => .int c.uid
  | .args => .strs c.args
  | .lookup => .err
  | .file ps => .paths (ps.map (findMount c.mounts s.cwd))
  | .fileCwd => .paths [findMount c.mounts s.cwd s.cwd]
  | .mkdirTemp dir pat =>
    if !dir.isEmpty then .err
    else if c.tmp.isEmpty then .err
    else match findMount c.mounts s.cwd c.tmp with
      | some m => .temp m.1 c.tmp pat
      | none => .err
  | .opaque => .any

/-- the state after a sequence of operations -/
def stAfter (s : St) : List VOp → St
  | [] => s
  | o :: os => stAfter (next s o) os

/-- **Impl**: the answers of a sequence of operations, as a state machine -/
def runFrom (c : Cfg) (s : St) : List VOp → List Out
  | [] => []
  | o :: os => out c s o :: runFrom c (next s o) os

def vrun (c : Cfg) (ops : List VOp) : List Out := runFrom c c.init ops

/-! ## Spec: the same answers, read off the history of the script's own operations -/

/-- the working directory is the argument of the script's last `chdir`, and the configured one
    before the first -/
def cwdOf (cwd0 : Path) : List VOp → Path
  | [] => cwd0
  | .chdir d :: os => cwdOf d os
  | _ :: os => cwdOf cwd0 os

/-- the value of variable `k` is what the script's last `setenv k`/`unsetenv k` left, and the
    configured one before the first -/
def varOf (v0 : Path) (k : Path) : List VOp → Path
  | [] => v0
  | .setenv k' v :: os => if k' = k then varOf v k os else varOf v0 k os
  | .unsetenv k' :: os => if k' = k then varOf [] k os else varOf v0 k os
  | _ :: os => varOf v0 k os

end Risor.C12.V
