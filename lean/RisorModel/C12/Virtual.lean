import RisorModel.C13.Model
/-!
C12, second part — the state of the OS implementation risor itself ships for hosts: `os.VirtualOS`
(os/virtual.go).  Executable model, core Lean only.

The first part (`Model.lean`) shows *which* implementation every call of a script lands on.  What a
host hands to `risor.WithOS` is, in practice, a `VirtualOS`; the property ("the host's implementation
mediates all access") is empty if that implementation answers a call by asking the real process.
This file models the script-visible state of a `VirtualOS` as the code keeps it — the working
directory, the environment, the values given with the `With…` options, the mount table — and what
every script-visible operation answers from it:

* `Chdir` stores its argument **verbatim** (no normalisation, no resolution against anything),
  `Getwd` returns the stored string;
* `filepath.abs` (modules/filepath) is `Clean p` for an absolute `p` and `Join(Getwd(), p)` otherwise;
* every file operation resolves its path arguments with `findMount` (the model of C13:
  `Join(cwd, p)` for a relative path, `Clean`, longest mount on a component boundary) and hands the
  mount's file system the path relative to the mount's target;
* `Setenv`/`Unsetenv`/`Getenv`/`Environ` work on the map given with `WithEnvironment`;
* `TempDir`, `UserHomeDir`, `UserCacheDir`, `UserConfigDir`, `Hostname`, `Getpid`, `Getuid`, `Args`
  return the configured values (the three directory getters fail when nothing was configured);
* users and groups cannot be configured from outside the package (unexported fields), so
  `CurrentUser`/`Lookup…` fail — except for the zero `VirtualUser`/`VirtualGroup` a host can still
  allocate (`WithCurrentUser(&VirtualUser{})`): every field of it is the empty string and it is found
  under the empty name and id only;
* `Exit(code)` calls the function given with `WithExitHandler` if there is one and otherwise does
  **nothing**: the exit is absorbed by the virtual OS.  What the script sees is decided by
  `modules/os.Exit`: `os.exit()` and `os.exit(0)` return nil and the script goes on; `os.exit(n)`
  with `n ≠ 0` and `os.exit(err)` (code 1) end the script with a fatal evaluation error *after* the
  `Exit` call; a wrong argument type is an ordinary (catchable) type error and more than one
  argument a fatal arguments error, both without any `Exit` call;
* `Stdin`/`Stdout`/`Stderr` are the files given with `WithStdin`/`WithStdout`/`WithStderr`; without
  them a `NilFile` (reads as empty, swallows writes).

The only way a method of `VirtualOS` could reach the real process is a use of an OS-touching member
of a Go package inside `os/virtual.go` (and the files of the objects it hands out); the extractor
lists those uses on every run (`VSinks`) and the process-level part of the model is parameterised
by that table: `Exit` terminates the real process exactly if the table says its body can.

**The model has no parameter that describes the real process** (its working directory, environment,
temp directory, pid, host name, users): `vrun` is a function of the host's configuration and of the
operations alone.  That *is* the Spec of this part — the answers of a `VirtualOS` are determined by
what the host configured and what the script did — and the harness compares the real code with it
in two different states of the real process.
-/
namespace Risor.C12.V
open Risor.C13 (Path cleanStr join2 isAbs findMount)

/-- what the host configured with the options of `NewVirtualOS` -/
structure Cfg where
  cwd : Path
  env : List (Path × Path)
  tmp : Path
  home : Path
  cache : Path
  conf : Path
  hostname : Path
  pid : Nat
  uid : Nat
  args : List Path
  /-- mount targets (keys of the mount table are the targets) -/
  mounts : List Path
  /-- `WithExitHandler` was given (the default is none) -/
  exitHandler : Bool := false
  /-- content of the file given with `WithStdin` (a `NilFile`, which reads as empty, without it) -/
  stdin : Path := []
  /-- `WithStdout` / `WithStderr` were given (a `NilFile`, which swallows writes, without them) -/
  stdout : Bool := false
  stderr : Bool := false
  /-- `WithCurrentUser(&VirtualUser{})` / `WithGroup(&VirtualGroup{})`: the zero user / group -/
  user : Bool := false
  group : Bool := false
  deriving Repr

/-- the mutable part of a `VirtualOS` -/
structure St where
  cwd : Path
  env : List (Path × Path)
  /-- what is left to read of the stdin file the `VirtualOS` holds -/
  stdin : Path := []
  /-- everything the script wrote to the stdout / stderr file the `VirtualOS` holds -/
  out : Path := []
  err : Path := []
  /-- the codes of all calls of `VirtualOS.Exit`, oldest first -/
  exits : List Int := []
  deriving Repr, DecidableEq

def Cfg.init (c : Cfg) : St := { cwd := c.cwd, env := c.env, stdin := c.stdin }

/-- the argument forms of `os.exit` -/
inductive ExitArg where
  /-- `os.exit()` -/
  | none
  /-- `os.exit(n)` -/
  | code (n : Int)
  /-- `os.exit(err)` for an error value -/
  | err
  /-- `os.exit(x)` for any other type -/
  | badType
  /-- `os.exit(x, y, …)` -/
  | tooMany
  deriving Repr, DecidableEq

/-- the code `modules/os.Exit` passes to the OS, if it calls `Exit` at all -/
def ExitArg.call : ExitArg → Option Int
  | .none => some 0
  | .code n => some n
  | .err => some 1
  | .badType => Option.none
  | .tooMany => Option.none

/-- the script ends at this call with a fatal error (`try` does not catch it) -/
def ExitArg.aborts : ExitArg → Bool
  | .none => false
  | .code n => n != 0
  | .err => true
  | .badType => false
  | .tooMany => true

/-- the script-visible operations (one constructor per way of using the state) -/
inductive VOp where
  /-- `os.chdir(d)` / `cd(d)` -/
  | chdir (d : Path)
  | getwd
  /-- `filepath.abs(p)` -/
  | abs (p : Path)
  | setenv (k v : Path)
  | unsetenv (k : Path)
  | getenv (k : Path)
  | environ
  | tempDir | homeDir | cacheDir | configDir | hostname | getpid | getuid | args
  /-- `os.current_user()`, `os.lookup_user/uid/group/gid(x)` -/
  | lookup
  /-- a file operation naming these paths (`os.read_file(p)`, `os.rename(p, q)`, `cp(p, q)`, …) -/
  | file (ps : List Path)
  /-- a file operation on the working directory itself (`os.read_dir()`, `ls()`): the path is `Getwd()` -/
  | fileCwd
  /-- `os.mkdir_temp(dir, pattern)` -/
  | mkdirTemp (dir pat : Path)
  /-- an operation whose answer does not depend on the modelled state (`print`, `os.stdout.write`, …) -/
  | opaque
  /-- `os.exit(…)` -/
  | exit (a : ExitArg)
  /-- `string(os.stdin.read())` -/
  | stdinRead
  /-- `os.stdout.write(t)` / `os.stderr.write(t)` -/
  | stdoutWrite (t : Path)
  | stderrWrite (t : Path)
  /-- `print(…)`/`printf(…)` producing the text `t` (newline included) -/
  | print (t : Path)
  /-- `os.current_user().home_dir` -/
  | currentUser
  /-- `os.lookup_user(x).home_dir` / `os.lookup_uid(x).username` -/
  | lookupUser (x : Path)
  /-- `os.lookup_group(x).gid` / `os.lookup_gid(x).name` -/
  | lookupGroup (x : Path)
  deriving Repr, DecidableEq

/-- what the script observes -/
inductive Out where
  | nil
  | str (s : Path)
  | int (n : Nat)
  | strs (l : List Path)
  | env (l : List (Path × Path))
  /-- the operation fails -/
  | err
  /-- for each path argument: the mount (target) chosen and the path handed to its file system,
      or `none` when no mount serves the path; the script-visible result depends on the content of
      the host's file system, which is not modelled -/
  | paths (l : List (Option (Path × Path)))
  /-- a directory `<random>-pat` is created at the top of the file system mounted for `tmp`
      (`target`), and `Join(tmp, <random>-pat)` is returned -/
  | temp (target tmp pat : Path)
  /-- not modelled -/
  | any
  /-- the script ends here with a fatal evaluation error; nothing after this operation runs -/
  | abort
  deriving Repr, DecidableEq

def envSet (e : List (Path × Path)) (k v : Path) : List (Path × Path) :=
  (k, v) :: e.filter (fun x => x.1 != k)

def envDel (e : List (Path × Path)) (k : Path) : List (Path × Path) :=
  e.filter (fun x => x.1 != k)

def envGet (e : List (Path × Path)) (k : Path) : Path :=
  match e.find? (fun x => x.1 == k) with
  | some x => x.2
  | none => []

/-- model of `filepath.Abs` of modules/filepath under a `VirtualOS` whose `Getwd` returns `cwd` -/
def absPath (cwd p : Path) : Path :=
  if isAbs p then cleanStr p else join2 cwd p

def dirOrErr (d : Path) : Out := if d.isEmpty then .err else .str d

/-- the state after an operation -/
def next (s : St) : VOp → St
  | .chdir d => { s with cwd := d }
  | .setenv k v => { s with env := envSet s.env k v }
  | .unsetenv k => { s with env := envDel s.env k }
  | .exit a => { s with exits := s.exits ++ a.call.toList }
  | .stdinRead => { s with stdin := [] }
  | .stdoutWrite t => { s with out := s.out ++ t }
  | .stderrWrite t => { s with err := s.err ++ t }
  | .print t => { s with out := s.out ++ t }
  | _ => s

/-- what an operation answers in state `s` -/
def out (c : Cfg) (s : St) : VOp → Out
  | .chdir _ | .setenv _ _ | .unsetenv _ => .nil
  | .getwd => .str s.cwd
  | .abs p => .str (absPath s.cwd p)
  | .getenv k => .str (envGet s.env k)
  | .environ => .env s.env
  | .tempDir => .str c.tmp
  | .homeDir => dirOrErr c.home
  | .cacheDir => dirOrErr c.cache
  | .configDir => dirOrErr c.conf
  | .hostname => .str c.hostname
  | .getpid => .int c.pid
  | .getuid => .int c.uid
  | .args => .strs c.args
  | .lookup => .err
  | .file ps => .paths (ps.map (findMount c.mounts s.cwd))
  | .fileCwd => .paths [findMount c.mounts s.cwd s.cwd]
  | .mkdirTemp dir pat =>
    if !dir.isEmpty then .err
    else if c.tmp.isEmpty then .err
    else match findMount c.mounts s.cwd c.tmp with
      | some m => .temp m.1 c.tmp pat
      | none => .err
  | .opaque => .any
  | .exit a => if a.aborts then .abort else if a.call.isSome then .nil else .err
  | .stdinRead => .str s.stdin
  | .stdoutWrite t => .int t.length
  | .stderrWrite t => .int t.length
  | .print _ => .nil
  | .currentUser => if c.user then .str [] else .err
  | .lookupUser x => if c.user && x.isEmpty then .str [] else .err
  | .lookupGroup x => if c.group && x.isEmpty then .str [] else .err

/-- the state after a sequence of operations -/
def stAfter (s : St) : List VOp → St
  | [] => s
  | o :: os => stAfter (next s o) os

/-- **Impl**: the answers of a sequence of operations, as a state machine -/
def runFrom (c : Cfg) (s : St) : List VOp → List Out
  | [] => []
  | o :: os => out c s o :: runFrom c (next s o) os

def vrun (c : Cfg) (ops : List VOp) : List Out := runFrom c c.init ops

/-! ## Spec: the same answers, read off the history of the script's own operations -/

/-- the working directory is the argument of the script's last `chdir`, and the configured one
    before the first -/
def cwdOf (cwd0 : Path) : List VOp → Path
  | [] => cwd0
  | .chdir d :: os => cwdOf d os
  | _ :: os => cwdOf cwd0 os

/-- the value of variable `k` is what the script's last `setenv k`/`unsetenv k` left, and the
    configured one before the first -/
def varOf (v0 : Path) (k : Path) : List VOp → Path
  | [] => v0
  | .setenv k' v :: os => if k' = k then varOf v k os else varOf v0 k os
  | .unsetenv k' :: os => if k' = k then varOf [] k os else varOf v0 k os
  | _ :: os => varOf v0 k os

/-! ## Process level: where a script ends, what the host and the real process see -/

def VOp.aborts : VOp → Bool
  | .exit a => a.aborts
  | _ => false

/-- the operations of a script that are executed: everything up to and including the first one that
    ends the script -/
def live : List VOp → List VOp
  | [] => []
  | o :: os => if o.aborts then [o] else o :: live os

/-- **Impl**: the answers the script gets (the last one is `.abort` if it ended early) -/
def vscript (c : Cfg) (ops : List VOp) : List Out := vrun c (live ops)

/-- uses of OS-touching members of Go packages (`os`, `os/user`, `syscall`, …) in the bodies of the
    functions of `os/virtual.go`, `os/nil_file.go`, `os/buffer_file.go`, `os/in_memory_file.go`:
    (function, members); functions without any are not listed -/
abbrev VSinks := List (String × List String)

/-- members that are plain constants -/
def vAllow : List String := ["os.PathSeparator", "os.PathListSeparator"]

def sinkClean (e : String × List String) : Bool := e.2.all (fun m => vAllow.contains m)

/-- the table as reviewed at the pinned commit; `Ties.lean` proves that the one regenerated from the
    source on this run is equal to it -/
def reviewedVSinks : VSinks :=
  [("VirtualOS.PathListSeparator", ["os.PathSeparator"]), ("VirtualOS.PathSeparator", ["os.PathSeparator"])]

/-- the body of method `fn` can reach the real process -/
def reachesReal (t : VSinks) (fn : String) : Bool := t.any (fun e => e.1 == fn && !sinkClean e)

/-- what the host and the real process have seen when the script is over -/
structure Host where
  /-- the calls of the host's exit handler -/
  handled : List Int
  /-- content of the host's stdout / stderr files -/
  stdout : Path
  stderr : Path
  /-- the codes with which `VirtualOS.Exit` asked the **real** process to terminate -/
  realExit : List Int
  deriving Repr, DecidableEq

/-- **Impl**: `Exit` hands the code to the handler if one is configured; it reaches the real process
    exactly if its body, as listed in `t`, uses a real-OS sink -/
def hostView (t : VSinks) (c : Cfg) (ops : List VOp) : Host :=
  let s := stAfter c.init (live ops)
  { handled := if c.exitHandler then s.exits else [],
    stdout := if c.stdout then s.out else [],
    stderr := if c.stderr then s.err else [],
    realExit := if reachesReal t "VirtualOS.Exit" then s.exits else [] }

/-! ### Spec, read off the script -/

/-- the codes of the `Exit` calls a script makes -/
def exitCodes : List VOp → List Int
  | [] => []
  | .exit a :: os => a.call.toList ++ exitCodes os
  | _ :: os => exitCodes os

/-- what a script writes to stdout -/
def outText : List VOp → Path
  | [] => []
  | .stdoutWrite t :: os => t ++ outText os
  | .print t :: os => t ++ outText os
  | _ :: os => outText os

/-- what a script writes to stderr -/
def errText : List VOp → Path
  | [] => []
  | .stderrWrite t :: os => t ++ errText os
  | _ :: os => errText os

end Risor.C12.V
