import RisorModel.Util
import RisorModel.C12.Model
import RisorModel.C12.Virtual
import RisorModel.Generated.C12
/-!
Line-protocol front end of the C12 model (requests after the leading `C12` field).

  hist <events> <path> <op>   events: comma-separated `N:<o>` `R:<c>` `C:<c>` `K` `U` `O:<o>:<c>`
                              `E:<o>:<c>` (risor.EvalCode/Eval + WithVM, WithOS(o) unless `-`),
                              `L:<o>:<c>` (risor.Call + WithVM: top-level code, then entry()),
                              `F:<c>` (the host fires entry() through the kept clone-call function
                              with a context of its own that carries `<c>`)
                              (`<o>`,`<c>`: `-` or a letter A.. naming a host OS object);
                              path: `-` or letters, outermost first: c b t d (call), s g m (spawn),
                              k (clone-call), i (import + call of a module function), I (module body)
      reply: one TAB-separated field per executing event: `<trace>#<acc>#<gfOK>#<specOK>#<stale>`
             (`stale`: the guard `staleStd` of the known finding C12-std-stream-attr-cached),
             trace = observations joined by `|` (`A:Getenv($0)`, `R:…` real OS, `!sink` direct)
  ops                         the operation table: `name=goFn=ncalls` joined by `,`
  vsess <cwd> <env> <tmp> <home> <cache> <config> <host> <pid> <uid> <args> <mounts> <steps>
                              a session of script operations under a `VirtualOS` configured that way
                              (`Virtual.lean`); strings hex, lists joined by `,`, env entries `k=v`,
                              steps joined by `;`, each `name` or `name:arg` or `name:arg:arg`
      reply: one TAB-separated field per step: `n` nil, `s<hex>` string, `i<n>` int, `l<hex,…>` list,
             `e<k=v,…>` environment (any order), `E` error, `*` not modelled,
             `p<item,…>` per path argument `!` (no mount) or `<target>:<path handed to its file system>`,
             `t<target>:<tmp>:<pattern>` temporary directory

  vproc <cwd> <env> <tmp> <home> <cache> <config> <host> <pid> <uid> <args> <mounts> <flags> <stdin> <steps>
                              a script under a `VirtualOS` with process-level options: flags = letters
                              `h` exit handler, `o` stdout, `e` stderr, `u` zero user, `g` zero group (or `-`);
                              stdin hex; further steps `exit:none|c<int>|err|bad|many`, `stdinread`,
                              `outw:<hex>`, `errw:<hex>`, `print:<hex>`, `curuser`, `luser:<hex>`, `lgroup:<hex>`
      reply: one field per step as for `vsess` (`A` the script ends here, `~` not executed), then
             `H<handler codes,>;<stdout hex>;<stderr hex>;<real exit codes,>` (`-` for an empty list)

The model runs on the inventory and facts regenerated from the source on this run
(`Generated.C12`), which `Ties.lean` proves equal to the reviewed ones the theorems are about.
-/
namespace Risor.C12
open Risor.Util

def osLetter (n : Nat) : String := String.singleton (Char.ofNat (65 + n))

def showOS : OSId → String
  | .real => "R"
  | .host n => osLetter n

def parseOS (s : String) : Option (Option OSId) :=
  match s.toList with
  | ['-'] => some none
  | [c] => if 65 ≤ c.toNat ∧ c.toNat ≤ 90 then some (some (.host (c.toNat - 65))) else none
  | _ => none

def showCall (c : Call) : String :=
  if c.m == .fRead then "F.Read*" else c.m.name ++ "(" ++ ",".intercalate c.args ++ ")"

def showObs : Obs → String
  | .via o c => showOS o ++ ":" ++ showCall c
  | .direct s => "!" ++ s

def showTrace (t : List Obs) : String :=
  if t.isEmpty then "-" else "|".intercalate (t.map showObs)

def showAcc (a : List OSId) : String :=
  if a.isEmpty then "-" else String.join (a.map showOS)

def parseEv (s : String) : Option Ev :=
  match s.splitOn ":" with
  | ["N", o] => (parseOS o).map Ev.new
  | ["R", c] => (parseOS c).map Ev.run
  | ["C", c] => (parseOS c).map Ev.call
  | ["K"] => some .clone
  | ["U"] => some .root
  | ["O", o, c] =>
    match parseOS o, parseOS c with
    | some (some o), some c => some (.runWith o c)
    | _, _ => none
  | ["E", o, c] =>
    match parseOS o, parseOS c with
    | some o, some c => some (.evalWith o c)
    | _, _ => none
  | ["L", o, c] =>
    match parseOS o, parseOS c with
    | some o, some c => some (.apiCall o c)
    | _, _ => none
  | ["F", c] => (parseOS c).map Ev.callback
  | _ => none

def wrap1 (ch : Char) (p : Prog) : Option Prog :=
  match ch with
  | 'c' | 'b' | 't' | 'd' => some (.call p)
  | 's' | 'g' | 'm' => some (.spawn p)
  | 'k' => some (.cloneCall p)
  | 'i' => some (.seq (.imp .skip) (.call p))
  | 'I' => some (.imp p)
  | _ => none

def wrapPath : List Char → Prog → Option Prog
  | [], p => some p
  | ch :: rest, p => (wrapPath rest p).bind (wrap1 ch)

def parsePath (s : String) (p : Prog) : Option Prog :=
  if s = "-" then some p else wrapPath s.toList p

def opOfName (s : String) : Option Op := allOps.find? (fun o => o.name == s)

/-! ### the `VirtualOS` session model -/

def hexList (s : String) : Option (List (List Nat)) :=
  if s = "-" then some [] else (s.splitOn ",").mapM fromHex

def hexEnv (s : String) : Option (List (List Nat × List Nat)) :=
  if s = "-" then some [] else (s.splitOn ",").mapM fun kv =>
    match kv.splitOn "=" with
    | [k, v] => do
      let k ← fromHex k
      let v ← fromHex v
      pure (k, v)
    | _ => none

def parseVOp (s : String) : Option V.VOp :=
  match s.splitOn ":" with
  | ["chdir", d] => (fromHex d).map V.VOp.chdir
  | ["getwd"] => some .getwd
  | ["abs", p] => (fromHex p).map V.VOp.abs
  | ["setenv", k, v] => do
    let k ← fromHex k
    let v ← fromHex v
    pure (.setenv k v)
  | ["unsetenv", k] => (fromHex k).map V.VOp.unsetenv
  | ["getenv", k] => (fromHex k).map V.VOp.getenv
  | ["environ"] => some .environ
  | ["tempdir"] => some .tempDir
  | ["homedir"] => some .homeDir
  | ["cachedir"] => some .cacheDir
  | ["configdir"] => some .configDir
  | ["hostname"] => some .hostname
  | ["getpid"] => some .getpid
  | ["getuid"] => some .getuid
  | ["args"] => some .args
  | ["lookup"] => some .lookup
  | ["file", p] => (fromHex p).map fun p => V.VOp.file [p]
  | ["file", p, q] => do
    let p ← fromHex p
    let q ← fromHex q
    pure (.file [p, q])
  | ["filecwd"] => some .fileCwd
  | ["mkdirtemp", d, p] => do
    let d ← fromHex d
    let p ← fromHex p
    pure (.mkdirTemp d p)
  | ["opaque"] => some .opaque
  | ["exit", "none"] => some (.exit .none)
  | ["exit", "err"] => some (.exit .err)
  | ["exit", "bad"] => some (.exit .badType)
  | ["exit", "many"] => some (.exit .tooMany)
  | ["exit", n] => if n.startsWith "c" then (n.drop 1).toInt?.map fun i => V.VOp.exit (.code i) else none
  | ["stdinread"] => some .stdinRead
  | ["outw", t] => (fromHex t).map V.VOp.stdoutWrite
  | ["errw", t] => (fromHex t).map V.VOp.stderrWrite
  | ["print", t] => (fromHex t).map V.VOp.print
  | ["curuser"] => some .currentUser
  | ["luser", x] => (fromHex x).map V.VOp.lookupUser
  | ["lgroup", x] => (fromHex x).map V.VOp.lookupGroup
  | _ => none

def showVOut : V.Out → String
  | .nil => "n"
  | .str s => "s" ++ toHexField s
  | .int n => "i" ++ toString n
  | .strs l => "l" ++ ",".intercalate (l.map toHexField)
  | .env l => "e" ++ ",".intercalate (l.map fun kv => toHexField kv.1 ++ "=" ++ toHexField kv.2)
  | .err => "E"
  | .paths l => "p" ++ ",".intercalate (l.map fun
      | none => "!"
      | some m => toHexField m.1 ++ ":" ++ toHexField m.2)
  | .temp t tmp pat => "t" ++ toHexField t ++ ":" ++ toHexField tmp ++ ":" ++ toHexField pat
  | .any => "*"
  | .abort => "A"

def handleVSess : List String → String
  | [cwd, env, tmp, home, cache, confd, host, pid, uid, args, mounts, steps] =>
    match fromHex cwd, hexEnv env, fromHex tmp, fromHex home, fromHex cache, fromHex confd,
        fromHex host, pid.toNat?, uid.toNat?, hexList args, hexList mounts,
        (steps.splitOn ";").mapM parseVOp with
    | some cwd, some env, some tmp, some home, some cache, some confd, some host, some pid, some uid,
        some args, some mounts, some ops =>
      let c : V.Cfg := ⟨cwd, env, tmp, home, cache, confd, host, pid, uid, args, mounts,
        false, [], false, false, false, false⟩
      "\t".intercalate ((V.vrun c ops).map showVOut)
    | _, _, _, _, _, _, _, _, _, _, _, _ => "error\tbad-request"
  | _ => "error\tbad-request"

def showInts (l : List Int) : String :=
  if l.isEmpty then "-" else ",".intercalate (l.map toString)

def handleVProc : List String → String
  | [cwd, env, tmp, home, cache, confd, host, pid, uid, args, mounts, flags, stdin, steps] =>
    match fromHex cwd, hexEnv env, fromHex tmp, fromHex home, fromHex cache, fromHex confd,
        fromHex host, pid.toNat?, uid.toNat?, hexList args, hexList mounts, fromHex stdin,
        (steps.splitOn ";").mapM parseVOp with
    | some cwd, some env, some tmp, some home, some cache, some confd, some host, some pid, some uid,
        some args, some mounts, some stdin, some ops =>
      let has (ch : Char) : Bool := flags.toList.contains ch
      let c : V.Cfg := ⟨cwd, env, tmp, home, cache, confd, host, pid, uid, args, mounts,
        has 'h', stdin, has 'o', has 'e', has 'u', has 'g'⟩
      let ans := (V.vscript c ops).map showVOut
      let pad := List.replicate (ops.length - ans.length) "~"
      let h := V.hostView Risor.Generated.C12.virtualSinks c ops
      "\t".intercalate (ans ++ pad ++
        ["H" ++ showInts h.handled ++ ";" ++ toHexField h.stdout ++ ";" ++ toHexField h.stderr ++ ";" ++
          showInts h.realExit])
    | _, _, _, _, _, _, _, _, _, _, _, _, _ => "error\tbad-request"
  | _ => "error\tbad-request"

def handle : List String → String
  | "vsess" :: rest => handleVSess rest
  | "vproc" :: rest => handleVProc rest
  | ["hist", evs, path, opn] =>
    match (evs.splitOn ",").mapM parseEv, opOfName opn with
    | some evs, some o =>
      match parsePath path (.op o) with
      | some body =>
        let sc : Script := { pre := o.usesGF, body := body }
        let inv := Risor.Generated.C12.inventory
        let F := Risor.Generated.C12.facts
        let traces := runHist inv F sc initState evs
        let caches := cachesBefore inv F sc initState evs
        let specs := specHist sc specInit evs
        let parts := (List.zip (List.zip traces caches) specs).map
          fun (p : (List Obs × Cache) × (List OSId × Bool)) =>
            showTrace p.1.1 ++ "#" ++ showAcc p.2.1 ++ "#" ++ toString p.2.2 ++ "#" ++
              toString (specOK p.2.1 p.2.2 sc.pre p.1.1) ++ "#" ++ toString (staleStd p.2.1 p.1.2 body)
        if parts.isEmpty then "-" else "\t".intercalate parts
      | none => "error\tbad-path"
    | _, _ => "error\tbad-request"
  | ["ops"] =>
    ",".intercalate (allOps.map fun o => o.name ++ "=" ++ o.goFn ++ "=" ++ toString o.calls.length)
  | ["shellops"] =>
    -- the metacharacter operations, each with the ordinary-argument operation it must behave like
    ",".intercalate (shellOps.map fun o => o.name ++ "=" ++ o.plain.name ++ "=" ++
      toString (o.calls == o.plain.calls))
  | _ => "error\tunknown-request"

end Risor.C12
