import RisorModel.Util
import RisorModel.C12.Model
import RisorModel.Generated.C12
/-!
Line-protocol front end of the C12 model (requests after the leading `C12` field).

  hist <events> <path> <op>   events: comma-separated `N:<o>` `R:<c>` `C:<c>` `K` `U` `O:<o>:<c>`
                              (`<o>`,`<c>`: `-` or a letter A.. naming a host OS object);
                              path: `-` or letters, outermost first: c b t d (call), s g m (spawn),
                              k (clone-call), i (import + call of a module function), I (module body)
      reply: one TAB-separated field per executing event: `<trace>#<acc>#<gfOK>#<specOK>#<stale>`
             (`stale`: the guard `staleStd` of the known finding C12-std-stream-attr-cached),
             trace = observations joined by `|` (`A:Getenv($0)`, `R:…` real OS, `!sink` direct)
  ops                         the operation table: `name=goFn=ncalls` joined by `,`

The model runs on the inventory and facts regenerated from the source on this run
(`Generated.C12`), which `Ties.lean` proves equal to the reviewed ones the theorems are about.
-/
namespace Risor.C12
open Risor.Util

def osLetter (n : Nat) : String := String.singleton (Char.ofNat (65 + n))

def showOS : OSId → String
  | .real => "R"
  | .host n => osLetter n

def parseOS (s : String) : Option (Option OSId) :=
  match s.toList with
  | ['-'] => some none
  | [c] => if 65 ≤ c.toNat ∧ c.toNat ≤ 90 then some (some (.host (c.toNat - 65))) else none
  | _ => none

def showCall (c : Call) : String :=
  if c.m == .fRead then "F.Read*" else c.m.name ++ "(" ++ ",".intercalate c.args ++ ")"

def showObs : Obs → String
  | .via o c => showOS o ++ ":" ++ showCall c
  | .direct s => "!" ++ s

def showTrace (t : List Obs) : String :=
  if t.isEmpty then "-" else "|".intercalate (t.map showObs)

def showAcc (a : List OSId) : String :=
  if a.isEmpty then "-" else String.join (a.map showOS)

def parseEv (s : String) : Option Ev :=
  match s.splitOn ":" with
  | ["N", o] => (parseOS o).map Ev.new
  | ["R", c] => (parseOS c).map Ev.run
  | ["C", c] => (parseOS c).map Ev.call
  | ["K"] => some .clone
  | ["U"] => some .root
  | ["O", o, c] =>
    match parseOS o, parseOS c with
    | some (some o), some c => some (.runWith o c)
    | _, _ => none
  | _ => none

def wrap1 (ch : Char) (p : Prog) : Option Prog :=
  match ch with
  | 'c' | 'b' | 't' | 'd' => some (.call p)
  | 's' | 'g' | 'm' => some (.spawn p)
  | 'k' => some (.cloneCall p)
  | 'i' => some (.seq (.imp .skip) (.call p))
  | 'I' => some (.imp p)
  | _ => none

def wrapPath : List Char → Prog → Option Prog
  | [], p => some p
  | ch :: rest, p => (wrapPath rest p).bind (wrap1 ch)

def parsePath (s : String) (p : Prog) : Option Prog :=
  if s = "-" then some p else wrapPath s.toList p

def opOfName (s : String) : Option Op := allOps.find? (fun o => o.name == s)

def handle : List String → String
  | ["hist", evs, path, opn] =>
    match (evs.splitOn ",").mapM parseEv, opOfName opn with
    | some evs, some o =>
      match parsePath path (.op o) with
      | some body =>
        let sc : Script := { pre := o.usesGF, body := body }
        let inv := Risor.Generated.C12.inventory
        let F := Risor.Generated.C12.facts
        let traces := runHist inv F sc initState evs
        let caches := cachesBefore inv F sc initState evs
        let specs := specHist sc specInit evs
        let parts := (List.zip (List.zip traces caches) specs).map
          fun (p : (List Obs × Cache) × (List OSId × Bool)) =>
            showTrace p.1.1 ++ "#" ++ showAcc p.2.1 ++ "#" ++ toString p.2.2 ++ "#" ++
              toString (specOK p.2.1 p.2.2 sc.pre p.1.1) ++ "#" ++ toString (staleStd p.2.1 p.1.2 body)
        if parts.isEmpty then "-" else "\t".intercalate parts
      | none => "error\tbad-path"
    | _, _ => "error\tbad-request"
  | ["ops"] =>
    ",".intercalate (allOps.map fun o => o.name ++ "=" ++ o.goFn ++ "=" ++ toString o.calls.length)
  | _ => "error\tunknown-request"

end Risor.C12
