import RisorModel.Util
/-! Line-protocol front end of the C12 model (stub until the model exists). -/
namespace Risor.C12

def handle : List String → String
  | _ => "error\tnot-implemented"

end Risor.C12
