import RisorModel.C12.Virtual
/-!
C12, second part — theorems about the model of `os.VirtualOS` (`Virtual.lean`).

The model has no input that describes the real process, so "the answers do not depend on the real
process" holds of it by construction; what is proved here is *what the answers do depend on*: for
**every** configuration, **every** sequence of script operations of **any** length and **every**
path/key/value string, an answer is determined by the host's configuration and by the script's own
last `chdir` / `setenv` / `unsetenv` — nothing else is remembered, nothing is normalised or made
absolute behind the script's back.  The harness compares the real code with `vrun` on every
generated session, in two different states of the real process.
-/
namespace Risor.C12.V
open Risor.C13 (Path cleanStr join2 isAbs findMount)

/-! ## The state machine keeps exactly the script's last change -/

theorem stAfter_append (s : St) (a b : List VOp) : stAfter s (a ++ b) = stAfter (stAfter s a) b := by
  induction a generalizing s with
  | nil => rfl
  | cons o os ih => exact ih (next s o)

/-- the working directory held after any sequence of operations is the argument of its last `chdir`
    (the initial one if there is none) -/
theorem state_cwd (s : St) (ops : List VOp) : (stAfter s ops).cwd = cwdOf s.cwd ops := by
  induction ops generalizing s with
  | nil => rfl
  | cons o os ih =>
    cases o <;> exact ih _

theorem find_filter_ne (e : List (Path × Path)) (k k' : Path) (h : ¬ k' = k) :
    (e.filter (fun x => x.1 != k')).find? (fun x => x.1 == k) = e.find? (fun x => x.1 == k) := by
  induction e with
  | nil => rfl
  | cons x xs ih =>
    by_cases hx : x.1 = k
    · have hne : (x.1 != k') = true := by
        simp only [bne_iff_ne, ne_eq]; intro h'; exact h (h'.symm.trans hx)
      have heq : (x.1 == k) = true := by simpa using hx
      simp only [List.filter_cons, hne, if_true, List.find?_cons, heq]
    · have hneq : (x.1 == k) = false := by simpa using hx
      by_cases hx' : (x.1 != k') = true
      · simp only [List.filter_cons, hx', if_true, List.find?_cons, hneq]; exact ih
      · have hx'' : (x.1 != k') = false := by simpa using hx'
        simp only [List.filter_cons, hx'', List.find?_cons, hneq]; exact ih

theorem envGet_envSet (e : List (Path × Path)) (k k' v : Path) :
    envGet (envSet e k' v) k = if k' = k then v else envGet e k := by
  unfold envGet envSet
  by_cases h : k' = k
  · simp [h]
  · have hb : (k' == k) = false := by simpa using h
    simp only [List.find?_cons, hb, h, if_false]
    rw [find_filter_ne e k k' h]

theorem envGet_envDel (e : List (Path × Path)) (k k' : Path) :
    envGet (envDel e k') k = if k' = k then [] else envGet e k := by
  unfold envGet envDel
  by_cases h : k' = k
  · subst h
    have : List.find? (fun x => x.1 == k') (List.filter (fun x => x.1 != k') e) = none := by
      rw [List.find?_eq_none]
      intro x hx
      have := (List.mem_filter.mp hx).2
      simpa using this
    simp [this]
  · simp only [h, if_false]
    rw [find_filter_ne e k k' h]

/-- the value of every environment variable after any sequence of operations is what the script's
    last `setenv`/`unsetenv` of that variable left (the initial value if there is none) -/
theorem state_var (s : St) (k : Path) (ops : List VOp) :
    envGet (stAfter s ops).env k = varOf (envGet s.env k) k ops := by
  induction ops generalizing s with
  | nil => rfl
  | cons o os ih =>
    cases o with
    | setenv k' v =>
      show envGet (stAfter (next s (.setenv k' v)) os).env k = _
      rw [ih]
      show varOf (envGet (envSet s.env k' v) k) k os = varOf (envGet s.env k) k (.setenv k' v :: os)
      rw [envGet_envSet]
      show _ = (if k' = k then varOf v k os else varOf (envGet s.env k) k os)
      by_cases h : k' = k <;> simp [h]
    | unsetenv k' =>
      show envGet (stAfter (next s (.unsetenv k')) os).env k = _
      rw [ih]
      show varOf (envGet (envDel s.env k') k) k os = varOf (envGet s.env k) k (.unsetenv k' :: os)
      rw [envGet_envDel]
      show _ = (if k' = k then varOf [] k os else varOf (envGet s.env k) k os)
      by_cases h : k' = k <;> simp [h]
    | _ => exact ih _

theorem runFrom_append (c : Cfg) (s : St) (a b : List VOp) :
    runFrom c s (a ++ b) = runFrom c s a ++ runFrom c (stAfter s a) b := by
  induction a generalizing s with
  | nil => rfl
  | cons o os ih =>
    show out c s o :: runFrom c (next s o) (os ++ b) = _
    rw [ih]; rfl

/-- the answer to the last operation of a session is the answer in the state its predecessors left -/
theorem last_answer (c : Cfg) (pre : List VOp) (o : VOp) :
    (vrun c (pre ++ [o])).getLast? = some (out c (stAfter c.init pre) o) := by
  unfold vrun
  rw [runFrom_append]
  simp [runFrom]

/-! ## What a script observes -/

/-- **V_getwd.**  After any operations, `os.getwd()` returns the argument of the script's last
    `os.chdir`/`cd` exactly as it was given (relative arguments stay relative: nothing is resolved
    against any other directory), and the configured directory if the script never changed it.
    For all configurations, all sessions, all strings. -/
theorem V_getwd (c : Cfg) (pre : List VOp) :
    (vrun c (pre ++ [.getwd])).getLast? = some (.str (cwdOf c.cwd pre)) := by
  rw [last_answer]
  show some (Out.str (stAfter c.init pre).cwd) = _
  rw [state_cwd]; rfl

theorem cwdOf_append_chdir (w : Path) (pre : List VOp) (d : Path) :
    cwdOf w (pre ++ [.chdir d]) = d := by
  induction pre generalizing w with
  | nil => rfl
  | cons o os ih => cases o <;> exact ih _

/-- **V_chdir_verbatim.**  `cd(d); os.getwd()` yields `d`, whatever came before. -/
theorem V_chdir_verbatim (c : Cfg) (pre : List VOp) (d : Path) :
    (vrun c (pre ++ [.chdir d, .getwd])).getLast? = some (.str d) := by
  have h := V_getwd c (pre ++ [.chdir d])
  rw [List.append_assoc] at h
  rw [show [VOp.chdir d] ++ [VOp.getwd] = [.chdir d, .getwd] from rfl] at h
  rw [h, cwdOf_append_chdir]

/-- **V_abs.**  `filepath.abs(p)` is `Clean p` for an absolute `p` and otherwise `Join(w, p)` where
    `w` is the argument of the script's last `chdir` (or the configured directory). -/
theorem V_abs (c : Cfg) (pre : List VOp) (p : Path) :
    (vrun c (pre ++ [.abs p])).getLast? =
      some (.str (if isAbs p then cleanStr p else join2 (cwdOf c.cwd pre) p)) := by
  rw [last_answer]
  show some (Out.str (absPath (stAfter c.init pre).cwd p)) = _
  rw [state_cwd]; rfl

/-- **V_file.**  Every path argument of every file operation is resolved by `findMount` against the
    mount table the host configured and the argument of the script's last `chdir` (or the
    configured directory) — and against nothing else. -/
theorem V_file (c : Cfg) (pre : List VOp) (ps : List Path) :
    (vrun c (pre ++ [.file ps])).getLast? =
      some (.paths (ps.map (findMount c.mounts (cwdOf c.cwd pre)))) := by
  rw [last_answer]
  show some (Out.paths (ps.map (findMount c.mounts (stAfter c.init pre).cwd))) = _
  rw [state_cwd]; rfl

/-- **V_getenv.**  `os.getenv(k)` returns what the script's last `setenv k`/`unsetenv k` left, and
    the value the host configured (empty if none) before the first. -/
theorem V_getenv (c : Cfg) (pre : List VOp) (k : Path) :
    (vrun c (pre ++ [.getenv k])).getLast? = some (.str (varOf (envGet c.env k) k pre)) := by
  rw [last_answer]
  show some (Out.str (envGet (stAfter c.init pre).env k)) = _
  rw [state_var]; rfl

/-- **V_configured.**  The process-level getters answer with the configured values in every state. -/
theorem V_configured (c : Cfg) (pre : List VOp) :
    (vrun c (pre ++ [.tempDir])).getLast? = some (.str c.tmp) ∧
    (vrun c (pre ++ [.hostname])).getLast? = some (.str c.hostname) ∧
    (vrun c (pre ++ [.getpid])).getLast? = some (.int c.pid) ∧
    (vrun c (pre ++ [.getuid])).getLast? = some (.int c.uid) ∧
    (vrun c (pre ++ [.args])).getLast? = some (.strs c.args) := by
  refine ⟨?_, ?_, ?_, ?_, ?_⟩ <;> rw [last_answer] <;> rfl

/-! ## Non-vacuity: concrete sessions -/

/-- "/" -/
def root : Path := [47]
/-- "work" -/
def work : Path := [119, 111, 114, 107]
/-- "notes.txt" -/
def notes : Path := [110, 111, 116, 101, 115, 46, 116, 120, 116]

def demoCfg : Cfg :=
  { cwd := root, env := [], tmp := [], home := [], cache := [], conf := [], hostname := [],
    pid := 0, uid := 0, args := [], mounts := [root] }

/-- `cd("work"); os.getwd(); filepath.abs("notes.txt")` under a `VirtualOS` with cwd "/" answers
    "work" and "work/notes.txt": the relative directory is kept as given -/
example : vrun demoCfg [.chdir work, .getwd, .abs notes] =
    [.nil, .str work, .str (work ++ 47 :: notes)] := by decide

/-- before the `cd`, a relative file name is served by the root mount as `notes.txt` … -/
example : vrun demoCfg [.file [notes]] = [.paths [some (root, notes)]] := by decide

/-- … and after `cd("work")` no mount serves it (the stored directory is relative, so the joined
    path is): the operation fails inside the `VirtualOS`, it does not go anywhere else -/
example : vrun demoCfg [.chdir work, .file [notes]] = [.nil, .paths [none]] := by decide

/-! ## Process level: exit, standard streams, users -/

/-- the `Exit` calls recorded after any sequence of operations are those before it followed by the
    codes of the sequence's own `os.exit` calls, in order -/
theorem state_exits (s : St) (ops : List VOp) :
    (stAfter s ops).exits = s.exits ++ exitCodes ops := by
  induction ops generalizing s with
  | nil => simp [stAfter, exitCodes]
  | cons o os ih =>
    cases o with
    | exit a =>
      show (stAfter (next s (.exit a)) os).exits = _
      rw [ih]
      show (s.exits ++ a.call.toList) ++ exitCodes os = s.exits ++ (a.call.toList ++ exitCodes os)
      rw [List.append_assoc]
    | _ => exact ih _

theorem state_out (s : St) (ops : List VOp) : (stAfter s ops).out = s.out ++ outText ops := by
  induction ops generalizing s with
  | nil => simp [stAfter, outText]
  | cons o os ih =>
    cases o with
    | stdoutWrite t =>
      show (stAfter (next s (.stdoutWrite t)) os).out = _
      rw [ih]
      show (s.out ++ t) ++ outText os = s.out ++ (t ++ outText os)
      rw [List.append_assoc]
    | print t =>
      show (stAfter (next s (.print t)) os).out = _
      rw [ih]
      show (s.out ++ t) ++ outText os = s.out ++ (t ++ outText os)
      rw [List.append_assoc]
    | _ => exact ih _

theorem state_err (s : St) (ops : List VOp) : (stAfter s ops).err = s.err ++ errText ops := by
  induction ops generalizing s with
  | nil => simp [stAfter, errText]
  | cons o os ih =>
    cases o with
    | stderrWrite t =>
      show (stAfter (next s (.stderrWrite t)) os).err = _
      rw [ih]
      show (s.err ++ t) ++ errText os = s.err ++ (t ++ errText os)
      rw [List.append_assoc]
    | _ => exact ih _

/-- **virtual_no_real_sink.**  No function of os/virtual.go (the methods of `VirtualOS`, its options,
    `NewVirtualOS`) or of the files it hands out (nil_file.go, buffer_file.go, in_memory_file.go) uses
    an OS-touching member of Go's os, io/ioutil, syscall, os/exec, os/user, os/signal, log,
    path/filepath (Abs, Glob, Walk, …) or fmt (Print…, Scan…) packages, nor risor's `SimpleOS`,
    outside the allowlist (the constant `os.PathSeparator`).  (Complete finite table, hence `decide`.) -/
theorem virtual_no_real_sink : reviewedVSinks.all sinkClean = true := by decide

/-- a table in which every entry is clean lets no method reach the real process -/
theorem reachesReal_of_clean (t : VSinks) (h : t.all sinkClean = true) (fn : String) :
    reachesReal t fn = false := by
  unfold reachesReal
  rw [List.any_eq_false]
  intro e he
  have := List.all_eq_true.mp h e he
  simp [this]

/-- **V_exit_never_real.**  Under a `VirtualOS` — with **or without** an exit handler, with any
    combination of the other options — no script, whatever it does and however often and with
    whatever argument it calls `os.exit`, terminates the real process: the list of real terminations
    is empty.  For every sink table in which `VirtualOS.Exit` is clean, every configuration, every
    sequence of operations of any length. -/
theorem V_exit_never_real_of (t : VSinks) (h : t.all sinkClean = true) (c : Cfg) (ops : List VOp) :
    (hostView t c ops).realExit = [] := by
  unfold hostView
  simp [reachesReal_of_clean t h]

/-- … in particular for the code as reviewed (tied to the source by `virtual_sinks_tie`) -/
theorem V_exit_never_real (c : Cfg) (ops : List VOp) :
    (hostView reviewedVSinks c ops).realExit = [] :=
  V_exit_never_real_of reviewedVSinks virtual_no_real_sink c ops

/-- **V_exit_handler.**  The host's exit handler receives exactly the codes of the `os.exit` calls
    the script executes, in order (`0` for `os.exit()`, `1` for `os.exit(err)`, nothing for calls
    with wrong arguments); without a handler nobody receives anything: the exit is absorbed. -/
theorem V_exit_handler (t : VSinks) (c : Cfg) (ops : List VOp) :
    (hostView t c ops).handled = if c.exitHandler then exitCodes (live ops) else [] := by
  unfold hostView
  simp only [state_exits]
  show (if c.exitHandler then [] ++ exitCodes (live ops) else []) = _
  simp

/-- **V_exit_absorbed.**  Without a handler the host sees no exit at all and the real process none
    either — the default configuration of `NewVirtualOS`. -/
theorem V_exit_absorbed (c : Cfg) (hc : c.exitHandler = false) (ops : List VOp) :
    (hostView reviewedVSinks c ops).handled = [] ∧ (hostView reviewedVSinks c ops).realExit = [] := by
  refine ⟨?_, V_exit_never_real c ops⟩
  rw [V_exit_handler, hc]; rfl

/-- **V_exit_continuation.**  Where a script ends: after operations that do not end it, `os.exit(a)`
    ends it exactly if `a` is a non-zero code, an error value or too many arguments; after
    `os.exit()`, `os.exit(0)` and a call with a wrong argument type the script simply goes on. -/
theorem V_exit_continuation (pre post : List VOp) (a : ExitArg)
    (hpre : pre.all (fun o => !o.aborts) = true) :
    live (pre ++ .exit a :: post) = pre ++ .exit a :: (if a.aborts then [] else live post) := by
  induction pre with
  | nil =>
    show (if (VOp.exit a).aborts then [VOp.exit a] else VOp.exit a :: live post) = _
    show (if a.aborts then [VOp.exit a] else VOp.exit a :: live post) = _
    cases a.aborts <;> rfl
  | cons o os ih =>
    simp only [List.all_cons, Bool.and_eq_true, Bool.not_eq_true'] at hpre
    show (if o.aborts then [o] else o :: live (os ++ .exit a :: post)) = _
    rw [hpre.1, ih hpre.2]; rfl

/-- **V_stdio.**  The host's stdout and stderr files hold exactly what the script wrote to them, in
    order, if the host configured them, and nothing exists otherwise. -/
theorem V_stdio (t : VSinks) (c : Cfg) (ops : List VOp) :
    (hostView t c ops).stdout = (if c.stdout then outText (live ops) else []) ∧
    (hostView t c ops).stderr = (if c.stderr then errText (live ops) else []) := by
  unfold hostView
  simp only [state_out, state_err]
  constructor
  · show (if c.stdout then [] ++ outText (live ops) else []) = _
    simp
  · show (if c.stderr then [] ++ errText (live ops) else []) = _
    simp

/-- **V_users.**  User and group lookups answer from what the host configured: they fail in every
    state when nothing is configured, and for every non-empty name or id in any case. -/
theorem V_users (c : Cfg) (s : St) (x : Path) :
    (c.user = false → out c s .currentUser = .err ∧ out c s (.lookupUser x) = .err) ∧
    (c.group = false → out c s (.lookupGroup x) = .err) ∧
    (x ≠ [] → out c s (.lookupUser x) = .err ∧ out c s (.lookupGroup x) = .err) := by
  refine ⟨fun h => ?_, fun h => ?_, fun h => ?_⟩
  · simp [out, h]
  · simp [out, h]
  · have : x.isEmpty = false := by cases x <;> simp_all
    simp [out, this]

/-- a `VirtualOS` with no option but the root mount: no exit handler -/
example : demoCfg.exitHandler = false := rfl

/-- `os.getpid(); os.exit(3); os.getwd()` under a handler-less `VirtualOS`: the script ends at the
    exit with a fatal error, the host's handler list and the real process see nothing -/
example : vscript demoCfg [.getpid, .exit (.code 3), .getwd] = [.int 0, .abort] ∧
    hostView reviewedVSinks demoCfg [.getpid, .exit (.code 3), .getwd] =
      { handled := [], stdout := [], stderr := [], realExit := [] } := by decide

/-- `os.exit(); os.exit(0); os.exit("s"); print("x"); os.exit(err); os.exit(7)` with a handler and a
    stdout file: the script goes on after the first three calls, the handler gets `[0, 0, 1]`, stdout
    holds "x\n", the call after the fatal one never happens -/
example : hostView reviewedVSinks { demoCfg with exitHandler := true, stdout := true }
      [.exit .none, .exit (.code 0), .exit .badType, .print [120, 10], .exit .err, .exit (.code 7)] =
    { handled := [0, 0, 1], stdout := [120, 10], stderr := [], realExit := [] } := by decide

/-- the hypothesis of `V_exit_never_real_of` is what carries the claim: in a table in which the body
    of `VirtualOS.Exit` uses `os.Exit`, the same model terminates the real process -/
example : (hostView [("VirtualOS.Exit", ["os.Exit"])] demoCfg [.exit (.code 3)]).realExit = [3] := by decide

end Risor.C12.V
