import RisorModel.C12.Virtual
/-!
C12, second part — theorems about the model of `os.VirtualOS` (`Virtual.lean`).

The model has no input that describes the real process, so "the answers do not depend on the real
process" holds of it by construction; what is proved here is *what the answers do depend on*: for
**every** configuration, **every** sequence of script operations of **any** length and **every**
path/key/value string, an answer is determined by the host's configuration and by the script's own
last `chdir` / `setenv` / `unsetenv` — nothing else is remembered, nothing is normalised or made
absolute behind the script's back.  The harness compares the real code with `vrun` on every
generated session, in two different states of the real process.
-/
namespace Risor.C12.V
open Risor.C13 (Path cleanStr join2 isAbs findMount)

/-! ## The state machine keeps exactly the script's last change -/

theorem stAfter_append (s : St) (a b : List VOp) : stAfter s (a ++ b) = stAfter (stAfter s a) b := by
  induction a generalizing s with
  | nil => rfl
  | cons o os ih => exact ih (next s o)

/-- the working directory held after any sequence of operations is the argument of its last `chdir`
    (the initial one if there is none) -/
theorem state_cwd (s : St) (ops : List VOp) : (stAfter s ops).cwd = cwdOf s.cwd ops := by
  induction ops generalizing s with
  | nil => rfl
  | cons o os ih =>
    cases o <;> exact ih _

theorem find_filter_ne (e : List (Path × Path)) (k k' : Path) (h : ¬ k' = k) :
    (e.filter (fun x => x.1 != k')).find? (fun x => x.1 == k) = e.find? (fun x => x.1 == k) := by
  induction e with
  | nil => rfl
  | cons x xs ih =>
    by_cases hx : x.1 = k
    · have hne : (x.1 != k') = true := by
        simp only [bne_iff_ne, ne_eq]; intro h'; exact h (h'.symm.trans hx)
      have heq : (x.1 == k) = true := by simpa using hx
      simp only [List.filter_cons, hne, if_true, List.find?_cons, heq]
    · have hneq : (x.1 == k) = false := by simpa using hx
      by_cases hx' : (x.1 != k') = true
      · simp only [List.filter_cons, hx', if_true, List.find?_cons, hneq]; exact ih
      · have hx'' : (x.1 != k') = false := by simpa using hx'
        simp only [List.filter_cons, hx'', List.find?_cons, hneq]; exact ih

theorem envGet_envSet (e : List (Path × Path)) (k k' v : Path) :
    envGet (envSet e k' v) k = if k' = k then v else envGet e k := by
  unfold envGet envSet
  by_cases h : k' = k
  · simp [h]
  · have hb : (k' == k) = false := by simpa using h
    simp only [List.find?_cons, hb, h, if_false]
    rw [find_filter_ne e k k' h]

theorem envGet_envDel (e : List (Path × Path)) (k k' : Path) :
    envGet (envDel e k') k = if k' = k then [] else envGet e k := by
  unfold envGet envDel
  by_cases h : k' = k
  · subst h
    have : List.find? (fun x => x.1 == k') (List.filter (fun x => x.1 != k') e) = none := by
      rw [List.find?_eq_none]
      intro x hx
      have := (List.mem_filter.mp hx).2
      simpa using this
    simp [this]
  · simp only [h, if_false]
    rw [find_filter_ne e k k' h]

/-- the value of every environment variable after any sequence of operations is what the script's
    last `setenv`/`unsetenv` of that variable left (the initial value if there is none) -/
theorem state_var (s : St) (k : Path) (ops : List VOp) :
    envGet (stAfter s ops).env k = varOf (envGet s.env k) k ops := by
  induction ops generalizing s with
  | nil => rfl
  | cons o os ih =>
    cases o with
    | setenv k' v =>
      show envGet (stAfter (next s (.setenv k' v)) os).env k = _
      rw [ih]
      show varOf (envGet (envSet s.env k' v) k) k os = varOf (envGet s.env k) k (.setenv k' v :: os)
      rw [envGet_envSet]
      show _ = (if k' = k then varOf v k os else varOf (envGet s.env k) k os)
      by_cases h : k' = k <;> simp [h]
    | unsetenv k' =>
      show envGet (stAfter (next s (.unsetenv k')) os).env k = _
      rw [ih]
      show varOf (envGet (envDel s.env k') k) k os = varOf (envGet s.env k) k (.unsetenv k' :: os)
      rw [envGet_envDel]
      show _ = (if k' = k then varOf [] k os else varOf (envGet s.env k) k os)
      by_cases h : k' = k <;> simp [h]
    | _ => exact ih _

theorem runFrom_append (c : Cfg) (s : St) (a b : List VOp) :
    runFrom c s (a ++ b) = runFrom c s a ++ runFrom c (stAfter s a) b := by
  induction a generalizing s with
  | nil => rfl
  | cons o os ih =>
    show out c s o :: runFrom c (next s o) (os ++ b) = _
    rw [ih]; rfl

/-- the answer to the last operation of a session is the answer in the state its predecessors left -/
theorem last_answer (c : Cfg) (pre : List VOp) (o : VOp) :
    (vrun c (pre ++ [o])).getLast? = some (out c (stAfter c.init pre) o) := by
  unfold vrun
  rw [runFrom_append]
  simp [runFrom]

/-! ## What a script observes -/

/-- **V_getwd.**  After any operations, `os.getwd()` returns the argument of the script's last
    `os.chdir`/`cd` exactly as it was given (relative arguments stay relative: nothing is resolved
    against any other directory), and the configured directory if the script never changed it.
    For all configurations, all sessions, all strings. -/
theorem V_getwd (c : Cfg) (pre : List VOp) :
    (vrun c (pre ++ [.getwd])).getLast? = some (.str (cwdOf c.cwd pre)) := by
  rw [last_answer]
  show some (Out.str (stAfter c.init pre).cwd) = _
  rw [state_cwd]; rfl

theorem cwdOf_append_chdir (w : Path) (pre : List VOp) (d : Path) :
    cwdOf w (pre ++ [.chdir d]) = d := by
  induction pre generalizing w with
  | nil => rfl
  | cons o os ih => cases o <;> exact ih _

/-- **V_chdir_verbatim.**  `cd(d); os.getwd()` yields `d`, whatever came before. -/
theorem V_chdir_verbatim (c : Cfg) (pre : List VOp) (d : Path) :
    (vrun c (pre ++ [.chdir d, .getwd])).getLast? = some (.str d) := by
  have h := V_getwd c (pre ++ [.chdir d])
  rw [List.append_assoc] at h
  rw [show [VOp.chdir d] ++ [VOp.getwd] = [.chdir d, .getwd] from rfl] at h
  rw [h, cwdOf_append_chdir]

/-- **V_abs.**  `filepath.abs(p)` is `Clean p` for an absolute `p` and otherwise `Join(w, p)` where
    `w` is the argument of the script's last `chdir` (or the configured directory). -/
theorem V_abs (c : Cfg) (pre : List VOp) (p : Path) :
    (vrun c (pre ++ [.abs p])).getLast? =
      some (.str (if isAbs p then cleanStr p else join2 (cwdOf c.cwd pre) p)) := by
  rw [last_answer]
  show some (Out.str (absPath (stAfter c.init pre).cwd p)) = _
  rw [state_cwd]; rfl

/-- **V_file.**  Every path argument of every file operation is resolved by `findMount` against the
    mount table the host configured and the argument of the script's last `chdir` (or the
    configured directory) — and against nothing else. -/
theorem V_file (c : Cfg) (pre : List VOp) (ps : List Path) :
    (vrun c (pre ++ [.file ps])).getLast? =
      some (.paths (ps.map (findMount c.mounts (cwdOf c.cwd pre)))) := by
  rw [last_answer]
  show some (Out.paths (ps.map (findMount c.mounts (stAfter c.init pre).cwd))) = _
  rw [state_cwd]; rfl

/-- **V_getenv.**  `os.getenv(k)` returns what the script's last `setenv k`/`unsetenv k` left, and
    the value the host configured (empty if none) before the first. -/
theorem V_getenv (c : Cfg) (pre : List VOp) (k : Path) :
    (vrun c (pre ++ [.getenv k])).getLast? = some (.str (varOf (envGet c.env k) k pre)) := by
  rw [last_answer]
  show some (Out.str (envGet (stAfter c.init pre).env k)) = _
  rw [state_var]; rfl

/-- **V_configured.**  The process-level getters answer with the configured values in every state. -/
theorem V_configured (c : Cfg) (pre : List VOp) :
    (vrun c (pre ++ [.tempDir])).getLast? = some (.str c.tmp) ∧
    (vrun c (pre ++ [.hostname])).getLast? = some (.str c.hostname) ∧
    (vrun c (pre ++ [.getpid])).getLast? = some (.int c.pid) ∧
    (vrun c (pre ++ [.getuid])).getLast? = some (.int c.uid) ∧
    (vrun c (pre ++ [.args])).getLast? = some (.strs c.args) := by
  refine ⟨?_, ?_, ?_, ?_, ?_⟩ <;> rw [last_answer] <;> rfl

/-! ## Non-vacuity: concrete sessions -/

/-- "/" -/
def root : Path := [47]
/-- "work" -/
def work : Path := [119, 111, 114, 107]
/-- "notes.txt" -/
def notes : Path := [110, 111, 116, 101, 115, 46, 116, 120, 116]

def demoCfg : Cfg :=
  { cwd := root, env := [], tmp := [], home := [], cache := [], conf := [], hostname := [],
    pid := 0, uid := 0, args := [], mounts := [root] }

/-- `cd("work"); os.getwd(); filepath.abs("notes.txt")` under a `VirtualOS` with cwd "/" answers
    "work" and "work/notes.txt": the relative directory is kept as given -/
example : vrun demoCfg [.chdir work, .getwd, .abs notes] =
    [.nil, .str work, .str (work ++ 47 :: notes)] := by decide

/-- before the `cd`, a relative file name is served by the root mount as `notes.txt` … -/
example : vrun demoCfg [.file [notes]] = [.paths [some (root, notes)]] := by decide

/-- … and after `cd("work")` no mount serves it (the stored directory is relative, so the joined
    path is): the operation fails inside the `VirtualOS`, it does not go anywhere else -/
example : vrun demoCfg [.chdir work, .file [notes]] = [.nil, .paths [none]] := by decide

end Risor.C12.V
