import RisorModel.C12.Model
/-!
C12 helper lemmas: resolution facts for the reviewed code, and the propagation invariant
`exec_closed` (by induction over programs: every nesting of call / spawn / clone-call / import).
-/
namespace Risor.C12

/-- every observation is a call `c` on an OS `o` with `S o c` (in particular none is a direct sink) -/
def ObsIn (S : OSId → Call → Prop) : Obs → Prop
  | .via o c => S o c
  | .direct _ => False

theorem getOS_code (vm : VM) (ctx : Ctx) :
    getOS codeFacts vm ctx = match ctx.os with
      | some o => o
      | none => match vm.os with
        | some o => o
        | none => .real := by
  simp only [getOS, codeFacts, getOSFrom]
  cases ctx.os <;> cases vm.os <;> rfl

theorem getOS_of_ctx (vm : VM) (ctx : Ctx) (r : OSId) (h : ctx.os = some r) :
    getOS codeFacts vm ctx = r := by
  rw [getOS_code, h]

theorem initContext_os (vm : VM) (ctx : Ctx) :
    (initContext codeFacts vm ctx).os = some (getOS codeFacts vm ctx) := by
  simp [initContext, codeFacts]

theorem initContext_of_ctx (vm : VM) (ctx : Ctx) (r : OSId) (h : ctx.os = some r) :
    (initContext codeFacts vm ctx).os = some r := by
  rw [initContext_os, getOS_of_ctx vm ctx r h]

theorem builtinOS_of_ctx (ctx : Ctx) (r : OSId) (h : ctx.os = some r) :
    builtinOS codeFacts ctx = r := by
  simp [builtinOS, codeFacts, h]

theorem clone_os (vm : VM) : (clone codeFacts vm).os = vm.os := by
  simp [clone, codeFacts]

theorem clone_gf (F : Facts) (vm : VM) : (clone F vm).gf = vm.gf := rfl

/-- as far as the OS is concerned a clone is its original -/
theorem clone_code (vm : VM) : clone codeFacts vm = vm := by
  cases vm; simp [clone, codeFacts]

/-- the configuration of an API evaluation, applied to an existing machine by the code as it is:
    a named OS replaces the machine's, no named OS leaves it alone -/
theorem applyCfg_code (vm : VM) (o : Option OSId) :
    applyCfg codeFacts vm o = match o with
      | some x => { vm with os := some x }
      | none => vm := by
  cases o <;> rfl

/-- a callback fired through the clone-call function with a foreign context runs under the same
    context as a `Call` of the VM with that context would: `clone.initContext` resolves the OS anew -/
theorem foreignCtx_code (vm : VM) (c : Option OSId) :
    foreignCtx codeFacts vm c = entryCtx codeFacts vm c := by
  unfold foreignCtx entryCtx
  rw [clone_code]
  rfl

theorem runTop_os (inv : List FnEntry) (F : Facts) (sc : Script) (vm : VM) (c : Option OSId) (cache : Cache) :
    (runTop inv F sc vm c cache).1.os = vm.os := by
  unfold runTop
  split <;> rfl

/-- a clean inventory produces no direct-sink observation for any function -/
theorem effectfulDirect_nil (inv : List FnEntry) (hinv : inv.all entryClean = true) (fn : String) :
    effectfulDirect inv fn = [] := by
  unfold effectfulDirect
  cases h : lookupFn inv fn with
  | none => rfl
  | some e =>
    have hmem : e ∈ inv := List.mem_of_find?_eq_some h
    have hc : entryClean e = true := (List.all_eq_true.1 hinv) e hmem
    simp only [entryClean, Bool.and_eq_true, List.all_eq_true] at hc
    simp only [List.filter_eq_nil_iff]
    intro s hs
    have := hc.2 s hs
    simpa using this

theorem directObs_nil (inv : List FnEntry) (hinv : inv.all entryClean = true) (o : Op) :
    directObs inv o = [] := by
  simp [directObs, effectfulDirect_nil inv hinv]

theorem cache_get_set (c : Cache) (s s' : Stream) (r h : OSId) (hget : (c.set s r).get s' = some h) :
    c.get s' = some h ∨ h = r := by
  cases s <;> cases s' <;> simp only [Cache.set, Cache.get, Option.some.injEq] at hget ⊢ <;>
    first
      | exact Or.inl hget
      | exact Or.inr hget.symm

/-- one operation never changes what the module object remembers except by adding the context's OS -/
theorem opObs_cache_mono (inv : List FnEntry) (r : OSId) (o : Op) (vm : VM) (ctx : Ctx) (cache : Cache)
    (hctx : ctx.os = some r) (s : Stream) (h : OSId)
    (hget : (opObs inv codeFacts vm ctx cache o).2.get s = some h) : cache.get s = some h ∨ h = r := by
  have hb : builtinOS codeFacts ctx = r := builtinOS_of_ctx ctx r hctx
  unfold opObs at hget
  cases hs : o.stdAttr with
  | some st =>
    have hcf : codeFacts.dynAttrCaches = true := rfl
    simp only [hs, hcf, if_true] at hget
    cases hg : cache.get st with
    | some held => simp only [hg] at hget; exact Or.inl hget
    | none => simp only [hg, hb] at hget; exact cache_get_set cache st s r h hget
  | none =>
    simp only [hs] at hget
    by_cases hu : o.usesGF = true
    · simp only [hu, if_true] at hget
      cases hg : vm.gf with
      | some g => simp only [hg] at hget; exact Or.inl hget
      | none => simp only [hg] at hget; exact Or.inl hget
    · have hu' : o.usesGF = false := by simpa using hu
      simp only [hu', Bool.false_eq_true, if_false] at hget
      exact Or.inl hget

theorem exec_cache_mono (inv : List FnEntry) (r : OSId) (p : Prog) :
    ∀ (vm : VM) (ctx : Ctx) (cache : Cache), ctx.os = some r → ∀ (s : Stream) (h : OSId),
      (exec inv codeFacts vm ctx cache p).2.get s = some h → cache.get s = some h ∨ h = r := by
  induction p with
  | skip => intro vm ctx cache _ s h hget; exact Or.inl hget
  | op o => intro vm ctx cache hctx s h hget; exact opObs_cache_mono inv r o vm ctx cache hctx s h hget
  | seq a b iha ihb =>
    intro vm ctx cache hctx s h hget
    have hb := ihb vm ctx (exec inv codeFacts vm ctx cache a).2 hctx s h hget
    cases hb with
    | inl h1 => exact iha vm ctx cache hctx s h h1
    | inr h1 => exact Or.inr h1
  | call p ih => intro vm ctx cache hctx s h hget; exact ih vm ctx cache hctx s h hget
  | spawn p ih =>
    intro vm ctx cache hctx s h hget
    exact ih (clone codeFacts vm) (initContext codeFacts (clone codeFacts vm) ctx) cache
      (initContext_of_ctx _ ctx r hctx) s h (by simpa [exec, codeFacts] using hget)
  | cloneCall p ih =>
    intro vm ctx cache hctx s h hget
    exact ih (clone codeFacts vm) (initContext codeFacts (clone codeFacts vm) ctx) cache
      (initContext_of_ctx _ ctx r hctx) s h (by simpa [exec, codeFacts] using hget)
  | imp p ih =>
    intro vm ctx cache hctx s h hget
    exact ih vm ctx cache hctx s h (by simpa [exec, codeFacts] using hget)

/-- one operation under a context that carries the OS `r`: its observations are calls on `r`, file
    calls on the OS that opened `gf`, or calls on the OS the module object remembers for a stream
    attribute the operation reads; no direct sink -/
theorem opObs_closed (inv : List FnEntry) (hinv : inv.all entryClean = true) (S : OSId → Call → Prop)
    (r : OSId) (hr : ∀ c, S r c) (o : Op) (vm : VM) (ctx : Ctx) (cache : Cache)
    (hctx : ctx.os = some r) (hgf : ∀ g, vm.gf = some g → ∀ c, c.m.isFile = true → S g c)
    (hc : ∀ s ∈ o.stdAttr.toList, ∀ h, cache.get s = some h → ∀ c, S h c) :
    ∀ ob ∈ (opObs inv codeFacts vm ctx cache o).1, ObsIn S ob := by
  have hb : builtinOS codeFacts ctx = r := builtinOS_of_ctx ctx r hctx
  have hd : directObs inv o = [] := directObs_nil inv hinv o
  unfold opObs
  cases hs : o.stdAttr with
  | some s =>
    have hcf : codeFacts.dynAttrCaches = true := rfl
    simp only [hcf, if_true]
    cases hg : cache.get s with
    | some held =>
      simp only [hd, List.append_nil]
      intro ob hob
      simp only [List.mem_map] at hob
      obtain ⟨c, _, rfl⟩ := hob
      exact hc s (by simp [hs]) held hg c
    | none =>
      simp only [hd, List.append_nil, hb]
      intro ob hob
      simp only [List.mem_map] at hob
      obtain ⟨c, _, rfl⟩ := hob
      exact hr c
  | none =>
    simp only
    by_cases hu : o.usesGF = true
    · simp only [hu, if_true]
      cases hg : vm.gf with
      | some g =>
        simp only [hd, List.append_nil]
        intro ob hob
        simp only [List.mem_map, List.mem_filter] at hob
        obtain ⟨c, hcm, rfl⟩ := hob
        exact hgf g hg c hcm.2
      | none =>
        simp only [hd]
        intro ob hob
        simp at hob
    · have hu' : o.usesGF = false := by simpa using hu
      simp only [hu', hd, List.append_nil, hb]
      intro ob hob
      simp only [Bool.false_eq_true, if_false, List.mem_map] at hob
      obtain ⟨c, _, rfl⟩ := hob
      exact hr c

/-- **Propagation invariant.**  For every program — any nesting, to any depth, of function calls,
    callbacks, deferred calls, spawned goroutines, clone-calls and imported modules — executed in
    any VM under a context whose `risor:os` value is `r`: every observation is a call on `r`, a
    file call on the OS that opened the file in `gf`, or a call on the OS the module object
    remembered for a stream attribute the program reads; no direct sink is reached. -/
theorem exec_closed (inv : List FnEntry) (hinv : inv.all entryClean = true) (S : OSId → Call → Prop)
    (r : OSId) (hr : ∀ c, S r c) (p : Prog) :
    ∀ (vm : VM) (ctx : Ctx) (cache : Cache),
      ctx.os = some r → (∀ g, vm.gf = some g → ∀ c, c.m.isFile = true → S g c) →
      (∀ s ∈ p.streams, ∀ h, cache.get s = some h → ∀ c, S h c) →
      ∀ ob ∈ (exec inv codeFacts vm ctx cache p).1, ObsIn S ob := by
  induction p with
  | skip => intro vm ctx cache _ _ _ ob hob; simp [exec] at hob
  | op o => intro vm ctx cache hctx hgf hc; exact opObs_closed inv hinv S r hr o vm ctx cache hctx hgf hc
  | seq a b iha ihb =>
    intro vm ctx cache hctx hgf hc ob hob
    simp only [exec, List.mem_append] at hob
    cases hob with
    | inl h =>
      exact iha vm ctx cache hctx hgf (fun s hs => hc s (by simp [Prog.streams, hs])) ob h
    | inr h =>
      refine ihb vm ctx (exec inv codeFacts vm ctx cache a).2 hctx hgf ?_ ob h
      intro s hs held hget c
      cases exec_cache_mono inv r a vm ctx cache hctx s held hget with
      | inl h1 => exact hc s (by simp [Prog.streams, hs]) held h1 c
      | inr h1 => rw [h1]; exact hr c
  | call p ih => intro vm ctx cache hctx hgf hc; exact ih vm ctx cache hctx hgf hc
  | spawn p ih =>
    intro vm ctx cache hctx hgf hc
    have h := ih (clone codeFacts vm) (initContext codeFacts (clone codeFacts vm) ctx) cache
      (initContext_of_ctx _ ctx r hctx) (by rw [clone_gf]; exact hgf) hc
    simpa [exec, codeFacts] using h
  | cloneCall p ih =>
    intro vm ctx cache hctx hgf hc
    have h := ih (clone codeFacts vm) (initContext codeFacts (clone codeFacts vm) ctx) cache
      (initContext_of_ctx _ ctx r hctx) (by rw [clone_gf]; exact hgf) hc
    simpa [exec, codeFacts] using h
  | imp p ih =>
    intro vm ctx cache hctx hgf hc
    have h := ih vm ctx cache hctx hgf hc
    simpa [exec, codeFacts] using h

end Risor.C12
