/-!
C12 — a host-supplied OS mediates all file, environment, process and stdio access.

Executable model, core Lean only.

* **Impl**: how the code *as it is* resolves and propagates the OS
  (`vm/vm.go`: `getOS`, `initContext`, `Clone`, `cloneCallAsync`, `cloneCallSync`, `importModule`,
  the entry points `Run`/`RunCode`/`Call`; `risor.go`, `risor_config.go`: `Eval`/`EvalCode`/`Call`
  with `WithVM` and `Config.VMOpts`; `os/os.go`: `GetDefaultOS`), parameterised by the
  structural `Facts` the extractor re-reads from the source on every run, and which OS-interface
  calls every script-visible operation makes (`Op.calls`, reviewed by reading `modules/os`,
  `modules/filepath`, `modules/fmt`, `object/file*.go`).
* **Spec**: what the property demands: whenever the host supplied an OS for a run (with the
  `WithOS` option, inherited by clones, or in the context), every observation of that run is
  served by an OS the host supplied, never by the real one (`specOK`).
-/
namespace Risor.C12

/-- identity of an OS implementation: the real operating system (what `SimpleOS` and a direct
    use of Go's `os` package reach) or the n-th implementation object supplied by the host -/
inductive OSId where
  | real
  | host (n : Nat)
  deriving DecidableEq, Repr

def OSId.isHost : OSId → Bool
  | .host _ => true
  | .real => false

/-- the methods of risor's `os.OS` interface (os/os.go) and of the `os.File` values it hands out (`f…`) -/
inductive Method where
  | args | chdir | create | environ | exit | getenv | getpid | getuid | getwd | hostname | lookupEnv | mkdir | mkdirAll | mkdirTemp | open | openFile | readFile | remove | removeAll | rename | setenv | stat | symlink | tempDir | unsetenv | userCacheDir | userConfigDir | userHomeDir | writeFile | readDir | walkDir | stdin | stdout | stderr | pathSeparator | pathListSeparator | currentUser | lookupUser | lookupUid | lookupGroup | lookupGid | fRead | fWrite | fClose | fStat | fSeek
  deriving DecidableEq, Repr

def Method.name : Method → String
  | .args => "Args"
  | .chdir => "Chdir"
  | .create => "Create"
  | .environ => "Environ"
  | .exit => "Exit"
  | .getenv => "Getenv"
  | .getpid => "Getpid"
  | .getuid => "Getuid"
  | .getwd => "Getwd"
  | .hostname => "Hostname"
  | .lookupEnv => "LookupEnv"
  | .mkdir => "Mkdir"
  | .mkdirAll => "MkdirAll"
  | .mkdirTemp => "MkdirTemp"
  | .open => "Open"
  | .openFile => "OpenFile"
  | .readFile => "ReadFile"
  | .remove => "Remove"
  | .removeAll => "RemoveAll"
  | .rename => "Rename"
  | .setenv => "Setenv"
  | .stat => "Stat"
  | .symlink => "Symlink"
  | .tempDir => "TempDir"
  | .unsetenv => "Unsetenv"
  | .userCacheDir => "UserCacheDir"
  | .userConfigDir => "UserConfigDir"
  | .userHomeDir => "UserHomeDir"
  | .writeFile => "WriteFile"
  | .readDir => "ReadDir"
  | .walkDir => "WalkDir"
  | .stdin => "Stdin"
  | .stdout => "Stdout"
  | .stderr => "Stderr"
  | .pathSeparator => "PathSeparator"
  | .pathListSeparator => "PathListSeparator"
  | .currentUser => "CurrentUser"
  | .lookupUser => "LookupUser"
  | .lookupUid => "LookupUid"
  | .lookupGroup => "LookupGroup"
  | .lookupGid => "LookupGid"
  | .fRead => "F.Read"
  | .fWrite => "F.Write"
  | .fClose => "F.Close"
  | .fStat => "F.Stat"
  | .fSeek => "F.Seek"

def Method.isFile : Method → Bool
  | .fRead | .fWrite | .fClose | .fStat | .fSeek => true
  | _ => false

/-- one call on an OS-interface value: method and symbolic arguments -/
structure Call where
  m : Method
  args : List String
  deriving DecidableEq, Repr

/-- every script-visible operation the harness exercises (one constructor per function and argument shape) -/
inductive Op where
  | os_args | os_chdir | cd | os_chdir_bad | os_create | os_create_bad
  | os_current_user | os_environ | os_getenv | getenv | os_getenv_unset | os_getenv_bad
  | os_getpid | os_getuid | os_getwd | os_hostname | os_lookup_gid | os_lookup_gid_missing
  | os_lookup_group | os_lookup_group_missing | os_lookup_uid | os_lookup_uid_missing | os_lookup_user | os_lookup_user_missing
  | os_mkdir | os_mkdir_perm | os_mkdir_bad | os_mkdir_all | os_mkdir_all_perm | os_mkdir_temp
  | os_mkdir_temp_dir | os_open | bopen | os_open_missing | os_read_dir0 | os_read_dir
  | ls0 | ls | os_read_dir_missing | os_read_file | os_read_file_missing | os_remove
  | os_remove_missing | os_remove_all | os_rename | os_rename_bad | os_setenv | setenv
  | os_setenv_new | os_stat | os_stat_missing | os_symlink | os_temp_dir | os_unsetenv
  | unsetenv | os_user_cache_dir | os_user_config_dir | os_user_home_dir | os_write_file | os_write_file_perm
  | os_write_file_bytes | os_write_file_over | os_write_file_bad | os_stdout_write | os_stderr_write | os_stdin_read
  | os_stdout_attr | cat | cat1 | cat_missing | cat_bad | cp
  | cp_over | cp_missing | fp_abs_rel | fp_abs_abs | fp_base | fp_clean
  | fp_dir | fp_ext | fp_is_abs | fp_join | fp_match | fp_rel
  | fp_split | fp_split_list | fp_walk_dir | fp_walk_dir_missing | fp_walk_dir_bad | printf
  | fmt_printf | printf_bad | print | print0 | fmt_println | fmt_errorf
  | errorf | fmt_sprintf | sprintf | file_name | file_stat | file_position
  | file_read_all | file_read_bs | file_read_buf | file_write | file_close_twice | file_seek
  | file_read_lines | file_iter | file_stdout_write | gf_read | gf_stat | gf_seek
  | gf_name | os_exit | os_exit_0 | os_exit_3 | os_exit_err | os_exit_bad
  -- arguments with shell metacharacters (wildcards, $NAME, ${NAME}, ~): one per path-taking function and shape
  | sh_cd_star | sh_cd_quest | sh_cd_bracket | sh_cd_env | sh_cd_envb | sh_cd_envhost
  | sh_cd_tilde | sh_cd_rel | sh_ls_star | sh_ls_quest | sh_ls_bracket | sh_ls_env
  | sh_ls_envb | sh_ls_envhost | sh_ls_tilde | sh_ls_rel | sh_cat_star | sh_cat_quest
  | sh_cat_bracket | sh_cat_env | sh_cat_envb | sh_cat_envhost | sh_cat_tilde | sh_cat_rel
  | sh_cp_src_star | sh_cp_src_quest | sh_cp_src_bracket | sh_cp_src_env | sh_cp_src_envb | sh_cp_src_envhost
  | sh_cp_src_tilde | sh_cp_src_rel | sh_cp_dst_star | sh_cp_dst_quest | sh_cp_dst_bracket | sh_cp_dst_env
  | sh_cp_dst_envb | sh_cp_dst_envhost | sh_cp_dst_tilde | sh_cp_dst_rel | sh_bopen_star | sh_bopen_quest
  | sh_bopen_bracket | sh_bopen_env | sh_bopen_envb | sh_bopen_envhost | sh_bopen_tilde | sh_bopen_rel
  | sh_os_chdir_star | sh_os_chdir_quest | sh_os_chdir_bracket | sh_os_chdir_env | sh_os_chdir_envb | sh_os_chdir_envhost
  | sh_os_chdir_tilde | sh_os_chdir_rel | sh_os_read_dir_star | sh_os_read_dir_quest | sh_os_read_dir_bracket | sh_os_read_dir_env
  | sh_os_read_dir_envb | sh_os_read_dir_envhost | sh_os_read_dir_tilde | sh_os_read_dir_rel | sh_os_read_file_star | sh_os_read_file_quest
  | sh_os_read_file_bracket | sh_os_read_file_env | sh_os_read_file_envb | sh_os_read_file_envhost | sh_os_read_file_tilde | sh_os_read_file_rel
  | sh_os_open_star | sh_os_open_quest | sh_os_open_bracket | sh_os_open_env | sh_os_open_envb | sh_os_open_envhost
  | sh_os_open_tilde | sh_os_open_rel | sh_os_stat_star | sh_os_stat_quest | sh_os_stat_bracket | sh_os_stat_env
  | sh_os_stat_envb | sh_os_stat_envhost | sh_os_stat_tilde | sh_os_stat_rel
  deriving DecidableEq, Repr

def allOps : List Op := [.os_args, .os_chdir, .cd, .os_chdir_bad, .os_create, .os_create_bad, .os_current_user, .os_environ, .os_getenv, .getenv, .os_getenv_unset, .os_getenv_bad, .os_getpid, .os_getuid, .os_getwd, .os_hostname, .os_lookup_gid, .os_lookup_gid_missing, .os_lookup_group, .os_lookup_group_missing, .os_lookup_uid, .os_lookup_uid_missing, .os_lookup_user, .os_lookup_user_missing, .os_mkdir, .os_mkdir_perm, .os_mkdir_bad, .os_mkdir_all, .os_mkdir_all_perm, .os_mkdir_temp, .os_mkdir_temp_dir, .os_open, .bopen, .os_open_missing, .os_read_dir0, .os_read_dir, .ls0, .ls, .os_read_dir_missing, .os_read_file, .os_read_file_missing, .os_remove, .os_remove_missing, .os_remove_all, .os_rename, .os_rename_bad, .os_setenv, .setenv, .os_setenv_new, .os_stat, .os_stat_missing, .os_symlink, .os_temp_dir, .os_unsetenv, .unsetenv, .os_user_cache_dir, .os_user_config_dir, .os_user_home_dir, .os_write_file, .os_write_file_perm, .os_write_file_bytes, .os_write_file_over, .os_write_file_bad, .os_stdout_write, .os_stderr_write, .os_stdin_read, .os_stdout_attr, .cat, .cat1, .cat_missing, .cat_bad, .cp, .cp_over, .cp_missing, .fp_abs_rel, .fp_abs_abs, .fp_base, .fp_clean, .fp_dir, .fp_ext, .fp_is_abs, .fp_join, .fp_match, .fp_rel, .fp_split, .fp_split_list, .fp_walk_dir, .fp_walk_dir_missing, .fp_walk_dir_bad, .printf, .fmt_printf, .printf_bad, .print, .print0, .fmt_println, .fmt_errorf, .errorf, .fmt_sprintf, .sprintf, .file_name, .file_stat, .file_position, .file_read_all, .file_read_bs, .file_read_buf, .file_write, .file_close_twice, .file_seek, .file_read_lines, .file_iter, .file_stdout_write, .gf_read, .gf_stat, .gf_seek, .gf_name, .os_exit, .os_exit_0, .os_exit_3, .os_exit_err, .os_exit_bad, .sh_cd_star, .sh_cd_quest, .sh_cd_bracket, .sh_cd_env, .sh_cd_envb, .sh_cd_envhost, .sh_cd_tilde, .sh_cd_rel, .sh_ls_star, .sh_ls_quest, .sh_ls_bracket, .sh_ls_env, .sh_ls_envb, .sh_ls_envhost, .sh_ls_tilde, .sh_ls_rel, .sh_cat_star, .sh_cat_quest, .sh_cat_bracket, .sh_cat_env, .sh_cat_envb, .sh_cat_envhost, .sh_cat_tilde, .sh_cat_rel, .sh_cp_src_star, .sh_cp_src_quest, .sh_cp_src_bracket, .sh_cp_src_env, .sh_cp_src_envb, .sh_cp_src_envhost, .sh_cp_src_tilde, .sh_cp_src_rel, .sh_cp_dst_star, .sh_cp_dst_quest, .sh_cp_dst_bracket, .sh_cp_dst_env, .sh_cp_dst_envb, .sh_cp_dst_envhost, .sh_cp_dst_tilde, .sh_cp_dst_rel, .sh_bopen_star, .sh_bopen_quest, .sh_bopen_bracket, .sh_bopen_env, .sh_bopen_envb, .sh_bopen_envhost, .sh_bopen_tilde, .sh_bopen_rel, .sh_os_chdir_star, .sh_os_chdir_quest, .sh_os_chdir_bracket, .sh_os_chdir_env, .sh_os_chdir_envb, .sh_os_chdir_envhost, .sh_os_chdir_tilde, .sh_os_chdir_rel, .sh_os_read_dir_star, .sh_os_read_dir_quest, .sh_os_read_dir_bracket, .sh_os_read_dir_env, .sh_os_read_dir_envb, .sh_os_read_dir_envhost, .sh_os_read_dir_tilde, .sh_os_read_dir_rel, .sh_os_read_file_star, .sh_os_read_file_quest, .sh_os_read_file_bracket, .sh_os_read_file_env, .sh_os_read_file_envb, .sh_os_read_file_envhost, .sh_os_read_file_tilde, .sh_os_read_file_rel, .sh_os_open_star, .sh_os_open_quest, .sh_os_open_bracket, .sh_os_open_env, .sh_os_open_envb, .sh_os_open_envhost, .sh_os_open_tilde, .sh_os_open_rel, .sh_os_stat_star, .sh_os_stat_quest, .sh_os_stat_bracket, .sh_os_stat_env, .sh_os_stat_envb, .sh_os_stat_envhost, .sh_os_stat_tilde, .sh_os_stat_rel]

def Op.name : Op → String
  | .os_args => "os_args"
  | .os_chdir => "os_chdir"
  | .cd => "cd"
  | .os_chdir_bad => "os_chdir_bad"
  | .os_create => "os_create"
  | .os_create_bad => "os_create_bad"
  | .os_current_user => "os_current_user"
  | .os_environ => "os_environ"
  | .os_getenv => "os_getenv"
  | .getenv => "getenv"
  | .os_getenv_unset => "os_getenv_unset"
  | .os_getenv_bad => "os_getenv_bad"
  | .os_getpid => "os_getpid"
  | .os_getuid => "os_getuid"
  | .os_getwd => "os_getwd"
  | .os_hostname => "os_hostname"
  | .os_lookup_gid => "os_lookup_gid"
  | .os_lookup_gid_missing => "os_lookup_gid_missing"
  | .os_lookup_group => "os_lookup_group"
  | .os_lookup_group_missing => "os_lookup_group_missing"
  | .os_lookup_uid => "os_lookup_uid"
  | .os_lookup_uid_missing => "os_lookup_uid_missing"
  | .os_lookup_user => "os_lookup_user"
  | .os_lookup_user_missing => "os_lookup_user_missing"
  | .os_mkdir => "os_mkdir"
  | .os_mkdir_perm => "os_mkdir_perm"
  | .os_mkdir_bad => "os_mkdir_bad"
  | .os_mkdir_all => "os_mkdir_all"
  | .os_mkdir_all_perm => "os_mkdir_all_perm"
  | .os_mkdir_temp => "os_mkdir_temp"
  | .os_mkdir_temp_dir => "os_mkdir_temp_dir"
  | .os_open => "os_open"
  | .bopen => "bopen"
  | .os_open_missing => "os_open_missing"
  | .os_read_dir0 => "os_read_dir0"
  | .os_read_dir => "os_read_dir"
  | .ls0 => "ls0"
  | .ls => "ls"
  | .os_read_dir_missing => "os_read_dir_missing"
  | .os_read_file => "os_read_file"
  | .os_read_file_missing => "os_read_file_missing"
  | .os_remove => "os_remove"
  | .os_remove_missing => "os_remove_missing"
  | .os_remove_all => "os_remove_all"
  | .os_rename => "os_rename"
  | .os_rename_bad => "os_rename_bad"
  | .os_setenv => "os_setenv"
  | .setenv => "setenv"
  | .os_setenv_new => "os_setenv_new"
  | .os_stat => "os_stat"
  | .os_stat_missing => "os_stat_missing"
  | .os_symlink => "os_symlink"
  | .os_temp_dir => "os_temp_dir"
  | .os_unsetenv => "os_unsetenv"
  | .unsetenv => "unsetenv"
  | .os_user_cache_dir => "os_user_cache_dir"
  | .os_user_config_dir => "os_user_config_dir"
  | .os_user_home_dir => "os_user_home_dir"
  | .os_write_file => "os_write_file"
  | .os_write_file_perm => "os_write_file_perm"
  | .os_write_file_bytes => "os_write_file_bytes"
  | .os_write_file_over => "os_write_file_over"
  | .os_write_file_bad => "os_write_file_bad"
  | .os_stdout_write => "os_stdout_write"
  | .os_stderr_write => "os_stderr_write"
  | .os_stdin_read => "os_stdin_read"
  | .os_stdout_attr => "os_stdout_attr"
  | .cat => "cat"
  | .cat1 => "cat1"
  | .cat_missing => "cat_missing"
  | .cat_bad => "cat_bad"
  | .cp => "cp"
  | .cp_over => "cp_over"
  | .cp_missing => "cp_missing"
  | .fp_abs_rel => "fp_abs_rel"
  | .fp_abs_abs => "fp_abs_abs"
  | .fp_base => "fp_base"
  | .fp_clean => "fp_clean"
  | .fp_dir => "fp_dir"
  | .fp_ext => "fp_ext"
  | .fp_is_abs => "fp_is_abs"
  | .fp_join => "fp_join"
  | .fp_match => "fp_match"
  | .fp_rel => "fp_rel"
  | .fp_split => "fp_split"
  | .fp_split_list => "fp_split_list"
  | .fp_walk_dir => "fp_walk_dir"
  | .fp_walk_dir_missing => "fp_walk_dir_missing"
  | .fp_walk_dir_bad => "fp_walk_dir_bad"
  | .printf => "printf"
  | .fmt_printf => "fmt_printf"
  | .printf_bad => "printf_bad"
  | .print => "print"
  | .print0 => "print0"
  | .fmt_println => "fmt_println"
  | .fmt_errorf => "fmt_errorf"
  | .errorf => "errorf"
  | .fmt_sprintf => "fmt_sprintf"
  | .sprintf => "sprintf"
  | .file_name => "file_name"
  | .file_stat => "file_stat"
  | .file_position => "file_position"
  | .file_read_all => "file_read_all"
  | .file_read_bs => "file_read_bs"
  | .file_read_buf => "file_read_buf"
  | .file_write => "file_write"
  | .file_close_twice => "file_close_twice"
  | .file_seek => "file_seek"
  | .file_read_lines => "file_read_lines"
  | .file_iter => "file_iter"
  | .file_stdout_write => "file_stdout_write"
  | .gf_read => "gf_read"
  | .gf_stat => "gf_stat"
  | .gf_seek => "gf_seek"
  | .gf_name => "gf_name"
  | .os_exit => "os_exit"
  | .os_exit_0 => "os_exit_0"
  | .os_exit_3 => "os_exit_3"
  | .os_exit_err => "os_exit_err"
  | .os_exit_bad => "os_exit_bad"
  | .sh_cd_star => "sh_cd_star"
  | .sh_cd_quest => "sh_cd_quest"
  | .sh_cd_bracket => "sh_cd_bracket"
  | .sh_cd_env => "sh_cd_env"
  | .sh_cd_envb => "sh_cd_envb"
  | .sh_cd_envhost => "sh_cd_envhost"
  | .sh_cd_tilde => "sh_cd_tilde"
  | .sh_cd_rel => "sh_cd_rel"
  | .sh_ls_star => "sh_ls_star"
  | .sh_ls_quest => "sh_ls_quest"
  | .sh_ls_bracket => "sh_ls_bracket"
  | .sh_ls_env => "sh_ls_env"
  | .sh_ls_envb => "sh_ls_envb"
  | .sh_ls_envhost => "sh_ls_envhost"
  | .sh_ls_tilde => "sh_ls_tilde"
  | .sh_ls_rel => "sh_ls_rel"
  | .sh_cat_star => "sh_cat_star"
  | .sh_cat_quest => "sh_cat_quest"
  | .sh_cat_bracket => "sh_cat_bracket"
  | .sh_cat_env => "sh_cat_env"
  | .sh_cat_envb => "sh_cat_envb"
  | .sh_cat_envhost => "sh_cat_envhost"
  | .sh_cat_tilde => "sh_cat_tilde"
  | .sh_cat_rel => "sh_cat_rel"
  | .sh_cp_src_star => "sh_cp_src_star"
  | .sh_cp_src_quest => "sh_cp_src_quest"
  | .sh_cp_src_bracket => "sh_cp_src_bracket"
  | .sh_cp_src_env => "sh_cp_src_env"
  | .sh_cp_src_envb => "sh_cp_src_envb"
  | .sh_cp_src_envhost => "sh_cp_src_envhost"
  | .sh_cp_src_tilde => "sh_cp_src_tilde"
  | .sh_cp_src_rel => "sh_cp_src_rel"
  | .sh_cp_dst_star => "sh_cp_dst_star"
  | .sh_cp_dst_quest => "sh_cp_dst_quest"
  | .sh_cp_dst_bracket => "sh_cp_dst_bracket"
  | .sh_cp_dst_env => "sh_cp_dst_env"
  | .sh_cp_dst_envb => "sh_cp_dst_envb"
  | .sh_cp_dst_envhost => "sh_cp_dst_envhost"
  | .sh_cp_dst_tilde => "sh_cp_dst_tilde"
  | .sh_cp_dst_rel => "sh_cp_dst_rel"
  | .sh_bopen_star => "sh_bopen_star"
  | .sh_bopen_quest => "sh_bopen_quest"
  | .sh_bopen_bracket => "sh_bopen_bracket"
  | .sh_bopen_env => "sh_bopen_env"
  | .sh_bopen_envb => "sh_bopen_envb"
  | .sh_bopen_envhost => "sh_bopen_envhost"
  | .sh_bopen_tilde => "sh_bopen_tilde"
  | .sh_bopen_rel => "sh_bopen_rel"
  | .sh_os_chdir_star => "sh_os_chdir_star"
  | .sh_os_chdir_quest => "sh_os_chdir_quest"
  | .sh_os_chdir_bracket => "sh_os_chdir_bracket"
  | .sh_os_chdir_env => "sh_os_chdir_env"
  | .sh_os_chdir_envb => "sh_os_chdir_envb"
  | .sh_os_chdir_envhost => "sh_os_chdir_envhost"
  | .sh_os_chdir_tilde => "sh_os_chdir_tilde"
  | .sh_os_chdir_rel => "sh_os_chdir_rel"
  | .sh_os_read_dir_star => "sh_os_read_dir_star"
  | .sh_os_read_dir_quest => "sh_os_read_dir_quest"
  | .sh_os_read_dir_bracket => "sh_os_read_dir_bracket"
  | .sh_os_read_dir_env => "sh_os_read_dir_env"
  | .sh_os_read_dir_envb => "sh_os_read_dir_envb"
  | .sh_os_read_dir_envhost => "sh_os_read_dir_envhost"
  | .sh_os_read_dir_tilde => "sh_os_read_dir_tilde"
  | .sh_os_read_dir_rel => "sh_os_read_dir_rel"
  | .sh_os_read_file_star => "sh_os_read_file_star"
  | .sh_os_read_file_quest => "sh_os_read_file_quest"
  | .sh_os_read_file_bracket => "sh_os_read_file_bracket"
  | .sh_os_read_file_env => "sh_os_read_file_env"
  | .sh_os_read_file_envb => "sh_os_read_file_envb"
  | .sh_os_read_file_envhost => "sh_os_read_file_envhost"
  | .sh_os_read_file_tilde => "sh_os_read_file_tilde"
  | .sh_os_read_file_rel => "sh_os_read_file_rel"
  | .sh_os_open_star => "sh_os_open_star"
  | .sh_os_open_quest => "sh_os_open_quest"
  | .sh_os_open_bracket => "sh_os_open_bracket"
  | .sh_os_open_env => "sh_os_open_env"
  | .sh_os_open_envb => "sh_os_open_envb"
  | .sh_os_open_envhost => "sh_os_open_envhost"
  | .sh_os_open_tilde => "sh_os_open_tilde"
  | .sh_os_open_rel => "sh_os_open_rel"
  | .sh_os_stat_star => "sh_os_stat_star"
  | .sh_os_stat_quest => "sh_os_stat_quest"
  | .sh_os_stat_bracket => "sh_os_stat_bracket"
  | .sh_os_stat_env => "sh_os_stat_env"
  | .sh_os_stat_envb => "sh_os_stat_envb"
  | .sh_os_stat_envhost => "sh_os_stat_envhost"
  | .sh_os_stat_tilde => "sh_os_stat_tilde"
  | .sh_os_stat_rel => "sh_os_stat_rel"

/-- the Go function that implements the operation (key of the sink inventory) -/
def Op.goFn : Op → String
  | .os_args => "modules/os.Args"
  | .os_chdir => "modules/os.Chdir"
  | .cd => "modules/os.Chdir"
  | .os_chdir_bad => "modules/os.Chdir"
  | .os_create => "modules/os.Create"
  | .os_create_bad => "modules/os.Create"
  | .os_current_user => "modules/os.CurrentUser"
  | .os_environ => "modules/os.Environ"
  | .os_getenv => "modules/os.Getenv"
  | .getenv => "modules/os.Getenv"
  | .os_getenv_unset => "modules/os.Getenv"
  | .os_getenv_bad => "modules/os.Getenv"
  | .os_getpid => "modules/os.Getpid"
  | .os_getuid => "modules/os.Getuid"
  | .os_getwd => "modules/os.Getwd"
  | .os_hostname => "modules/os.Hostname"
  | .os_lookup_gid => "modules/os.LookupGid"
  | .os_lookup_gid_missing => "modules/os.LookupGid"
  | .os_lookup_group => "modules/os.LookupGroup"
  | .os_lookup_group_missing => "modules/os.LookupGroup"
  | .os_lookup_uid => "modules/os.LookupUid"
  | .os_lookup_uid_missing => "modules/os.LookupUid"
  | .os_lookup_user => "modules/os.LookupUser"
  | .os_lookup_user_missing => "modules/os.LookupUser"
  | .os_mkdir => "modules/os.Mkdir"
  | .os_mkdir_perm => "modules/os.Mkdir"
  | .os_mkdir_bad => "modules/os.Mkdir"
  | .os_mkdir_all => "modules/os.MkdirAll"
  | .os_mkdir_all_perm => "modules/os.MkdirAll"
  | .os_mkdir_temp => "modules/os.MkdirTemp"
  | .os_mkdir_temp_dir => "modules/os.MkdirTemp"
  | .os_open => "modules/os.Open"
  | .bopen => "modules/os.Open"
  | .os_open_missing => "modules/os.Open"
  | .os_read_dir0 => "modules/os.ReadDir"
  | .os_read_dir => "modules/os.ReadDir"
  | .ls0 => "modules/os.ReadDir"
  | .ls => "modules/os.ReadDir"
  | .os_read_dir_missing => "modules/os.ReadDir"
  | .os_read_file => "modules/os.ReadFile"
  | .os_read_file_missing => "modules/os.ReadFile"
  | .os_remove => "modules/os.Remove"
  | .os_remove_missing => "modules/os.Remove"
  | .os_remove_all => "modules/os.RemoveAll"
  | .os_rename => "modules/os.Rename"
  | .os_rename_bad => "modules/os.Rename"
  | .os_setenv => "modules/os.Setenv"
  | .setenv => "modules/os.Setenv"
  | .os_setenv_new => "modules/os.Setenv"
  | .os_stat => "modules/os.Stat"
  | .os_stat_missing => "modules/os.Stat"
  | .os_symlink => "modules/os.Symlink"
  | .os_temp_dir => "modules/os.TempDir"
  | .os_unsetenv => "modules/os.Unsetenv"
  | .unsetenv => "modules/os.Unsetenv"
  | .os_user_cache_dir => "modules/os.UserCacheDir"
  | .os_user_config_dir => "modules/os.UserConfigDir"
  | .os_user_home_dir => "modules/os.UserHomeDir"
  | .os_write_file => "modules/os.WriteFile"
  | .os_write_file_perm => "modules/os.WriteFile"
  | .os_write_file_bytes => "modules/os.WriteFile"
  | .os_write_file_over => "modules/os.WriteFile"
  | .os_write_file_bad => "modules/os.WriteFile"
  | .os_stdout_write => "modules/os.Module"
  | .os_stderr_write => "modules/os.Module"
  | .os_stdin_read => "modules/os.Module"
  | .os_stdout_attr => "modules/os.Module"
  | .cat => "modules/os.Cat"
  | .cat1 => "modules/os.Cat"
  | .cat_missing => "modules/os.Cat"
  | .cat_bad => "modules/os.Cat"
  | .cp => "modules/os.Copy"
  | .cp_over => "modules/os.Copy"
  | .cp_missing => "modules/os.Copy"
  | .fp_abs_rel => "modules/filepath.Abs"
  | .fp_abs_abs => "modules/filepath.Abs"
  | .fp_base => "modules/filepath.Base"
  | .fp_clean => "modules/filepath.Clean"
  | .fp_dir => "modules/filepath.Dir"
  | .fp_ext => "modules/filepath.Ext"
  | .fp_is_abs => "modules/filepath.IsAbs"
  | .fp_join => "modules/filepath.Join"
  | .fp_match => "modules/filepath.Match"
  | .fp_rel => "modules/filepath.Rel"
  | .fp_split => "modules/filepath.Split"
  | .fp_split_list => "modules/filepath.SplitList"
  | .fp_walk_dir => "modules/filepath.WalkDir"
  | .fp_walk_dir_missing => "modules/filepath.WalkDir"
  | .fp_walk_dir_bad => "modules/filepath.WalkDir"
  | .printf => "modules/fmt.Printf"
  | .fmt_printf => "modules/fmt.Printf"
  | .printf_bad => "modules/fmt.Printf"
  | .print => "modules/fmt.Println"
  | .print0 => "modules/fmt.Println"
  | .fmt_println => "modules/fmt.Println"
  | .fmt_errorf => "modules/fmt.Errorf"
  | .errorf => "modules/fmt.Errorf"
  | .fmt_sprintf => "modules/fmt.Sprintf"
  | .sprintf => "modules/fmt.Sprintf"
  | .file_name => "object.File.GetAttr"
  | .file_stat => "object.File.GetAttr"
  | .file_position => "object.File.GetAttr"
  | .file_read_all => "object.File.GetAttr"
  | .file_read_bs => "object.File.GetAttr"
  | .file_read_buf => "object.File.GetAttr"
  | .file_write => "object.File.GetAttr"
  | .file_close_twice => "object.File.GetAttr"
  | .file_seek => "object.File.GetAttr"
  | .file_read_lines => "object.File.GetAttr"
  | .file_iter => "object.FileIter.Next"
  | .file_stdout_write => "object.File.GetAttr"
  | .gf_read => "object.File.GetAttr"
  | .gf_stat => "object.File.GetAttr"
  | .gf_seek => "object.File.GetAttr"
  | .gf_name => "object.File.GetAttr"
  | .os_exit => "modules/os.Exit"
  | .os_exit_0 => "modules/os.Exit"
  | .os_exit_3 => "modules/os.Exit"
  | .os_exit_err => "modules/os.Exit"
  | .os_exit_bad => "modules/os.Exit"
  | .sh_cd_star => "modules/os.Chdir"
  | .sh_cd_quest => "modules/os.Chdir"
  | .sh_cd_bracket => "modules/os.Chdir"
  | .sh_cd_env => "modules/os.Chdir"
  | .sh_cd_envb => "modules/os.Chdir"
  | .sh_cd_envhost => "modules/os.Chdir"
  | .sh_cd_tilde => "modules/os.Chdir"
  | .sh_cd_rel => "modules/os.Chdir"
  | .sh_ls_star => "modules/os.ReadDir"
  | .sh_ls_quest => "modules/os.ReadDir"
  | .sh_ls_bracket => "modules/os.ReadDir"
  | .sh_ls_env => "modules/os.ReadDir"
  | .sh_ls_envb => "modules/os.ReadDir"
  | .sh_ls_envhost => "modules/os.ReadDir"
  | .sh_ls_tilde => "modules/os.ReadDir"
  | .sh_ls_rel => "modules/os.ReadDir"
  | .sh_cat_star => "modules/os.Cat"
  | .sh_cat_quest => "modules/os.Cat"
  | .sh_cat_bracket => "modules/os.Cat"
  | .sh_cat_env => "modules/os.Cat"
  | .sh_cat_envb => "modules/os.Cat"
  | .sh_cat_envhost => "modules/os.Cat"
  | .sh_cat_tilde => "modules/os.Cat"
  | .sh_cat_rel => "modules/os.Cat"
  | .sh_cp_src_star => "modules/os.Copy"
  | .sh_cp_src_quest => "modules/os.Copy"
  | .sh_cp_src_bracket => "modules/os.Copy"
  | .sh_cp_src_env => "modules/os.Copy"
  | .sh_cp_src_envb => "modules/os.Copy"
  | .sh_cp_src_envhost => "modules/os.Copy"
  | .sh_cp_src_tilde => "modules/os.Copy"
  | .sh_cp_src_rel => "modules/os.Copy"
  | .sh_cp_dst_star => "modules/os.Copy"
  | .sh_cp_dst_quest => "modules/os.Copy"
  | .sh_cp_dst_bracket => "modules/os.Copy"
  | .sh_cp_dst_env => "modules/os.Copy"
  | .sh_cp_dst_envb => "modules/os.Copy"
  | .sh_cp_dst_envhost => "modules/os.Copy"
  | .sh_cp_dst_tilde => "modules/os.Copy"
  | .sh_cp_dst_rel => "modules/os.Copy"
  | .sh_bopen_star => "modules/os.Open"
  | .sh_bopen_quest => "modules/os.Open"
  | .sh_bopen_bracket => "modules/os.Open"
  | .sh_bopen_env => "modules/os.Open"
  | .sh_bopen_envb => "modules/os.Open"
  | .sh_bopen_envhost => "modules/os.Open"
  | .sh_bopen_tilde => "modules/os.Open"
  | .sh_bopen_rel => "modules/os.Open"
  | .sh_os_chdir_star => "modules/os.Chdir"
  | .sh_os_chdir_quest => "modules/os.Chdir"
  | .sh_os_chdir_bracket => "modules/os.Chdir"
  | .sh_os_chdir_env => "modules/os.Chdir"
  | .sh_os_chdir_envb => "modules/os.Chdir"
  | .sh_os_chdir_envhost => "modules/os.Chdir"
  | .sh_os_chdir_tilde => "modules/os.Chdir"
  | .sh_os_chdir_rel => "modules/os.Chdir"
  | .sh_os_read_dir_star => "modules/os.ReadDir"
  | .sh_os_read_dir_quest => "modules/os.ReadDir"
  | .sh_os_read_dir_bracket => "modules/os.ReadDir"
  | .sh_os_read_dir_env => "modules/os.ReadDir"
  | .sh_os_read_dir_envb => "modules/os.ReadDir"
  | .sh_os_read_dir_envhost => "modules/os.ReadDir"
  | .sh_os_read_dir_tilde => "modules/os.ReadDir"
  | .sh_os_read_dir_rel => "modules/os.ReadDir"
  | .sh_os_read_file_star => "modules/os.ReadFile"
  | .sh_os_read_file_quest => "modules/os.ReadFile"
  | .sh_os_read_file_bracket => "modules/os.ReadFile"
  | .sh_os_read_file_env => "modules/os.ReadFile"
  | .sh_os_read_file_envb => "modules/os.ReadFile"
  | .sh_os_read_file_envhost => "modules/os.ReadFile"
  | .sh_os_read_file_tilde => "modules/os.ReadFile"
  | .sh_os_read_file_rel => "modules/os.ReadFile"
  | .sh_os_open_star => "modules/os.Open"
  | .sh_os_open_quest => "modules/os.Open"
  | .sh_os_open_bracket => "modules/os.Open"
  | .sh_os_open_env => "modules/os.Open"
  | .sh_os_open_envb => "modules/os.Open"
  | .sh_os_open_envhost => "modules/os.Open"
  | .sh_os_open_tilde => "modules/os.Open"
  | .sh_os_open_rel => "modules/os.Open"
  | .sh_os_stat_star => "modules/os.Stat"
  | .sh_os_stat_quest => "modules/os.Stat"
  | .sh_os_stat_bracket => "modules/os.Stat"
  | .sh_os_stat_env => "modules/os.Stat"
  | .sh_os_stat_envb => "modules/os.Stat"
  | .sh_os_stat_envhost => "modules/os.Stat"
  | .sh_os_stat_tilde => "modules/os.Stat"
  | .sh_os_stat_rel => "modules/os.Stat"

/-- Impl: the OS-interface calls the operation's Go code makes, in order, with symbolic arguments
    (`$i` = i-th script argument, `@wd` = the directory the OS's own `Getwd` returned) -/
def Op.calls : Op → List Call
  | .os_args => [⟨.args, []⟩]
  | .os_chdir => [⟨.chdir, ["$0"]⟩]
  | .cd => [⟨.chdir, ["$0"]⟩]
  | .os_chdir_bad => []
  | .os_create => [⟨.create, ["$0"]⟩, ⟨.fClose, []⟩]
  | .os_create_bad => []
  | .os_current_user => [⟨.currentUser, []⟩]
  | .os_environ => [⟨.environ, []⟩]
  | .os_getenv => [⟨.getenv, ["$0"]⟩]
  | .getenv => [⟨.getenv, ["$0"]⟩]
  | .os_getenv_unset => [⟨.getenv, ["$0"]⟩]
  | .os_getenv_bad => []
  | .os_getpid => [⟨.getpid, []⟩]
  | .os_getuid => [⟨.getuid, []⟩]
  | .os_getwd => [⟨.getwd, []⟩]
  | .os_hostname => [⟨.hostname, []⟩]
  | .os_lookup_gid => [⟨.lookupGid, ["$0"]⟩]
  | .os_lookup_gid_missing => [⟨.lookupGid, ["$0"]⟩]
  | .os_lookup_group => [⟨.lookupGroup, ["$0"]⟩]
  | .os_lookup_group_missing => [⟨.lookupGroup, ["$0"]⟩]
  | .os_lookup_uid => [⟨.lookupUid, ["$0"]⟩]
  | .os_lookup_uid_missing => [⟨.lookupUid, ["$0"]⟩]
  | .os_lookup_user => [⟨.lookupUser, ["$0"]⟩]
  | .os_lookup_user_missing => [⟨.lookupUser, ["$0"]⟩]
  | .os_mkdir => [⟨.mkdir, ["$0", "493"]⟩]
  | .os_mkdir_perm => [⟨.mkdir, ["$0", "448"]⟩]
  | .os_mkdir_bad => []
  | .os_mkdir_all => [⟨.mkdirAll, ["$0", "493"]⟩]
  | .os_mkdir_all_perm => [⟨.mkdirAll, ["$0", "448"]⟩]
  | .os_mkdir_temp => [⟨.mkdirTemp, ["", "$0"]⟩]
  | .os_mkdir_temp_dir => [⟨.mkdirTemp, ["$0", "$1"]⟩]
  | .os_open => [⟨.open, ["$0"]⟩, ⟨.fClose, []⟩]
  | .bopen => [⟨.open, ["$0"]⟩, ⟨.fClose, []⟩]
  | .os_open_missing => [⟨.open, ["$0"]⟩]
  | .os_read_dir0 => [⟨.getwd, []⟩, ⟨.readDir, ["@wd"]⟩]
  | .os_read_dir => [⟨.readDir, ["$0"]⟩]
  | .ls0 => [⟨.getwd, []⟩, ⟨.readDir, ["@wd"]⟩]
  | .ls => [⟨.readDir, ["$0"]⟩]
  | .os_read_dir_missing => [⟨.readDir, ["$0"]⟩]
  | .os_read_file => [⟨.readFile, ["$0"]⟩]
  | .os_read_file_missing => [⟨.readFile, ["$0"]⟩]
  | .os_remove => [⟨.remove, ["$0"]⟩]
  | .os_remove_missing => [⟨.remove, ["$0"]⟩]
  | .os_remove_all => [⟨.removeAll, ["$0"]⟩]
  | .os_rename => [⟨.rename, ["$0", "$1"]⟩]
  | .os_rename_bad => []
  | .os_setenv => [⟨.setenv, ["$0", "$1"]⟩]
  | .setenv => [⟨.setenv, ["$0", "$1"]⟩]
  | .os_setenv_new => [⟨.setenv, ["$0", "$1"]⟩]
  | .os_stat => [⟨.stat, ["$0"]⟩]
  | .os_stat_missing => [⟨.stat, ["$0"]⟩]
  | .os_symlink => [⟨.symlink, ["$0", "$1"]⟩]
  | .os_temp_dir => [⟨.tempDir, []⟩]
  | .os_unsetenv => [⟨.unsetenv, ["$0"]⟩]
  | .unsetenv => [⟨.unsetenv, ["$0"]⟩]
  | .os_user_cache_dir => [⟨.userCacheDir, []⟩]
  | .os_user_config_dir => [⟨.userConfigDir, []⟩]
  | .os_user_home_dir => [⟨.userHomeDir, []⟩]
  | .os_write_file => [⟨.writeFile, ["$0", "420"]⟩]
  | .os_write_file_perm => [⟨.writeFile, ["$0", "384"]⟩]
  | .os_write_file_bytes => [⟨.writeFile, ["$0", "420"]⟩]
  | .os_write_file_over => [⟨.writeFile, ["$0", "420"]⟩]
  | .os_write_file_bad => []
  | .os_stdout_write => [⟨.stdout, []⟩, ⟨.fWrite, ["x"]⟩]
  | .os_stderr_write => [⟨.stderr, []⟩, ⟨.fWrite, ["e"]⟩]
  | .os_stdin_read => [⟨.stdin, []⟩, ⟨.fRead, []⟩]
  | .os_stdout_attr => [⟨.stdout, []⟩]
  | .cat => [⟨.readFile, ["$0"]⟩, ⟨.readFile, ["$1"]⟩]
  | .cat1 => [⟨.readFile, ["$0"]⟩]
  | .cat_missing => [⟨.readFile, ["$0"]⟩]
  | .cat_bad => []
  | .cp => [⟨.readFile, ["$0"]⟩, ⟨.writeFile, ["$1", "420"]⟩]
  | .cp_over => [⟨.readFile, ["$0"]⟩, ⟨.writeFile, ["$1", "420"]⟩]
  | .cp_missing => [⟨.readFile, ["$0"]⟩]
  | .fp_abs_rel => [⟨.getwd, []⟩]
  | .fp_abs_abs => []
  | .fp_base => []
  | .fp_clean => []
  | .fp_dir => []
  | .fp_ext => []
  | .fp_is_abs => []
  | .fp_join => []
  | .fp_match => []
  | .fp_rel => []
  | .fp_split => []
  | .fp_split_list => []
  | .fp_walk_dir => [⟨.walkDir, ["$0"]⟩, ⟨.getenv, ["$1"]⟩, ⟨.getenv, ["$1"]⟩, ⟨.getenv, ["$1"]⟩, ⟨.getenv, ["$1"]⟩]
  | .fp_walk_dir_missing => [⟨.walkDir, ["$0"]⟩]
  | .fp_walk_dir_bad => []
  | .printf => [⟨.stdout, []⟩, ⟨.fWrite, ["x=3."]⟩]
  | .fmt_printf => [⟨.stdout, []⟩, ⟨.fWrite, ["a-[1]."]⟩]
  | .printf_bad => []
  | .print => [⟨.stdout, []⟩, ⟨.fWrite, ["a 1\\n"]⟩]
  | .print0 => [⟨.stdout, []⟩, ⟨.fWrite, ["\\n"]⟩]
  | .fmt_println => [⟨.stdout, []⟩, ⟨.fWrite, ["hello\\n"]⟩]
  | .fmt_errorf => []
  | .errorf => []
  | .fmt_sprintf => []
  | .sprintf => []
  | .file_name => [⟨.open, ["$0"]⟩, ⟨.fClose, []⟩]
  | .file_stat => [⟨.open, ["$0"]⟩, ⟨.fStat, []⟩, ⟨.fClose, []⟩]
  | .file_position => [⟨.open, ["$0"]⟩, ⟨.fSeek, ["0", "1"]⟩, ⟨.fClose, []⟩]
  | .file_read_all => [⟨.open, ["$0"]⟩, ⟨.fRead, []⟩, ⟨.fClose, []⟩]
  | .file_read_bs => [⟨.open, ["$0"]⟩, ⟨.fRead, []⟩, ⟨.fClose, []⟩]
  | .file_read_buf => [⟨.open, ["$0"]⟩, ⟨.fStat, []⟩, ⟨.fRead, []⟩, ⟨.fClose, []⟩]
  | .file_write => [⟨.create, ["$0"]⟩, ⟨.fWrite, ["hello"]⟩, ⟨.fClose, []⟩]
  | .file_close_twice => [⟨.open, ["$0"]⟩, ⟨.fClose, []⟩]
  | .file_seek => [⟨.open, ["$0"]⟩, ⟨.fSeek, ["2", "0"]⟩, ⟨.fClose, []⟩]
  | .file_read_lines => [⟨.open, ["$0"]⟩, ⟨.fRead, []⟩, ⟨.fClose, []⟩]
  | .file_iter => [⟨.open, ["$0"]⟩, ⟨.fRead, []⟩, ⟨.fClose, []⟩]
  | .file_stdout_write => [⟨.stdout, []⟩, ⟨.fWrite, ["a"]⟩, ⟨.fWrite, ["b"]⟩]
  | .gf_read => [⟨.fRead, []⟩]
  | .gf_stat => [⟨.fStat, []⟩]
  | .gf_seek => [⟨.fSeek, ["0", "0"]⟩]
  | .gf_name => []
  | .os_exit => [⟨.exit, ["0"]⟩]
  | .os_exit_0 => [⟨.exit, ["0"]⟩]
  | .os_exit_3 => [⟨.exit, ["3"]⟩]
  | .os_exit_err => [⟨.exit, ["1"]⟩]
  | .os_exit_bad => []
  | .sh_cd_star => [⟨.chdir, ["$0"]⟩]
  | .sh_cd_quest => [⟨.chdir, ["$0"]⟩]
  | .sh_cd_bracket => [⟨.chdir, ["$0"]⟩]
  | .sh_cd_env => [⟨.chdir, ["$0"]⟩]
  | .sh_cd_envb => [⟨.chdir, ["$0"]⟩]
  | .sh_cd_envhost => [⟨.chdir, ["$0"]⟩]
  | .sh_cd_tilde => [⟨.chdir, ["$0"]⟩]
  | .sh_cd_rel => [⟨.chdir, ["$0"]⟩]
  | .sh_ls_star => [⟨.readDir, ["$0"]⟩]
  | .sh_ls_quest => [⟨.readDir, ["$0"]⟩]
  | .sh_ls_bracket => [⟨.readDir, ["$0"]⟩]
  | .sh_ls_env => [⟨.readDir, ["$0"]⟩]
  | .sh_ls_envb => [⟨.readDir, ["$0"]⟩]
  | .sh_ls_envhost => [⟨.readDir, ["$0"]⟩]
  | .sh_ls_tilde => [⟨.readDir, ["$0"]⟩]
  | .sh_ls_rel => [⟨.readDir, ["$0"]⟩]
  | .sh_cat_star => [⟨.readFile, ["$0"]⟩]
  | .sh_cat_quest => [⟨.readFile, ["$0"]⟩]
  | .sh_cat_bracket => [⟨.readFile, ["$0"]⟩]
  | .sh_cat_env => [⟨.readFile, ["$0"]⟩]
  | .sh_cat_envb => [⟨.readFile, ["$0"]⟩]
  | .sh_cat_envhost => [⟨.readFile, ["$0"]⟩]
  | .sh_cat_tilde => [⟨.readFile, ["$0"]⟩]
  | .sh_cat_rel => [⟨.readFile, ["$0"]⟩]
  | .sh_cp_src_star => [⟨.readFile, ["$0"]⟩, ⟨.writeFile, ["$1", "420"]⟩]
  | .sh_cp_src_quest => [⟨.readFile, ["$0"]⟩, ⟨.writeFile, ["$1", "420"]⟩]
  | .sh_cp_src_bracket => [⟨.readFile, ["$0"]⟩, ⟨.writeFile, ["$1", "420"]⟩]
  | .sh_cp_src_env => [⟨.readFile, ["$0"]⟩, ⟨.writeFile, ["$1", "420"]⟩]
  | .sh_cp_src_envb => [⟨.readFile, ["$0"]⟩, ⟨.writeFile, ["$1", "420"]⟩]
  | .sh_cp_src_envhost => [⟨.readFile, ["$0"]⟩, ⟨.writeFile, ["$1", "420"]⟩]
  | .sh_cp_src_tilde => [⟨.readFile, ["$0"]⟩]
  | .sh_cp_src_rel => [⟨.readFile, ["$0"]⟩]
  | .sh_cp_dst_star => [⟨.readFile, ["$0"]⟩, ⟨.writeFile, ["$1", "420"]⟩]
  | .sh_cp_dst_quest => [⟨.readFile, ["$0"]⟩, ⟨.writeFile, ["$1", "420"]⟩]
  | .sh_cp_dst_bracket => [⟨.readFile, ["$0"]⟩, ⟨.writeFile, ["$1", "420"]⟩]
  | .sh_cp_dst_env => [⟨.readFile, ["$0"]⟩, ⟨.writeFile, ["$1", "420"]⟩]
  | .sh_cp_dst_envb => [⟨.readFile, ["$0"]⟩, ⟨.writeFile, ["$1", "420"]⟩]
  | .sh_cp_dst_envhost => [⟨.readFile, ["$0"]⟩, ⟨.writeFile, ["$1", "420"]⟩]
  | .sh_cp_dst_tilde => [⟨.readFile, ["$0"]⟩, ⟨.writeFile, ["$1", "420"]⟩]
  | .sh_cp_dst_rel => [⟨.readFile, ["$0"]⟩, ⟨.writeFile, ["$1", "420"]⟩]
  | .sh_bopen_star => [⟨.open, ["$0"]⟩, ⟨.fClose, []⟩]
  | .sh_bopen_quest => [⟨.open, ["$0"]⟩, ⟨.fClose, []⟩]
  | .sh_bopen_bracket => [⟨.open, ["$0"]⟩, ⟨.fClose, []⟩]
  | .sh_bopen_env => [⟨.open, ["$0"]⟩, ⟨.fClose, []⟩]
  | .sh_bopen_envb => [⟨.open, ["$0"]⟩, ⟨.fClose, []⟩]
  | .sh_bopen_envhost => [⟨.open, ["$0"]⟩, ⟨.fClose, []⟩]
  | .sh_bopen_tilde => [⟨.open, ["$0"]⟩]
  | .sh_bopen_rel => [⟨.open, ["$0"]⟩]
  | .sh_os_chdir_star => [⟨.chdir, ["$0"]⟩]
  | .sh_os_chdir_quest => [⟨.chdir, ["$0"]⟩]
  | .sh_os_chdir_bracket => [⟨.chdir, ["$0"]⟩]
  | .sh_os_chdir_env => [⟨.chdir, ["$0"]⟩]
  | .sh_os_chdir_envb => [⟨.chdir, ["$0"]⟩]
  | .sh_os_chdir_envhost => [⟨.chdir, ["$0"]⟩]
  | .sh_os_chdir_tilde => [⟨.chdir, ["$0"]⟩]
  | .sh_os_chdir_rel => [⟨.chdir, ["$0"]⟩]
  | .sh_os_read_dir_star => [⟨.readDir, ["$0"]⟩]
  | .sh_os_read_dir_quest => [⟨.readDir, ["$0"]⟩]
  | .sh_os_read_dir_bracket => [⟨.readDir, ["$0"]⟩]
  | .sh_os_read_dir_env => [⟨.readDir, ["$0"]⟩]
  | .sh_os_read_dir_envb => [⟨.readDir, ["$0"]⟩]
  | .sh_os_read_dir_envhost => [⟨.readDir, ["$0"]⟩]
  | .sh_os_read_dir_tilde => [⟨.readDir, ["$0"]⟩]
  | .sh_os_read_dir_rel => [⟨.readDir, ["$0"]⟩]
  | .sh_os_read_file_star => [⟨.readFile, ["$0"]⟩]
  | .sh_os_read_file_quest => [⟨.readFile, ["$0"]⟩]
  | .sh_os_read_file_bracket => [⟨.readFile, ["$0"]⟩]
  | .sh_os_read_file_env => [⟨.readFile, ["$0"]⟩]
  | .sh_os_read_file_envb => [⟨.readFile, ["$0"]⟩]
  | .sh_os_read_file_envhost => [⟨.readFile, ["$0"]⟩]
  | .sh_os_read_file_tilde => [⟨.readFile, ["$0"]⟩]
  | .sh_os_read_file_rel => [⟨.readFile, ["$0"]⟩]
  | .sh_os_open_star => [⟨.open, ["$0"]⟩, ⟨.fClose, []⟩]
  | .sh_os_open_quest => [⟨.open, ["$0"]⟩, ⟨.fClose, []⟩]
  | .sh_os_open_bracket => [⟨.open, ["$0"]⟩, ⟨.fClose, []⟩]
  | .sh_os_open_env => [⟨.open, ["$0"]⟩, ⟨.fClose, []⟩]
  | .sh_os_open_envb => [⟨.open, ["$0"]⟩, ⟨.fClose, []⟩]
  | .sh_os_open_envhost => [⟨.open, ["$0"]⟩, ⟨.fClose, []⟩]
  | .sh_os_open_tilde => [⟨.open, ["$0"]⟩]
  | .sh_os_open_rel => [⟨.open, ["$0"]⟩]
  | .sh_os_stat_star => [⟨.stat, ["$0"]⟩]
  | .sh_os_stat_quest => [⟨.stat, ["$0"]⟩]
  | .sh_os_stat_bracket => [⟨.stat, ["$0"]⟩]
  | .sh_os_stat_env => [⟨.stat, ["$0"]⟩]
  | .sh_os_stat_envb => [⟨.stat, ["$0"]⟩]
  | .sh_os_stat_envhost => [⟨.stat, ["$0"]⟩]
  | .sh_os_stat_tilde => [⟨.stat, ["$0"]⟩]
  | .sh_os_stat_rel => [⟨.stat, ["$0"]⟩]

/-- the operation uses the file object `gf` opened by the top-level code of the script -/
def Op.usesGF : Op → Bool
  | .gf_read | .gf_stat | .gf_seek | .gf_name => true
  | _ => false


/-! ## Arguments with shell metacharacters

The shell-style builtins (`cd`, `ls`, `cat`, `cp`, `open`) and the `os` functions they share their
implementation with take their path arguments **literally**: a wildcard (`*`, `?`, `[..]`), a
`$NAME` / `${NAME}` reference or a leading `~` is part of the name and reaches the host's OS
unchanged.  (Expanding it would need a directory listing, an environment or a home directory —
each of which would have to come from the host's OS.)  `shellOps` are the operations that pass
such arguments; `Op.plain` is the operation of the same function with an ordinary argument. -/

/-- the operations whose path argument contains shell metacharacters -/
def shellOps : List Op := [.sh_cd_star, .sh_cd_quest, .sh_cd_bracket, .sh_cd_env, .sh_cd_envb, .sh_cd_envhost, .sh_cd_tilde, .sh_cd_rel, .sh_ls_star, .sh_ls_quest, .sh_ls_bracket, .sh_ls_env, .sh_ls_envb, .sh_ls_envhost, .sh_ls_tilde, .sh_ls_rel, .sh_cat_star, .sh_cat_quest, .sh_cat_bracket, .sh_cat_env, .sh_cat_envb, .sh_cat_envhost, .sh_cat_tilde, .sh_cat_rel, .sh_cp_src_star, .sh_cp_src_quest, .sh_cp_src_bracket, .sh_cp_src_env, .sh_cp_src_envb, .sh_cp_src_envhost, .sh_cp_src_tilde, .sh_cp_src_rel, .sh_cp_dst_star, .sh_cp_dst_quest, .sh_cp_dst_bracket, .sh_cp_dst_env, .sh_cp_dst_envb, .sh_cp_dst_envhost, .sh_cp_dst_tilde, .sh_cp_dst_rel, .sh_bopen_star, .sh_bopen_quest, .sh_bopen_bracket, .sh_bopen_env, .sh_bopen_envb, .sh_bopen_envhost, .sh_bopen_tilde, .sh_bopen_rel, .sh_os_chdir_star, .sh_os_chdir_quest, .sh_os_chdir_bracket, .sh_os_chdir_env, .sh_os_chdir_envb, .sh_os_chdir_envhost, .sh_os_chdir_tilde, .sh_os_chdir_rel, .sh_os_read_dir_star, .sh_os_read_dir_quest, .sh_os_read_dir_bracket, .sh_os_read_dir_env, .sh_os_read_dir_envb, .sh_os_read_dir_envhost, .sh_os_read_dir_tilde, .sh_os_read_dir_rel, .sh_os_read_file_star, .sh_os_read_file_quest, .sh_os_read_file_bracket, .sh_os_read_file_env, .sh_os_read_file_envb, .sh_os_read_file_envhost, .sh_os_read_file_tilde, .sh_os_read_file_rel, .sh_os_open_star, .sh_os_open_quest, .sh_os_open_bracket, .sh_os_open_env, .sh_os_open_envb, .sh_os_open_envhost, .sh_os_open_tilde, .sh_os_open_rel, .sh_os_stat_star, .sh_os_stat_quest, .sh_os_stat_bracket, .sh_os_stat_env, .sh_os_stat_envb, .sh_os_stat_envhost, .sh_os_stat_tilde, .sh_os_stat_rel]

/-- the operation of the same Go function and outcome with an ordinary path argument -/
def Op.plain : Op → Op
  | .sh_cd_star => .cd
  | .sh_cd_quest => .cd
  | .sh_cd_bracket => .cd
  | .sh_cd_env => .cd
  | .sh_cd_envb => .cd
  | .sh_cd_envhost => .cd
  | .sh_cd_tilde => .cd
  | .sh_cd_rel => .cd
  | .sh_ls_star => .ls
  | .sh_ls_quest => .ls
  | .sh_ls_bracket => .ls
  | .sh_ls_env => .ls
  | .sh_ls_envb => .ls
  | .sh_ls_envhost => .ls
  | .sh_ls_tilde => .ls
  | .sh_ls_rel => .ls
  | .sh_cat_star => .cat1
  | .sh_cat_quest => .cat1
  | .sh_cat_bracket => .cat1
  | .sh_cat_env => .cat1
  | .sh_cat_envb => .cat1
  | .sh_cat_envhost => .cat1
  | .sh_cat_tilde => .cat1
  | .sh_cat_rel => .cat1
  | .sh_cp_src_star => .cp
  | .sh_cp_src_quest => .cp
  | .sh_cp_src_bracket => .cp
  | .sh_cp_src_env => .cp
  | .sh_cp_src_envb => .cp
  | .sh_cp_src_envhost => .cp
  | .sh_cp_src_tilde => .cp_missing
  | .sh_cp_src_rel => .cp_missing
  | .sh_cp_dst_star => .cp
  | .sh_cp_dst_quest => .cp
  | .sh_cp_dst_bracket => .cp
  | .sh_cp_dst_env => .cp
  | .sh_cp_dst_envb => .cp
  | .sh_cp_dst_envhost => .cp
  | .sh_cp_dst_tilde => .cp
  | .sh_cp_dst_rel => .cp
  | .sh_bopen_star => .bopen
  | .sh_bopen_quest => .bopen
  | .sh_bopen_bracket => .bopen
  | .sh_bopen_env => .bopen
  | .sh_bopen_envb => .bopen
  | .sh_bopen_envhost => .bopen
  | .sh_bopen_tilde => .os_open_missing
  | .sh_bopen_rel => .os_open_missing
  | .sh_os_chdir_star => .os_chdir
  | .sh_os_chdir_quest => .os_chdir
  | .sh_os_chdir_bracket => .os_chdir
  | .sh_os_chdir_env => .os_chdir
  | .sh_os_chdir_envb => .os_chdir
  | .sh_os_chdir_envhost => .os_chdir
  | .sh_os_chdir_tilde => .os_chdir
  | .sh_os_chdir_rel => .os_chdir
  | .sh_os_read_dir_star => .os_read_dir
  | .sh_os_read_dir_quest => .os_read_dir
  | .sh_os_read_dir_bracket => .os_read_dir
  | .sh_os_read_dir_env => .os_read_dir
  | .sh_os_read_dir_envb => .os_read_dir
  | .sh_os_read_dir_envhost => .os_read_dir
  | .sh_os_read_dir_tilde => .os_read_dir
  | .sh_os_read_dir_rel => .os_read_dir
  | .sh_os_read_file_star => .os_read_file
  | .sh_os_read_file_quest => .os_read_file
  | .sh_os_read_file_bracket => .os_read_file
  | .sh_os_read_file_env => .os_read_file
  | .sh_os_read_file_envb => .os_read_file
  | .sh_os_read_file_envhost => .os_read_file
  | .sh_os_read_file_tilde => .os_read_file
  | .sh_os_read_file_rel => .os_read_file
  | .sh_os_open_star => .os_open
  | .sh_os_open_quest => .os_open
  | .sh_os_open_bracket => .os_open
  | .sh_os_open_env => .os_open
  | .sh_os_open_envb => .os_open
  | .sh_os_open_envhost => .os_open
  | .sh_os_open_tilde => .os_open_missing
  | .sh_os_open_rel => .os_open_missing
  | .sh_os_stat_star => .os_stat
  | .sh_os_stat_quest => .os_stat
  | .sh_os_stat_bracket => .os_stat
  | .sh_os_stat_env => .os_stat
  | .sh_os_stat_envb => .os_stat
  | .sh_os_stat_envhost => .os_stat
  | .sh_os_stat_tilde => .os_stat
  | .sh_os_stat_rel => .os_stat
  | o => o

/-- a concrete call: the symbolic arguments `$0`, `$1` replaced by the strings the script passed -/
def instArg (p q : String) (s : String) : String :=
  if s = "$0" then p else if s = "$1" then q else s

def Call.inst (p q : String) (c : Call) : Call := { c with args := c.args.map (instArg p q) }

/-- Spec for one concrete call of a path operation: every argument the OS receives is one of the two
    strings the script passed, or the default file mode -/
def Call.verbatim (p q : String) (c : Call) : Prop := ∀ x ∈ c.args, x = p ∨ x = q ∨ x = "420"

/-! ## Sink inventory (E9) -/

/-- one function of the scanned packages that touches an OS at all: its uses of OS-touching
    members of Go packages (`direct`), the methods it calls on risor `os.OS` values (`mediated`,
    sorted, de-duplicated) and whether every such receiver is `GetOS(ctx)`/`os.GetDefaultOS(ctx)`
    applied to the function's own context parameter (`recvOK`) -/
structure FnEntry where
  fn : String
  direct : List String
  mediated : List String
  recvOK : Bool
  deriving DecidableEq, Repr

/-- members of Go's `os` package that are plain values, not operations on the operating system -/
def allowlist : List String :=
  ["os.ErrNotExist", "os.ErrExist", "os.ErrPermission", "os.ErrClosed", "os.ErrInvalid",
   "os.ErrNoDeadline", "os.ErrDeadlineExceeded"]

/-- the inventory as reviewed at the pinned commit; `Ties.lean` proves that the table regenerated
    from the source on this run is equal to it -/
def reviewedInventory : List FnEntry := [
  ⟨"modules/filepath.Abs", [], ["Getwd"], true⟩,
  ⟨"modules/filepath.WalkDir", [], ["WalkDir"], true⟩,
  ⟨"modules/fmt.Printf", [], ["Stdout"], true⟩,
  ⟨"modules/fmt.Println", [], ["Stdout"], true⟩,
  ⟨"modules/os.Args", [], ["Args"], true⟩,
  ⟨"modules/os.Cat", [], ["ReadFile"], true⟩,
  ⟨"modules/os.Chdir", [], ["Chdir"], true⟩,
  ⟨"modules/os.Copy", [], ["ReadFile", "WriteFile"], true⟩,
  ⟨"modules/os.Create", [], ["Create"], true⟩,
  ⟨"modules/os.CurrentUser", [], ["CurrentUser"], true⟩,
  ⟨"modules/os.Environ", [], ["Environ"], true⟩,
  ⟨"modules/os.Exit", [], ["Exit"], true⟩,
  ⟨"modules/os.Getenv", [], ["Getenv"], true⟩,
  ⟨"modules/os.Getpid", [], ["Getpid"], true⟩,
  ⟨"modules/os.Getuid", [], ["Getuid"], true⟩,
  ⟨"modules/os.Getwd", [], ["Getwd"], true⟩,
  ⟨"modules/os.Hostname", [], ["Hostname"], true⟩,
  ⟨"modules/os.LookupGid", [], ["LookupGid"], true⟩,
  ⟨"modules/os.LookupGroup", [], ["LookupGroup"], true⟩,
  ⟨"modules/os.LookupUid", [], ["LookupUid"], true⟩,
  ⟨"modules/os.LookupUser", [], ["LookupUser"], true⟩,
  ⟨"modules/os.Mkdir", [], ["Mkdir"], true⟩,
  ⟨"modules/os.MkdirAll", [], ["MkdirAll"], true⟩,
  ⟨"modules/os.MkdirTemp", [], ["MkdirTemp"], true⟩,
  ⟨"modules/os.Module", ["os.ErrClosed", "os.ErrDeadlineExceeded", "os.ErrExist", "os.ErrInvalid",
      "os.ErrNoDeadline", "os.ErrNotExist", "os.ErrPermission"], ["Stderr", "Stdin", "Stdout"], true⟩,
  ⟨"modules/os.Open", [], ["Open"], true⟩,
  ⟨"modules/os.ReadDir", [], ["Getwd", "ReadDir"], true⟩,
  ⟨"modules/os.ReadFile", [], ["ReadFile"], true⟩,
  ⟨"modules/os.Remove", [], ["Remove"], true⟩,
  ⟨"modules/os.RemoveAll", [], ["RemoveAll"], true⟩,
  ⟨"modules/os.Rename", [], ["Rename"], true⟩,
  ⟨"modules/os.Setenv", [], ["Setenv"], true⟩,
  ⟨"modules/os.Stat", [], ["Stat"], true⟩,
  ⟨"modules/os.Symlink", [], ["Symlink"], true⟩,
  ⟨"modules/os.TempDir", [], ["TempDir"], true⟩,
  ⟨"modules/os.Unsetenv", [], ["Unsetenv"], true⟩,
  ⟨"modules/os.UserCacheDir", [], ["UserCacheDir"], true⟩,
  ⟨"modules/os.UserConfigDir", [], ["UserConfigDir"], true⟩,
  ⟨"modules/os.UserHomeDir", [], ["UserHomeDir"], true⟩,
  ⟨"modules/os.WriteFile", [], ["WriteFile"], true⟩]

def lookupFn (inv : List FnEntry) (fn : String) : Option FnEntry :=
  inv.find? (fun e => e.fn == fn)

/-- uses of Go packages by the function that are not in the allowlist: each one is an
    operation that reaches the real operating system whatever the host supplied -/
def effectfulDirect (inv : List FnEntry) (fn : String) : List String :=
  match lookupFn inv fn with
  | some e => e.direct.filter (fun s => !allowlist.contains s)
  | none => []

def entryClean (e : FnEntry) : Bool :=
  e.recvOK && e.direct.all (fun s => allowlist.contains s)

/-- the (non-file) methods an operation's call list uses, as names -/
def Op.methodNames (o : Op) : List String :=
  (o.calls.filter (fun c => !c.m.isFile)).map (fun c => c.m.name)

/-- the other Go functions a compound operation's expression invokes besides `goFn`
    (`os.open(..)` before a file method, the `getenv` inside the `walk_dir` callback, …) -/
def Op.alsoFns : Op → List String
  | .fp_walk_dir | .fp_walk_dir_missing => ["modules/os.Getenv"]
  | .file_name | .file_stat | .file_position | .file_read_all | .file_read_bs | .file_read_buf
  | .file_close_twice | .file_seek | .file_read_lines | .file_iter => ["modules/os.Open"]
  | .file_write => ["modules/os.Create"]
  | .file_stdout_write => ["modules/os.Module"]
  | _ => []

/-- every OS-interface method the model says the operation calls is one the extractor saw in
    one of the Go functions the operation invokes -/
def opWithinInventory (inv : List FnEntry) (o : Op) : Bool :=
  let seen := (o.goFn :: o.alsoFns).flatMap (fun fn => match lookupFn inv fn with
    | some e => e.mediated
    | none => [])
  o.methodNames.all (fun m => seen.contains m)

/-! ## Structural facts about the VM (regenerated by the extractor) -/

/-- where `getOS` may find an OS -/
inductive Src where
  | ctx | vmField | simple
  deriving DecidableEq, Repr

structure Facts where
  /-- the order in which `VirtualMachine.getOS` returns: context value, VM field, `NewSimpleOS` -/
  getOSOrder : List Src
  /-- `initContext` stores `getOS`'s answer in the context (`os.WithOS(ctx, vm.getOS(ctx))`) -/
  initInstalls : Bool
  /-- `Run`/`RunCode` (`runCodeInternal`) and `Call` evaluate under `vm.initContext(ctx)` -/
  entryInits : Bool
  /-- `Clone` copies the `os` field -/
  cloneCopiesOS : Bool
  /-- `cloneCallAsync` hands `clone.initContext(ctx)` to the new thread -/
  spawnInits : Bool
  /-- `cloneCallSync` calls under `clone.initContext(ctx)` -/
  cloneCallInits : Bool
  /-- `importModule` evaluates the module's code with the context it was given -/
  importSameCtx : Bool
  /-- the modules' `GetOS(ctx)` is `os.GetDefaultOS(ctx)`: the context value, else `NewSimpleOS` -/
  moduleFromCtx : Bool
  /-- `object.DynamicAttr.ResolveAttr` keeps the first value it resolved (`d.value = attr`) and
      never calls the resolver again: `os.stdin`, `os.stdout`, `os.stderr` are such attributes of
      the `os` module object, which all runs and clones of a VM share -/
  dynAttrCaches : Bool
  /-- `Config.VMOpts` (risor_config.go) hands `vm.WithOS(cfg.os)` to the machine only when an OS was
      given with `risor.WithOS` (`if cfg.os != nil { … }`): an evaluation that names no OS passes
      no OS option at all -/
  cfgOSOnlyIfSet : Bool
  /-- `risor.Eval` / `EvalCode` / `Call` give `cfg.VMOpts()` to `vm.RunCodeOnVM` / `RunCode` of the
      machine named with `risor.WithVM`; `RunCode` applies the options to that machine
      (`applyOptions`) before it evaluates; the option `vm.WithOS(o)` assigns `vm.os = o` -/
  apiAppliesOpts : Bool
  deriving DecidableEq, Repr

/-- the facts as reviewed at the pinned commit (the memoisation of dynamic attributes is a defect
    with respect to this property: see `C12_counterexample_std_stream` in `Props.lean`) -/
def codeFacts : Facts :=
  { getOSOrder := [.ctx, .vmField, .simple], initInstalls := true, entryInits := true,
    cloneCopiesOS := true, spawnInits := true, cloneCallInits := true, importSameCtx := true,
    moduleFromCtx := true, dynAttrCaches := true, cfgOSOnlyIfSet := true, apiAppliesOpts := true }

/-- the same code with dynamic attributes resolved on every access -/
def fixedFacts : Facts := { codeFacts with dynAttrCaches := false }

/-! ## Impl: resolution and propagation -/

/-- the part of a `context.Context` that matters here: the value under the key `risor:os` -/
structure Ctx where
  os : Option OSId
  deriving DecidableEq, Repr

/-- the part of a `VirtualMachine` that matters here: the `os` field, and (for the file-object
    cases) which OS opened the file stored in the script's global `gf` -/
structure VM where
  os : Option OSId
  gf : Option OSId
  deriving DecidableEq, Repr

def getOSFrom (vm : VM) (ctx : Ctx) : List Src → OSId
  | [] => .real
  | .ctx :: r => match ctx.os with
    | some o => o
    | none => getOSFrom vm ctx r
  | .vmField :: r => match vm.os with
    | some o => o
    | none => getOSFrom vm ctx r
  | .simple :: _ => .real

/-- `VirtualMachine.getOS` -/
def getOS (F : Facts) (vm : VM) (ctx : Ctx) : OSId := getOSFrom vm ctx F.getOSOrder

/-- `VirtualMachine.initContext` -/
def initContext (F : Facts) (vm : VM) (ctx : Ctx) : Ctx :=
  if F.initInstalls then { os := some (getOS F vm ctx) } else ctx

/-- `VirtualMachine.Clone` (globals, hence `gf`, are shared) -/
def clone (F : Facts) (vm : VM) : VM :=
  { os := if F.cloneCopiesOS then vm.os else none, gf := vm.gf }

/-- what an evaluation through risor's top-level API (`risor.Eval` / `EvalCode` / `Call` with
    `risor.WithVM(vm)` and, when `o` is present, `risor.WithOS(o)`) does to the machine's `os` field
    before the code runs: `Config.VMOpts` turns the configuration into VM options and `RunCode`
    applies them to the *existing* machine.  With the code as it is an evaluation that names no OS
    leaves the field alone; were the option passed unconditionally, the absent OS would overwrite
    the one the machine was built with. -/
def applyCfg (F : Facts) (vm : VM) (o : Option OSId) : VM :=
  if F.apiAppliesOpts then
    match o with
    | some x => { vm with os := some x }
    | none => if F.cfgOSOnlyIfSet then vm else { vm with os := none }
  else vm

/-- the OS a module function obtains from the context it is called with (`os.GetDefaultOS`) -/
def builtinOS (F : Facts) (ctx : Ctx) : OSId :=
  if F.moduleFromCtx then ctx.os.getD .real else .real

/-- what can be observed of a run: a call on an OS-interface value of a known implementation, or
    a direct use of an OS-touching member of a Go package (which reaches the real OS) -/
inductive Obs where
  | via (os : OSId) (c : Call)
  | direct (sink : String)
  deriving DecidableEq, Repr

/-- the observation is served by an implementation the host supplied -/
def Obs.mediated : Obs → Bool
  | .via (.host _) _ => true
  | _ => false

/-- script programs, as far as the OS is concerned: operations composed sequentially and placed
    in the execution contexts the VM can create -/
inductive Prog where
  | skip
  | op (o : Op)
  | seq (a b : Prog)
  /-- a function called in the same VM with the same context: closures, callbacks of builtins
      (`list.map`, `try`, `filepath.walk_dir`), deferred calls, functions of imported modules -/
  | call (p : Prog)
  /-- `spawn(f)`, `go f()`, `f.spawn()`: `cloneCallAsync` -/
  | spawn (p : Prog)
  /-- a host module calling back through `GetCloneCallFunc`: `cloneCallSync` -/
  | cloneCall (p : Prog)
  /-- the body of a module executed by an `import` statement: `importModule` -/
  | imp (p : Prog)
  deriving Repr

/-- the three dynamic attributes of the `os` module -/
inductive Stream where
  | sin | sout | serr
  deriving DecidableEq, Repr

/-- the operation reads `os.stdin` / `os.stdout` / `os.stderr` -/
def Op.stdAttr : Op → Option Stream
  | .os_stdout_write | .os_stdout_attr | .file_stdout_write => some .sout
  | .os_stderr_write => some .serr
  | .os_stdin_read => some .sin
  | _ => none

/-- what the `os` module object remembers: for each stream attribute, the OS whose file the
    first resolution produced (`DynamicAttr.value`) -/
structure Cache where
  sin : Option OSId
  sout : Option OSId
  serr : Option OSId
  deriving DecidableEq, Repr

def Cache.empty : Cache := { sin := none, sout := none, serr := none }

def Cache.get (c : Cache) : Stream → Option OSId
  | .sin => c.sin
  | .sout => c.sout
  | .serr => c.serr

def Cache.set (c : Cache) (s : Stream) (o : OSId) : Cache :=
  match s with
  | .sin => { c with sin := some o }
  | .sout => { c with sout := some o }
  | .serr => { c with serr := some o }

def directObs (inv : List FnEntry) (o : Op) : List Obs :=
  ((o.goFn :: o.alsoFns).flatMap (effectfulDirect inv)).map Obs.direct

/-- the observations of one operation executed with context `ctx` in VM `vm`, and the module
    object's cache afterwards -/
def opObs (inv : List FnEntry) (F : Facts) (vm : VM) (ctx : Ctx) (cache : Cache) (o : Op) :
    List Obs × Cache :=
  match o.stdAttr with
  | some s =>
    match (if F.dynAttrCaches then cache.get s else none) with
    | some held =>
      -- already resolved: the resolver (hence `Stdout()` etc.) is not called, the remembered
      -- file is used whatever OS the context carries now
      (((o.calls.filter (fun c => c.m.isFile)).map (Obs.via held)) ++ directObs inv o, cache)
    | none =>
      let r := builtinOS F ctx
      (o.calls.map (Obs.via r) ++ directObs inv o, if F.dynAttrCaches then cache.set s r else cache)
  | none =>
    if o.usesGF then
      -- the operation works on the file object in the global `gf`; before any top-level run has
      -- opened it the global is nil and the script fails without touching any OS
      match vm.gf with
      | some g => ((o.calls.filter (fun c => c.m.isFile)).map (Obs.via g) ++ directObs inv o, cache)
      | none => (directObs inv o, cache)
    else (o.calls.map (Obs.via (builtinOS F ctx)) ++ directObs inv o, cache)

def exec (inv : List FnEntry) (F : Facts) (vm : VM) (ctx : Ctx) (cache : Cache) : Prog → List Obs × Cache
  | .skip => ([], cache)
  | .op o => opObs inv F vm ctx cache o
  | .seq a b =>
    let ra := exec inv F vm ctx cache a
    let rb := exec inv F vm ctx ra.2 b
    (ra.1 ++ rb.1, rb.2)
  | .call p => exec inv F vm ctx cache p
  | .spawn p =>
    let c := clone F vm
    exec inv F c (if F.spawnInits then initContext F c ctx else ctx) cache p
  | .cloneCall p =>
    let c := clone F vm
    exec inv F c (if F.cloneCallInits then initContext F c ctx else ctx) cache p
  | .imp p => exec inv F vm (if F.importSameCtx then ctx else { os := none }) cache p

/-! ## Host-level histories -/

/-- what the host does with its VMs.  `cur` designates the VM the next event applies to. -/
inductive Ev where
  /-- `vm.New(main, …)`, with `WithOS(o)` when `o` is present -/
  | new (o : Option OSId)
  /-- `vm.Run(ctx)`: the script's top-level code; `c` is the OS placed in `ctx`, if any -/
  | run (c : Option OSId)
  /-- `vm.Call(ctx, entry, nil)` -/
  | call (c : Option OSId)
  /-- `vm.Clone()`; the clone becomes current -/
  | clone
  /-- make the first VM current again -/
  | root
  /-- `vm.RunCode(ctx, main, vm.WithOS(o))` -/
  | runWith (o : OSId) (c : Option OSId)
  /-- `risor.EvalCode(ctx, main, risor.WithVM(vm), …)` (equally `risor.Eval`), with
      `risor.WithOS(o)` among the options when `o` is present: the top-level code runs on the
      *existing* machine after `Config.VMOpts()` has been applied to it -/
  | evalWith (o : Option OSId) (c : Option OSId)
  /-- `risor.Call(ctx, main, "entry", nil, risor.WithVM(vm), …)`, with `risor.WithOS(o)` when `o`
      is present: the top-level code, then `entry()`, both on the existing machine -/
  | apiCall (o : Option OSId) (c : Option OSId)
  /-- Go code of the host fires a script callback *later and with a context of its own*: it kept
      the clone-call function (`object.GetCloneCallFunc`, "safe to be called from a different
      goroutine") that a builtin received during an earlier top-level run of the current VM, and
      now calls `entry` through it with a context that does not derive from any evaluation
      context (`r.Context()` of an http request, a scheduler's context, `context.Background()`);
      `c` is the OS that context carries, if any.  `cloneCallSync` clones the VM and calls the
      function under `clone.initContext(ctx)`. -/
  | callback (c : Option OSId)
  deriving DecidableEq, Repr

/-- a script: the program `body` is evaluated by the top-level code and again by every call of
    `entry`; when `pre` is set the top-level code first executes `gf := os.open(<file>)` -/
structure Script where
  pre : Bool
  body : Prog

structure HState where
  pool : List VM
  cur : Nat
  /-- the one `os` module object all VMs of the history share (same globals) -/
  cache : Cache
  deriving Repr

def HState.vm (s : HState) : VM := s.pool.getD s.cur { os := none, gf := none }

def HState.setVM (s : HState) (v : VM) : HState := { s with pool := s.pool.set s.cur v }

def entryCtx (F : Facts) (vm : VM) (c : Option OSId) : Ctx :=
  if F.entryInits then initContext F vm { os := c } else { os := c }

def openGF : Call := ⟨.open, ["$gf"]⟩

/-- the context a function runs under when Go code calls it through the clone-call function of
    `vm` with the context `{ os := c }` of its own: `cloneCallSync` -/
def foreignCtx (F : Facts) (vm : VM) (c : Option OSId) : Ctx :=
  if F.cloneCallInits then initContext F (clone F vm) { os := c } else { os := c }

/-- top-level run of the script on VM `vm` with host context OS `c` -/
def runTop (inv : List FnEntry) (F : Facts) (sc : Script) (vm : VM) (c : Option OSId) (cache : Cache) :
    VM × List Obs × Cache :=
  let ctx := entryCtx F vm c
  if sc.pre then
    let o := builtinOS F ctx
    let vm' := { vm with gf := some o }
    let r := exec inv F vm' ctx cache sc.body
    (vm', Obs.via o openGF :: (effectfulDirect inv "modules/os.Open").map Obs.direct ++ r.1, r.2)
  else
    let r := exec inv F vm ctx cache sc.body
    (vm, r.1, r.2)

/-- one host event: the new state and, for the events that execute script code, its trace -/
def step (inv : List FnEntry) (F : Facts) (sc : Script) (s : HState) : Ev → HState × Option (List Obs)
  | .new o => ({ pool := [{ os := o, gf := none }], cur := 0, cache := s.cache }, none)
  | .run c =>
    let r := runTop inv F sc s.vm c s.cache
    ({ s.setVM r.1 with cache := r.2.2 }, some r.2.1)
  | .call c =>
    let r := exec inv F s.vm (entryCtx F s.vm c) s.cache sc.body
    ({ s with cache := r.2 }, some r.1)
  | .clone => ({ s with pool := s.pool ++ [clone F s.vm], cur := s.pool.length }, none)
  | .root => ({ s with cur := 0 }, none)
  | .runWith o c =>
    let vm0 := { s.vm with os := some o }
    let r := runTop inv F sc vm0 c s.cache
    ({ s.setVM r.1 with cache := r.2.2 }, some r.2.1)
  | .evalWith o c =>
    let r := runTop inv F sc (applyCfg F s.vm o) c s.cache
    ({ s.setVM r.1 with cache := r.2.2 }, some r.2.1)
  | .apiCall o c =>
    let r := runTop inv F sc (applyCfg F s.vm o) c s.cache
    let r2 := exec inv F r.1 (entryCtx F r.1 c) r.2.2 sc.body
    ({ s.setVM r.1 with cache := r2.2 }, some (r.2.1 ++ r2.1))
  | .callback c =>
    let r := exec inv F (clone F s.vm) (foreignCtx F s.vm c) s.cache sc.body
    ({ s with cache := r.2 }, some r.1)

def runHist (inv : List FnEntry) (F : Facts) (sc : Script) : HState → List Ev → List (List Obs)
  | _, [] => []
  | s, e :: es =>
    match step inv F sc s e with
    | (s', some t) => t :: runHist inv F sc s' es
    | (s', none) => runHist inv F sc s' es

/-- the module object's cache as each executing event finds it -/
def cachesBefore (inv : List FnEntry) (F : Facts) (sc : Script) : HState → List Ev → List Cache
  | _, [] => []
  | s, e :: es =>
    match step inv F sc s e with
    | (s', some _) => s.cache :: cachesBefore inv F sc s' es
    | (s', none) => cachesBefore inv F sc s' es

def initState : HState := { pool := [], cur := 0, cache := Cache.empty }

/-! ## Spec -/

/-- Spec-side bookkeeping, independent of how the code propagates anything: for every VM, the
    OS the host supplied for it (given with `WithOS` at creation or on a later `RunCode`; a clone
    of a VM counts as supplied with the same OS — "this holds equally in cloned VMs"), and
    whether the file in `gf` was opened by a run for which the host had supplied an OS -/
structure SpecVM where
  supplied : Option OSId
  gfOK : Bool
  deriving DecidableEq, Repr

structure SpecState where
  pool : List SpecVM
  cur : Nat

def SpecState.vm (s : SpecState) : SpecVM := s.pool.getD s.cur { supplied := none, gfOK := true }

/-- the implementations the host supplied for a run: with the option and/or in the context -/
def suppliedFor (v : SpecVM) (c : Option OSId) : List OSId :=
  (c.toList ++ v.supplied.toList).filter OSId.isHost

def specStep (sc : Script) (s : SpecState) : Ev → SpecState × Option (List OSId × Bool)
  | .new o => ({ pool := [{ supplied := o, gfOK := true }], cur := 0 }, none)
  | .run c =>
    let acc := suppliedFor s.vm c
    let v' := if sc.pre then { s.vm with gfOK := !acc.isEmpty } else s.vm
    ({ s with pool := s.pool.set s.cur v' }, some (acc, v'.gfOK))
  | .call c => (s, some (suppliedFor s.vm c, s.vm.gfOK))
  | .clone => ({ pool := s.pool ++ [s.vm], cur := s.pool.length }, none)
  | .root => ({ s with cur := 0 }, none)
  | .runWith o c =>
    let v0 := { s.vm with supplied := some o }
    let acc := suppliedFor v0 c
    let v' := if sc.pre then { v0 with gfOK := !acc.isEmpty } else v0
    ({ s with pool := s.pool.set s.cur v' }, some (acc, v'.gfOK))
  | .evalWith o c | .apiCall o c =>
    -- an evaluation that names an OS supplies it to the machine from now on; one that names
    -- none leaves what the host supplied for the machine earlier in force
    let v0 := match o with
      | some x => { s.vm with supplied := some x }
      | none => s.vm
    let acc := suppliedFor v0 c
    let v' := if sc.pre then { v0 with gfOK := !acc.isEmpty } else v0
    ({ s with pool := s.pool.set s.cur v' }, some (acc, v'.gfOK))
  -- a callback fired by the host's Go code: supplied are the OS of the machine (the clone the
  -- callback runs in inherits it) and the OS in the context the host fires it with
  | .callback c => (s, some (suppliedFor s.vm c, s.vm.gfOK))

/-- for every executing event: the set of implementations the host supplied for it, and whether
    the property applies to it at all (something was supplied, and the file in `gf`, if used,
    was opened under a supplied OS) -/
def specHist (sc : Script) : SpecState → List Ev → List (List OSId × Bool)
  | _, [] => []
  | s, e :: es =>
    match specStep sc s e with
    | (s', some r) => r :: specHist sc s' es
    | (s', none) => specHist sc s' es

def specInit : SpecState := { pool := [], cur := 0 }

/-- the observation is a call on an implementation the host supplied for this run (`acc`).
    `gfFile`: the script works on the file object `gf` that the top-level code of an earlier (or
    this) run opened; calls on that file are served by whichever supplied implementation opened it -/
def Obs.mediatedBy (acc : List OSId) (gfFile : Bool) : Obs → Bool
  | .via o c => o.isHost && (acc.contains o || (gfFile && c.m.isFile))
  | .direct _ => false

/-- **Spec** for one run: if the host supplied an OS for it (`acc` non-empty, and the file in `gf`,
    if the script uses it, was opened under a supplied OS), every observation is a call on an
    implementation the host supplied for this run; nothing reaches the real operating system -/
def specOK (acc : List OSId) (gfOK : Bool) (gfFile : Bool) (t : List Obs) : Bool :=
  acc.isEmpty || !gfOK || t.all (Obs.mediatedBy acc gfFile)

/-- the streams a program reads through `os.stdin` / `os.stdout` / `os.stderr` -/
def Prog.streams : Prog → List Stream
  | .skip => []
  | .op o => o.stdAttr.toList
  | .seq a b => a.streams ++ b.streams
  | .call p | .spawn p | .cloneCall p | .imp p => p.streams

/-- **Guard of the known finding `C12-std-stream-attr-cached`**: the run reads a standard-stream
    attribute of the `os` module that an earlier run already resolved under an OS which is not
    one the host supplied for *this* run -/
def staleStd (acc : List OSId) (cache : Cache) (p : Prog) : Bool :=
  p.streams.any (fun s => match cache.get s with
    | some held => !acc.contains held
    | none => false)

/-- Spec verdict for every executing event of a history -/
def specVerdicts (inv : List FnEntry) (F : Facts) (sc : Script) (evs : List Ev) : List Bool :=
  (List.zip (specHist sc specInit evs) (runHist inv F sc initState evs)).map
    (fun (p : (List OSId × Bool) × List Obs) => specOK p.1.1 p.1.2 sc.pre p.2)

end Risor.C12
