import RisorModel.C12.Lemmas
/-!
C12 — property theorems.  "A host-supplied OS mediates all file, environment, process and stdio
access … equally in spawned goroutines, cloned VMs and imported modules."

Everything below is about the model of `Model.lean` instantiated with the reviewed facts
(`codeFacts`) and the reviewed sink inventory (`reviewedInventory`); `Ties.lean` proves that both
equal what the extractor read from the source on this run, and the correspondence harness compares
the model with the real code on every generated history.  All statements are for **all** programs
(any nesting depth of call / callback / defer / spawn / clone-call / import), **all** VMs and
**all** host histories of any length; nothing is bounded.
-/
namespace Risor.C12

/-! ## The sink inventory -/

/-- **no_unmediated_sink.**  No function of modules/os, modules/filepath, modules/fmt, builtins or
    object/file*.go uses an OS-touching member of Go's os, io/ioutil, syscall, os/exec, os/user,
    os/signal, log, path/filepath (Abs, Glob, Walk, …) or fmt (Print…, Scan…) packages, nor
    `NewSimpleOS`, outside the reviewed allowlist (the `os.Err*` error values), and every method it
    calls on an OS-interface value is called on `GetOS(ctx)` / `os.GetDefaultOS(ctx)` of its own
    context parameter.  (Complete finite table, hence `decide`.) -/
theorem no_unmediated_sink : reviewedInventory.all entryClean = true := by decide

/-- every OS-interface method the model lists for an operation (`Op.calls`) is one the extractor
    found in the operation's Go function: the call lists are not invented -/
theorem calls_within_inventory : allOps.all (opWithinInventory reviewedInventory) = true := by decide

/-- `allOps` is the complete list of operations -/
theorem allOps_complete (o : Op) : o ∈ allOps := by
  cases o <;> decide

/-- consequently no operation of any program produces a direct-sink observation -/
theorem no_direct_observation (o : Op) : directObs reviewedInventory o = [] :=
  directObs_nil reviewedInventory no_unmediated_sink o

/-! ## Path arguments are taken literally -/

/-- `shellOps` lists exactly the operations `Op.plain` maps to another operation -/
theorem shellOps_complete (o : Op) : o ∈ shellOps ∨ o.plain = o := by
  cases o <;> first | (right; rfl) | (left; decide)

/-- **shell_as_plain.**  An argument made of shell metacharacters — a wildcard `*` `?` `[..]`, a
    `$NAME` / `${NAME}` reference, a leading `~` — is not special to any path-taking function
    (`cd`, `ls`, `cat`, `cp` source and destination, `open`, `os.chdir`, `os.read_dir`,
    `os.read_file`, `os.open`, `os.stat`): the function is the same Go function and makes exactly the
    calls on the OS, with the same symbolic arguments, as with an ordinary path — no listing, no
    environment lookup, no home-directory lookup in between. -/
theorem shell_as_plain :
    shellOps.all (fun o => o.calls == o.plain.calls && o.goFn == o.plain.goFn) = true := by decide

/-- the call list of a metacharacter operation mentions the script's arguments only symbolically:
    every argument of every call is `$0`, `$1` or the default file mode -/
theorem shell_args_symbolic :
    shellOps.all (fun o => o.calls.all fun c => c.args.all fun x => x == "$0" || x == "$1" || x == "420") = true := by
  decide

theorem instArg_cases (p q x : String) (h : (x == "$0" || x == "$1" || x == "420") = true) :
    instArg p q x = p ∨ instArg p q x = q ∨ instArg p q x = "420" := by
  unfold instArg
  by_cases h0 : x = "$0"
  · simp [h0]
  · by_cases h1 : x = "$1"
    · simp [h1]
    · have h2 : x = "420" := by simpa [h0, h1] using h
      simp [h2]

/-- **shell_args_verbatim.**  For every metacharacter operation and **all** strings `p`, `q` the
    script passes as its arguments: every argument of every call the host's OS receives is `p`, `q`
    or the default file mode — never a string produced from a directory listing, an environment or
    a home directory (of the real process or of anything else). -/
theorem shell_args_verbatim (o : Op) (ho : o ∈ shellOps) (p q : String) :
    ∀ c ∈ o.calls.map (Call.inst p q), Call.verbatim p q c := by
  intro c hc x hx
  have hs := shell_args_symbolic
  rw [List.all_eq_true] at hs
  have h1 := hs o ho
  rw [List.all_eq_true] at h1
  obtain ⟨c0, hc0, rfl⟩ := List.mem_map.mp hc
  have h2 := h1 c0 hc0
  rw [List.all_eq_true] at h2
  simp only [Call.inst, List.mem_map] at hx
  obtain ⟨x0, hx0, rfl⟩ := hx
  exact instArg_cases p q x0 (h2 x0 hx0)

/-- **shell_first_arg_passed.**  … and the path the script passed does reach the OS: the first call
    of every metacharacter operation carries the operation's first argument `p` itself. -/
theorem shell_first_arg_passed :
    shellOps.all (fun o => match o.calls with
      | c :: _ => c.args.head? == some "$0"
      | [] => false) = true := by decide

/-- a metacharacter operation, like every operation, produces no direct-sink observation and calls
    only methods the extractor found in its Go function -/
theorem shell_within_inventory : shellOps.all (opWithinInventory reviewedInventory) = true := by decide

/-! ## Resolution and propagation -/

/-- `getOS` precedence: the OS in the context, else the one given with `WithOS`, else the real one -/
theorem getOS_precedence (vm : VM) (ctx : Ctx) :
    getOS codeFacts vm ctx = match ctx.os with
      | some o => o
      | none => match vm.os with
        | some o => o
        | none => .real := getOS_code vm ctx

/-- a clone has the OS its original was given with `WithOS` -/
theorem clone_copies_os (vm : VM) : (clone codeFacts vm).os = vm.os := clone_os vm

/-- once `initContext` has run, re-initialising in any other VM (what spawn and clone-call do)
    leaves the OS in the context unchanged -/
theorem initContext_idempotent (vm vm' : VM) (ctx : Ctx) :
    initContext codeFacts vm' (initContext codeFacts vm ctx) = initContext codeFacts vm ctx := by
  have h := initContext_os vm ctx
  have h2 := initContext_of_ctx vm' (initContext codeFacts vm ctx) _ h
  cases hc : initContext codeFacts vm' (initContext codeFacts vm ctx) with
  | mk o =>
    cases hd : initContext codeFacts vm ctx with
    | mk o' => simp_all

/-- **os_propagates.**  Let a run be started on VM `vm` by `Run`/`RunCode`/`Call` with host context
    OS `c`, and let `r = getOS vm c` be the OS that resolves to.  For every program `p`, whatever
    it nests (closures, callbacks, deferred calls, `spawn`/`go`, clone-calls, imported modules, to
    any depth), every observation is a call on `r`, or a file call on the OS that opened the file
    in `gf`, or a call on the OS the `os` module object remembered for a stream attribute that `p`
    reads.  Induction over the thread-creation tree (`exec_closed`). -/
theorem os_propagates (p : Prog) (vm : VM) (c : Option OSId) (cache : Cache) :
    ∀ ob ∈ (exec reviewedInventory codeFacts vm (entryCtx codeFacts vm c) cache p).1,
      ObsIn (fun o call => o = getOS codeFacts vm { os := c } ∨
        (vm.gf = some o ∧ call.m.isFile = true) ∨ (∃ s ∈ p.streams, cache.get s = some o)) ob := by
  have hctx : (entryCtx codeFacts vm c).os = some (getOS codeFacts vm { os := c }) := by
    simp [entryCtx, codeFacts, initContext]
  exact exec_closed reviewedInventory no_unmediated_sink _ (getOS codeFacts vm { os := c })
    (fun _ => Or.inl rfl) p vm _ cache hctx
    (fun g hg c hc => Or.inr (Or.inl ⟨hg, hc⟩))
    (fun s hs h hget _ => Or.inr (Or.inr ⟨s, hs, hget⟩))

/-- on a fresh `os` module object and with no shared file, *every* observation of every program is
    a call on the resolved OS — in spawned goroutines, clone-calls and imported modules alike -/
theorem os_propagates_fresh (p : Prog) (vm : VM) (c : Option OSId) (hgf : vm.gf = none) :
    ∀ ob ∈ (exec reviewedInventory codeFacts vm (entryCtx codeFacts vm c) Cache.empty p).1,
      ObsIn (fun o _ => o = getOS codeFacts vm { os := c }) ob := by
  have hctx : (entryCtx codeFacts vm c).os = some (getOS codeFacts vm { os := c }) := by
    simp [entryCtx, codeFacts, initContext]
  exact exec_closed reviewedInventory no_unmediated_sink _ (getOS codeFacts vm { os := c })
    (fun _ => rfl) p vm _ Cache.empty hctx
    (fun g hg => by rw [hgf] at hg; cases hg)
    (fun s _ h hget => by cases s <;> simp [Cache.get, Cache.empty] at hget)

/-! ## The full statement, its counterexamples, the guard -/

/-- absent, or one of the host's implementation objects (the host never hands out "the real OS") -/
def hostOpt : Option OSId → Bool
  | none => true
  | some o => o.isHost

/-- every OS the event mentions is one of the host's implementation objects -/
def Ev.wf : Ev → Bool
  | .new o => hostOpt o
  | .run c => hostOpt c
  | .call c => hostOpt c
  | .runWith o c => o.isHost && hostOpt c
  | .evalWith o c => hostOpt o && hostOpt c
  | .apiCall o c => hostOpt o && hostOpt c
  | .callback c => hostOpt c
  | .clone => true
  | .root => true

/-- **The property in full**: in every host history, every run for which the host supplied an OS
    (with `WithOS`, inherited by clones, or in the context) is served by an implementation the host
    supplied *for that run* and never reaches the real operating system — Spec verdict `true` for
    every executing event. -/
def C12_full : Prop :=
  ∀ (sc : Script) (evs : List Ev), evs.all Ev.wf = true →
    (specVerdicts reviewedInventory codeFacts sc evs).all id = true

/-- the witness: a VM whose first run had no OS supplied and evaluated `os.stdout`; the same VM is
    then run again with `WithOS(B)` -/
def cexScript : Script := { pre := false, body := .op .os_stdout_write }
def cexReal : List Ev := [.new none, .run none, .runWith (.host 1) none]
def cexOther : List Ev := [.new none, .run (some (.host 0)), .call (some (.host 1))]

/-- in the second run of `cexReal` the write lands on the **real** stdout although `B` was supplied -/
theorem C12_counterexample_trace :
    runHist reviewedInventory codeFacts cexScript initState cexReal =
      [[.via .real ⟨.stdout, []⟩, .via .real ⟨.fWrite, ["x"]⟩], [.via .real ⟨.fWrite, ["x"]⟩]] := by
  decide

/-- **The unchanged code violates the full statement** (`os.stdin/stdout/stderr` are dynamic
    attributes of the `os` module object whose first resolution is remembered: a later run, for
    which the host supplies an OS, writes to the stream of the earlier run's OS — here the real
    process's stdout).  Replayed on the Go code: findings/known/C12-std-stream-attr-cached.replay. -/
theorem C12_counterexample_std_stream : ¬ C12_full := by
  intro h
  have := h cexScript cexReal (by decide)
  revert this
  decide

/-- second witness: both runs are supplied (A, then B in the context); the second run's write is
    served by A, an implementation not supplied for that run -/
theorem C12_counterexample_other_os :
    specVerdicts reviewedInventory codeFacts cexScript cexOther = [true, false] := by decide

/-- both witnesses satisfy the guard of the known finding at the failing event -/
theorem C12_counterexample_guard :
    staleStd [.host 1] { sin := none, sout := some .real, serr := none } cexScript.body = true ∧
    staleStd [.host 1] { sin := none, sout := some (.host 0), serr := none } cexScript.body = true := by
  decide

/-- the defect is exactly the memoisation: with dynamic attributes resolved on every access the
    two witnesses are served by the OS supplied for each run -/
theorem C12_witnesses_fixed :
    specVerdicts reviewedInventory fixedFacts cexScript cexReal = [true, true] ∧
    specVerdicts reviewedInventory fixedFacts cexScript cexOther = [true, true] := by decide

/-! ## What holds for every run: the partial theorem under the guard -/

/-- the implementations the host supplied for a run on `vm` with context OS `c` -/
def accOf (vm : VM) (c : Option OSId) : List OSId :=
  suppliedFor { supplied := vm.os, gfOK := true } c

theorem getOS_mem_acc (vm : VM) (c : Option OSId) (hc : hostOpt c = true) (hv : hostOpt vm.os = true)
    (hne : accOf vm c ≠ []) :
    (getOS codeFacts vm { os := c }).isHost = true ∧ getOS codeFacts vm { os := c } ∈ accOf vm c := by
  rw [getOS_code]
  cases c with
  | some o =>
    simp only [hostOpt] at hc
    simp [accOf, suppliedFor, hc]
  | none =>
    cases hvo : vm.os with
    | some o =>
      rw [hvo] at hv
      simp only [hostOpt] at hv
      simp [accOf, suppliedFor, hvo, hv]
    | none => simp [accOf, suppliedFor, hvo] at hne

/-- **C12_partial_run.**  For every VM, every host context and every program (any nesting): if the
    host supplied an OS for the run (with `WithOS`, possibly inherited through `Clone`, or in the
    context), the file in `gf` (if any) was opened by a supplied implementation, and the guard
    `staleStd` is false (no stream attribute the program reads is remembered from a run under an
    OS that is not supplied now), then every observation of the run — top level, spawned
    goroutines, clone-calls, imported modules — is a call on an implementation the host supplied
    for this run; nothing reaches the real operating system. -/
theorem C12_partial_run (p : Prog) (vm : VM) (c : Option OSId) (cache : Cache) (gfFile : Bool)
    (hc : hostOpt c = true) (hv : hostOpt vm.os = true) (hne : accOf vm c ≠ [])
    (hgf : ∀ g, vm.gf = some g → g.isHost = true ∧ (g ∈ accOf vm c ∨ gfFile = true))
    (hguard : staleStd (accOf vm c) cache p = false)
    (hcache : ∀ s ∈ p.streams, ∀ h, cache.get s = some h → h.isHost = true) :
    (exec reviewedInventory codeFacts vm (entryCtx codeFacts vm c) cache p).1.all
      (Obs.mediatedBy (accOf vm c) gfFile) = true := by
  have hr := getOS_mem_acc vm c hc hv hne
  have hctx : (entryCtx codeFacts vm c).os = some (getOS codeFacts vm { os := c }) := by
    simp [entryCtx, codeFacts, initContext]
  have key := exec_closed reviewedInventory no_unmediated_sink
    (fun o call => o.isHost = true ∧ (o ∈ accOf vm c ∨ (gfFile = true ∧ call.m.isFile = true)))
    (getOS codeFacts vm { os := c }) (fun _ => ⟨hr.1, Or.inl hr.2⟩) p vm _ cache hctx
    (fun g hg call hcall => ⟨(hgf g hg).1, (hgf g hg).2.elim Or.inl (fun h => Or.inr ⟨h, hcall⟩)⟩)
    (fun s hs h hget _ => by
      refine ⟨hcache s hs h hget, Or.inl ?_⟩
      simp only [staleStd, List.any_eq_false] at hguard
      have := hguard s hs
      simp only [hget] at this
      simpa using this)
  rw [List.all_eq_true]
  intro ob hob
  have := key ob hob
  cases ob with
  | direct s => exact absurd this (by simp [ObsIn])
  | via o call =>
    simp only [ObsIn] at this
    simp only [Obs.mediatedBy, Bool.and_eq_true, Bool.or_eq_true, List.contains_eq_mem,
      decide_eq_true_eq]
    exact ⟨this.1, this.2.elim Or.inl (fun h => Or.inr ⟨h.1, h.2⟩)⟩

/-! ## A machine reused through risor's top-level API, and callbacks fired by the host later -/

/-- **eval_keeps_os.**  `risor.Eval` / `EvalCode` / `Call` on an existing machine (`risor.WithVM`)
    without `risor.WithOS` leave the machine exactly as it was: the OS it was built with (or was
    given by an earlier evaluation) stays in force.  With `risor.WithOS(o)` the machine's OS
    becomes `o` and nothing else changes. -/
theorem eval_keeps_os (vm : VM) :
    applyCfg codeFacts vm none = vm ∧
    ∀ o, (applyCfg codeFacts vm (some o)).os = some o ∧ (applyCfg codeFacts vm (some o)).gf = vm.gf := by
  refine ⟨rfl, fun o => ⟨rfl, rfl⟩⟩

/-- **C12_partial_eval.**  For every machine, however it came by its OS, every program (any nesting)
    and every host context: an evaluation through `risor.Eval` / `EvalCode` / `Call` with
    `risor.WithVM(vm)` that names **no** OS is served exactly as a plain run of that machine would
    be — under the hypotheses of `C12_partial_run` every observation, in every execution context,
    is a call on an implementation the host supplied (the machine's own OS or the one in the
    context); an OS given to the machine earlier is not lost by re-entering it. -/
theorem C12_partial_eval (p : Prog) (vm : VM) (c : Option OSId) (cache : Cache) (gfFile : Bool)
    (hc : hostOpt c = true) (hv : hostOpt vm.os = true) (hne : accOf vm c ≠ [])
    (hgf : ∀ g, vm.gf = some g → g.isHost = true ∧ (g ∈ accOf vm c ∨ gfFile = true))
    (hguard : staleStd (accOf vm c) cache p = false)
    (hcache : ∀ s ∈ p.streams, ∀ h, cache.get s = some h → h.isHost = true) :
    (exec reviewedInventory codeFacts (applyCfg codeFacts vm none)
        (entryCtx codeFacts (applyCfg codeFacts vm none) c) cache p).1.all
      (Obs.mediatedBy (accOf vm c) gfFile) = true := by
  rw [(eval_keeps_os vm).1]
  exact C12_partial_run p vm c cache gfFile hc hv hne hgf hguard hcache

/-- the context of a callback that Go code fires through the clone-call function of `vm` with a
    context of its own carries the OS that context holds, else the machine's, else the real one —
    never "nothing": `clone.initContext` resolves it anew for every such call -/
theorem foreignCtx_os (vm : VM) (c : Option OSId) :
    (foreignCtx codeFacts vm c).os = some (getOS codeFacts vm { os := c }) := by
  rw [foreignCtx_code]
  simp [entryCtx, codeFacts, initContext]

/-- **C12_partial_callback.**  A script function that the host's Go code calls through the
    clone-call function (`object.GetCloneCallFunc`) of machine `vm` — at any later time, from any
    goroutine, with **any context of its own** (one that does not derive from an evaluation context
    and carries the OS `c` or none: an http request's context, a scheduler's, `Background()`): if the
    host supplied an OS (the machine's `WithOS`, which the clone inherits, or in that context) then
    under the hypotheses of `C12_partial_run` every observation of the callback and of everything it
    calls, spawns, clone-calls or imports is a call on a supplied implementation. -/
theorem C12_partial_callback (p : Prog) (vm : VM) (c : Option OSId) (cache : Cache) (gfFile : Bool)
    (hc : hostOpt c = true) (hv : hostOpt vm.os = true) (hne : accOf vm c ≠ [])
    (hgf : ∀ g, vm.gf = some g → g.isHost = true ∧ (g ∈ accOf vm c ∨ gfFile = true))
    (hguard : staleStd (accOf vm c) cache p = false)
    (hcache : ∀ s ∈ p.streams, ∀ h, cache.get s = some h → h.isHost = true) :
    (exec reviewedInventory codeFacts (clone codeFacts vm) (foreignCtx codeFacts vm c) cache p).1.all
      (Obs.mediatedBy (accOf vm c) gfFile) = true := by
  rw [foreignCtx_code, clone_code]
  exact C12_partial_run p vm c cache gfFile hc hv hne hgf hguard hcache

/-! ## Histories: nothing ever reaches the real OS when every run is supplied -/

/-- pool, shared file and module cache hold nothing but host implementation objects -/
def StateOK (s : HState) : Prop :=
  (∀ v ∈ s.pool, hostOpt v.os = true ∧ hostOpt v.gf = true) ∧
  (∀ st h, s.cache.get st = some h → h.isHost = true)

/-- the host supplied an OS for the executing event reached in state `s` -/
def suppliedEv (s : HState) : Ev → Bool
  | .run c => c.isSome || s.vm.os.isSome
  | .call c => c.isSome || s.vm.os.isSome
  | .evalWith o c => o.isSome || c.isSome || s.vm.os.isSome
  | .apiCall o c => o.isSome || c.isSome || s.vm.os.isSome
  | .callback c => c.isSome || s.vm.os.isSome
  | _ => true

/-- every executing event of the history is supplied (evaluated along the history, since whether
    the current VM has an OS depends on how it was created, cloned and re-optioned before) -/
def allSupplied (sc : Script) : HState → List Ev → Bool
  | _, [] => true
  | s, e :: es => suppliedEv s e && allSupplied sc (step reviewedInventory codeFacts sc s e).1 es

theorem vm_ok (s : HState) (h : StateOK s) : hostOpt s.vm.os = true ∧ hostOpt s.vm.gf = true := by
  unfold HState.vm
  rw [List.getD_eq_getElem?_getD]
  cases hg : s.pool[s.cur]? with
  | none => simp [hostOpt]
  | some v => exact h.1 v (List.mem_of_getElem? hg)

theorem resolved_host (vm : VM) (c : Option OSId) (hc : hostOpt c = true) (hv : hostOpt vm.os = true)
    (hs : (c.isSome || vm.os.isSome) = true) : (getOS codeFacts vm { os := c }).isHost = true := by
  rw [getOS_code]
  cases c with
  | some o => simpa [hostOpt] using hc
  | none =>
    cases hvo : vm.os with
    | some o => rw [hvo] at hv; simpa [hostOpt] using hv
    | none => simp [hvo] at hs

theorem exec_host (p : Prog) (vm : VM) (c : Option OSId) (cache : Cache)
    (hr : (getOS codeFacts vm { os := c }).isHost = true) (hgf : hostOpt vm.gf = true)
    (hcache : ∀ st h, cache.get st = some h → h.isHost = true) :
    (∀ ob ∈ (exec reviewedInventory codeFacts vm (entryCtx codeFacts vm c) cache p).1,
        ObsIn (fun o _ => o.isHost = true) ob) ∧
    (∀ st h, (exec reviewedInventory codeFacts vm (entryCtx codeFacts vm c) cache p).2.get st = some h →
        h.isHost = true) := by
  have hctx : (entryCtx codeFacts vm c).os = some (getOS codeFacts vm { os := c }) := by
    simp [entryCtx, codeFacts, initContext]
  refine ⟨exec_closed reviewedInventory no_unmediated_sink _ _ (fun _ => hr) p vm _ cache hctx
    (fun g hg _ _ => by rw [hg] at hgf; simpa [hostOpt] using hgf)
    (fun s _ h hget _ => hcache s h hget), ?_⟩
  intro st h hget
  cases exec_cache_mono reviewedInventory _ p vm _ cache hctx st h hget with
  | inl h1 => exact hcache st h h1
  | inr h1 => rw [h1]; exact hr

theorem setVM_ok (s : HState) (v : VM) (cache : Cache) (h : StateOK s)
    (hv : hostOpt v.os = true ∧ hostOpt v.gf = true)
    (hc : ∀ st h, cache.get st = some h → h.isHost = true) :
    StateOK { s.setVM v with cache := cache } := by
  refine ⟨?_, hc⟩
  intro w hw
  simp only [HState.setVM] at hw
  cases List.mem_or_eq_of_mem_set hw with
  | inl h1 => exact h.1 w h1
  | inr h1 => rw [h1]; exact hv

theorem runTop_host (sc : Script) (vm : VM) (c : Option OSId) (cache : Cache)
    (hr : (getOS codeFacts vm { os := c }).isHost = true)
    (hv : hostOpt vm.os = true ∧ hostOpt vm.gf = true)
    (hcache : ∀ st h, cache.get st = some h → h.isHost = true) :
    (∀ ob ∈ (runTop reviewedInventory codeFacts sc vm c cache).2.1, ObsIn (fun o _ => o.isHost = true) ob) ∧
    (hostOpt (runTop reviewedInventory codeFacts sc vm c cache).1.os = true ∧
      hostOpt (runTop reviewedInventory codeFacts sc vm c cache).1.gf = true) ∧
    (∀ st h, (runTop reviewedInventory codeFacts sc vm c cache).2.2.get st = some h → h.isHost = true) := by
  have hb : builtinOS codeFacts (entryCtx codeFacts vm c) = getOS codeFacts vm { os := c } := by
    simp [builtinOS, entryCtx, codeFacts, initContext]
  unfold runTop
  by_cases hp : sc.pre = true
  · simp only [hp, if_true]
    have hvm' : getOS codeFacts { vm with gf := some (builtinOS codeFacts (entryCtx codeFacts vm c)) } { os := c }
        = getOS codeFacts vm { os := c } := by simp [getOS_code]
    have hctx' : entryCtx codeFacts { vm with gf := some (builtinOS codeFacts (entryCtx codeFacts vm c)) } c
        = entryCtx codeFacts vm c := by simp [entryCtx, initContext, codeFacts, getOS, getOSFrom]
    have he := exec_host sc.body { vm with gf := some (builtinOS codeFacts (entryCtx codeFacts vm c)) } c cache
      (by rw [hvm']; exact hr) (by simp [hostOpt, hb, hr]) hcache
    rw [hctx'] at he
    refine ⟨?_, ⟨hv.1, by simp [hostOpt, hb, hr]⟩, he.2⟩
    intro ob hob
    have hob' : ob = Obs.via (builtinOS codeFacts (entryCtx codeFacts vm c)) openGF ∨
        ob ∈ (exec reviewedInventory codeFacts
          { vm with gf := some (builtinOS codeFacts (entryCtx codeFacts vm c)) }
          (entryCtx codeFacts vm c) cache sc.body).1 := by
      simpa [effectfulDirect_nil reviewedInventory no_unmediated_sink] using hob
    cases hob' with
    | inl h1 => rw [h1, hb]; exact hr
    | inr h1 => exact he.1 ob h1
  · have hp' : sc.pre = false := by simpa using hp
    simp only [hp', Bool.false_eq_true, if_false]
    have he := exec_host sc.body vm c cache hr hv.2 hcache
    exact ⟨he.1, hv, he.2⟩

/-- a top-level run through the API (`applyCfg` first) on a clean machine for which something is
    supplied: only calls on host objects, and machine and module cache stay clean -/
theorem runTop_cfg_host (sc : Script) (vm : VM) (o c : Option OSId) (cache : Cache)
    (hv : hostOpt vm.os = true ∧ hostOpt vm.gf = true) (ho : hostOpt o = true) (hc : hostOpt c = true)
    (hs : (o.isSome || c.isSome || vm.os.isSome) = true)
    (hcache : ∀ st h, cache.get st = some h → h.isHost = true) :
    (getOS codeFacts (applyCfg codeFacts vm o) { os := c }).isHost = true ∧
    (∀ ob ∈ (runTop reviewedInventory codeFacts sc (applyCfg codeFacts vm o) c cache).2.1,
        ObsIn (fun o _ => o.isHost = true) ob) ∧
    (hostOpt (runTop reviewedInventory codeFacts sc (applyCfg codeFacts vm o) c cache).1.os = true ∧
      hostOpt (runTop reviewedInventory codeFacts sc (applyCfg codeFacts vm o) c cache).1.gf = true) ∧
    (∀ st h, (runTop reviewedInventory codeFacts sc (applyCfg codeFacts vm o) c cache).2.2.get st = some h →
        h.isHost = true) := by
  cases o with
  | none =>
    have hr := resolved_host vm c hc hv.1 (by simpa using hs)
    exact ⟨hr, runTop_host sc vm c cache hr hv hcache⟩
  | some x =>
    have hx : x.isHost = true := by simpa [hostOpt] using ho
    have hv0 : hostOpt ({ vm with os := some x } : VM).os = true ∧
        hostOpt ({ vm with os := some x } : VM).gf = true := ⟨by simpa [hostOpt] using hx, hv.2⟩
    have hr := resolved_host { vm with os := some x } c hc hv0.1 (by simp)
    exact ⟨hr, runTop_host sc { vm with os := some x } c cache hr hv0 hcache⟩

/-- one event keeps the state clean and, if it executes, produces only calls on host objects -/
theorem step_host (sc : Script) (s : HState) (e : Ev) (hs : StateOK s) (hwf : e.wf = true)
    (hsup : suppliedEv s e = true) :
    StateOK (step reviewedInventory codeFacts sc s e).1 ∧
    ∀ t, (step reviewedInventory codeFacts sc s e).2 = some t →
      ∀ ob ∈ t, ObsIn (fun o _ => o.isHost = true) ob := by
  have hvm := vm_ok s hs
  cases e with
  | new o =>
    refine ⟨⟨?_, hs.2⟩, fun t ht => by simp [step] at ht⟩
    intro v hv
    simp only [step, List.mem_singleton] at hv
    rw [hv]
    exact ⟨by simpa [Ev.wf] using hwf, by simp [hostOpt]⟩
  | run c =>
    have hr := resolved_host s.vm c (by simpa [Ev.wf] using hwf) hvm.1 (by simpa [suppliedEv] using hsup)
    have h := runTop_host sc s.vm c s.cache hr hvm hs.2
    refine ⟨setVM_ok s _ _ hs h.2.1 h.2.2, ?_⟩
    intro t ht
    simp only [step, Option.some.injEq] at ht
    rw [← ht]; exact h.1
  | call c =>
    have hr := resolved_host s.vm c (by simpa [Ev.wf] using hwf) hvm.1 (by simpa [suppliedEv] using hsup)
    have h := exec_host sc.body s.vm c s.cache hr hvm.2 hs.2
    refine ⟨⟨hs.1, h.2⟩, ?_⟩
    intro t ht
    simp only [step, Option.some.injEq] at ht
    rw [← ht]; exact h.1
  | clone =>
    refine ⟨⟨?_, hs.2⟩, fun t ht => by simp [step] at ht⟩
    intro v hv
    simp only [step, List.mem_append, List.mem_singleton] at hv
    cases hv with
    | inl h1 => exact hs.1 v h1
    | inr h1 => rw [h1, clone_os, clone_gf]; exact hvm
  | root => exact ⟨⟨hs.1, hs.2⟩, fun t ht => by simp [step] at ht⟩
  | runWith o c =>
    have hwf' : o.isHost = true ∧ hostOpt c = true := by simpa [Ev.wf] using hwf
    have hv0 : hostOpt ({ s.vm with os := some o } : VM).os = true ∧
        hostOpt ({ s.vm with os := some o } : VM).gf = true := ⟨by simpa [hostOpt] using hwf'.1, hvm.2⟩
    have hr := resolved_host { s.vm with os := some o } c hwf'.2 hv0.1 (by simp)
    have h := runTop_host sc { s.vm with os := some o } c s.cache hr hv0 hs.2
    refine ⟨setVM_ok s _ _ hs h.2.1 h.2.2, ?_⟩
    intro t ht
    simp only [step, Option.some.injEq] at ht
    rw [← ht]; exact h.1
  | evalWith o c =>
    have hwf' : hostOpt o = true ∧ hostOpt c = true := by simpa [Ev.wf] using hwf
    have h := runTop_cfg_host sc s.vm o c s.cache hvm hwf'.1 hwf'.2 (by simpa [suppliedEv] using hsup) hs.2
    refine ⟨setVM_ok s _ _ hs h.2.2.1 h.2.2.2, ?_⟩
    intro t ht
    simp only [step, Option.some.injEq] at ht
    rw [← ht]; exact h.2.1
  | apiCall o c =>
    have hwf' : hostOpt o = true ∧ hostOpt c = true := by simpa [Ev.wf] using hwf
    have h := runTop_cfg_host sc s.vm o c s.cache hvm hwf'.1 hwf'.2 (by simpa [suppliedEv] using hsup) hs.2
    -- the machine after the top-level code has the same OS; `entry()` then runs on it
    have hr2 : (getOS codeFacts (runTop reviewedInventory codeFacts sc (applyCfg codeFacts s.vm o) c s.cache).1
        { os := c }).isHost = true := by
      have := h.1
      rw [getOS_code] at this ⊢
      rw [runTop_os]
      exact this
    have h2 := exec_host sc.body (runTop reviewedInventory codeFacts sc (applyCfg codeFacts s.vm o) c s.cache).1
      c (runTop reviewedInventory codeFacts sc (applyCfg codeFacts s.vm o) c s.cache).2.2 hr2 h.2.2.1.2 h.2.2.2
    refine ⟨setVM_ok s _ _ hs h.2.2.1 h2.2, ?_⟩
    intro t ht
    simp only [step, Option.some.injEq] at ht
    rw [← ht]
    intro ob hob
    cases List.mem_append.1 hob with
    | inl h1 => exact h.2.1 ob h1
    | inr h1 => exact h2.1 ob h1
  | callback c =>
    have hr := resolved_host s.vm c (by simpa [Ev.wf] using hwf) hvm.1 (by simpa [suppliedEv] using hsup)
    have h := exec_host sc.body s.vm c s.cache hr hvm.2 hs.2
    refine ⟨⟨hs.1, ?_⟩, ?_⟩
    · intro st hh hget
      simp only [step, foreignCtx_code, clone_code] at hget
      exact h.2 st hh hget
    · intro t ht
      simp only [step, foreignCtx_code, clone_code, Option.some.injEq] at ht
      rw [← ht]; exact h.1

/-- **C12_partial_never_real.**  For every script and every host history of any length (create,
    run, call, clone, switch, re-option, in any order) in which every run is supplied with an OS —
    by the `WithOS` option of the VM it runs on (directly or inherited through any chain of
    `Clone`s) or in its context — **no observation of any run is on the real operating system**:
    every one is a call on an implementation object of the host, in every execution context.
    The history may re-enter a machine through `risor.Eval` / `EvalCode` / `Call` + `WithVM` with or
    without `WithOS` (`evalWith`, `apiCall`) and may fire callbacks through a kept clone-call
    function with foreign contexts (`callback`).
    (What can still go wrong, and does — `C12_counterexample_other_os` — is that a stream
    attribute is served by the implementation supplied for an *earlier* run.) -/
theorem C12_partial_never_real (sc : Script) (evs : List Ev) :
    ∀ (s : HState), StateOK s → evs.all Ev.wf = true → allSupplied sc s evs = true →
      ∀ t ∈ runHist reviewedInventory codeFacts sc s evs, ∀ ob ∈ t, ObsIn (fun o _ => o.isHost = true) ob := by
  induction evs with
  | nil => intro s _ _ _ t ht; simp [runHist] at ht
  | cons e es ih =>
    intro s hs hwf hsup t ht
    simp only [List.all_cons, Bool.and_eq_true] at hwf
    simp only [allSupplied, Bool.and_eq_true] at hsup
    have hstep := step_host sc s e hs hwf.1 hsup.1
    have hrest := ih (step reviewedInventory codeFacts sc s e).1 hstep.1 hwf.2 hsup.2
    unfold runHist at ht
    cases hr : step reviewedInventory codeFacts sc s e with
    | mk s' r =>
      rw [hr] at ht hstep hrest
      cases r with
      | none => exact hrest t ht
      | some t0 =>
        simp only [List.mem_cons] at ht
        cases ht with
        | inl h1 => rw [h1]; exact hstep.2 t0 rfl
        | inr h1 => exact hrest t h1

/-- the initial state is clean -/
theorem initState_ok : StateOK initState := by
  refine ⟨fun v hv => by simp [initState] at hv, ?_⟩
  intro st h hget
  cases st <;> simp [initState, Cache.get, Cache.empty] at hget

/-! ## Non-vacuity -/

-- a supplied history through every context kind, with all four routes
example : allSupplied { pre := false, body := .spawn (.imp (.cloneCall (.call (.op .os_getenv)))) } initState
    [.new (some (.host 0)), .run none, .clone, .call none, .runWith (.host 1) (some (.host 2))] = true := by decide
example : runHist reviewedInventory codeFacts { pre := false, body := .spawn (.imp (.op .os_getenv)) } initState
    [.new (some (.host 0)), .run none, .clone, .call none] =
    [[.via (.host 0) ⟨.getenv, ["$0"]⟩], [.via (.host 0) ⟨.getenv, ["$0"]⟩]] := by decide
-- the guard is satisfiable with a non-empty cache and a program that reads the stream
example : staleStd [.host 0] { sin := none, sout := some (.host 0), serr := none } (.spawn (.op .os_stdout_write)) = false := by
  decide
example : accOf { os := some (.host 0), gf := none } none ≠ [] := by decide
-- without the clone copying the OS the property would fail in a cloned VM (the extractor reads this fact)
example : runHist reviewedInventory { codeFacts with cloneCopiesOS := false } { pre := false, body := .op .os_getenv }
    initState [.new (some (.host 0)), .run none, .clone, .call none] =
    [[.via (.host 0) ⟨.getenv, ["$0"]⟩], [.via .real ⟨.getenv, ["$0"]⟩]] := by decide


-- a machine built with an OS, re-entered through the API without naming one, then called back by the
-- host with a bare context of its own: every run is supplied, every run is served by that OS
example : allSupplied { pre := false, body := .spawn (.op .os_getenv) } initState
    [.new (some (.host 0)), .run none, .evalWith none none, .apiCall none none, .callback none] = true := by decide
example : runHist reviewedInventory codeFacts { pre := false, body := .spawn (.op .os_getenv) } initState
    [.new (some (.host 0)), .run none, .evalWith none none, .callback none, .callback (some (.host 1))] =
    [[.via (.host 0) ⟨.getenv, ["$0"]⟩], [.via (.host 0) ⟨.getenv, ["$0"]⟩], [.via (.host 0) ⟨.getenv, ["$0"]⟩],
     [.via (.host 1) ⟨.getenv, ["$0"]⟩]] := by decide
-- were `Config.VMOpts` to pass `vm.WithOS(cfg.os)` unconditionally, re-entering the machine without
-- `risor.WithOS` would wipe its OS and the run would reach the real one (the extractor reads this fact)
example : runHist reviewedInventory { codeFacts with cfgOSOnlyIfSet := false } { pre := false, body := .op .os_getenv }
    initState [.new (some (.host 0)), .run none, .evalWith none none] =
    [[.via (.host 0) ⟨.getenv, ["$0"]⟩], [.via .real ⟨.getenv, ["$0"]⟩]] := by decide
-- were `cloneCallSync` not to re-initialise the context, a callback fired with a foreign context would
-- find no OS at all, although spawn/clone-call *inside* a run would still see it
example : runHist reviewedInventory { codeFacts with cloneCallInits := false, spawnInits := false }
    { pre := false, body := .cloneCall (.spawn (.op .os_getenv)) }
    initState [.new (some (.host 0)), .run none, .callback none] =
    [[.via (.host 0) ⟨.getenv, ["$0"]⟩], [.via .real ⟨.getenv, ["$0"]⟩]] := by decide

end Risor.C12
