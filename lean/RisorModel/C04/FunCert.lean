import RisorModel.C04.Model
import RisorModel.C04.FragCert
import RisorModel.C01.Fun
/-
C04 on C01's FUNCTION fragment F4 — definitions.

`Fun.compFun p` compiles a program into SEVERAL code objects: the main code and one per
declared function.  `FunC.toC04 isMain code` turns one of them into C04's `Code`, slot for slot,
dropping only operands `Ins.kind` (hence `check`) never reads: the pool index of `LOAD_CONST`
(constants and function constants), the table index of `LOAD_GLOBAL` / `STORE_GLOBAL`, the
slot index of `LOAD_FAST` / `STORE_FAST`.  `eraseIdxF` drops the same operands from a decoded
REAL code object, so that "the real bytecode is `toC04` of the model's code" is a literal
equality the oracle evaluates on every run (`FunCertOracle.lean`).

`FunC.hts h n` is the operand-stack height before every SLOT of `Fun.comp ls kb kc n`
(independent of `ls`, `kb`, `kc`) when the node starts at height `h`; it extends `hts` of
`FragCert.lean` to the node forms F4 adds:

  * a call `f(a1, …, an)`: the callee at `h`, argument `i` at `h + i`, `Call n` at `h + n + 1`;
    it pops the callee and the arguments and pushes ONE result (`Call` is atomic in the
    caller's frame — C04's model of `Call`, C01's theorem `call_returns_one`): the node ends at
    `h + 1` like any expression;
  * `return e`: the value at `h`, `ReturnValue` at `h + 1`.  The statement counts as a unit
    statement (`exitD = 0`) although control never falls out of it: the code after it is
    unreachable, and the certificate gives it the heights it would have — `check` asks for a
    consistent height at EVERY offset the certificate names, reachable or not;
  * `func f(…) {…}` as a statement: `LoadConst; Copy 0; StoreGlobal/StoreFast f; PopTop`
    (`h`, `h + 1`, `h + 2`, `h + 1`, back to `h`); `g := func(…) {…}`: `LoadConst; Store`.

`FunC.htsFn stmts` is the height list of a whole function body `Fun.compFnStmts ls stmts`
(`normalizeFunctionBlock`: cut after the first top-level `return`, implicit `ReturnValue` of
the last expression statement or of `Nil`): a body is entered at height 0 WHATEVER the caller
has on its stack, and every path ends in `ReturnValue`, so its certificate marks the
end-of-code position unreachable (`none`), which is what `checkEnd` demands of a function.
Core Lean only.
-/
namespace Risor.C04
open Risor.C01 Risor.C01.Fun
open Risor.C01.Frag (isNilL postName isDefault)

/-- a certificate from the heights of every slot and the entry for the end-of-code position -/
def mkCertO {α : Type} (code : List (Option α)) (H : List Nat) (e : Option Nat) : Cert :=
  (mask code H ++ [e]).toArray

/-- operands `check` never reads, now including the slot index of `LOAD_FAST` / `STORE_FAST` -/
def eraseInsF (i : Ins) : Ins :=
  match i.op with
  | .loadConst | .loadGlobal | .storeGlobal | .loadFast | .storeFast => { i with a := 0 }
  | _ => i

def eraseIdxF (c : Code) : Code := { c with slots := c.slots.map (Option.map eraseInsF) }

namespace FunC

/-- one instruction of the function fragment as a C04 instruction (pool / table / slot indices
    erased; `Call n` keeps its argument count) -/
def insOf : FIns → Ins
  | .nop => ⟨.nop, 0, 0⟩
  | .nil_ => ⟨.nil_, 0, 0⟩
  | .true_ => ⟨.true_, 0, 0⟩
  | .false_ => ⟨.false_, 0, 0⟩
  | .popTop => ⟨.popTop, 0, 0⟩
  | .unaryNeg => ⟨.unaryNegative, 0, 0⟩
  | .unaryNot => ⟨.unaryNot, 0, 0⟩
  | .constInt _ => ⟨.loadConst, 0, 0⟩
  | .constStr _ => ⟨.loadConst, 0, 0⟩
  | .constFn _ => ⟨.loadConst, 0, 0⟩
  | .loadG _ => ⟨.loadGlobal, 0, 0⟩
  | .storeG _ => ⟨.storeGlobal, 0, 0⟩
  | .loadF _ => ⟨.loadFast, 0, 0⟩
  | .storeF _ => ⟨.storeFast, 0, 0⟩
  | .binary k => ⟨.binaryOp, k, 0⟩
  | .compare k => ⟨.compareOp, k, 0⟩
  | .copy k => ⟨.copy, k, 0⟩
  | .swap k => ⟨.swap, k, 0⟩
  | .jf d => ⟨.jumpForward, d, 0⟩
  | .jb d => ⟨.jumpBackward, d, 0⟩
  | .pjf d => ⟨.popJumpForwardIfFalse, d, 0⟩
  | .pjt d => ⟨.popJumpForwardIfTrue, d, 0⟩
  | .call n => ⟨.call, n, 0⟩
  | .ret => ⟨.returnValue, 0, 0⟩

/-- one code object of a compiled program as a C04 code object -/
def toC04 (isMain : Bool) (code : Fun.Code) : Code :=
  { slots := (code.map (Option.map insOf)).toArray, isMain := isMain }

/-! ### heights -/

/-- `x++` in a statement list: `Load x; PopTop` first (`Fun.pre`) -/
def preH (h : Nat) (n : N) : List Nat :=
  match postName n with
  | some _ => r2 h ++ r1 (h + 1)
  | none => []

/-- what a node leaves on the stack when control falls out of its end: a unit statement
    (assignments, loops, declarations, `return`) nothing, everything else one value -/
def exitD (n : N) : Nat := if isUnitNode n then 0 else 1

mutual
/-- heights before every slot of `Fun.comp ls kb kc n` for a node entered at height `h` -/
def hts (h : Nat) : N → List Nat
  | .nilLit | .none_ | .nilL | .bool _ => r1 h
  | .int _ | .str _ | .id _ | .break_ | .continue_ => r2 h
  | .infix op l r =>
    if op = .and then
      hts h l ++ r2 (h + 1) ++ r2 (h + 2) ++ hts (h + 1) r ++ r2 (h + 2) ++ r1 (h + 1)
    else if op = .or then
      hts h l ++ r2 (h + 1) ++ r2 (h + 2) ++ hts (h + 1) r ++ r2 (h + 2) ++ r1 (h + 1)
    else hts h l ++ hts (h + 1) r ++ r2 (h + 2)
  | .neg e | .not e => hts h e ++ r1 (h + 1)
  | .tern c a b | .if_ c a b => hts h c ++ r2 (h + 1) ++ hts h a ++ r2 (h + 1) ++ hts h b
  | .block s | .prog s => hts h s
  | .expr e =>
    -- `func f(…) {…}`: `LoadConst; Copy 0; Store f; PopTop`
    if isFuncLit e then r2 h ++ r2 (h + 1) ++ r2 (h + 2) ++ r1 (h + 1) else hts h e
  | .cons hd t =>
    preH h hd ++
      (if isNilL t then hts h hd ++ (if leaves hd then [] else r1 h)
       else hts h hd ++ ((if leaves hd then r1 (h + 1) else []) ++ hts h t))
  | .var _ e =>
    -- `g := func(…) {…}`: `LoadConst; Store g`
    if isFuncLit e then r2 h ++ r2 (h + 1) else hts h e ++ r2 (h + 1)
  | .assign _ op e =>
    if op = .set then hts h e ++ r2 (h + 1)
    else r2 h ++ hts (h + 1) e ++ r2 (h + 2) ++ r2 (h + 1)
  | .postfix _ _ => r2 h ++ r2 (h + 1) ++ r2 (h + 2) ++ r2 (h + 1)
  | .forcond c b => hts h c ++ r2 (h + 1) ++ hts h b ++ r1 (h + 1) ++ r2 h ++ r1 h
  | .forever b => hts h b ++ r1 (h + 1) ++ r2 h ++ r1 h
  | .for3 i c p b =>
    hts h i ++ hts h c ++ r2 (h + 1) ++ hts h b ++ r1 (h + 1)
      ++ hts h p ++ (if leaves p then r1 (h + 1) else []) ++ r2 h
  | .switch subj cases =>
    -- the subject stays below everything until `Swap 1; PopTop` drops it
    hts h subj ++ htsCmp (h + 1) cases ++ r2 (h + 1) ++ htsBodies (h + 1) cases
      ++ htsDflt (h + 1) cases ++ r2 (h + 2) ++ r1 (h + 2)
  | .call f args =>
    -- the callee, the arguments one above the other, `Call n` on top of all of them
    hts h f ++ htsArgs (h + 1) args ++ r2 (h + 1 + argCount args)
  | .return_ e => hts h e ++ r1 (h + 1)
  | _ => []
/-- `Copy 0; v; CompareOp ==; PopJumpForwardIfTrue` at subject height `s` -/
def htsVals (s : Nat) : N → List Nat
  | .cons v vs => r2 s ++ hts (s + 1) v ++ r2 (s + 2) ++ r2 (s + 1) ++ htsVals s vs
  | _ => []
def htsCmpCase (s : Nat) : N → List Nat
  | .case_ vals _ => htsVals s vals
  | _ => []
def htsCmp (s : Nat) : N → List Nat
  | .cons hd t => htsCmpCase s hd ++ htsCmp s t
  | _ => []
def htsBody (s : Nat) : N → List Nat
  | .case_ _ body => hts s body ++ r2 (s + 1)
  | _ => []
def htsBodies (s : Nat) : N → List Nat
  | .cons hd t => htsBody s hd ++ htsBodies s t
  | _ => []
def htsDfltBody (s : Nat) : N → List Nat
  | .default_ body => hts s body
  | _ => []
def htsDflt (s : Nat) : N → List Nat
  | .cons hd t => if isDefault hd then htsDfltBody s hd else htsDflt s t
  | _ => r1 s
/-- call arguments: the first at height `s`, each further one on top of the previous values -/
def htsArgs (s : Nat) : N → List Nat
  | .cons a as => hts s a ++ htsArgs (s + 1) as
  | _ => []
end

/-- heights before every slot of a function body `Fun.compFnStmts ls stmts`: entered at 0;
    mirrors `compFnStmts` (the statements up to the first top-level `return`; the implicit
    `ReturnValue` of the last expression statement, or `Nil; ReturnValue`) -/
def htsFn : N → List Nat
  | .cons h t =>
    if isReturn h then hts 0 h
    else if isNilL t then
      preH 0 h ++ hts 0 h ++ (if leaves h then r1 1 else r1 0 ++ r1 1)
    else
      preH 0 h ++ hts 0 h ++ (if leaves h then r1 1 else []) ++ htsFn t
  | _ => r1 0 ++ r1 1

/-! ### the code objects of a program and their certificates -/

/-- the main code object -/
def mainCode (p : N) : Code := toC04 true (compFun p).main
/-- the code object of one declared function -/
def fnCode (d : FDecl) : Code := toC04 false (compDecl d).code

/-- the certificate of the main code: entered with an empty operand stack, finished with
    exactly its result -/
def mainCert (p : N) : Cert := mkCertO (compFun p).main (hts 0 p) (some 1)
/-- the certificate of a function's code object: entered with an empty frame, never finished
    by falling off the end -/
def fnCert (d : FDecl) : Cert := mkCertO (compDecl d).code (htsFn d.body) none

/-- EVERY code object of the compiled program: the main code, then one per function, in
    declaration order (the order of `(compFun p).funs`) -/
def codes (p : N) : List Code := mainCode p :: (funsOf p).map fnCode
/-- their certificates, in the same order -/
def certs (p : N) : List Cert := mainCert p :: (funsOf p).map fnCert

/-- the same certificates laid over the slot structure of ANY code object (used on the real
    compiler's bytecode by the oracle) -/
def mainCertFor (c : Code) (p : N) : Cert := mkCertO c.slots.toList (hts 0 p) (some 1)
def fnCertFor (c : Code) (d : FDecl) : Cert := mkCertO c.slots.toList (htsFn d.body) none

/-- the largest number of operands any slot of any code object of the program sees -/
def peak (p : N) : Nat :=
  ((funsOf p).map fun d => (htsFn d.body).foldl max 0).foldl max ((hts 0 p).foldl max 0)

/-! ### operand nesting depth by recursion on the syntax -/

mutual
/-- an upper bound of how far above its entry height the code of a node takes the operand
    stack (`FunCertLemmas.hts_le_depth`); as `depth` of `FragCert.lean`, plus: a call holds the
    callee and the earlier arguments while an argument runs, and all of them at the `Call` -/
def depth : N → Nat
  | .infix _ l r => max (depth l) (max (depth r + 1) 2)
  | .neg e | .not e => max (depth e) 1
  | .tern c a b | .if_ c a b => max (depth c) (max 1 (max (depth a) (depth b)))
  | .block s | .prog s => depth s
  | .expr e => if isFuncLit e then 2 else depth e
  | .cons h t => max (depth h + 2) (depth t)
  | .var _ e => max (depth e) 1
  | .assign _ _ e => max (depth e + 1) 2
  | .postfix _ _ => 2
  | .forcond c b => max (depth c) (max 1 (depth b))
  | .forever b => max 1 (depth b)
  | .for3 i c p b => max (depth i) (max (depth c) (max 1 (max (depth p) (depth b))))
  | .switch subj cases => max (depth subj) (max (depth cases + 1) 2)
  | .case_ vals body => max (depth vals) (depth body)
  | .default_ body => depth body
  | .call f args => max (depth f) (depthArgs args + 1)
  | .return_ e => max (depth e) 1
  | _ => 0
/-- arguments entered at `s`: the `i`-th sits `i` higher; the `Call` sees all of them -/
def depthArgs : N → Nat
  | .cons a as => max (depth a) (depthArgs as + 1)
  | _ => 0
end

/-- the nesting depth of a function body -/
def depthFn : N → Nat
  | .cons h t => max (depth h + 2) (depthFn t)
  | _ => 1

/-- the nesting depth of a whole program: its main code and every function body -/
def depthProg (p : N) : Nat := ((funsOf p).map fun d => depthFn d.body).foldl max (depth p)

end FunC

/-- the guard of `fun_compile_balanced`: the operand nesting of EVERY code object of the
    program fits the frame's height limit (`maxHeight`; deeper NESTING of expressions or call
    arguments overflows regardless of loops) -/
def fitsFun (p : N) : Bool :=
  (FunC.hts 0 p).all (· ≤ maxHeight) && (funsOf p).all fun d => (FunC.htsFn d.body).all (· ≤ maxHeight)

end Risor.C04
