import RisorModel.C04.FragCertLemmas
import RisorModel.C01.FragProps
/-!
C04 on the proved fragment of C01 — property theorems.

`compile_balanced` (DESIGN.md C04) for the fragment F1–F3, statically, for all programs at
once: the code the functional compiler `Frag.compF` produces for ANY program of the fragment
(`inFrag`: expressions, assignments, if / else-if, the three `for` forms, `break` / `continue`
where no operand is pending, `switch`) is accepted by the verified checker `check`, with the
certificate `fragCert p` computed from the syntax tree alone (`hts`).  Combined with
`check_sound`: in every execution of that code, of any length, the operand-stack height at an
offset is the one `fragCert p` names — no loop of the fragment can grow the stack, for any
iteration count.

The one hypothesis besides `inFrag` is `fits p`: the operand NESTING of the program stays
within the frame's height limit `maxHeight` (1024); `depth p ≤ maxHeight`, a bound by recursion
on the syntax, suffices (`frag_compile_balanced_of_depth`).  It cannot be dropped:
`frag_compile_balanced_needs_fits` exhibits a program of the fragment, an addition nested 1025
deep, that no certificate makes `check` accept — its operands alone overflow the frame,
without any loop.

The object of the theorems, `toC04 (compF p)`, is compared with the real compiler's bytecode
on every run: `compF p` assembled = `compiler.Compile` (C01's link A, instruction for
instruction), and `eraseIdx (real bytecode) = toC04 (compF p)` together with acceptance of
`fragCertFor real p` by `check` on the REAL bytecode (`FragCertOracle.lean`, harness/c04frag.go).
`check_eraseIdx` shows that the erased operands are irrelevant to `check`.
-/
namespace Risor.C04
open Risor.C01 Risor.C01.Frag

/-- the certificate computed from the syntax tree is accepted -/
theorem frag_cert_accepted (p : N) (hin : inFrag p = true) (hfit : fits p = true) :
    check (toC04 (compF p)) (fragCert p) = true := by
  cases p with
  | prog s =>
    simp only [inFrag, Bool.and_eq_true] at hin
    have hw : wf (.prog s) = true := hin.1
    have hesc : escapes (.prog s) = false := by
      have := hin.1
      simp only [wf, Bool.and_eq_true, Bool.not_eq_true'] at this
      simpa [escapes] using this.1.2
    let G := progCtx (.prog s) hfit
    have hC : toC04 (compF (.prog s)) = G.C := rfl
    have hcert : fragCert (.prog s) = G.cert := rfl
    have hcode : G.code = comp 0 0 (.prog s) := rfl
    have hH : G.H = hts 0 (.prog s) := rfl
    obtain ⟨i, c, t, e1, e2⟩ := head_comp (.prog s) hw 0 0 0
    have hsize : G.code.length = size (.prog s) := by rw [hcode, comp_length]
    have h0 : G.code[0]? = some (some i) := by rw [hcode, e1]; rfl
    have hH0 : G.H[0]? = some 0 := by rw [hH, e2]; rfl
    have hat : G.At 0 (comp 0 0 (.prog s)) (hts 0 (.prog s)) := ⟨Win.self _, Win.self _⟩
    have hex : exitD (.prog s) = 1 := by simp [exitD, isUnitNode]
    have hall := (Ctx.ok_all G (.prog s)).1 hw 0 0 0 0 hat
      (.inr ⟨by rw [hsize]; omega, by rw [hex]; rfl⟩) (by intro h; rw [hesc] at h; cases h)
    rw [hC, hcert]
    simp only [check, Bool.and_eq_true, beq_iff_eq, decide_eq_true_eq, List.all_eq_true, List.mem_range]
    refine ⟨⟨⟨⟨⟨?_, ?_⟩, ?_⟩, ?_⟩, ?_⟩, ?_⟩
    · rw [Ctx.cert_size, Ctx.C_size]
    · rw [Ctx.C_size]; exact Ctx.lt_of_code h0
    · have := Ctx.cert_in h0 hH0
      simpa using this
    · rw [Ctx.C_at h0]; rfl
    · intro pc hpc
      rw [Ctx.C_size, hsize] at hpc
      have := hall pc hpc
      rw [Nat.zero_add] at this
      exact this
    · simp only [checkEnd, Ctx.C_size, Ctx.cert_end]
      rfl
  | _ => simp [inFrag] at hin

/-- **`compile_balanced` for the fragment**: every program of the fragment F1–F3 whose operand
    nesting fits the frame compiles to code the verified checker accepts. -/
theorem frag_compile_balanced (p : N) (hin : inFrag p = true) (hfit : fits p = true) :
    ∃ cert, check (toC04 (compF p)) cert = true :=
  ⟨fragCert p, frag_cert_accepted p hin hfit⟩

/-- **The same with a purely syntactic guard**: `depth p`, the operand nesting depth of the
    program by recursion on its syntax (operators holding their left value, a `switch` holding
    its subject), within the frame's limit.  Every program whose expressions nest less than a
    thousand deep is covered; the iteration count of its loops plays no role. -/
theorem frag_compile_balanced_of_depth (p : N) (hin : inFrag p = true) (hd : depth p ≤ maxHeight) :
    ∃ cert, check (toC04 (compF p)) cert = true :=
  frag_compile_balanced p hin (fits_of_depth p hd)

/-- **Heights are those of the syntax tree**: in every execution (any number of steps, any
    branch outcomes, any number of loop iterations) of the compiled code of a program of the
    fragment, the operand-stack height at an offset is the one `fragCert p` names, and
    control stays inside the code. -/
theorem frag_heights (p : N) (hin : inFrag p = true) (hfit : fits p = true) (s : St)
    (hr : Reach (toC04 (compF p)) s) :
    s.pc ≤ (toC04 (compF p)).size ∧ (fragCert p)[s.pc]? = some (some s.h) ∧ s.h ≤ maxHeight :=
  check_sound _ _ (frag_cert_accepted p hin hfit) s hr

/-- **No loop of the fragment can grow the stack**: in every execution of the compiled code
    of any program of the fragment, two visits of the same offset — the head of a loop on its
    first and on its ten-millionth iteration — see the same operand-stack height. -/
theorem frag_loop_height_constant (p : N) (hin : inFrag p = true) (hfit : fits p = true) (s t : St)
    (hs : Reach (toC04 (compF p)) s) (ht : Reach (toC04 (compF p)) t) (hpc : s.pc = t.pc) : s.h = t.h :=
  loop_height_constant _ _ (frag_cert_accepted p hin hfit) s t hs ht hpc

/-- no instruction of the compiled code ever pops below the frame's base, and control never
    lands on an operand slot -/
theorem frag_no_underflow (p : N) (hin : inFrag p = true) (hfit : fits p = true) (s : St)
    (hr : Reach (toC04 (compF p)) s) (hlt : s.pc < (toC04 (compF p)).size) :
    ∃ i l, (toC04 (compF p)).at s.pc = some i ∧ succs i s.pc s.h = some l :=
  no_underflow _ _ (frag_cert_accepted p hin hfit) s hr hlt

/-- **A finished run leaves exactly its result**: when control reaches the end of the
    compiled code there is exactly one value on the operand stack. -/
theorem frag_finished_run_leaves_result (p : N) (hin : inFrag p = true) (hfit : fits p = true) (s : St)
    (hr : Reach (toC04 (compF p)) s) (hend : s.pc = (toC04 (compF p)).size) : s.h = 1 :=
  (finished_run_leaves_result _ _ (frag_cert_accepted p hin hfit) s hr hend).2

/-! ### the operands `toC04` drops are irrelevant to the checker -/

/-- erasing the pool / table indices of `LOAD_CONST`, `LOAD_GLOBAL`, `STORE_GLOBAL` from a
    code object does not change what `check` accepts: acceptance of the real bytecode and of
    `toC04 (compF p)` are the same fact once `eraseIdx real = toC04 (compF p)` -/
theorem check_eraseIdx (c : Code) (cert : Cert) : check (eraseIdx c) cert = check c cert := by
  have h1 : checkAt (eraseIdx c) cert = checkAt c cert := funext (checkAt_eraseIdx c cert)
  have h2 : checkEnd (eraseIdx c) cert = checkEnd c cert := by
    simp only [checkEnd, eraseIdx_size]; rfl
  simp only [check, eraseIdx_size, eraseIdx_at, Option.isSome_map, h1, h2]

/-- `toC04` produces erased code -/
theorem eraseIdx_toC04 (code : Frag.Code) : eraseIdx (toC04 code) = toC04 code := by
  simp only [eraseIdx, toC04, List.map_toArray, List.map_map]
  congr 2
  apply List.map_congr_left
  intro s _
  cases s with
  | none => rfl
  | some i => cases i <;> rfl

/-! ### the guard `fits` cannot be dropped: operands nested deeper than the frame's limit -/

/-- **The nesting guard is necessary**: without `fits`, `compile_balanced` is false even on
    the fragment — for the program `1 + (1 + (… + 1))` with 1024 additions NO certificate is
    accepted, because an execution reaches height 1025 > `maxHeight` (all operands pending at
    once; no loop is involved). -/
theorem frag_compile_balanced_needs_fits :
    ¬ ∀ p, inFrag p = true → ∃ cert, check (toC04 (compF p)) cert = true := by
  intro h
  obtain ⟨cert, hc⟩ := h (deepProg 1024) (deepProg_inFrag _)
  have hcode : compF (deepProg 1024) = comp 0 0 (deep 1024) := by
    simp [compF, deepProg, comp, pre, postName, isNilL, leaves]
  have hw : Win (compF (deepProg 1024)) 0 (comp 0 0 (deep 1024)) := by
    rw [hcode]; exact Win.self _
  have r := deep_reach _ 1024 0 0 hw .init
  have := (check_sound _ _ hc _ r).2.2
  simp only [maxHeight] at this
  omega

/-! ### non-vacuity: concrete programs of the fragment (loops, break / continue inside nested
    ifs, a switch), the hypotheses of the theorems hold for them and the statements evaluate -/

/-- `n := 0
     for i := 0; i < 9; i++ {
       if i > 2 { if i > 5 { break } else if i == 4 { continue } }
       for n < 100 { n += switch i { case 1, 2: 10  default: i > 3 && n < 50 ? 1 : 2 }; if n > 60 { break } }
     }
     n` -/
def exNested : N :=
  .prog (.cons (.var "n" (.int 0))
    (.cons (.for3 (.var "i" (.int 0)) (.infix .lt (.id "i") (.int 9)) (.postfix "i" true)
      (.block
        (.cons (.expr (.if_ (.infix .gt (.id "i") (.int 2))
          (.block (.cons (.expr (.if_ (.infix .gt (.id "i") (.int 5)) (.block (.cons .break_ .nilL))
            (.if_ (.infix .eq (.id "i") (.int 4)) (.block (.cons .continue_ .nilL)) .none_))) .nilL)) .none_))
        (.cons (.forcond (.infix .lt (.id "n") (.int 100))
          (.block
            (.cons (.assign "n" .add (.switch (.id "i")
              (.cons (.case_ (.cons (.int 1) (.cons (.int 2) .nilL)) (.block (.cons (.expr (.int 10)) .nilL)))
              (.cons (.default_ (.block (.cons (.expr (.tern
                (.infix .and (.infix .gt (.id "i") (.int 3)) (.infix .lt (.id "n") (.int 50))) (.int 1) (.int 2))) .nilL)))
              .nilL))))
            (.cons (.expr (.if_ (.infix .gt (.id "n") (.int 60)) (.block (.cons .break_ .nilL)) .none_)) .nilL))))
        .nilL))))
    (.cons (.expr (.id "n")) .nilL)))

example : inFrag exNested = true ∧ fits exNested = true ∧ depth exNested ≤ 20 := by decide
example : inFrag exLoop = true ∧ fits exLoop = true := by decide
example : inFrag exCtl = true ∧ fits exCtl = true := by decide
example : inFrag exSwitch = true ∧ fits exSwitch = true := by decide

-- the theorem's conclusion, evaluated: the syntax-tree certificate is accepted
set_option maxRecDepth 8000 in
example : check (toC04 (compF exNested)) (fragCert exNested) = true := by decide
example : check (toC04 (compF exCtl)) (fragCert exCtl) = true := by decide
example : check (toC04 (compF exSwitch)) (fragCert exSwitch) = true := by decide

/-- the certificate of `exCtl` (`n := 0; i := 0; for { i++; if i > 6 { break }; if i % 2 == 0 { continue }; n += i }; n`):
    the loop head (offset 8), the `break` at 27 and its target (the `Nop` at 65), the `continue` at 46 and its
    target (the backward jump at 63) are all at height 0; the end of the code sees one value -/
example : (fragCert exCtl)[8]? = some (some 0) ∧
    (toC04 (compF exCtl)).at 27 = some ⟨.jumpForward, 38, 0⟩ ∧ (fragCert exCtl)[27]? = some (some 0) ∧
    (fragCert exCtl)[65]? = some (some 0) ∧
    (toC04 (compF exCtl)).at 46 = some ⟨.jumpForward, 17, 0⟩ ∧ (fragCert exCtl)[46]? = some (some 0) ∧
    (toC04 (compF exCtl)).at 63 = some ⟨.jumpBackward, 55, 0⟩ ∧ (fragCert exCtl)[63]? = some (some 0) ∧
    (fragCert exCtl)[68]? = some (some 1) := by decide

example : ∃ cert, check (toC04 (compF exNested)) cert = true := frag_compile_balanced exNested (by decide) (by decide)

/-- the entry state is reachable, so the execution theorems are not vacuous; its height is the
    certificate's -/
example : (fragCert exNested)[0]? = some (some 0) :=
  (frag_heights exNested (by decide) (by decide) ⟨0, 0⟩ .init).2.1

/-- outside the fragment the statement fails as it should: for a `break` under a pending
    operand (`x = 1 + if true { break }`, C04's known finding) the syntax-tree certificate
    is refused -/
example : inFrag exUnder = false ∧ check (toC04 (compF exUnder)) (fragCert exUnder) = false := by decide

end Risor.C04
