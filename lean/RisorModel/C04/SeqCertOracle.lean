import RisorModel.Util
import RisorModel.C04.SeqCert
import RisorModel.C04.FragCertOracle
import RisorModel.C01.SeqOracle
/-!
Line-protocol front end of the container fragment's certificate (request `C04 seqcert …`); not
part of any theorem.  It evaluates, on one program of C01's container fragment F6 and the bytecode
the REAL compiler emitted for it (one code object: all variables are global), the facts that tie
`seq_compile_balanced` to the code:

  `seqcert <sexp> <globals> <instruction text of the real main code object>` →
      `out`                       the program is outside the fragment (`seqIn`), or
      `in` TAB f1 … f7 with
        f1  `accept` | `reject`   `check real (certSeqFor real p)`: the certificate computed from the
                                   SYNTAX TREE (`SeqC.hts`, iterator slots of the enclosing range loops
                                   included) laid over the real bytecode, decided by the verified checker (tie B)
        f2  `same` | `differs`    `eraseIdx real == SeqC.toC04 (compSeq p)`: the object of the theorem IS the
                                   real bytecode up to the operands `check` never reads (`check_eraseIdx`,
                                   `eraseIdx_seq_toC04`)                                              (tie A)
        f3  `accept` | `reject`   `check (SeqC.toC04 (compSeq p)) (certSeq p)` (theorem `seq_compile_balanced`:
                                   `accept` when f4 = `fits`)
        f4  `fits` | `deep`       the guard `fitsSeq p`
        f5  peak height named by the certificate
        f6  `agree` | `differ…`   the certificate inferred from the real bytecode (`infer`) agrees with
                                   `certSeqFor` on every offset it reaches
        f7  the certificate itself: the height at every slot and at the end-of-code position, `-` on
            operand slots, joined by `,` — the harness compares it with the REAL operand-stack height at
            every instruction the real VM dispatches (tie C)
-/
namespace Risor.C04
open Risor.C01 Risor.C01.Seq

namespace SeqCO

def showCert (c : Cert) : String :=
  ",".intercalate (c.toList.map fun x => match x with | some h => toString h | none => "-")

end SeqCO

def handleSeqCert : List String → String
  | [sx, globals, text] =>
    match decodeProg sx with
    | none => "error\tcannot decode the program"
    | some p =>
      let gs := (globals.splitOn ",").filter (· ≠ "")
      if !seqIn gs p then "out" else
      match decode true text with
      | .error e => "error\t" ++ e
      | .ok real =>
        let model := SeqC.toC04 (compSeq p)
        let cert := certSeqFor real p
        let inferred :=
          match infer real with
          | .ok ci => if certLe ci cert then "agree" else "differ"
          | .error e => "differ:" ++ e
        "\t".intercalate ["in",
          if check real cert then "accept" else "reject",
          if (eraseIdx real).slots == model.slots && real.isMain == model.isMain then "same" else "differs",
          if check model (certSeq p) then "accept" else "reject",
          if fitsSeq p then "fits" else "deep",
          toString (SeqC.peak p),
          inferred,
          SeqCO.showCert cert]
  | _ => "error\tunknown-request"

end Risor.C04
