import RisorModel.C04.Model
import RisorModel.C04.MultiVar
/-
C04 — round 5: two scenario classes the earlier model did not have.

PART 1, TEMPLATE STRINGS (compiler.compileString).  A single-quoted string with `{…}` is cut by
internal/tmpl into fragments: raw text, an interpolation holding an expression, and the EMPTY
interpolation `{}` / `{   }` (the parser hands the compiler a nil expression for it, "treated as
empty string").  The compiler pushes ONE value per fragment — a constant for text, a constant ""
for the empty interpolation, the expression's value otherwise — and then `BUILD_STRING n`, which
pops `n` values and pushes the string.  The expression is stack-neutral-plus-one exactly when `n`
is the number of values pushed.  `compileString` is the code as it is (n = number of fragments);
`compileStringCounting` is the forbidden shape: a separate counter of pushed values that the
empty-interpolation branch leaves the loop without incrementing, so every `{}` leaves one value
behind per evaluation.

PART 2, OBSERVED RUNS.  `check_sound` speaks about the model machine `Step`.  The harness reads
the REAL operand-stack height at every instruction vm.eval dispatches (hook vm.VerifTrace); an
observed run of one frame activation is the list of (slot, height) pairs in dispatch order.
`stepOk`/`traceOk` say that the observed run is a run of the model machine (every real
instruction did to the height what `Ins.kind` says, on the edge the VM really took — in
particular FOR_ITER's exhaustion edge, which drops the iterator whatever the number of loop
variables is, 0 included); `neutral` is the Spec evaluated on the real run: two visits of one
slot in one activation see the same height (loop_height_constant), whatever the checker thinks.
Core Lean only (linked into the oracle).
-/
namespace Risor.C04.Obs
open Risor.C04
open Risor.C04.MV (runStraight)

/-! ### Part 1: template strings -/

/-- the expressions the harness writes between the braces (straight-line code) -/
inductive TE where
  | lit                    -- a constant
  | glob                   -- a global variable
  | loc                    -- a parameter / local of a function
  | bin (l r : TE)         -- l <op> r
  | idx (l r : TE)         -- l[r]
  | call1 (f a : TE)       -- f(a)
  | neg (a : TE)           -- -a
  deriving Repr, Inhabited

/-- compiler.go for these expressions, indices erased -/
def TE.code : TE → List Ins
  | .lit => [⟨.loadConst, 0, 0⟩]
  | .glob => [⟨.loadGlobal, 0, 0⟩]
  | .loc => [⟨.loadFast, 0, 0⟩]
  | .bin l r => l.code ++ r.code ++ [⟨.binaryOp, 0, 0⟩]
  | .idx l r => l.code ++ r.code ++ [⟨.binarySubscr, 0, 0⟩]
  | .call1 f a => f.code ++ a.code ++ [⟨.call, 1, 0⟩]
  | .neg a => a.code ++ [⟨.unaryNegative, 0, 0⟩]

/-- one fragment of a template -/
inductive Frag where
  | text                      -- raw text
  | empty                     -- `{}`: the parser's nil expression
  | hole (code : List Ins)    -- `{e}`: the code of `e`
  deriving Repr, Inhabited

/-- what compileString emits for one fragment -/
def Frag.code : Frag → List Ins
  | .text => [⟨.loadConst, 0, 0⟩]
  | .empty => [⟨.loadConst, 0, 0⟩]
  | .hole c => c

def pushCode : List Frag → List Ins
  | [] => []
  | f :: r => f.code ++ pushCode r

def buildString (n : Nat) : Ins := ⟨.buildString, n, 0⟩

/-- compiler.compileString as it is: one value per fragment, `BUILD_STRING len(fragments)` -/
def compileString (fs : List Frag) : List Ins := pushCode fs ++ [buildString fs.length]

/-- does the forbidden variant's counter see the fragment -/
def Frag.counted : Frag → Nat
  | .empty => 0
  | _ => 1

def countedN : List Frag → Nat
  | [] => 0
  | f :: r => f.counted + countedN r

/-- number of empty interpolations -/
def empties : List Frag → Nat
  | [] => 0
  | .empty :: r => 1 + empties r
  | _ :: r => empties r

/-- the forbidden shape: the operand of BUILD_STRING is a counter that the `{}` branch skips -/
def compileStringCounting (fs : List Frag) : List Ins := pushCode fs ++ [buildString (countedN fs)]

/-- the template used as an expression statement (its value dropped) -/
def stmt (expr : List Ins) : List Ins := expr ++ [⟨.popTop, 0, 0⟩]

/-- `k` executions in one frame of a straight-line statement (a loop body run `k` times) -/
def repeatRun (c : List Ins) : Nat → Nat → Option Nat
  | 0, h => some h
  | k + 1, h => (runStraight c h).bind (repeatRun c k)

/-! ### Part 2: observed runs of one frame activation -/

/-- the pair `b` is what the model machine allows after `a` (slot, height) -/
def stepOk (c : Code) (a b : Nat × Nat) : Bool :=
  match c.at a.1 with
  | some i =>
    match succs i a.1 a.2 with
    | some l => l.contains b
    | none => false
  | none => false

def chainOk (c : Code) : List (Nat × Nat) → Bool
  | a :: b :: r => stepOk c a b && chainOk c (b :: r)
  | _ => true

/-- the observed run starts at the frame's entry and every step is a step of the model -/
def traceOk (c : Code) (t : List (Nat × Nat)) : Bool :=
  match t with
  | [] => true
  | a :: _ => a == (0, 0) && chainOk c t

/-- SPEC on an observed run: a slot is always visited at the same height -/
def neutral (t : List (Nat × Nat)) : Bool :=
  t.all fun a => t.all fun b => a.1 != b.1 || a.2 == b.2

/-- index of the first step of the observed run that the model machine does not allow -/
def firstDeparture (c : Code) : List (Nat × Nat) → Nat → Option Nat
  | a :: b :: r, k => if stepOk c a b then firstDeparture c (b :: r) (k + 1) else some k
  | _, _ => none

/-- a slot seen at two heights (for the report only) -/
def firstLeak (t : List (Nat × Nat)) : Option (Nat × Nat × Nat) :=
  t.findSome? fun a => (t.find? fun b => a.1 == b.1 && a.2 != b.2).map fun b => (a.1, a.2, b.2)

/-- does the run follow the certificate -/
def followsCert (cert : Cert) (t : List (Nat × Nat)) : Bool :=
  t.all fun a => cert[a.1]? == some (some a.2)

/-- the shape of `for { for range g { } }` (main code; jump operands in the model's reading):
    0 LOAD_GLOBAL g; 2 GET_ITER; 3 FOR_ITER 7 0; 6 NIL; 7 POP_TOP; 8 JUMP_BACKWARD 5;
    10 NIL (the inner loop's value); 11 POP_TOP; 12 JUMP_BACKWARD 12; 14 NOP; 15 NIL -/
def demoNested : Code :=
  { isMain := true,
    slots := #[some ⟨.loadGlobal, 0, 0⟩, none, some ⟨.getIter, 0, 0⟩,
      some ⟨.forIter, 7, 0⟩, none, none, some ⟨.nil_, 0, 0⟩, some ⟨.popTop, 0, 0⟩,
      some ⟨.jumpBackward, 5, 0⟩, none, some ⟨.nil_, 0, 0⟩, some ⟨.popTop, 0, 0⟩,
      some ⟨.jumpBackward, 12, 0⟩, none, some ⟨.nop, 0, 0⟩, some ⟨.nil_, 0, 0⟩] }

def demoNestedCert : Cert :=
  #[some 0, none, some 1, some 1, none, none, some 1, some 2, some 1, none,
    some 0, some 1, some 0, none, some 0, some 0, some 1]

/-- two rounds of the outer loop over an empty inner container, as the VM runs them -/
def demoGoodRun : List (Nat × Nat) :=
  [(0, 0), (2, 1), (3, 1), (10, 0), (11, 1), (12, 0), (0, 0), (2, 1), (3, 1), (10, 0)]

/-- the same two rounds on a VM whose FOR_ITER keeps the exhausted iterator of a loop without
    loop variables: the outer loop's head is visited at 0, then at 1 -/
def demoKeepRun : List (Nat × Nat) :=
  [(0, 0), (2, 1), (3, 1), (10, 1), (11, 2), (12, 1), (0, 1), (2, 2), (3, 2), (10, 2)]

end Risor.C04.Obs
