import RisorModel.C04.CloCert
import RisorModel.C04.CertCore
import RisorModel.C04.Props
import RisorModel.C01.CloLemmas
/-!
C04 on C01's closure fragment F5 — helper lemmas.

The generic development of `CertCore.lean` (`Ctx`, windows, `okwin_*` per instruction KIND) at the
closure fragment's instruction type (`UCtx`), with the three-slot instructions `MakeCell` /
`LoadClosure` added (`At.three_cons`, `okwin_fall3`).  The lemmas per construct (`ok_*`) compose
the per-instruction lemmas along the shape of `Clo.comp ls kb kc` — for every scope `ls` (own names
and names of the enclosing function): `LoadFast` / `LoadFree` / `LoadGlobal` have one kind,
`StoreFast` / `StoreFree` / `StoreGlobal` another (`loadV_kind`, `storeV_kind`) —; new with respect
to `FunCertLemmas.lean`: function literals as expressions (`ok_mk`: `MakeCell` per capture, each one
higher, then `LoadClosure fn k` popping all `k` cells and pushing the closure; `ok_funclit`), named
declarations whose function may be a closure (`ok_fundecl`).  `ok_all` is the structural induction,
`ok_fnStmts` a whole function body (of a top-level function or of a nested literal).
-/
namespace Risor.C04.CloC
open Risor.C01 Risor.C01.Clo
open Risor.C01.Frag (isNilL postName isDefault opOK countDefault assignK)

variable {ls : Sc}

@[simp] theorem r3_length (h : Nat) : (r3 h).length = 3 := rfl

theorem cellsH_length (h : Nat) (us : List String) : (cellsH h us).length = 3 * us.length := by
  induction us generalizing h with
  | nil => rfl
  | cons x r ih => simp only [cellsH, List.length_append, r3_length, ih, List.length_cons]; omega

theorem mkH_length (h : Nat) (lit : N) : (mkH ls h lit).length = mkLen ls lit := by
  unfold mkH mkLen
  split
  · rfl
  · simp only [List.length_append, cellsH_length, r3_length]

/-! ### lengths of the height lists: those of the code pieces -/

theorem preH_length (x : Nat) (h : N) : (preH x h).length = preLen h := by
  unfold preH preLen
  cases postName h <;> rfl

macro "hlen_rest" : tactic =>
  `(tactic| (refine ⟨?_, by intro k; simp [htsVals, valsLen], by intro k; simp [htsCmpCase, caseCmpLen],
      by intro b; simp [htsCmp, cmpLen], by intro a; simp [htsBody, caseBodyLen],
      by intro d; simp [htsBodies, bodiesLen], by intro s; simp [htsDfltBody, dfltBodyLen], by intro s; simp [htsDflt, defLen],
      by intro s; simp [htsArgs, argsLen]⟩))

theorem hts_lengths (n : N) :
    (∀ x, (hts ls x n).length = size ls n) ∧ (∀ s, (htsVals ls s n).length = valsLen ls n) ∧
    (∀ s, (htsCmpCase ls s n).length = caseCmpLen ls n) ∧ (∀ s, (htsCmp ls s n).length = cmpLen ls n) ∧
    (∀ s, (htsBody ls s n).length = caseBodyLen ls n) ∧ (∀ s, (htsBodies ls s n).length = bodiesLen ls n) ∧
    (∀ s, (htsDfltBody ls s n).length = dfltBodyLen ls n) ∧ (∀ s, (htsDflt ls s n).length = defLen ls n) ∧
    (∀ s, (htsArgs ls s n).length = argsLen ls n) := by
  induction n with
  | cons h t ihh iht =>
    obtain ⟨h1, _, h3, _, h5, _, h7, _, _⟩ := ihh
    obtain ⟨t1, t2, _, t4, _, t6, _, t8, t9⟩ := iht
    refine ⟨?_, ?_, ?_, ?_, ?_, ?_, ?_, ?_, ?_⟩
    · intro x
      simp only [hts, size, List.length_append, preH_length]
      split <;> split <;> simp [h1, t1] <;> omega
    · intro s; simp [htsVals, valsLen, h1, t2]; omega
    · intro s; simp [htsCmpCase, caseCmpLen]
    · intro s; simp [htsCmp, cmpLen, h3, t4]
    · intro s; simp [htsBody, caseBodyLen]
    · intro s; simp [htsBodies, bodiesLen, h5, t6]
    · intro s; simp [htsDfltBody, dfltBodyLen]
    · intro s; simp only [htsDflt, defLen]; split <;> simp [h7, t8]
    · intro s; simp [htsArgs, argsLen, h1, t9]
  | case_ vals body ihv ihb =>
    refine ⟨?_, ?_, ?_, ?_, ?_, ?_, ?_, ?_, ?_⟩
    · intro x; simp [hts, size]
    · intro s; simp [htsVals, valsLen]
    · intro s; simp [htsCmpCase, caseCmpLen, ihv.2.1]
    · intro s; simp [htsCmp, cmpLen]
    · intro s; simp [htsBody, caseBodyLen, ihb.1]
    · intro s; simp [htsBodies, bodiesLen]
    · intro s; simp [htsDfltBody, dfltBodyLen]
    · intro s; simp [htsDflt, defLen]
    · intro s; simp [htsArgs, argsLen]
  | default_ body ihb =>
    refine ⟨?_, ?_, ?_, ?_, ?_, ?_, ?_, ?_, ?_⟩
    · intro x; simp [hts, size]
    · intro s; simp [htsVals, valsLen]
    · intro s; simp [htsCmpCase, caseCmpLen]
    · intro s; simp [htsCmp, cmpLen]
    · intro s; simp [htsBody, caseBodyLen]
    · intro s; simp [htsBodies, bodiesLen]
    · intro s; simp [htsDfltBody, dfltBodyLen, ihb.1]
    · intro s; simp [htsDflt, defLen]
    · intro s; simp [htsArgs, argsLen]
  | «infix» op l r ihl ihr =>
    hlen_rest
    intro x
    by_cases h1 : op = .and
    · simp [hts, size, h1, ihl.1, ihr.1]; omega
    · by_cases h2 : op = .or
      · simp [hts, size, h2, ihl.1, ihr.1]; omega
      · simp [hts, size, h1, h2, ihl.1, ihr.1]; omega
  | assign x op e ih =>
    hlen_rest
    intro x
    by_cases h1 : op = .set
    · simp [hts, size, h1, ih.1]
    · simp [hts, size, h1, ih.1]; omega
  | for3 i c p b ihi ihc ihp ihb =>
    hlen_rest
    intro x
    simp only [hts, size, List.length_append, ihi.1, ihc.1, ihp.1, ihb.1, r2_length, r1_length]
    split <;> simp <;> omega
  | switch subj cases ihs ihc =>
    hlen_rest
    intro x
    simp [hts, size, ihs.1, ihc.2.2.2.1, ihc.2.2.2.2.2.1, ihc.2.2.2.2.2.2.2.1]; omega
  | tern c a b ihc iha ihb => hlen_rest; intro x; simp [hts, size, ihc.1, iha.1, ihb.1]; omega
  | if_ c a b ihc iha ihb => hlen_rest; intro x; simp [hts, size, ihc.1, iha.1, ihb.1]; omega
  | forcond c b ihc ihb => hlen_rest; intro x; simp [hts, size, ihc.1, ihb.1]; omega
  | forever b ihb => hlen_rest; intro x; simp [hts, size, ihb.1]
  | neg e ih => hlen_rest; intro x; simp [hts, size, ih.1]
  | not e ih => hlen_rest; intro x; simp [hts, size, ih.1]
  | var x e ih => hlen_rest; intro x; simp [hts, size, ih.1]
  | call f args ihf iha => hlen_rest; intro x; simp [hts, size, ihf.1, iha.2.2.2.2.2.2.2.2]; omega
  | return_ e ih => hlen_rest; intro x; simp [hts, size, ih.1]
  | block s ih => hlen_rest; intro x; simp [hts, size, ih.1]
  | prog s ih => hlen_rest; intro x; simp [hts, size, ih.1]
  | expr s ih => hlen_rest; intro x; simp only [hts, size]; split <;> simp [ih.1, mkH_length]
  | func name ps b _ _ => hlen_rest; intro x; simp [hts, size, mkH_length]
  | _ => hlen_rest; intro x; simp [hts, size]

theorem hts_length (n : N) (x : Nat) : (hts ls x n).length = size ls n := (hts_lengths n).1 x
theorem htsVals_length (n : N) (s : Nat) : (htsVals ls s n).length = valsLen ls n := (hts_lengths n).2.1 s
theorem htsCmpCase_length (n : N) (s : Nat) : (htsCmpCase ls s n).length = caseCmpLen ls n := (hts_lengths n).2.2.1 s
theorem htsCmp_length (n : N) (s : Nat) : (htsCmp ls s n).length = cmpLen ls n := (hts_lengths n).2.2.2.1 s
theorem htsBody_length (n : N) (s : Nat) : (htsBody ls s n).length = caseBodyLen ls n := (hts_lengths n).2.2.2.2.1 s
theorem htsBodies_length (n : N) (s : Nat) : (htsBodies ls s n).length = bodiesLen ls n := (hts_lengths n).2.2.2.2.2.1 s
theorem htsDflt_length (n : N) (s : Nat) : (htsDflt ls s n).length = defLen ls n := (hts_lengths n).2.2.2.2.2.2.2.1 s
theorem htsArgs_length (n : N) (s : Nat) : (htsArgs ls s n).length = argsLen ls n := (hts_lengths n).2.2.2.2.2.2.2.2 s

/-- the code that pushes a function begins with an instruction, and its heights with the entry
    height -/
theorem head_mk (lit : N) (x : Nat) : ∃ i c t, mkCode ls lit = some i :: c ∧ mkH ls x lit = x :: t := by
  unfold mkCode mkH
  cases hc : capt ls.ls lit with
  | nil => exact ⟨_, _, _, rfl, rfl⟩
  | cons y r =>
    simp only [List.isEmpty_cons, Bool.false_eq_true, ↓reduceIte, List.flatMap_cons, cellsH, three, r3,
      List.cons_append]
    exact ⟨_, _, _, rfl, rfl⟩

/-- the code of a node of the fragment begins with an instruction, and its heights with the
    entry height -/
theorem head_comp (n : N) : wf n = true → ∀ kb kc x,
    ∃ i c t, comp ls kb kc n = some i :: c ∧ hts ls x n = x :: t := by
  induction n with
  | nilLit => intro _ kb kc x; exact ⟨_, _, _, rfl, rfl⟩
  | none_ => intro _ kb kc x; exact ⟨_, _, _, rfl, rfl⟩
  | nilL => intro _ kb kc x; exact ⟨_, _, _, rfl, rfl⟩
  | bool b => intro _ kb kc x; exact ⟨_, _, _, rfl, rfl⟩
  | int i => intro _ kb kc x; exact ⟨_, _, _, rfl, rfl⟩
  | str s => intro _ kb kc x; exact ⟨_, _, _, rfl, rfl⟩
  | id s => intro _ kb kc x; exact ⟨_, _, _, rfl, rfl⟩
  | break_ => intro _ kb kc x; exact ⟨_, _, _, rfl, rfl⟩
  | continue_ => intro _ kb kc x; exact ⟨_, _, _, rfl, rfl⟩
  | «postfix» s inc => intro _ kb kc x; exact ⟨_, _, _, rfl, rfl⟩
  | «infix» op l r ihl _ =>
    intro hw kb kc x
    simp only [wf, Bool.and_eq_true] at hw
    obtain ⟨i, c, t, e1, e2⟩ := ihl hw.1.2 0 0 x
    by_cases h1 : op = .and
    · subst h1; exact ⟨i, _, _, by simp only [comp, ↓reduceIte, e1, List.cons_append]; rfl, by simp only [hts, ↓reduceIte, e2, List.cons_append]; rfl⟩
    · by_cases h2 : op = .or
      · subst h2; exact ⟨i, _, _, by simp only [comp, reduceCtorEq, ↓reduceIte, e1, List.cons_append]; rfl, by simp only [hts, reduceCtorEq, ↓reduceIte, e2, List.cons_append]; rfl⟩
      · exact ⟨i, _, _, by simp only [comp, h1, h2, ↓reduceIte, e1, List.cons_append]; rfl, by simp only [hts, h1, h2, ↓reduceIte, e2, List.cons_append]; rfl⟩
  | neg e ih =>
    intro hw kb kc x
    simp only [wf, Bool.and_eq_true] at hw
    obtain ⟨i, c, t, e1, e2⟩ := ih hw.2 0 0 x
    exact ⟨i, _, _, by simp only [comp, e1, List.cons_append]; rfl, by simp only [hts, e2, List.cons_append]; rfl⟩
  | not e ih =>
    intro hw kb kc x
    simp only [wf, Bool.and_eq_true] at hw
    obtain ⟨i, c, t, e1, e2⟩ := ih hw.2 0 0 x
    exact ⟨i, _, _, by simp only [comp, e1, List.cons_append]; rfl, by simp only [hts, e2, List.cons_append]; rfl⟩
  | tern c a b ihc _ _ =>
    intro hw kb kc x
    simp only [wf, Bool.and_eq_true] at hw
    obtain ⟨i, c, t, e1, e2⟩ := ihc hw.1.1.2 0 0 x
    exact ⟨i, _, _, by simp only [comp, e1, List.cons_append]; rfl, by simp only [hts, e2, List.cons_append]; rfl⟩
  | if_ c a b ihc _ _ =>
    intro hw kb kc x
    simp only [wf, Bool.and_eq_true] at hw
    obtain ⟨i, c, t, e1, e2⟩ := ihc hw.1.1.2 0 0 x
    exact ⟨i, _, _, by simp only [comp, e1, List.cons_append]; rfl, by simp only [hts, e2, List.cons_append]; rfl⟩
  | block s ih =>
    intro hw kb kc x
    simp only [wf, Bool.and_eq_true] at hw
    obtain ⟨i, c, t, e1, e2⟩ := ih hw.2 kb kc x
    exact ⟨i, c, t, by simp only [comp, e1], by simp only [hts, e2]⟩
  | prog s ih =>
    intro hw kb kc x
    simp only [wf, Bool.and_eq_true] at hw
    obtain ⟨i, c, t, e1, e2⟩ := ih hw.2 kb kc x
    exact ⟨i, c, t, by simp only [comp, e1], by simp only [hts, e2]⟩
  | expr s ih =>
    intro hw kb kc x
    cases hf : isNamed s
    · simp only [wf, hf, Bool.false_eq_true, ↓reduceIte, Bool.and_eq_true] at hw
      obtain ⟨i, c, t, e1, e2⟩ := ih hw.2 kb kc x
      exact ⟨i, c, t, by simp only [comp, hf, Bool.false_eq_true, ↓reduceIte, e1],
        by simp only [hts, hf, Bool.false_eq_true, ↓reduceIte, e2]⟩
    · obtain ⟨i, c, t, e1, e2⟩ := head_mk (ls := ls) s x
      exact ⟨i, _, _, by simp only [comp, hf, ↓reduceIte, e1, List.cons_append]; rfl,
        by simp only [hts, hf, ↓reduceIte, e2, List.cons_append]; rfl⟩
  | func name ps b _ _ =>
    intro hw kb kc x
    obtain ⟨i, c, t, e1, e2⟩ := head_mk (ls := ls) (.func name ps b) x
    exact ⟨i, c, t, by simp only [comp, e1], by simp only [hts, e2]⟩
  | var y e ih =>
    intro hw kb kc x
    simp only [wf, Bool.and_eq_true] at hw
    obtain ⟨i, c, t, e1, e2⟩ := ih hw.2 0 0 x
    exact ⟨i, _, _, by simp only [comp, e1, List.cons_append]; rfl, by simp only [hts, e2, List.cons_append]; rfl⟩
  | call f args ihf _ =>
    intro hw kb kc x
    simp only [wf, Bool.and_eq_true] at hw
    obtain ⟨i, c, t, e1, e2⟩ := ihf hw.1.2 0 0 x
    exact ⟨i, _, _, by simp only [comp, e1, List.cons_append]; rfl, by simp only [hts, e2, List.cons_append]; rfl⟩
  | return_ e ih =>
    intro hw kb kc x
    simp only [wf, Bool.and_eq_true] at hw
    obtain ⟨i, c, t, e1, e2⟩ := ih hw.2 0 0 x
    exact ⟨i, _, _, by simp only [comp, e1, List.cons_append]; rfl, by simp only [hts, e2, List.cons_append]; rfl⟩
  | assign y op e ih =>
    intro hw kb kc x
    simp only [wf, Bool.and_eq_true] at hw
    by_cases h1 : op = .set
    · obtain ⟨i, c, t, e1, e2⟩ := ih hw.2 0 0 x
      exact ⟨i, _, _, by simp only [comp, h1, ↓reduceIte, e1, List.cons_append]; rfl, by simp only [hts, h1, ↓reduceIte, e2, List.cons_append]; rfl⟩
    · exact ⟨_, _, _, by simp only [comp, h1, ↓reduceIte, two, List.cons_append]; rfl, by simp only [hts, h1, ↓reduceIte, r2, List.cons_append]; rfl⟩
  | forcond c b ihc _ =>
    intro hw kb kc x
    simp only [wf, Bool.and_eq_true] at hw
    obtain ⟨i, c, t, e1, e2⟩ := ihc hw.1.2 0 0 x
    exact ⟨i, _, _, by simp only [comp, e1, List.cons_append]; rfl, by simp only [hts, e2, List.cons_append]; rfl⟩
  | forever b ihb =>
    intro hw kb kc x
    simp only [wf, Bool.and_eq_true] at hw
    obtain ⟨i, c, t, e1, e2⟩ := ihb hw.2 3 1 x
    exact ⟨i, _, _, by simp only [comp, e1, List.cons_append]; rfl, by simp only [hts, e2, List.cons_append]; rfl⟩
  | for3 i0 c p b ihi _ _ _ =>
    intro hw kb kc x
    simp only [wf, Bool.and_eq_true] at hw
    obtain ⟨i, c, t, e1, e2⟩ := ihi hw.1.1.1.2 0 0 x
    exact ⟨i, _, _, by simp only [comp, e1, List.cons_append]; rfl, by simp only [hts, e2, List.cons_append]; rfl⟩
  | switch subj cases ihs _ =>
    intro hw kb kc x
    simp only [wf, Bool.and_eq_true] at hw
    obtain ⟨i, c, t, e1, e2⟩ := ihs hw.1.1.2 0 0 x
    exact ⟨i, _, _, by simp only [comp, e1, List.cons_append]; rfl, by simp only [hts, e2, List.cons_append]; rfl⟩
  | cons h t ihh _ =>
    intro hw kb kc x
    simp only [wf, Bool.and_eq_true] at hw
    cases hp : postName h with
    | some y =>
      exact ⟨_, _, _, by simp only [comp, pre, hp, two, List.cons_append]; rfl, by simp only [hts, preH, hp, r2, List.cons_append]; rfl⟩
    | none =>
      by_cases hn : isNilL t = true
      · obtain ⟨i, c, t', e1, e2⟩ := ihh hw.1.2 (kb + (if leaves h then 0 else 1)) (kc + (if leaves h then 0 else 1)) x
        exact ⟨i, _, _, by simp only [comp, pre, hp, hn, ↓reduceIte, e1, List.nil_append, List.cons_append]; rfl,
          by simp only [hts, preH, hp, hn, ↓reduceIte, e2, List.nil_append, List.cons_append]; rfl⟩
      · obtain ⟨i, c, t', e1, e2⟩ := ihh hw.1.2 (kb + ((if leaves h then 1 else 0) + size ls t)) (kc + ((if leaves h then 1 else 0) + size ls t)) x
        exact ⟨i, _, _, by simp only [comp, pre, hp, hn, e1, List.nil_append, List.cons_append]; rfl,
          by simp only [hts, preH, hp, hn, e2, List.nil_append, List.cons_append]; rfl⟩
  | _ => intro hw; simp [wf] at hw


/-! ### whole function bodies -/

theorem htsFn_length (ls : Sc) (n : N) : (htsFn ls n).length = (compFnStmts ls n).length := by
  induction n with
  | cons h t _ iht =>
    simp only [htsFn, compFnStmts]
    split
    · rw [hts_length, comp_length]
    · split
      · simp only [List.length_append, preH_length, pre_length, hts_length, comp_length]
        split <;> rfl
      · simp only [List.length_append, preH_length, pre_length, hts_length, comp_length, iht]
        split <;> rfl
  | _ => rfl

/-- the code of a function body begins with an instruction, entered at height 0 -/
theorem head_fnStmts (ls : Sc) (n : N) (hl : isL n = true) (hw : wf n = true) :
    ∃ i c t, compFnStmts ls n = some i :: c ∧ htsFn ls n = 0 :: t := by
  cases n with
  | cons h t =>
    simp only [wf, Bool.and_eq_true] at hw
    have hwh : wf h = true := hw.1.2
    simp only [compFnStmts, htsFn]
    cases hr : isReturn h
    · simp only [Bool.false_eq_true, ↓reduceIte]
      cases hp : postName h with
      | some y =>
        cases hn : isNilL t
        · exact ⟨_, _, _, by simp only [pre, hp, two, Bool.false_eq_true, ↓reduceIte, List.cons_append, List.append_assoc]; rfl,
            by simp only [preH, hp, r2, Bool.false_eq_true, ↓reduceIte, List.cons_append, List.append_assoc]; rfl⟩
        · exact ⟨_, _, _, by simp only [pre, hp, two, ↓reduceIte, List.cons_append, List.append_assoc]; rfl,
            by simp only [preH, hp, r2, ↓reduceIte, List.cons_append, List.append_assoc]; rfl⟩
      | none =>
        obtain ⟨i, c, t', e1, e2⟩ := head_comp (ls := ls) h hwh 0 0 0
        cases hn : isNilL t
        · exact ⟨i, _, _, by simp only [pre, hp, e1, Bool.false_eq_true, ↓reduceIte, List.nil_append, List.cons_append]; rfl,
            by simp only [preH, hp, e2, Bool.false_eq_true, ↓reduceIte, List.nil_append, List.cons_append]; rfl⟩
        · exact ⟨i, _, _, by simp only [pre, hp, e1, ↓reduceIte, List.nil_append, List.cons_append]; rfl,
            by simp only [preH, hp, e2, ↓reduceIte, List.nil_append, List.cons_append]; rfl⟩
    · simp only [↓reduceIte]
      exact head_comp h hwh 0 0 0
  | nilL => exact ⟨_, _, _, rfl, rfl⟩
  | _ => simp [isL] at hl

/-! ### one code object with its heights: `CertCore.lean` at the closure fragment's instructions -/

/-- a code object of a compiled program of the closure fragment with its heights -/
abbrev UCtx := Ctx Clo.FIns insOf

end Risor.C04.CloC

/-! ### instructions with two operand slots (`MakeCell idx framesBack`, `LoadClosure const n`):
    the generic development of `CertCore.lean`, one slot further -/
namespace Risor.C04.Ctx

section three
variable {α : Type} {io : α → Ins} {G : Ctx α io}

/-- an instruction with two operand slots, then the rest -/
theorem At.three_cons {pc x : Nat} {i : α} {c2 : List (Option α)} {h2 : List Nat}
    (h : G.At pc ([some i, none, none] ++ c2) (r3 x ++ h2)) :
    G.At pc [some i, none, none] (r3 x) ∧ G.At (pc + 3) c2 h2 :=
  h.split rfl rfl

theorem At.insAt_three {pc x : Nat} {i : α} (h : G.At pc [some i, none, none] (r3 x)) : G.InsAt pc i x :=
  ⟨Win.head h.1, Win.head h.2⟩

theorem At.tgt_three {pc x : Nat} {i : α} (h : G.At pc [some i, none, none] (r3 x)) : G.Tgt pc x :=
  .inl ⟨i, h.insAt_three⟩

theorem Win.third {α : Type} {l : List α} {pc : Nat} {x y z : α} {rest : List α} (h : Win l pc (x :: y :: z :: rest)) :
    l[pc + 2]? = some z := by
  have := h 2 (by simp)
  simpa using this

/-- a straight-line instruction with TWO operand slots: `MakeCell` (pops 0, pushes 1: a cell),
    `LoadClosure fn n` (pops the `n` cells, pushes 1: the closure) -/
theorem okwin_fall3 {pc x a b : Nat} {i : α} (h : G.At pc [some i, none, none] (r3 x))
    (hk : (io i).kind = .fall a b) (hsz : (io i).size = 3) (ha : a ≤ x)
    (ht : G.Tgt (pc + 3) (x - a + b)) : G.OkWin pc 3 := by
  intro j hj
  have hj3 : j = 0 ∨ j = 1 ∨ j = 2 := by omega
  rcases hj3 with rfl | rfl | rfl
  · refine ok_ins (l := [(pc + 3, x - a + b)]) h.insAt_three ?_ ?_
    · simp only [succs, hk, hsz, ha, if_true]
    · intro q hq
      simp only [List.mem_singleton] at hq
      subst hq; exact ht
  · exact ok_operand (Win.second h.1) (Win.second h.2)
  · exact ok_operand (Win.third h.1) (Win.third h.2)

end three

end Risor.C04.Ctx

namespace Risor.C04.Ctx
open Risor.C01 Risor.C01.Clo Risor.C04.CloC
open Risor.C01.Frag (isNilL postName isDefault opOK countDefault assignK)

variable {G : UCtx} {ls : Sc}

theorem At.ccomp_cons {pc kb kc x : Nat} {n : N} {c2 : Clo.Code} {h2 : List Nat}
    (h : G.At pc (comp ls kb kc n ++ c2) (CloC.hts ls x n ++ h2)) :
    G.At pc (comp ls kb kc n) (CloC.hts ls x n) ∧ G.At (pc + size ls n) c2 h2 :=
  h.split (comp_length n kb kc) (CloC.hts_length n x)

/-- a sub-node's code is a legal target at its entry height -/
theorem At.ctgt_comp {pc kb kc x : Nat} {n : N} (hw : wf n = true) (h : G.At pc (comp ls kb kc n) (CloC.hts ls x n)) :
    G.Tgt pc x := by
  obtain ⟨i, c, t, e1, e2⟩ := CloC.head_comp (ls := ls) n hw kb kc x
  rw [e1, e2] at h
  exact .inl ⟨i, Win.head h.1, Win.head h.2⟩

/-- `Load x; PopTop` before a statement `x++` -/
theorem At.cpre_cons {h : N} {pc x : Nat} {c2 : Clo.Code} {h2 : List Nat}
    (hat : G.At pc (pre ls h ++ c2) (CloC.preH x h ++ h2)) :
    G.At pc (pre ls h) (CloC.preH x h) ∧ G.At (pc + preLen h) c2 h2 :=
  hat.split (pre_length h) (CloC.preH_length x h)

/-- a function body's code (the rest of one, after a statement) is a legal target at height 0 -/
theorem At.ctgt_fn {pc : Nat} {n : N} (hl : isL n = true) (hw : wf n = true)
    (h : G.At pc (compFnStmts ls n) (CloC.htsFn ls n)) : G.Tgt pc 0 := by
  obtain ⟨i, c, t, e1, e2⟩ := CloC.head_fnStmts ls n hl hw
  rw [e1, e2] at h
  exact .inl ⟨i, Win.head h.1, Win.head h.2⟩

end Risor.C04.Ctx

namespace Risor.C04.CloC
open Risor.C01 Risor.C01.Clo
open Risor.C01.Frag (isNilL postName isDefault opOK countDefault assignK)
open Risor.C04.Ctx

variable {G : UCtx} {ls : Sc}

theorem okwin_jf {pc x d : Nat} (h : G.At pc (two (.jf d)) (r2 x)) (ht : G.Tgt (pc + d) x) : G.OkWin pc 2 :=
  okwin_jumpF h rfl ht

theorem okwin_jb {pc x d : Nat} (h : G.At pc (two (.jb d)) (r2 x)) (hd : d ≤ pc) (ht : G.Tgt (pc - d) x) :
    G.OkWin pc 2 :=
  okwin_jumpB h rfl hd ht

/-! ### the statements of the structural induction, one per mutual function of `comp` -/

/-- a node: entered at `x`, left at `x + exitD n`; a `break` / `continue` that escapes it
    jumps with the height `x` the node itself was entered with -/
def PComp (G : UCtx) (ls : Sc) (n : N) : Prop :=
  wf n = true → ∀ kb kc x pc, G.At pc (comp ls kb kc n) (hts ls x n) →
    G.Tgt (pc + size ls n) (x + exitD n) →
    (escapes n = true → G.Tgt (pc + size ls n + kb) x ∧ G.Tgt (pc + size ls n + kc) x) →
    G.OkWin pc (size ls n)

/-- comparisons of one case with the subject on the stack (height `s + 1`): fall through and
    match both at `s + 1`; also: the piece (or what follows it) is a legal target at `s + 1` -/
def PVals (G : UCtx) (ls : Sc) (n : N) : Prop :=
  wfVals n = true → ∀ k s pc, G.At pc (compVals ls k n) (htsVals ls (s + 1) n) →
    G.Tgt (pc + valsLen ls n) (s + 1) → G.Tgt (pc + valsLen ls n + k) (s + 1) →
    G.OkWin pc (valsLen ls n) ∧ G.Tgt pc (s + 1)

/-- the comparisons of one case; its body sits `k` slots after them -/
def PCmpCase (G : UCtx) (ls : Sc) (n : N) : Prop :=
  wfCase n = true → ∀ k a s pc, G.At pc (compCmpCase ls k n) (htsCmpCase ls (s + 1) n) →
    G.Tgt (pc + caseCmpLen ls n) (s + 1) →
    G.At (pc + caseCmpLen ls n + k) (compBody ls a n) (htsBody ls (s + 1) n) →
    G.OkWin pc (caseCmpLen ls n) ∧ G.Tgt pc (s + 1)

/-- the comparison section; the bodies of the same cases sit `2 + before` slots after it -/
def PCmp (G : UCtx) (ls : Sc) (n : N) : Prop :=
  wfCases n = true → ∀ before d s pc, G.At pc (compCmp ls before n) (htsCmp ls (s + 1) n) →
    G.Tgt (pc + cmpLen ls n) (s + 1) →
    G.At (pc + cmpLen ls n + 2 + before) (compBodies ls d n) (htsBodies ls (s + 1) n) →
    G.OkWin pc (cmpLen ls n) ∧ G.Tgt pc (s + 1)

/-- one case body and its jump to the `Swap` -/
def PBody (G : UCtx) (ls : Sc) (n : N) : Prop :=
  wfCase n = true → ∀ a s pc, G.At pc (compBody ls a n) (htsBody ls s n) →
    G.Tgt (pc + caseBodyLen ls n + a) (s + 1) → G.OkWin pc (caseBodyLen ls n)

def PBodies (G : UCtx) (ls : Sc) (n : N) : Prop :=
  wfCases n = true → ∀ d s pc, G.At pc (compBodies ls d n) (htsBodies ls s n) →
    G.Tgt (pc + bodiesLen ls n + d) (s + 1) → G.OkWin pc (bodiesLen ls n)

def PDfltBody (G : UCtx) (ls : Sc) (n : N) : Prop :=
  wfCase n = true → ∀ s pc, G.At pc (compDfltBody ls n) (htsDfltBody ls s n) →
    G.Tgt (pc + dfltBodyLen ls n) (s + 1) → G.OkWin pc (dfltBodyLen ls n)

def PDflt (G : UCtx) (ls : Sc) (n : N) : Prop :=
  wfCases n = true → ∀ s pc, G.At pc (compDflt ls n) (htsDflt ls s n) →
    G.Tgt (pc + defLen ls n) (s + 1) → G.OkWin pc (defLen ls n) ∧ G.Tgt pc s

theorem exitD_of_not_unit {n : N} (h : isUnitNode n = false) : exitD n = 1 := by simp [exitD, h]
theorem exitD_of_unit {n : N} (h : isUnitNode n = true) : exitD n = 0 := by simp [exitD, h]

/-- an operand (no break/continue escapes it) through its induction hypothesis -/
theorem use_operand {n : N} (ih : PComp G ls n) (hw : wf n = true) (hx : escapes n = false) {pc x : Nat}
    (hat : G.At pc (comp ls 0 0 n) (hts ls x n)) (ht : G.Tgt (pc + size ls n) (x + exitD n)) : G.OkWin pc (size ls n) :=
  ih hw 0 0 x pc hat ht (by intro h; rw [hx] at h; cases h)

/-! ### leaves -/

/-- `PopTop` at height `x + 1` -/
theorem ok_pop {pc x : Nat} (h : G.At pc (one .popTop) (r1 (x + 1))) (ht : G.Tgt (pc + 1) x) : G.OkWin pc 1 :=
  ok_pop1 h rfl rfl ht

/-- variable access: whichever opcode the resolution picks (`LoadFast` / `LoadFree` / `LoadGlobal`,
    `StoreFast` / `StoreFree` / `StoreGlobal`), the effect on the stack height is the same -/
theorem loadV_kind (ls : Sc) (y : String) :
    (insOf (loadV ls y)).kind = .fall 0 1 ∧ (insOf (loadV ls y)).size = 2 := by
  unfold loadV; split
  · exact ⟨rfl, rfl⟩
  · split <;> exact ⟨rfl, rfl⟩

theorem storeV_kind (ls : Sc) (y : String) :
    (insOf (storeV ls y)).kind = .fall 1 0 ∧ (insOf (storeV ls y)).size = 2 := by
  unfold storeV; split
  · exact ⟨rfl, rfl⟩
  · split <;> exact ⟨rfl, rfl⟩

/-- a load of a variable at height `x` -/
theorem ok_load {pc x : Nat} {y : String} (h : G.At pc (two (loadV ls y)) (r2 x)) (ht : G.Tgt (pc + 2) (x + 1)) :
    G.OkWin pc 2 :=
  ok_push2 h (loadV_kind ls y).1 (loadV_kind ls y).2 ht

/-- a store to a variable at height `x + 1` -/
theorem ok_store {pc x : Nat} {y : String} (h : G.At pc (two (storeV ls y)) (r2 (x + 1))) (ht : G.Tgt (pc + 2) x) :
    G.OkWin pc 2 :=
  ok_pop2 h (storeV_kind ls y).1 (storeV_kind ls y).2 ht


theorem opIns_kind (op : BinOp) : (insOf (opIns op)).kind = .fall 2 1 ∧ (insOf (opIns op)).size = 2 := by
  cases op <;> exact ⟨rfl, rfl⟩

/-! ### expressions -/

theorem ok_infix (op : BinOp) (l r : N) (ihl : PComp G ls l) (ihr : PComp G ls r) (hand : op ≠ .and) (hor : op ≠ .or) :
    PComp G ls (.infix op l r) := by
  intro hw kb kc x pc hat hexit _
  simp only [wf, Bool.and_eq_true, Bool.not_eq_true'] at hw
  obtain ⟨⟨⟨⟨⟨⟨_, hel⟩, her⟩, hxl⟩, hxr⟩, hwl⟩, hwr⟩ := hw
  have hsz : size ls (.infix op l r) = size ls l + (size ls r + 2) := by simp [size, hand, hor]; omega
  have hex : exitD (.infix op l r) = 1 := by simp [exitD, isUnitNode]
  rw [hsz, hex] at hexit
  simp only [comp, hts, hand, hor, ↓reduceIte, List.append_assoc] at hat
  obtain ⟨al, hat⟩ := hat.ccomp_cons
  obtain ⟨ar, ab⟩ := hat.ccomp_cons
  rw [hsz]
  refine (use_operand ihl hwl hxl al ?_).append
    ((use_operand ihr hwr hxr ar ?_).append (ok_bin ab (opIns_kind op).1 (opIns_kind op).2 ?_))
  · rw [exitD_of_not_unit (isE_not_unit hel)]; exact ar.ctgt_comp hwr
  · rw [exitD_of_not_unit (isE_not_unit her)]; exact ab.tgt_two.cast (by omega) (by omega)
  · exact hexit.cast (by omega) (by omega)

/-- `l && r` / `l || r`: the short-circuit jump leaves with the copy of the left value -/
theorem ok_sc (l r : N) (j : FIns) (k : Nat) (hj : (insOf j).kind = .condF (size ls r + 5)) (hjs : (insOf j).size = 2)
    (ihl : PComp G ls l) (ihr : PComp G ls r) (hwl : wf l = true) (hwr : wf r = true)
    (hxl : escapes l = false) (hxr : escapes r = false) (hel : isE l = true) (her : isE r = true) {pc x : Nat}
    (hat : G.At pc (comp ls 0 0 l ++ (two (.copy 0) ++ (two j ++ (comp ls 0 0 r ++ (two (.binary k) ++ one .nop)))))
      (hts ls x l ++ (r2 (x + 1) ++ (r2 (x + 2) ++ (hts ls (x + 1) r ++ (r2 (x + 2) ++ r1 (x + 1)))))))
    (hexit : G.Tgt (pc + (size ls l + (2 + (2 + (size ls r + (2 + 1)))))) (x + 1)) :
    G.OkWin pc (size ls l + (2 + (2 + (size ls r + (2 + 1))))) := by
  obtain ⟨al, hat⟩ := hat.ccomp_cons
  obtain ⟨acp, hat⟩ := hat.two_cons
  obtain ⟨aj, hat⟩ := hat.two_cons
  obtain ⟨ar, hat⟩ := hat.ccomp_cons
  obtain ⟨ab, an⟩ := hat.two_cons
  refine (use_operand ihl hwl hxl al ?_).append ((okwin_need2 acp (a := 1) (b := 1) rfl rfl (by omega) ?_).append
    ((okwin_cond aj hj hjs (by omega) ?_ ?_).append ((use_operand ihr hwr hxr ar ?_).append
      ((ok_bin ab (i := .binary k) rfl rfl ?_).append (okwin_fall1 an (a := 0) (b := 0) rfl rfl (by omega) ?_)))))
  · rw [exitD_of_not_unit (isE_not_unit hel)]; exact acp.tgt_two
  · exact aj.tgt_two.cast (by omega) (by omega)
  · exact hexit.cast (by omega) (by omega)
  · exact (ar.ctgt_comp hwr).cast (by omega) (by omega)
  · rw [exitD_of_not_unit (isE_not_unit her)]; exact ab.tgt_two.cast (by omega) (by omega)
  · exact an.tgt_one
  · exact hexit.cast (by omega) (by omega)

theorem ok_and (l r : N) (ihl : PComp G ls l) (ihr : PComp G ls r) : PComp G ls (.infix .and l r) := by
  intro hw kb kc x pc hat hexit _
  simp only [wf, Bool.and_eq_true, Bool.not_eq_true'] at hw
  obtain ⟨⟨⟨⟨⟨⟨_, hel⟩, her⟩, hxl⟩, hxr⟩, hwl⟩, hwr⟩ := hw
  have hsz : size ls (.infix .and l r) = size ls l + (2 + (2 + (size ls r + (2 + 1)))) := by simp [size]; omega
  have hex : exitD (.infix .and l r) = 1 := by simp [exitD, isUnitNode]
  rw [hsz, hex] at hexit
  simp only [comp, hts, ↓reduceIte, List.append_assoc] at hat
  rw [hsz]
  exact ok_sc l r _ 6 rfl rfl ihl ihr hwl hwr hxl hxr hel her hat hexit

theorem ok_or (l r : N) (ihl : PComp G ls l) (ihr : PComp G ls r) : PComp G ls (.infix .or l r) := by
  intro hw kb kc x pc hat hexit _
  simp only [wf, Bool.and_eq_true, Bool.not_eq_true'] at hw
  obtain ⟨⟨⟨⟨⟨⟨_, hel⟩, her⟩, hxl⟩, hxr⟩, hwl⟩, hwr⟩ := hw
  have hsz : size ls (.infix .or l r) = size ls l + (2 + (2 + (size ls r + (2 + 1)))) := by simp [size]; omega
  have hex : exitD (.infix .or l r) = 1 := by simp [exitD, isUnitNode]
  rw [hsz, hex] at hexit
  simp only [comp, hts, reduceCtorEq, ↓reduceIte, List.append_assoc] at hat
  rw [hsz]
  exact ok_sc l r _ 7 rfl rfl ihl ihr hwl hwr hxl hxr hel her hat hexit

/-- `-e` / `!e` -/
theorem ok_unary (e : N) (i : FIns) (hk : (insOf i).kind = .fall 1 1) (hs : (insOf i).size = 1) (ih : PComp G ls e)
    (hwe : wf e = true) (hxe : escapes e = false) (hee : isE e = true) {pc x : Nat}
    (hat : G.At pc (comp ls 0 0 e ++ one i) (hts ls x e ++ r1 (x + 1))) (hexit : G.Tgt (pc + (size ls e + 1)) (x + 1)) :
    G.OkWin pc (size ls e + 1) := by
  obtain ⟨ae, ai⟩ := hat.ccomp_cons
  refine (use_operand ih hwe hxe ae ?_).append (okwin_fall1 ai hk hs (by omega) ?_)
  · rw [exitD_of_not_unit (isE_not_unit hee)]; exact ai.tgt_one
  · exact hexit.cast (by omega) (by omega)

/-- `c ? a : b` and `if c { a } else b`: both branches are entered at the node's own height,
    so a break/continue inside them jumps with that height -/
theorem ok_cond (c a b : N) (ihc : PComp G ls c) (iha : PComp G ls a) (ihb : PComp G ls b)
    (hwc : wf c = true) (hwa : wf a = true) (hwb : wf b = true) (hxc : escapes c = false)
    (huc : isUnitNode c = false) (hua : isUnitNode a = false) (hub : isUnitNode b = false) {pc x kb kc : Nat}
    (hat : G.At pc (comp ls 0 0 c ++ (two (.pjf (size ls a + 4)) ++ (comp ls (kb + (size ls b + 2)) (kc + (size ls b + 2)) a
        ++ (two (.jf (size ls b + 2)) ++ comp ls kb kc b))))
      (hts ls x c ++ (r2 (x + 1) ++ (hts ls x a ++ (r2 (x + 1) ++ hts ls x b)))))
    (hexit : G.Tgt (pc + (size ls c + (2 + (size ls a + (2 + size ls b))))) (x + 1))
    (hesc : (escapes a = true ∨ escapes b = true) →
      G.Tgt (pc + (size ls c + (2 + (size ls a + (2 + size ls b)))) + kb) x ∧
      G.Tgt (pc + (size ls c + (2 + (size ls a + (2 + size ls b)))) + kc) x) :
    G.OkWin pc (size ls c + (2 + (size ls a + (2 + size ls b)))) := by
  obtain ⟨ac, hat⟩ := hat.ccomp_cons
  obtain ⟨aj, hat⟩ := hat.two_cons
  obtain ⟨aa, hat⟩ := hat.ccomp_cons
  obtain ⟨af, ab⟩ := hat.two_cons
  refine (use_operand ihc hwc hxc ac ?_).append ((okwin_cond aj (i := .pjf (size ls a + 4)) (d := size ls a + 4) rfl rfl (by omega) ?_ ?_).append
    ((iha hwa _ _ x _ aa ?_ ?_).append ((okwin_jf af ?_).append (ihb hwb kb kc x _ ab ?_ ?_))))
  · rw [exitD_of_not_unit huc]; exact aj.tgt_two
  · exact (ab.ctgt_comp hwb).cast (by omega) (by omega)
  · exact (aa.ctgt_comp hwa).cast (by omega) (by omega)
  · rw [exitD_of_not_unit hua]; exact af.tgt_two
  · intro h
    obtain ⟨t1, t2⟩ := hesc (.inl h)
    exact ⟨t1.cast (by omega) rfl, t2.cast (by omega) rfl⟩
  · exact hexit.cast (by omega) (by omega)
  · rw [exitD_of_not_unit hub]; exact hexit.cast (by omega) (by omega)
  · intro h
    obtain ⟨t1, t2⟩ := hesc (.inr h)
    exact ⟨t1.cast (by omega) rfl, t2.cast (by omega) rfl⟩

/-! ### statements -/

theorem unit_of_isS {n : N} (h : isS n = true) (hl : leaves n = false) : isUnitNode n = true := by
  simp only [isS, Bool.or_eq_true] at h
  rcases h with h | h
  · exact h
  · rw [hl] at h; cases h

theorem not_unit_of_leaves {n : N} (hl : leaves n = true) : isUnitNode n = false := by
  cases n <;> simp_all [leaves, isUnitNode]

theorem unit_of_isPost {n : N} (h : isPost n = true) (hl : leaves n = false) : isUnitNode n = true := by
  cases n <;> simp_all [isPost, leaves, isUnitNode]

theorem ok_pre (h : N) {pc x : Nat} (hat : G.At pc (pre ls h) (preH x h))
    (ht : G.Tgt (pc + preLen h) x) : G.OkWin pc (preLen h) := by
  unfold pre preH at hat
  unfold preLen at ht ⊢
  cases hp : postName h with
  | none => exact OkWin.zero G pc
  | some y =>
    simp only [hp] at hat ht
    obtain ⟨a1, a2⟩ := hat.two_cons
    exact (ok_load a1 a2.tgt_one).append (ok_pop a2 (ht.cast (by omega) rfl))

theorem ok_cons (h t : N) (ihh : PComp G ls h) (iht : PComp G ls t) : PComp G ls (.cons h t) := by
  intro hw kb kc x pc hat hexit hesc
  simp only [wf, Bool.and_eq_true] at hw
  obtain ⟨⟨⟨hsh, hlt⟩, hwh⟩, hwt⟩ := hw
  have hex : exitD (.cons h t) = 1 := by simp [exitD, isUnitNode]
  have hext : exitD t = 1 := exitD_of_not_unit (isL_not_unit hlt)
  rw [hex] at hexit
  simp only [escapes, Bool.or_eq_true] at hesc
  cases hn : isNilL t <;> cases hl : leaves h
  · -- more statements follow, `h` leaves nothing
    have hsz : size ls (.cons h t) = preLen h + (size ls h + size ls t) := by simp [size, hn, hl]; omega
    rw [hsz] at hexit hesc ⊢
    simp only [comp, hts, hn, hl, Bool.false_eq_true, ↓reduceIte, List.nil_append, Nat.zero_add] at hat
    have hu := unit_of_isS hsh hl
    obtain ⟨ap, hat⟩ := hat.cpre_cons
    obtain ⟨ah, at_⟩ := hat.ccomp_cons
    refine (ok_pre h ap (ah.ctgt_comp hwh)).append ((ihh hwh _ _ x _ ah ?_ ?_).append (iht hwt kb kc x _ at_ ?_ ?_))
    · rw [exitD_of_unit hu]; exact (at_.ctgt_comp hwt).cast (by omega) (by omega)
    · intro he
      obtain ⟨t1, t2⟩ := hesc (.inl he)
      exact ⟨t1.cast (by omega) rfl, t2.cast (by omega) rfl⟩
    · rw [hext]; exact hexit.cast (by omega) rfl
    · intro he
      obtain ⟨t1, t2⟩ := hesc (.inr he)
      exact ⟨t1.cast (by omega) rfl, t2.cast (by omega) rfl⟩
  · -- more statements follow, `h` is an expression statement: its value is popped
    have hsz : size ls (.cons h t) = preLen h + (size ls h + (1 + size ls t)) := by simp [size, hn, hl]; omega
    rw [hsz] at hexit hesc ⊢
    simp only [comp, hts, hn, hl, Bool.false_eq_true, ↓reduceIte] at hat
    have hu := not_unit_of_leaves hl
    obtain ⟨ap, hat⟩ := hat.cpre_cons
    obtain ⟨ah, hat⟩ := hat.ccomp_cons
    obtain ⟨apop, at_⟩ := hat.one_cons
    refine (ok_pre h ap (ah.ctgt_comp hwh)).append ((ihh hwh _ _ x _ ah ?_ ?_).append
      ((ok_pop apop ?_).append (iht hwt kb kc x _ at_ ?_ ?_)))
    · rw [exitD_of_not_unit hu]; exact apop.tgt_one
    · intro he
      obtain ⟨t1, t2⟩ := hesc (.inl he)
      exact ⟨t1.cast (by omega) rfl, t2.cast (by omega) rfl⟩
    · exact at_.ctgt_comp hwt
    · rw [hext]; exact hexit.cast (by omega) rfl
    · intro he
      obtain ⟨t1, t2⟩ := hesc (.inr he)
      exact ⟨t1.cast (by omega) rfl, t2.cast (by omega) rfl⟩
  · -- last statement, not an expression: `Nil` is the block's value
    have hsz : size ls (.cons h t) = preLen h + (size ls h + 1) := by simp [size, hn, hl]; omega
    rw [hsz] at hexit hesc ⊢
    simp only [comp, hts, hn, hl, Bool.false_eq_true, ↓reduceIte] at hat
    have hu := unit_of_isS hsh hl
    obtain ⟨ap, hat⟩ := hat.cpre_cons
    obtain ⟨ah, an⟩ := hat.ccomp_cons
    refine (ok_pre h ap (ah.ctgt_comp hwh)).append ((ihh hwh _ _ x _ ah ?_ ?_).append (ok_push1 an rfl rfl ?_))
    · rw [exitD_of_unit hu]; exact an.tgt_one
    · intro he
      obtain ⟨t1, t2⟩ := hesc (.inl he)
      exact ⟨t1.cast (by omega) rfl, t2.cast (by omega) rfl⟩
    · exact hexit.cast (by omega) rfl
  · -- last statement, an expression: its value is the block's value
    have hsz : size ls (.cons h t) = preLen h + size ls h := by simp [size, hn, hl]
    rw [hsz] at hexit hesc ⊢
    simp only [comp, hts, hn, hl, ↓reduceIte, List.append_nil, Nat.add_zero] at hat
    have hu := not_unit_of_leaves hl
    obtain ⟨ap, ah⟩ := hat.cpre_cons
    refine (ok_pre h ap (ah.ctgt_comp hwh)).append (ihh hwh _ _ x _ ah ?_ ?_)
    · rw [exitD_of_not_unit hu]; exact hexit.cast (by omega) rfl
    · intro he
      obtain ⟨t1, t2⟩ := hesc (.inl he)
      exact ⟨t1.cast (by omega) rfl, t2.cast (by omega) rfl⟩

/-- `x := e` and `x = e` -/
theorem ok_store_of (e : N) (y : String) (ih : PComp G ls e) (hwe : wf e = true) (hxe : escapes e = false)
    (hee : isE e = true) {pc x : Nat}
    (hat : G.At pc (comp ls 0 0 e ++ two (storeV ls y)) (hts ls x e ++ r2 (x + 1))) (hexit : G.Tgt (pc + (size ls e + 2)) x) :
    G.OkWin pc (size ls e + 2) := by
  obtain ⟨ae, as⟩ := hat.ccomp_cons
  refine (use_operand ih hwe hxe ae ?_).append (ok_store as (hexit.cast (by omega) rfl))
  rw [exitD_of_not_unit (isE_not_unit hee)]; exact as.tgt_two

theorem ok_var (y : String) (e : N) (ih : PComp G ls e) : PComp G ls (.var y e) := by
  intro hw kb kc x pc hat hexit _
  have hex : exitD (.var y e) = 0 := by simp [exitD, isUnitNode]
  rw [hex] at hexit
  simp only [wf, Bool.and_eq_true, Bool.not_eq_true'] at hw
  have hsz : size ls (.var y e) = size ls e + 2 := by simp [size]
  rw [hsz] at hexit ⊢
  simp only [comp, hts] at hat
  exact ok_store_of e y ih hw.2 hw.1.2 hw.1.1 hat hexit

theorem ok_assign (y : String) (op : AssignOp) (e : N) (ih : PComp G ls e) : PComp G ls (.assign y op e) := by
  intro hw kb kc x pc hat hexit _
  simp only [wf, Bool.and_eq_true, Bool.not_eq_true'] at hw
  have hex : exitD (.assign y op e) = 0 := by simp [exitD, isUnitNode]
  rw [hex] at hexit
  by_cases h1 : op = .set
  · have hsz : size ls (.assign y op e) = size ls e + 2 := by simp [size, h1]
    rw [hsz] at hexit ⊢
    simp only [comp, hts, h1, ↓reduceIte] at hat
    exact ok_store_of e y ih hw.2 hw.1.2 hw.1.1 hat hexit
  · have hsz : size ls (.assign y op e) = 2 + (size ls e + (2 + 2)) := by simp [size, h1]; omega
    rw [hsz] at hexit ⊢
    simp only [comp, hts, h1, ↓reduceIte, List.append_assoc] at hat
    obtain ⟨al, hat⟩ := hat.two_cons
    obtain ⟨ae, hat⟩ := hat.ccomp_cons
    obtain ⟨ab, as⟩ := hat.two_cons
    refine (ok_load al (ae.ctgt_comp hw.2)).append ((use_operand ih hw.2 hw.1.2 ae ?_).append
      ((ok_bin ab (i := .binary (assignK op)) rfl rfl ?_).append (ok_store as (hexit.cast (by omega) (by omega)))))
    · rw [exitD_of_not_unit (isE_not_unit hw.1.1)]; exact ab.tgt_two.cast (by omega) (by omega)
    · exact as.tgt_two

theorem ok_postfix (y : String) (inc : Bool) : PComp G ls (.postfix y inc) := by
  intro _ kb kc x pc hat hexit _
  have hex : exitD (.postfix y inc) = 0 := by simp [exitD, isUnitNode]
  have hsz : size ls (.postfix y inc) = 2 + (2 + (2 + 2)) := by simp [size]
  rw [hsz, hex] at hexit
  simp only [comp, hts, List.append_assoc] at hat
  rw [hsz]
  obtain ⟨al, hat⟩ := hat.two_cons
  obtain ⟨ac, hat⟩ := hat.two_cons
  obtain ⟨ab, as⟩ := hat.two_cons
  exact (ok_load al ac.tgt_two).append ((ok_push2 ac rfl rfl (ab.tgt_two.cast rfl (by omega))).append
    ((ok_bin ab (i := .binary 1) rfl rfl as.tgt_two).append (ok_store as (hexit.cast (by omega) (by omega)))))

/-- `break` / `continue`: a forward jump to the enclosing loop's target, with the height the
    statement was entered with -/
theorem ok_break : PComp G ls .break_ := by
  intro _ kb kc x pc hat _ hesc
  simp only [comp, hts] at hat
  obtain ⟨t1, _⟩ := hesc rfl
  exact okwin_jf hat (t1.cast (by simp [size]; omega) rfl)

theorem ok_continue : PComp G ls .continue_ := by
  intro _ kb kc x pc hat _ hesc
  simp only [comp, hts] at hat
  obtain ⟨_, t2⟩ := hesc rfl
  exact okwin_jf hat (t2.cast (by simp [size]; omega) rfl)

/-! ### loops: the body's value is popped, the backward jump returns to the height the loop
    was entered with; `break` and `continue` arrive with that same height -/

theorem ok_forcond (c b : N) (ihc : PComp G ls c) (ihb : PComp G ls b) : PComp G ls (.forcond c b) := by
  intro hw kb kc x pc hat hexit _
  simp only [wf, Bool.and_eq_true, Bool.not_eq_true'] at hw
  obtain ⟨⟨⟨⟨hec, hbb⟩, hxc⟩, hwc⟩, hwb⟩ := hw
  have hex : exitD (.forcond c b) = 0 := by simp [exitD, isUnitNode]
  have hsz : size ls (.forcond c b) = size ls c + (2 + (size ls b + (1 + (2 + 1)))) := by simp [size]; omega
  rw [hsz, hex] at hexit
  simp only [comp, hts, List.append_assoc] at hat
  rw [hsz]
  obtain ⟨ac, hat⟩ := hat.ccomp_cons
  obtain ⟨aj, hat⟩ := hat.two_cons
  obtain ⟨ab, hat⟩ := hat.ccomp_cons
  obtain ⟨ap, hat⟩ := hat.one_cons
  obtain ⟨ajb, an⟩ := hat.two_cons
  refine (use_operand ihc hwc hxc ac ?_).append
    ((okwin_cond aj (i := .pjf (size ls b + 6)) (d := size ls b + 6) rfl rfl (by omega) ?_ ?_).append
      ((ihb hwb 3 1 x _ ab ?_ ?_).append ((ok_pop ap ajb.tgt_two).append
        ((okwin_jb ajb (by omega) ?_).append (okwin_fall1 an (a := 0) (b := 0) rfl rfl (by omega) ?_)))))
  · rw [exitD_of_not_unit (isE_not_unit hec)]; exact aj.tgt_two
  · exact hexit.cast (by omega) (by omega)
  · exact (ab.ctgt_comp hwb).cast rfl (by omega)
  · rw [exitD_of_not_unit (isBlock_not_unit hbb)]; exact ap.tgt_one
  · intro _
    exact ⟨an.tgt_one.cast (by omega) rfl, ajb.tgt_two.cast (by omega) rfl⟩
  · exact (ac.ctgt_comp hwc).cast (by omega) rfl
  · exact hexit.cast (by omega) (by omega)

theorem ok_forever (b : N) (ihb : PComp G ls b) : PComp G ls (.forever b) := by
  intro hw kb kc x pc hat hexit _
  simp only [wf, Bool.and_eq_true] at hw
  obtain ⟨hbb, hwb⟩ := hw
  have hex : exitD (.forever b) = 0 := by simp [exitD, isUnitNode]
  have hsz : size ls (.forever b) = size ls b + (1 + (2 + 1)) := by simp [size]
  rw [hsz, hex] at hexit
  simp only [comp, hts, List.append_assoc] at hat
  rw [hsz]
  obtain ⟨ab, hat⟩ := hat.ccomp_cons
  obtain ⟨ap, hat⟩ := hat.one_cons
  obtain ⟨ajb, an⟩ := hat.two_cons
  refine (ihb hwb 3 1 x _ ab ?_ ?_).append ((ok_pop ap ajb.tgt_two).append
    ((okwin_jb ajb (by omega) ?_).append (okwin_fall1 an (a := 0) (b := 0) rfl rfl (by omega) ?_)))
  · rw [exitD_of_not_unit (isBlock_not_unit hbb)]; exact ap.tgt_one
  · intro _
    exact ⟨an.tgt_one.cast (by omega) rfl, ajb.tgt_two.cast (by omega) rfl⟩
  · exact (ab.ctgt_comp hwb).cast (by omega) rfl
  · exact hexit.cast (by omega) (by omega)

theorem ok_for3 (i c p b : N) (ihi : PComp G ls i) (ihc : PComp G ls c) (ihp : PComp G ls p) (ihb : PComp G ls b) :
    PComp G ls (.for3 i c p b) := by
  intro hw kb kc x pc hat hexit _
  simp only [wf, Bool.and_eq_true, Bool.not_eq_true'] at hw
  obtain ⟨⟨⟨⟨⟨⟨⟨⟨⟨⟨hii, hec⟩, hpp⟩, hbb⟩, hxi⟩, hxc⟩, hxp⟩, hwi⟩, hwc⟩, hwp⟩, hwb⟩ := hw
  have hex : exitD (.for3 i c p b) = 0 := by simp [exitD, isUnitNode]
  rw [hex] at hexit
  cases hl : leaves p
  · have hup := unit_of_isPost hpp hl
    have hsz : size ls (.for3 i c p b) = size ls i + (size ls c + (2 + (size ls b + (1 + (size ls p + 2))))) := by
      simp [size, hl]; omega
    rw [hsz] at hexit ⊢
    simp only [comp, hts, hl, Bool.false_eq_true, ↓reduceIte, List.append_nil, List.append_assoc, Nat.add_zero] at hat
    obtain ⟨ai, hat⟩ := hat.ccomp_cons
    obtain ⟨ac, hat⟩ := hat.ccomp_cons
    obtain ⟨aj, hat⟩ := hat.two_cons
    obtain ⟨ab, hat⟩ := hat.ccomp_cons
    obtain ⟨ap, hat⟩ := hat.one_cons
    obtain ⟨app, ajb⟩ := hat.ccomp_cons
    refine (use_operand ihi hwi hxi ai ?_).append ((use_operand ihc hwc hxc ac ?_).append
      ((okwin_cond aj (i := .pjf (size ls b + size ls p + 5)) (d := size ls b + size ls p + 5) rfl rfl (by omega) ?_ ?_).append
        ((ihb hwb (size ls p + 3) 1 x _ ab ?_ ?_).append ((ok_pop ap (app.ctgt_comp hwp)).append
          ((use_operand ihp hwp hxp app ?_).append (okwin_jb ajb (by omega) ?_))))))
    · rw [exitD_of_unit (isInit_unit hii)]; exact ac.ctgt_comp hwc
    · rw [exitD_of_not_unit (isE_not_unit hec)]; exact aj.tgt_two
    · exact hexit.cast (by omega) (by omega)
    · exact (ab.ctgt_comp hwb).cast rfl (by omega)
    · rw [exitD_of_not_unit (isBlock_not_unit hbb)]; exact ap.tgt_one
    · intro _
      exact ⟨hexit.cast (by omega) rfl, (app.ctgt_comp hwp).cast (by omega) rfl⟩
    · rw [exitD_of_unit hup]; exact ajb.tgt_two
    · exact (ac.ctgt_comp hwc).cast (by omega) rfl
  · have hup := not_unit_of_leaves hl
    have hsz : size ls (.for3 i c p b) = size ls i + (size ls c + (2 + (size ls b + (1 + (size ls p + (1 + 2)))))) := by
      simp [size, hl]; omega
    rw [hsz] at hexit ⊢
    simp only [comp, hts, hl, ↓reduceIte, List.append_assoc] at hat
    obtain ⟨ai, hat⟩ := hat.ccomp_cons
    obtain ⟨ac, hat⟩ := hat.ccomp_cons
    obtain ⟨aj, hat⟩ := hat.two_cons
    obtain ⟨ab, hat⟩ := hat.ccomp_cons
    obtain ⟨ap, hat⟩ := hat.one_cons
    obtain ⟨app, hat⟩ := hat.ccomp_cons
    obtain ⟨ap2, ajb⟩ := hat.one_cons
    refine (use_operand ihi hwi hxi ai ?_).append ((use_operand ihc hwc hxc ac ?_).append
      ((okwin_cond aj (i := .pjf (size ls b + (size ls p + 1) + 5)) (d := size ls b + (size ls p + 1) + 5) rfl rfl (by omega) ?_ ?_).append
        ((ihb hwb (size ls p + 1 + 3) 1 x _ ab ?_ ?_).append ((ok_pop ap (app.ctgt_comp hwp)).append
          ((use_operand ihp hwp hxp app ?_).append ((ok_pop ap2 ajb.tgt_two).append (okwin_jb ajb (by omega) ?_)))))))
    · rw [exitD_of_unit (isInit_unit hii)]; exact ac.ctgt_comp hwc
    · rw [exitD_of_not_unit (isE_not_unit hec)]; exact aj.tgt_two
    · exact hexit.cast (by omega) (by omega)
    · exact (ab.ctgt_comp hwb).cast rfl (by omega)
    · rw [exitD_of_not_unit (isBlock_not_unit hbb)]; exact ap.tgt_one
    · intro _
      exact ⟨hexit.cast (by omega) rfl, (app.ctgt_comp hwp).cast (by omega) rfl⟩
    · rw [exitD_of_not_unit hup]; exact ap2.tgt_one
    · exact (ac.ctgt_comp hwc).cast (by omega) rfl

/-! ### switch: the subject stays below everything (height `x + 1`) until `Swap 1; PopTop` -/

theorem compCmpCase_length (n : N) (k : Nat) : (compCmpCase ls k n).length = caseCmpLen ls n := (comp_lengths n).2.2.1 k
theorem ok_vals_cons (v vs : N) (ihv : PComp G ls v) (ihvs : PVals G ls vs) : PVals G ls (.cons v vs) := by
  intro hw k s pc hat hfall hmatch
  simp only [wfVals, Bool.and_eq_true, Bool.not_eq_true'] at hw
  obtain ⟨⟨⟨hev, hxv⟩, hwv⟩, hwvs⟩ := hw
  have hsz : valsLen ls (.cons v vs) = 2 + (size ls v + (2 + (2 + valsLen ls vs))) := by simp [valsLen]; omega
  rw [hsz] at hfall hmatch ⊢
  simp only [compVals, htsVals, List.append_assoc] at hat
  obtain ⟨acp, hat⟩ := hat.two_cons
  obtain ⟨av, hat⟩ := hat.ccomp_cons
  obtain ⟨acm, hat⟩ := hat.two_cons
  obtain ⟨aj, avs⟩ := hat.two_cons
  obtain ⟨okvs, tvs⟩ := ihvs hwvs k s _ avs (hfall.cast (by omega) rfl) (hmatch.cast (by omega) rfl)
  refine ⟨(okwin_need2 acp (a := 1) (b := 1) rfl rfl (by omega) ?_).append ((use_operand ihv hwv hxv av ?_).append
    ((ok_bin acm (i := .compare 3) rfl rfl ?_).append
      ((okwin_cond aj (i := .pjt (valsLen ls vs + k + 2)) (d := valsLen ls vs + k + 2) rfl rfl (by omega) ?_ ?_).append okvs))),
    acp.tgt_two⟩
  · exact (av.ctgt_comp hwv).cast rfl (by omega)
  · rw [exitD_of_not_unit (isE_not_unit hev)]; exact acm.tgt_two.cast rfl (by omega)
  · exact aj.tgt_two
  · exact hmatch.cast (by omega) (by omega)
  · exact tvs.cast (by omega) (by omega)

/-- an empty piece: nothing to check, and the place is what follows it -/
theorem ok_vals_empty (n : N) (hl : valsLen ls n = 0) : PVals G ls n := by
  intro _ k s pc _ hfall _
  rw [hl] at hfall ⊢
  exact ⟨OkWin.zero G pc, hfall.cast (by omega) rfl⟩

theorem ok_cmpcase_case (vals body : N) (ihv : PVals G ls vals) : PCmpCase G ls (.case_ vals body) := by
  intro hw k a s pc hat hfall hbody
  simp only [wfCase, Bool.and_eq_true, Bool.not_eq_true'] at hw
  obtain ⟨⟨⟨hwv, _⟩, _⟩, hwb⟩ := hw
  simp only [compCmpCase, htsCmpCase, caseCmpLen, compBody, htsBody] at hat hfall hbody ⊢
  have ab : G.At (pc + valsLen ls vals + k) (comp ls 0 0 body) (hts ls (s + 1) body) := ⟨hbody.1.left, hbody.2.left⟩
  exact ihv hwv k s pc hat hfall (ab.ctgt_comp hwb)

theorem ok_cmpcase_empty (n : N) (hl : caseCmpLen ls n = 0) : PCmpCase G ls n := by
  intro _ k a s pc _ hfall _
  rw [hl] at hfall ⊢
  exact ⟨OkWin.zero G pc, hfall.cast (by omega) rfl⟩

theorem ok_cmp_cons (h t : N) (ihh : PCmpCase G ls h) (iht : PCmp G ls t) : PCmp G ls (.cons h t) := by
  intro hw before d s pc hat hfall hbodies
  simp only [wfCases, Bool.and_eq_true] at hw
  have hsz : cmpLen ls (.cons h t) = caseCmpLen ls h + cmpLen ls t := by simp [cmpLen]
  rw [hsz] at hfall hbodies ⊢
  simp only [compCmp, htsCmp, compBodies, htsBodies] at hat hbodies
  obtain ⟨ah, at_⟩ := hat.split (compCmpCase_length h _) (htsCmpCase_length h _)
  obtain ⟨bh, bt⟩ := hbodies.split (compBody_length h _) (htsBody_length h _)
  obtain ⟨okt, tt⟩ := iht hw.2 (before + caseBodyLen ls h) d s _ at_ (hfall.cast (by omega) rfl) (bt.cast (by omega))
  obtain ⟨okh, th⟩ := ihh hw.1 (cmpLen ls t + 2 + before) _ s pc ah tt (bh.cast (by omega))
  exact ⟨okh.append okt, th⟩

theorem ok_cmp_empty (n : N) (hl : cmpLen ls n = 0) : PCmp G ls n := by
  intro _ before d s pc _ hfall _
  rw [hl] at hfall ⊢
  exact ⟨OkWin.zero G pc, hfall.cast (by omega) rfl⟩

theorem ok_body_case (vals body : N) (ihb : PComp G ls body) : PBody G ls (.case_ vals body) := by
  intro hw a s pc hat hexit
  simp only [wfCase, Bool.and_eq_true, Bool.not_eq_true'] at hw
  obtain ⟨⟨⟨_, hbb⟩, hxb⟩, hwb⟩ := hw
  have hsz : caseBodyLen ls (.case_ vals body) = size ls body + 2 := by simp [caseBodyLen]
  rw [hsz] at hexit ⊢
  simp only [compBody, htsBody] at hat
  obtain ⟨ab, aj⟩ := hat.ccomp_cons
  refine (use_operand ihb hwb hxb ab ?_).append (okwin_jf aj (hexit.cast (by omega) rfl))
  rw [exitD_of_not_unit (isBlock_not_unit hbb)]; exact aj.tgt_two

theorem ok_bodies_cons (h t : N) (ihh : PBody G ls h) (iht : PBodies G ls t) : PBodies G ls (.cons h t) := by
  intro hw d s pc hat hexit
  simp only [wfCases, Bool.and_eq_true] at hw
  have hsz : bodiesLen ls (.cons h t) = caseBodyLen ls h + bodiesLen ls t := by simp [bodiesLen]
  rw [hsz] at hexit ⊢
  simp only [compBodies, htsBodies] at hat
  obtain ⟨ah, at_⟩ := hat.split (compBody_length h _) (htsBody_length h _)
  exact (ihh hw.1 _ s pc ah (hexit.cast (by omega) rfl)).append (iht hw.2 d s _ at_ (hexit.cast (by omega) rfl))

theorem ok_dfltbody_default (body : N) (ihb : PComp G ls body) : PDfltBody G ls (.default_ body) := by
  intro hw s pc hat hexit
  simp only [wfCase, Bool.and_eq_true, Bool.not_eq_true'] at hw
  obtain ⟨⟨hbb, hxb⟩, hwb⟩ := hw
  simp only [compDfltBody, htsDfltBody, dfltBodyLen] at hat hexit ⊢
  refine use_operand ihb hwb hxb hat ?_
  rw [exitD_of_not_unit (isBlock_not_unit hbb)]; exact hexit

theorem ok_dflt_cons (h t : N) (ihh : PDfltBody G ls h) (iht : PDflt G ls t) : PDflt G ls (.cons h t) := by
  intro hw s pc hat hexit
  simp only [wfCases, Bool.and_eq_true] at hw
  simp only [compDflt, htsDflt, defLen] at hat hexit ⊢
  cases hd : isDefault h
  · simp only [hd, Bool.false_eq_true, ↓reduceIte] at hat hexit ⊢
    exact iht hw.2 s pc hat hexit
  · simp only [hd, ↓reduceIte] at hat hexit ⊢
    refine ⟨ihh hw.1 s pc hat hexit, ?_⟩
    cases h <;> simp [isDefault] at hd
    rename_i body
    simp only [wfCase, Bool.and_eq_true] at hw
    simp only [compDfltBody, htsDfltBody] at hat
    exact hat.ctgt_comp hw.1.2

theorem ok_dflt_nil : PDflt G ls .nilL := by
  intro _ s pc hat hexit
  simp only [compDflt, htsDflt, defLen] at hat hexit ⊢
  exact ⟨ok_push1 hat rfl rfl hexit, hat.tgt_one⟩

theorem ok_switch (subj cases : N) (ihs : PComp G ls subj) (ihc : PCmp G ls cases) (ihb : PBodies G ls cases)
    (ihd : PDflt G ls cases) : PComp G ls (.switch subj cases) := by
  intro hw kb kc x pc hat hexit _
  simp only [wf, Bool.and_eq_true, Bool.not_eq_true'] at hw
  obtain ⟨⟨⟨⟨hes, hxs⟩, hws⟩, hwc⟩, _⟩ := hw
  have hex : exitD (.switch subj cases) = 1 := by simp [exitD, isUnitNode]
  have hsz : size ls (.switch subj cases) =
      size ls subj + (cmpLen ls cases + (2 + (bodiesLen ls cases + (defLen ls cases + (2 + 1))))) := by simp [size]; omega
  rw [hsz, hex] at hexit
  simp only [comp, hts, List.append_assoc] at hat
  rw [hsz]
  obtain ⟨as, hat⟩ := hat.ccomp_cons
  obtain ⟨ac, hat⟩ := hat.split (compCmp_length cases _) (htsCmp_length cases _)
  obtain ⟨aj, hat⟩ := hat.two_cons
  obtain ⟨ab, hat⟩ := hat.split (compBodies_length cases _) (htsBodies_length cases _)
  obtain ⟨ad, hat⟩ := hat.split (compDflt_length cases) (htsDflt_length cases _)
  obtain ⟨asw, apop⟩ := hat.two_cons
  obtain ⟨okc, tc⟩ := ihc hwc 0 (defLen ls cases) x _ ac aj.tgt_two (ab.cast (by omega))
  obtain ⟨okd, td⟩ := ihd hwc (x + 1) _ ad (asw.tgt_two.cast rfl (by omega))
  refine (use_operand ihs hws hxs as ?_).append (okc.append ((okwin_jf aj ?_).append
    ((ihb hwc (defLen ls cases) (x + 1) _ ab ?_).append (okd.append
      ((okwin_need2 asw (a := 2) (b := 0) rfl rfl (by omega) ?_).append
        (okwin_fall1 apop (a := 1) (b := 0) rfl rfl (by omega) ?_))))))
  · rw [exitD_of_not_unit (isE_not_unit hes)]; exact tc
  · exact td.cast (by omega) rfl
  · exact asw.tgt_two.cast (by omega) (by omega)
  · exact apop.tgt_one.cast rfl (by omega)
  · exact hexit.cast (by omega) (by omega)

/-! ### calls and `return` (as in F4) -/

/-- call arguments entered at height `s`: the `i`-th runs on top of the earlier ones; after the
    last one the stack holds all `argCount n` of them; also: the piece (or what follows it) is
    a legal target at `s` -/
def PArgs (G : UCtx) (ls : Sc) (n : N) : Prop :=
  wfVals n = true → ∀ s pc, G.At pc (compArgs ls n) (htsArgs ls s n) →
    G.Tgt (pc + argsLen ls n) (s + argCount n) → G.OkWin pc (argsLen ls n) ∧ G.Tgt pc s

theorem ok_args_cons (a as : N) (iha : PComp G ls a) (ihas : PArgs G ls as) : PArgs G ls (.cons a as) := by
  intro hw s pc hat hexit
  simp only [wfVals, Bool.and_eq_true, Bool.not_eq_true'] at hw
  obtain ⟨⟨⟨hea, hxa⟩, hwa⟩, hwas⟩ := hw
  have hsz : argsLen ls (.cons a as) = size ls a + argsLen ls as := by simp [argsLen]
  have hcn : argCount (.cons a as) = argCount as + 1 := by simp [argCount]
  rw [hsz, hcn] at hexit
  rw [hsz]
  simp only [compArgs, htsArgs] at hat
  obtain ⟨aa, aas⟩ := hat.ccomp_cons
  obtain ⟨okas, tas⟩ := ihas hwas (s + 1) _ aas (hexit.cast (by omega) (by omega))
  refine ⟨(use_operand iha hwa hxa aa ?_).append okas, aa.ctgt_comp hwa⟩
  rw [exitD_of_not_unit (isE_not_unit hea)]; exact tas

/-- no argument: nothing to check, and the place is what follows -/
theorem ok_args_empty (n : N) (hl : argsLen ls n = 0) (hc : argCount n = 0) : PArgs G ls n := by
  intro _ s pc _ hexit
  rw [hl, hc] at hexit
  rw [hl]
  exact ⟨OkWin.zero G pc, hexit.cast (by omega) (by omega)⟩

/-- `f(a1, …, an)`: the callee at `x`, the arguments above it, `Call n` at `x + n + 1` pops
    the `n` arguments and the callee and pushes ONE result: the expression ends at `x + 1`,
    whatever happens inside the callee's own frame -/
theorem ok_call (f args : N) (ihf : PComp G ls f) (iha : PArgs G ls args) : PComp G ls (.call f args) := by
  intro hw kb kc x pc hat hexit _
  simp only [wf, Bool.and_eq_true, Bool.not_eq_true'] at hw
  obtain ⟨⟨⟨hef, hxf⟩, hwf⟩, hwa⟩ := hw
  have hex : exitD (.call f args) = 1 := by simp [exitD, isUnitNode]
  have hsz : size ls (.call f args) = size ls f + (argsLen ls args + 2) := by simp [size]; omega
  rw [hsz, hex] at hexit
  simp only [comp, hts, List.append_assoc] at hat
  rw [hsz]
  obtain ⟨af, hat⟩ := hat.ccomp_cons
  obtain ⟨aa, ac⟩ := hat.split (compArgs_length args) (htsArgs_length args _)
  obtain ⟨oka, ta⟩ := iha hwa (x + 1) _ aa (ac.tgt_two.cast rfl rfl)
  refine (use_operand ihf hwf hxf af ?_).append (oka.append
    (okwin_fall2 ac (i := .call (argCount args)) (a := argCount args + 1) (b := 1) rfl rfl (by omega) ?_))
  · rw [exitD_of_not_unit (isE_not_unit hef)]; exact ta
  · exact hexit.cast (by omega) (by omega)

theorem ret_operand_not_unit {e : N} (h : isE e = true ∨ isNone e = true) : isUnitNode e = false := by
  rcases h with h | h
  · exact isE_not_unit h
  · cases e <;> simp_all [isNone, isUnitNode]

/-- `return e` / bare `return`: the value, then `ReturnValue` at height `x + 1 ≥ 1`.  NO exit
    target is needed: `ReturnValue` has no successor in this code object.  `x` may be anything:
    the `x` operands pending below the result (the statement sits inside an operand position, a
    loop or a `switch`) are dropped with the frame. -/
theorem ok_return_core (e : N) (ih : PComp G ls e) (hw : wf (.return_ e) = true) {pc x : Nat}
    (hat : G.At pc (comp ls 0 0 e ++ one .ret) (hts ls x e ++ r1 (x + 1))) : G.OkWin pc (size ls e + 1) := by
  simp only [wf, Bool.and_eq_true, Bool.not_eq_true', Bool.or_eq_true] at hw
  obtain ⟨⟨hee, hxe⟩, hwe⟩ := hw
  obtain ⟨ae, ar⟩ := hat.ccomp_cons
  refine (use_operand ih hwe hxe ae ?_).append (okwin_ret ar (i := .ret) rfl (by omega))
  rw [exitD_of_not_unit (ret_operand_not_unit hee)]; exact ar.tgt_one

theorem ok_return (e : N) (ih : PComp G ls e) : PComp G ls (.return_ e) := by
  intro hw kb kc x pc hat _ _
  have hsz : size ls (.return_ e) = size ls e + 1 := by simp [size]
  simp only [comp, hts] at hat
  rw [hsz]
  exact ok_return_core e ih hw hat

/-! ### what F5 adds: function literals as expressions, closures -/

/-- `MakeCell x 0` for every capture: the `i`-th at height `x + i`, each pushes one cell; also:
    the piece (or what follows it) is a legal target at `x` -/
theorem ok_cells (us : List String) : ∀ {pc x : Nat},
    G.At pc (us.flatMap (fun y => three (.makeCell y))) (cellsH x us) →
    G.Tgt (pc + 3 * us.length) (x + us.length) → G.OkWin pc (3 * us.length) ∧ G.Tgt pc x := by
  induction us with
  | nil =>
    intro pc x _ hexit
    exact ⟨OkWin.zero G pc, hexit.cast (by simp) (by simp)⟩
  | cons y r ih =>
    intro pc x hat hexit
    simp only [List.flatMap_cons, cellsH, three] at hat
    obtain ⟨a1, ar⟩ := hat.three_cons
    obtain ⟨okr, tr⟩ := ih ar (hexit.cast (by simp only [List.length_cons]; omega) (by simp only [List.length_cons]; omega))
    refine ⟨((okwin_fall3 a1 (i := .makeCell y) (a := 0) (b := 1) rfl rfl (Nat.zero_le _)
      (tr.cast rfl (by omega))).append okr).cast (by simp only [List.length_cons]; omega), a1.tgt_three⟩

/-- the code that pushes a function (`Clo.mkCode`): `LoadConst fn` when the literal captures
    nothing; otherwise one cell per capture, then `LoadClosure fn k` at height `x + k`, which pops
    the `k` cells and pushes ONE closure — the piece ends at `x + 1` either way -/
theorem ok_mk (lit : N) {pc x : Nat} (hat : G.At pc (mkCode ls lit) (mkH ls x lit))
    (hexit : G.Tgt (pc + mkLen ls lit) (x + 1)) : G.OkWin pc (mkLen ls lit) := by
  unfold mkCode mkH at hat
  unfold mkLen at hexit ⊢
  cases hc : (capt ls.ls lit).isEmpty
  · simp only [hc, Bool.false_eq_true, ↓reduceIte] at hat hexit ⊢
    obtain ⟨ac, al⟩ := hat.split (cells_code_length _) (cellsH_length _ _)
    obtain ⟨okc, _⟩ := ok_cells _ ac al.tgt_three
    exact okc.append (okwin_fall3 al (i := .loadClosure (lit, ls.ls) (capt ls.ls lit).length)
      (a := (capt ls.ls lit).length) (b := 1) rfl rfl (by omega) (hexit.cast (by omega) (by omega)))
  · simp only [hc, ↓reduceIte] at hat hexit ⊢
    exact ok_push2 hat rfl rfl hexit

/-- a function literal as an expression: it pushes exactly one value, the function or a fresh
    closure over cells of the running activation -/
theorem ok_funclit (name : String) (ps b : N) : PComp G ls (.func name ps b) := by
  intro _ kb kc x pc hat hexit _
  have hex : exitD (.func name ps b) = 1 := by simp [exitD, isUnitNode]
  have hsz : size ls (.func name ps b) = mkLen ls (.func name ps b) := by simp [size]
  rw [hsz, hex] at hexit
  simp only [comp, hts] at hat
  rw [hsz]
  exact ok_mk _ hat hexit

/-- `func f(…) {…}` as a statement: the function (a constant or a closure), `Copy 0; Store f;
    PopTop` -/
theorem ok_fundecl (e : N) (hf : isNamed e = true) : PComp G ls (.expr e) := by
  intro _ kb kc x pc hat hexit _
  have hex : exitD (.expr e) = 0 := by simp [exitD, isUnitNode, hf]
  have hsz : size ls (.expr e) = mkLen ls e + (2 + (2 + 1)) := by simp [size, hf]
  rw [hsz, hex] at hexit
  simp only [comp, hts, hf, ↓reduceIte, List.append_assoc] at hat
  rw [hsz]
  obtain ⟨am, hat⟩ := hat.split (mkCode_length e) (mkH_length x e)
  obtain ⟨acp, hat⟩ := hat.two_cons
  obtain ⟨as, ap⟩ := hat.two_cons
  exact (ok_mk e am acp.tgt_two).append
    ((okwin_need2 acp (a := 1) (b := 1) rfl rfl (by omega) (as.tgt_two.cast rfl (by omega))).append
      ((ok_store as (ap.tgt_one.cast (by omega) (by omega))).append (ok_pop ap (hexit.cast (by omega) (by omega)))))

/-! ### the structural induction -/

theorem ok_leaf1 (n : N) (i : FIns) (hc : ∀ kb kc, comp ls kb kc n = one i) (hh : ∀ x, hts ls x n = r1 x)
    (hk : (insOf i).kind = .fall 0 1) (hs : (insOf i).size = 1) (hsz : size ls n = 1) (hu : isUnitNode n = false) :
    PComp G ls n := by
  intro _ kb kc x pc hat hexit _
  rw [hc, hh] at hat
  rw [hsz, exitD_of_not_unit hu] at hexit
  rw [hsz]
  exact ok_push1 hat hk hs hexit

theorem ok_leaf2 (n : N) (i : FIns) (hc : ∀ kb kc, comp ls kb kc n = two i) (hh : ∀ x, hts ls x n = r2 x)
    (hk : (insOf i).kind = .fall 0 1) (hs : (insOf i).size = 2) (hsz : size ls n = 2) (hu : isUnitNode n = false) :
    PComp G ls n := by
  intro _ kb kc x pc hat hexit _
  rw [hc, hh] at hat
  rw [hsz, exitD_of_not_unit hu] at hexit
  rw [hsz]
  exact ok_push2 hat hk hs hexit

/-- `block`, `prog`, `expr`: the code of the wrapped node -/
theorem ok_wrap (n s : N) (ih : PComp G ls s) (hc : ∀ kb kc, comp ls kb kc n = comp ls kb kc s) (hh : ∀ x, hts ls x n = hts ls x s)
    (hsz : size ls n = size ls s) (hw : wf n = true → wf s = true ∧ isUnitNode s = false) (hu : isUnitNode n = false)
    (he : escapes n = escapes s) : PComp G ls n := by
  intro hwn kb kc x pc hat hexit hesc
  rw [hc, hh] at hat
  rw [hsz, exitD_of_not_unit hu] at hexit
  rw [hsz, he] at hesc
  rw [hsz]
  refine ih (hw hwn).1 kb kc x pc hat ?_ hesc
  rw [exitD_of_not_unit (hw hwn).2]; exact hexit

/-- the seven list-shaped statements are vacuous on a node that is neither a list nor a case -/
macro "ok_rest" : tactic =>
  `(tactic| (refine ⟨?_, by intro hw; simp [wfVals] at hw, by intro hw; simp [wfCase] at hw,
      by intro hw; simp [wfCases] at hw, by intro hw; simp [wfCase] at hw, by intro hw; simp [wfCases] at hw,
      by intro hw; simp [wfCase] at hw, by intro hw; simp [wfCases] at hw, by intro hw; simp [wfVals] at hw⟩))

/-- every piece of the code of every node of the fragment passes `check`'s per-offset test,
    wherever it sits, provided its exits are legal targets with the right heights -/
theorem ok_all (G : UCtx) (n : N) :
    PComp G ls n ∧ PVals G ls n ∧ PCmpCase G ls n ∧ PCmp G ls n ∧ PBody G ls n ∧ PBodies G ls n ∧ PDfltBody G ls n ∧
      PDflt G ls n ∧ PArgs G ls n := by
  induction n with
  | cons h t ihh iht =>
    exact ⟨ok_cons h t ihh.1 iht.1, ok_vals_cons h t ihh.1 iht.2.1, by intro hw; simp [wfCase] at hw,
      ok_cmp_cons h t ihh.2.2.1 iht.2.2.2.1, by intro hw; simp [wfCase] at hw,
      ok_bodies_cons h t ihh.2.2.2.2.1 iht.2.2.2.2.2.1, by intro hw; simp [wfCase] at hw,
      ok_dflt_cons h t ihh.2.2.2.2.2.2.1 iht.2.2.2.2.2.2.2.1, ok_args_cons h t ihh.1 iht.2.2.2.2.2.2.2.2⟩
  | nilL =>
    refine ⟨ok_leaf1 _ .nil_ (fun _ _ => rfl) (fun _ => rfl) rfl rfl rfl rfl, ok_vals_empty _ rfl,
      by intro hw; simp [wfCase] at hw, ok_cmp_empty _ rfl, by intro hw; simp [wfCase] at hw, ?_,
      by intro hw; simp [wfCase] at hw, ok_dflt_nil, ok_args_empty _ rfl rfl⟩
    intro _ d s pc _ _
    exact OkWin.zero G pc
  | case_ vals body ihv ihb =>
    refine ⟨by intro hw; simp [wf] at hw, by intro hw; simp [wfVals] at hw, ok_cmpcase_case vals body ihv.2.1,
      by intro hw; simp [wfCases] at hw, ok_body_case vals body ihb.1, by intro hw; simp [wfCases] at hw, ?_,
      by intro hw; simp [wfCases] at hw, by intro hw; simp [wfVals] at hw⟩
    intro _ s pc _ _
    exact OkWin.zero G pc
  | default_ body ihb =>
    refine ⟨by intro hw; simp [wf] at hw, by intro hw; simp [wfVals] at hw, ok_cmpcase_empty _ rfl,
      by intro hw; simp [wfCases] at hw, ?_, by intro hw; simp [wfCases] at hw, ok_dfltbody_default body ihb.1,
      by intro hw; simp [wfCases] at hw, by intro hw; simp [wfVals] at hw⟩
    intro _ a s pc _ _
    exact OkWin.zero G pc
  | nilLit => ok_rest; exact ok_leaf1 _ .nil_ (fun _ _ => rfl) (fun _ => rfl) rfl rfl rfl rfl
  | none_ => ok_rest; exact ok_leaf1 _ .nil_ (fun _ _ => rfl) (fun _ => rfl) rfl rfl rfl rfl
  | bool b =>
    ok_rest
    cases b
    · exact ok_leaf1 _ .false_ (fun _ _ => rfl) (fun _ => rfl) rfl rfl rfl rfl
    · exact ok_leaf1 _ .true_ (fun _ _ => rfl) (fun _ => rfl) rfl rfl rfl rfl
  | int i => ok_rest; exact ok_leaf2 _ (.constInt i) (fun _ _ => rfl) (fun _ => rfl) rfl rfl rfl rfl
  | str s => ok_rest; exact ok_leaf2 _ (.constStr s) (fun _ _ => rfl) (fun _ => rfl) rfl rfl rfl rfl
  | id y => ok_rest; exact ok_leaf2 _ (loadV ls y) (fun _ _ => rfl) (fun _ => rfl) (loadV_kind ls y).1 (loadV_kind ls y).2 rfl rfl
  | «infix» op l r ihl ihr =>
    ok_rest
    by_cases hand : op = .and
    · subst hand; exact ok_and l r ihl.1 ihr.1
    · by_cases hor : op = .or
      · subst hor; exact ok_or l r ihl.1 ihr.1
      · exact ok_infix op l r ihl.1 ihr.1 hand hor
  | neg e ih =>
    ok_rest
    intro hw kb kc x pc hat hexit _
    simp only [wf, Bool.and_eq_true, Bool.not_eq_true'] at hw
    have hsz : size ls (.neg e) = size ls e + 1 := by simp [size]
    have hex : exitD (.neg e) = 1 := by simp [exitD, isUnitNode]
    rw [hsz, hex] at hexit
    simp only [comp, hts] at hat
    rw [hsz]
    exact ok_unary e .unaryNeg rfl rfl ih.1 hw.2 hw.1.2 hw.1.1 hat hexit
  | not e ih =>
    ok_rest
    intro hw kb kc x pc hat hexit _
    simp only [wf, Bool.and_eq_true, Bool.not_eq_true'] at hw
    have hsz : size ls (.not e) = size ls e + 1 := by simp [size]
    have hex : exitD (.not e) = 1 := by simp [exitD, isUnitNode]
    rw [hsz, hex] at hexit
    simp only [comp, hts] at hat
    rw [hsz]
    exact ok_unary e .unaryNot rfl rfl ih.1 hw.2 hw.1.2 hw.1.1 hat hexit
  | tern c a b ihc iha ihb =>
    ok_rest
    intro hw kb kc x pc hat hexit hesc
    simp only [wf, Bool.and_eq_true, Bool.not_eq_true'] at hw
    obtain ⟨⟨⟨⟨⟨⟨⟨⟨hec, hea⟩, heb⟩, hxc⟩, _⟩, _⟩, hwc⟩, hwa⟩, hwb⟩ := hw
    have hsz : size ls (.tern c a b) = size ls c + (2 + (size ls a + (2 + size ls b))) := by simp [size]; omega
    have hex : exitD (.tern c a b) = 1 := by simp [exitD, isUnitNode]
    rw [hsz, hex] at hexit
    rw [hsz] at hesc
    simp only [comp, hts, List.append_assoc] at hat
    rw [hsz]
    refine ok_cond c a b ihc.1 iha.1 ihb.1 hwc hwa hwb hxc (isE_not_unit hec) (isE_not_unit hea) (isE_not_unit heb)
      hat hexit ?_
    intro h
    exact hesc (by simp only [escapes, Bool.or_eq_true]; rcases h with h | h <;> simp [h])
  | if_ c a b ihc iha ihb =>
    ok_rest
    intro hw kb kc x pc hat hexit hesc
    simp only [wf, Bool.and_eq_true, Bool.not_eq_true'] at hw
    obtain ⟨⟨⟨⟨⟨⟨hec, hba⟩, heb⟩, hxc⟩, hwc⟩, hwa⟩, hwb⟩ := hw
    have hsz : size ls (.if_ c a b) = size ls c + (2 + (size ls a + (2 + size ls b))) := by simp [size]; omega
    have hex : exitD (.if_ c a b) = 1 := by simp [exitD, isUnitNode]
    rw [hsz, hex] at hexit
    rw [hsz] at hesc
    simp only [comp, hts, List.append_assoc] at hat
    rw [hsz]
    refine ok_cond c a b ihc.1 iha.1 ihb.1 hwc hwa hwb hxc (isE_not_unit hec) (isBlock_not_unit hba)
      (isElse_not_unit heb) hat hexit ?_
    intro h
    exact hesc (by simp only [escapes, Bool.or_eq_true]; rcases h with h | h <;> simp [h])
  | block s ih =>
    ok_rest
    refine ok_wrap _ s ih.1 (fun _ _ => by simp only [comp]) (fun _ => by simp only [hts]) (by simp [size]) ?_ rfl
      (by simp [escapes])
    intro hw
    simp only [wf, Bool.and_eq_true] at hw
    exact ⟨hw.2, isL_not_unit hw.1⟩
  | prog s ih =>
    ok_rest
    refine ok_wrap _ s ih.1 (fun _ _ => by simp only [comp]) (fun _ => by simp only [hts]) (by simp [size]) ?_ rfl
      (by simp [escapes])
    intro hw
    simp only [wf, Bool.and_eq_true] at hw
    exact ⟨hw.2, isL_not_unit hw.1.1⟩
  | expr e ih =>
    ok_rest
    cases hf : isNamed e
    · refine ok_wrap _ e ih.1 (fun _ _ => by simp only [comp, hf, Bool.false_eq_true, ↓reduceIte])
        (fun _ => by simp only [hts, hf, Bool.false_eq_true, ↓reduceIte]) (by simp [size, hf]) ?_
        (by simp [isUnitNode, hf]) (by simp [escapes])
      intro hw
      simp only [wf, hf, Bool.false_eq_true, ↓reduceIte, Bool.and_eq_true] at hw
      exact ⟨hw.2, isE_not_unit hw.1⟩
    · exact ok_fundecl e hf
  | func name ps b _ _ => ok_rest; exact ok_funclit name ps b
  | var y e ih => ok_rest; exact ok_var y e ih.1
  | assign y op e ih => ok_rest; exact ok_assign y op e ih.1
  | «postfix» y inc => ok_rest; exact ok_postfix y inc
  | break_ => ok_rest; exact ok_break
  | continue_ => ok_rest; exact ok_continue
  | forcond c b ihc ihb => ok_rest; exact ok_forcond c b ihc.1 ihb.1
  | forever b ihb => ok_rest; exact ok_forever b ihb.1
  | for3 i c p b ihi ihc ihp ihb => ok_rest; exact ok_for3 i c p b ihi.1 ihc.1 ihp.1 ihb.1
  | switch subj cases ihs ihc => ok_rest; exact ok_switch subj cases ihs.1 ihc.2.2.2.1 ihc.2.2.2.2.2.1 ihc.2.2.2.2.2.2.2.1
  | call f args ihf iha => ok_rest; exact ok_call f args ihf.1 iha.2.2.2.2.2.2.2.2
  | return_ e ih => ok_rest; exact ok_return e ih.1
  | _ => ok_rest; intro hw; simp [wf] at hw


/-! ### a whole function body: `compFnStmts` (the statements up to the first top-level `return`,
    the implicit `ReturnValue`) entered at height 0; every path ends in `ReturnValue` -/

theorem ok_fnStmts (G : UCtx) (ls : Sc) (n : N) : isL n = true → wf n = true → escapes n = false →
    ∀ pc, G.At pc (compFnStmts ls n) (htsFn ls n) → G.OkWin pc (compFnStmts ls n).length := by
  induction n with
  | cons h t _ iht =>
    intro _ hw hx pc hat
    simp only [wf, Bool.and_eq_true] at hw
    obtain ⟨⟨⟨hsh, hlt⟩, hwh⟩, hwt⟩ := hw
    simp only [escapes, Bool.or_eq_false_iff] at hx
    obtain ⟨hxh, hxt⟩ := hx
    have ihh : PComp G ls h := (ok_all G h).1
    have noesc : ∀ q : Nat, escapes h = true → G.Tgt (q + 0) 0 ∧ G.Tgt (q + 0) 0 := by
      intro q he; rw [hxh] at he; cases he
    cases hr : isReturn h
    · cases hn : isNilL t <;> cases hl : leaves h
      · -- a unit statement, more follow
        have hu := unit_of_isS hsh hl
        simp only [compFnStmts, htsFn, hr, hn, hl, Bool.false_eq_true, ↓reduceIte, List.append_nil, List.append_assoc]
          at hat ⊢
        obtain ⟨ap, hat⟩ := hat.cpre_cons
        obtain ⟨ah, at_⟩ := hat.ccomp_cons
        have hlen : (pre ls h ++ (comp ls 0 0 h ++ compFnStmts ls t)).length
            = preLen h + (size ls h + (compFnStmts ls t).length) := by
          simp only [List.length_append, pre_length, comp_length]
        rw [hlen]
        refine (ok_pre h ap (ah.ctgt_comp hwh)).append ((ihh hwh 0 0 0 _ ah ?_ (noesc _)).append
          (iht hlt hwt hxt _ at_))
        rw [exitD_of_unit hu]; exact (at_.ctgt_fn hlt hwt).cast (by omega) rfl
      · -- an expression statement, more follow: its value is popped
        have hu := not_unit_of_leaves hl
        simp only [compFnStmts, htsFn, hr, hn, hl, Bool.false_eq_true, ↓reduceIte, List.append_assoc] at hat ⊢
        obtain ⟨ap, hat⟩ := hat.cpre_cons
        obtain ⟨ah, hat⟩ := hat.ccomp_cons
        obtain ⟨apop, at_⟩ := hat.one_cons
        have hlen : (pre ls h ++ (comp ls 0 0 h ++ (one .popTop ++ compFnStmts ls t))).length
            = preLen h + (size ls h + (1 + (compFnStmts ls t).length)) := by
          simp only [List.length_append, pre_length, comp_length]; rfl
        rw [hlen]
        refine (ok_pre h ap (ah.ctgt_comp hwh)).append ((ihh hwh 0 0 0 _ ah ?_ (noesc _)).append
          ((ok_pop apop (at_.ctgt_fn hlt hwt)).append (iht hlt hwt hxt _ at_)))
        rw [exitD_of_not_unit hu]; exact apop.tgt_one
      · -- the last statement is no expression: `Nil; ReturnValue`
        have hu := unit_of_isS hsh hl
        simp only [compFnStmts, htsFn, hr, hn, hl, Bool.false_eq_true, ↓reduceIte, List.append_assoc] at hat ⊢
        obtain ⟨ap, hat⟩ := hat.cpre_cons
        obtain ⟨ah, hat⟩ := hat.ccomp_cons
        obtain ⟨an, ar⟩ := hat.one_cons
        have hlen : (pre ls h ++ (comp ls 0 0 h ++ (one .nil_ ++ one .ret))).length = preLen h + (size ls h + (1 + 1)) := by
          simp only [List.length_append, pre_length, comp_length]; rfl
        rw [hlen]
        refine (ok_pre h ap (ah.ctgt_comp hwh)).append ((ihh hwh 0 0 0 _ ah ?_ (noesc _)).append
          ((ok_push1 an rfl rfl ar.tgt_one).append (okwin_ret ar (i := .ret) rfl (by omega))))
        rw [exitD_of_unit hu]; exact an.tgt_one
      · -- the last statement is an expression: its value is returned
        have hu := not_unit_of_leaves hl
        simp only [compFnStmts, htsFn, hr, hn, hl, Bool.false_eq_true, ↓reduceIte, List.append_assoc] at hat ⊢
        obtain ⟨ap, hat⟩ := hat.cpre_cons
        obtain ⟨ah, ar⟩ := hat.ccomp_cons
        have hlen : (pre ls h ++ (comp ls 0 0 h ++ one .ret)).length = preLen h + (size ls h + 1) := by
          simp only [List.length_append, pre_length, comp_length]; rfl
        rw [hlen]
        refine (ok_pre h ap (ah.ctgt_comp hwh)).append ((ihh hwh 0 0 0 _ ah ?_ (noesc _)).append
          (okwin_ret ar (i := .ret) rfl (by omega)))
        rw [exitD_of_not_unit hu]; exact ar.tgt_one
    · -- the first top-level `return`: the rest of the body is not compiled
      cases h with
      | return_ e =>
        simp only [compFnStmts, htsFn, isReturn, ↓reduceIte] at hat ⊢
        rw [comp_length]
        have hsz : size ls (.return_ e) = size ls e + 1 := by simp [size]
        simp only [comp, hts] at hat
        rw [hsz]
        exact ok_return_core e (ok_all G e).1 hwh hat
      | _ => simp [isReturn] at hr
  | nilL =>
    intro _ _ _ pc hat
    simp only [compFnStmts, htsFn] at hat ⊢
    obtain ⟨an, ar⟩ := hat.one_cons
    exact (ok_push1 an rfl rfl ar.tgt_one).append (okwin_ret ar (i := .ret) rfl (by omega))
  | _ => intro hl; simp [isL] at hl

/-! ### the heights stay within the syntactic nesting depth -/

/-- every entry of `l` is at most `b` -/
def Bd (l : List Nat) (b : Nat) : Prop := ∀ x, x ∈ l → x ≤ b

theorem Bd.mono {l : List Nat} {a b : Nat} (h : Bd l a) (hab : a ≤ b) : Bd l b :=
  fun x hx => Nat.le_trans (h x hx) hab
theorem Bd_append (a b : List Nat) (k : Nat) : Bd (a ++ b) k ↔ Bd a k ∧ Bd b k := by
  simp only [Bd, List.mem_append]
  exact ⟨fun h => ⟨fun x hx => h x (.inl hx), fun x hx => h x (.inr hx)⟩,
    fun h x hx => hx.elim (h.1 x) (h.2 x)⟩
theorem Bd_nil (k : Nat) : Bd [] k ↔ True := by simp [Bd]
theorem Bd_r1 (h k : Nat) : Bd (r1 h) k ↔ h ≤ k := by simp [Bd, r1]
theorem Bd_r2 (h k : Nat) : Bd (r2 h) k ↔ h ≤ k := by simp [Bd, r2]

theorem Bd_preH (x : Nat) (h : N) (k : Nat) (hk : x + 1 ≤ k) : Bd (preH x h) k := by
  unfold preH
  cases postName h with
  | none => simp [Bd]
  | some y => simp only [Bd_append, Bd_r1, Bd_r2]; omega

theorem argCount_le_depthArgs (n : N) : argCount n ≤ depthArgs ls n := by
  induction n with
  | cons a as _ ih => simp only [argCount, depthArgs]; omega
  | _ => simp [argCount]

/-- the nine height lists of a node, bounded by its nesting depth -/
def DepthOK (ls : Sc) (n : N) : Prop :=
  (∀ x, Bd (hts ls x n) (x + depth ls n)) ∧ (∀ s, Bd (htsVals ls s n) (s + depth ls n)) ∧
  (∀ s, Bd (htsCmpCase ls s n) (s + depth ls n)) ∧ (∀ s, Bd (htsCmp ls s n) (s + depth ls n)) ∧
  (∀ s, Bd (htsBody ls s n) (s + depth ls n + 1)) ∧ (∀ s, Bd (htsBodies ls s n) (s + depth ls n)) ∧
  (∀ s, Bd (htsDfltBody ls s n) (s + depth ls n)) ∧ (∀ s, Bd (htsDflt ls s n) (s + depth ls n)) ∧
  (∀ s, Bd (htsArgs ls s n) (s + depthArgs ls n))

/-- the eight list-shaped components on a node that is neither a list nor a case -/
macro "bd_rest" : tactic =>
  `(tactic| (refine ⟨?_, by intro s; simp [htsVals, Bd], by intro s; simp [htsCmpCase, Bd],
      by intro s; simp [htsCmp, Bd], by intro s; simp [htsBody, Bd], by intro s; simp [htsBodies, Bd],
      by intro s; simp [htsDfltBody, Bd], by intro s; simp only [htsDflt, Bd_r1]; omega,
      by intro s; simp [htsArgs, Bd]⟩))

/-- after unfolding: conjunctions of bounds, each an arithmetic fact or a sub-node's bound -/
macro "bd_split" : tactic =>
  `(tactic| (simp only [Bd_append, Bd_r1, Bd_r2, Bd_nil, and_true, true_and]; repeat' apply And.intro))

theorem Bd_r3 (h k : Nat) : Bd (r3 h) k ↔ h ≤ k := by simp [Bd, r3]

theorem Bd_cellsH (us : List String) (x : Nat) : Bd (cellsH x us) (x + us.length) := by
  induction us generalizing x with
  | nil => simp [cellsH, Bd]
  | cons y r ih =>
    simp only [cellsH, Bd_append, Bd_r3, List.length_cons]
    exact ⟨by omega, (ih (x + 1)).mono (by omega)⟩

/-- the heights of the code that pushes a function stay within the number of captures -/
theorem Bd_mkH (lit : N) (x k : Nat) (hk : x + (capt ls.ls lit).length ≤ k) : Bd (mkH ls x lit) k := by
  unfold mkH
  split
  · rw [Bd_r2]; omega
  · rw [Bd_append, Bd_r3]
    exact ⟨(Bd_cellsH _ x).mono hk, hk⟩

theorem hts_le_depth (n : N) : DepthOK ls n := by
  induction n with
  | cons h t ihh iht =>
    obtain ⟨h1, _, h3, _, h5, _, h7, _, _⟩ := ihh
    obtain ⟨t1, t2, _, t4, _, t6, _, t8, t9⟩ := iht
    refine ⟨?_, ?_, ?_, ?_, ?_, ?_, ?_, ?_, ?_⟩
    · intro x
      simp only [hts, depth, Bd_append]
      refine ⟨Bd_preH x h _ (by omega), ?_⟩
      split <;> split <;> bd_split <;>
        first | omega | exact (h1 _).mono (by omega) | exact (t1 _).mono (by omega)
    · intro s
      simp only [htsVals, depth]
      bd_split <;> first | omega | exact (h1 _).mono (by omega) | exact (t2 _).mono (by omega)
    · intro s; simp [htsCmpCase, Bd]
    · intro s
      simp only [htsCmp, depth]
      bd_split <;> first | exact (h3 _).mono (by omega) | exact (t4 _).mono (by omega)
    · intro s; simp [htsBody, Bd]
    · intro s
      simp only [htsBodies, depth]
      bd_split <;> first | exact (h5 _).mono (by omega) | exact (t6 _).mono (by omega)
    · intro s; simp [htsDfltBody, Bd]
    · intro s
      simp only [htsDflt, depth]
      split
      · exact (h7 _).mono (by omega)
      · exact (t8 _).mono (by omega)
    · intro s
      simp only [htsArgs, depthArgs]
      bd_split <;> first | exact (h1 _).mono (by omega) | exact (t9 _).mono (by omega)
  | case_ vals body ihv ihb =>
    refine ⟨by intro x; simp [hts, Bd], by intro s; simp [htsVals, Bd], ?_, by intro s; simp [htsCmp, Bd], ?_,
      by intro s; simp [htsBodies, Bd], by intro s; simp [htsDfltBody, Bd], by intro s; simp only [htsDflt, Bd_r1]; omega,
      by intro s; simp [htsArgs, Bd]⟩
    · intro s; simp only [htsCmpCase, depth]; exact (ihv.2.1 _).mono (by omega)
    · intro s
      simp only [htsBody, depth]
      bd_split <;> first | omega | exact (ihb.1 _).mono (by omega)
  | default_ body ihb =>
    refine ⟨by intro x; simp [hts, Bd], by intro s; simp [htsVals, Bd], by intro s; simp [htsCmpCase, Bd],
      by intro s; simp [htsCmp, Bd], by intro s; simp [htsBody, Bd], by intro s; simp [htsBodies, Bd], ?_,
      by intro s; simp only [htsDflt, Bd_r1]; omega, by intro s; simp [htsArgs, Bd]⟩
    intro s; simp only [htsDfltBody, depth]; exact ihb.1 _
  | «infix» op l r ihl ihr =>
    bd_rest
    intro x
    simp only [hts, depth]
    split
    · bd_split <;> first | omega | exact (ihl.1 _).mono (by omega) | exact (ihr.1 _).mono (by omega)
    · split <;> bd_split <;> first | omega | exact (ihl.1 _).mono (by omega) | exact (ihr.1 _).mono (by omega)
  | neg e ih => bd_rest; intro x; simp only [hts, depth]; bd_split <;> first | omega | exact (ih.1 _).mono (by omega)
  | not e ih => bd_rest; intro x; simp only [hts, depth]; bd_split <;> first | omega | exact (ih.1 _).mono (by omega)
  | tern c a b ihc iha ihb =>
    bd_rest; intro x; simp only [hts, depth]
    bd_split <;> first | omega | exact (ihc.1 _).mono (by omega) | exact (iha.1 _).mono (by omega) | exact (ihb.1 _).mono (by omega)
  | if_ c a b ihc iha ihb =>
    bd_rest; intro x; simp only [hts, depth]
    bd_split <;> first | omega | exact (ihc.1 _).mono (by omega) | exact (iha.1 _).mono (by omega) | exact (ihb.1 _).mono (by omega)
  | block s ih => bd_rest; intro x; simp only [hts, depth]; exact ih.1 _
  | prog s ih => bd_rest; intro x; simp only [hts, depth]; exact ih.1 _
  | expr s ih =>
    bd_rest; intro x; simp only [hts, depth]
    split
    · simp only [Bd_append, Bd_r1, Bd_r2]
      exact ⟨⟨⟨Bd_mkH s x _ (by omega), by omega⟩, by omega⟩, by omega⟩
    · exact ih.1 _
  | func name ps b _ _ => bd_rest; intro x; simp only [hts, depth]; exact Bd_mkH _ x _ (Nat.le_refl _)
  | var y e ih =>
    bd_rest; intro x; simp only [hts, depth]
    bd_split <;> first | omega | exact (ih.1 _).mono (by omega)
  | call f args ihf iha =>
    bd_rest; intro x; simp only [hts, depth]
    have := argCount_le_depthArgs (ls := ls) args
    bd_split <;> first | omega | exact (ihf.1 _).mono (by omega) | exact (iha.2.2.2.2.2.2.2.2 _).mono (by omega)
  | return_ e ih => bd_rest; intro x; simp only [hts, depth]; bd_split <;> first | omega | exact (ih.1 _).mono (by omega)
  | assign y op e ih =>
    bd_rest; intro x; simp only [hts, depth]
    split <;> bd_split <;> first | omega | exact (ih.1 _).mono (by omega)
  | «postfix» y inc => bd_rest; intro x; simp only [hts, depth]; bd_split <;> omega
  | forcond c b ihc ihb =>
    bd_rest; intro x; simp only [hts, depth]
    bd_split <;> first | omega | exact (ihc.1 _).mono (by omega) | exact (ihb.1 _).mono (by omega)
  | forever b ihb =>
    bd_rest; intro x; simp only [hts, depth]
    bd_split <;> first | omega | exact (ihb.1 _).mono (by omega)
  | for3 i c p b ihi ihc ihp ihb =>
    bd_rest; intro x; simp only [hts, depth]
    split <;> bd_split <;>
      (first | omega | exact (ihi.1 _).mono (by omega) | exact (ihc.1 _).mono (by omega) | exact (ihp.1 _).mono (by omega) | exact (ihb.1 _).mono (by omega))
  | switch subj cases ihs ihc =>
    bd_rest; intro x; simp only [hts, depth]
    bd_split <;>
      (first | omega | exact (ihs.1 _).mono (by omega) | exact (ihc.2.2.2.1 _).mono (by omega) | exact (ihc.2.2.2.2.2.1 _).mono (by omega) | exact (ihc.2.2.2.2.2.2.2.1 _).mono (by omega))
  | _ => bd_rest; intro x; simp only [hts, depth, Bd_r1, Bd_r2, Bd_nil] <;> omega

/-- a whole function body stays within its nesting depth -/
theorem htsFn_le_depth (n : N) : Bd (htsFn ls n) (depthFn ls n) := by
  induction n with
  | cons h t _ iht =>
    have hh := (hts_le_depth (ls := ls) h).1 0
    simp only [htsFn, depthFn]
    split
    · exact hh.mono (by omega)
    · split
      · simp only [Bd_append]
        refine ⟨⟨Bd_preH 0 h _ (by omega), hh.mono (by omega)⟩, ?_⟩
        split <;> bd_split <;> omega
      · simp only [Bd_append]
        refine ⟨⟨⟨Bd_preH 0 h _ (by omega), hh.mono (by omega)⟩, ?_⟩, iht.mono (by omega)⟩
        split <;> bd_split <;> omega
  | _ => simp only [htsFn, depthFn]; bd_split <;> omega

theorem le_foldl_max (l : List Nat) (a : Nat) : a ≤ l.foldl max a ∧ ∀ x, x ∈ l → x ≤ l.foldl max a := by
  induction l generalizing a with
  | nil => exact ⟨Nat.le_refl _, fun x hx => by cases hx⟩
  | cons y ys ih =>
    obtain ⟨h1, h2⟩ := ih (max a y)
    refine ⟨Nat.le_trans (Nat.le_max_left a y) h1, ?_⟩
    intro x hx
    rcases List.mem_cons.mp hx with hx | hx
    · subst hx; exact Nat.le_trans (Nat.le_max_right a x) h1
    · exact h2 x hx

/-- a program whose syntactic nesting depth — of the main code and of every function body —
    is within the frame's limit fits it -/
theorem fitsClo_of_depth (p : N) (h : depthProg p ≤ maxHeight) : fitsClo p = true := by
  obtain ⟨h1, h2⟩ := le_foldl_max ((funsOf p).map fun d => depthFn d.sc d.body) (depth Sc.main p)
  simp only [fitsClo, Bool.and_eq_true, List.all_eq_true, decide_eq_true_eq]
  refine ⟨?_, ?_⟩
  · intro x hx
    have := (hts_le_depth (ls := Sc.main) p).1 0 x hx
    unfold depthProg at h
    omega
  · intro d hd x hx
    have h3 := htsFn_le_depth (ls := d.sc) d.body x hx
    have h4 := h2 (depthFn d.sc d.body) (List.mem_map.mpr ⟨d, hd, rfl⟩)
    unfold depthProg at h
    omega


/-! ### deeply nested operands (the witness of `clo_compile_balanced_needs_fits`; `deep`,
    `deepProg` of `FragCert.lean` read as a program of the closure fragment) -/

theorem deep_isE (k : Nat) : isE (deep k) = true := by cases k <;> rfl
theorem deep_not_named (k : Nat) : isNamed (deep k) = false := by cases k <;> rfl

theorem deep_facts (k : Nat) : wf (deep k) = true ∧ escapes (deep k) = false := by
  induction k with
  | zero => simp [deep, wf, escapes]
  | succ k ih =>
    obtain ⟨h1, h2⟩ := ih
    have hi : isE (.int 1) = true := rfl
    simp [deep, wf, escapes, opOK, hi, deep_isE, h1, h2]

theorem deep_collect (pls : List String) (k : Nat) : collect pls (deep k) = [] := by
  induction k with
  | zero => simp [deep, collect]
  | succ k ih => simp [deep, collect, ih]

theorem deep_decls (k : Nat) : decls (deep k) = [] := by
  induction k with
  | zero => simp [deep, decls]
  | succ k ih => simp [deep, decls, ih]

theorem deep_hasReturn (k : Nat) : hasReturn (deep k) = false := by
  induction k with
  | zero => simp [deep, hasReturn]
  | succ k ih => simp [deep, hasReturn, ih]

theorem deep_scope (c : Clo.Ctx) (k : Nat) : scopeOK c (deep k) = true := by
  induction k with
  | zero => simp [deep, scopeOK]
  | succ k ih => simp [deep, scopeOK, ih]

theorem deep_fnameOf (k : Nat) : fnameOf (.expr (deep k)) = [] := by cases k <;> rfl

theorem deepProg_inCloShape (k : Nat) : inCloShape (deepProg k) = true := by
  obtain ⟨h1, h2⟩ := deep_facts k
  simp [deepProg, inCloShape, wf, isL, isS, leaves, isUnitNode, escapes, bodiesWF, funsOf, collect,
    deep_collect, deep_not_named, deep_isE, h1, h2]

/-- the deeply nested addition is a program of the closure fragment proper (all of `inClo`:
    shape, scoping, declarations) -/
theorem deepProg_inClo (k : Nat) : inClo (deepProg k) = true := by
  obtain ⟨h1, h2⟩ := deep_facts k
  have hnf : namedFuns (deepProg k) = [] := by
    simp [deepProg, namedFuns, N.toList, deep_fnameOf]
  have hnb : namedBodies (deepProg k) = [] := by
    cases k <;> simp [deepProg, namedBodies, N.toList, deep]
  have hsh := deepProg_inCloShape k
  simp only [inCloShape, deepProg, Bool.and_eq_true] at hsh
  have hnf' := hnf
  have hnb' := hnb
  simp only [deepProg] at hnf' hnb'
  simp only [inClo, deepProg, hnf', hnb', hsh.1, hsh.2, Bool.and_eq_true, Bool.not_eq_true', true_and]
  refine ⟨⟨⟨?_, ?_⟩, ?_⟩, ?_⟩
  · simp [decls, deep_decls, Frag.nodup]
  · simp [hasReturn, deep_hasReturn]
  · simp [scopeOK, deep_scope, deep_not_named]
  · simp [N.toList, initOK, deep_fnameOf]

/-- running the code of `deep k` from height `h` loads its `k + 1` constants one after the
    other: the stack then holds all of them at once -/
theorem deep_reach (m : Bool) (code : Clo.Code) : ∀ (k pc h : Nat), Win code pc (comp ls 0 0 (deep k)) →
    Reach (toC04 m code) ⟨pc, h⟩ → Reach (toC04 m code) ⟨pc + 2 * (k + 1), h + (k + 1)⟩ := by
  have hstep : ∀ pc h rest, Win code pc (two (.constInt 1) ++ rest) → Reach (toC04 m code) ⟨pc, h⟩ →
      Reach (toC04 m code) ⟨pc + 2, h + 1⟩ := by
    intro pc h rest hw hr
    have hat : (toC04 m code).at pc = some ⟨.loadConst, 0, 0⟩ := by
      have := Win.head hw.left
      simp [toC04, Code.at, this, insOf]
    exact .step hr (.mk (l := [(pc + 2, h + 1)]) hat (by simp [succs, Ins.kind, Ins.size, Op.operands]) (by simp))
  intro k
  induction k with
  | zero =>
    intro pc h hw hr
    have := hstep pc h [] (by simpa [deep, comp] using hw) hr
    simpa using this
  | succ k ih =>
    intro pc h hw hr
    simp only [deep, comp, reduceCtorEq, ↓reduceIte, List.append_assoc] at hw
    have r1 := hstep pc h _ hw hr
    have hw2 : Win code (pc + 2) (comp ls 0 0 (deep k)) := by
      have := hw.right.left
      simpa using this
    have r2 := ih (pc + 2) (h + 1) hw2 r1
    have e1 : pc + 2 + 2 * (k + 1) = pc + 2 * (k + 1 + 1) := by omega
    have e2 : h + 1 + (k + 1) = h + (k + 1 + 1) := by omega
    rw [e1, e2] at r2
    exact r2

/-! ### the code objects of a whole program -/

/-- the main code object: its slots, the heights of all of them, one value at the end -/
def mainCtx (p : N) (hfit : (hts Sc.main 0 p).all (· ≤ maxHeight) = true) : UCtx where
  code := (compClo p).main
  H := hts Sc.main 0 p
  hend := some 1
  isMain := true
  hlen := by rw [hts_length]; simp only [compClo, comp_length]
  hmax := by
    intro x hx
    have := List.all_eq_true.mp hfit x hx
    simpa using this
  hendmax := by intro x h; cases h; simp [maxHeight]

/-- a function's code object (a function of the main code or a nested literal): entered at
    height 0, never left by falling off its end -/
def fnCtx (d : FDecl) (hfit : (htsFn d.sc d.body).all (· ≤ maxHeight) = true) : UCtx where
  code := (compDecl d).code
  H := htsFn d.sc d.body
  hend := none
  isMain := false
  hlen := htsFn_length d.sc d.body
  hmax := by
    intro x hx
    have := List.all_eq_true.mp hfit x hx
    simpa using this
  hendmax := by intro x h; cases h

end Risor.C04.CloC
