import RisorModel.Util
import RisorModel.C04.FunCert
import RisorModel.C04.FragCertOracle
import RisorModel.C01.FunOracle
/-!
Line-protocol front end of the function fragment's certificates (request `C04 funcert …`); not
part of any theorem.  It evaluates, on one program of C01's function fragment F4 and the bytecode
the REAL compiler emitted for it — EVERY code object: the main code and one per function —, the
facts that tie `fun_compile_balanced` to the code:

  `funcert <sexp> <globals> <id=<code id>;ins=<instruction text> per real code object, joined by |>` →
      `out`                        the program is outside the fragment (`FunO.funIn`), or
      `in` TAB g1 g2 g3 TAB one field per REAL code object, in the order of the request, with
        g1  `fits` | `deep`        the guard `fitsFun p`
        g2  peak height named by the certificates (all code objects)
        g3  number of code objects of `compFun p` (main + functions)
      and per real code object `<id>:f1:f2:f3:f4` (or `<id>:unknown` when `compFun p` has no code
      object with that id, `<id>:error:<text>` when the instruction text does not decode):
        f1  `accept` | `reject`    `check real cert`: the certificate computed from the SYNTAX TREE
                                    (`FunC.hts` / `FunC.htsFn`) laid over the real bytecode, decided by the verified checker
        f2  `same` | `differs`     `eraseIdxF real == FunC.toC04 isMain (model code)`: the object of the
                                    theorem IS the real bytecode up to the operands `check` never reads (`check_eraseIdxF`)
        f3  `accept` | `reject`    `check (model code object) (its certificate)` (theorems `fun_main_cert_accepted`,
                                    `fun_fn_cert_accepted`: `accept` when g1 = `fits`)
        f4  `agree` | `differ…`    the certificate inferred from the real bytecode (`infer`) agrees with the
                                    syntax tree's on every offset it reaches
  `funin <sexp> <globals>` → `in` | `out` (membership in the fragment only).
  The code object `__main__` is the main code; `__main__.<k>` is the function declared by the
  `k`-th declaring top-level statement (`funsOf p`), as in `FunOracle.assemble`.
-/
namespace Risor.C04
open Risor.C01 Risor.C01.Fun

/-- `id=<id>;ins=<text>[;…]` -/
def parseCodeField (s : String) : Option (String × String) :=
  let parts := s.splitOn ";"
  let get (k : String) : Option String := (parts.find? (·.startsWith k)).map (fun x => (x.drop k.length).toString)
  match get "id=", get "ins=" with
  | some id, some ins => some (id, ins)
  | _, _ => none

/-- the model's code object with the given id, its certificate, and the same certificate laid
    over a real code object -/
def modelOf (p : N) (id : String) : Option (Bool × Code × Cert × (Code → Cert)) :=
  if id == "__main__" then some (true, FunC.mainCode p, FunC.mainCert p, fun c => FunC.mainCertFor c p)
  else
    let Φ := funsOf p
    match (List.range Φ.length).find? (fun k => id == "__main__." ++ toString k) with
    | some k =>
      match Φ[k]? with
      | some d => some (false, FunC.fnCode d, FunC.fnCert d, fun c => FunC.fnCertFor c d)
      | none => none
    | none => none

def funCertOne (p : N) (field : String) : String :=
  match parseCodeField field with
  | none => "?:error:malformed code field"
  | some (id, text) =>
    match modelOf p id with
    | none => id ++ ":unknown"
    | some (isMain, model, mcert, certFor) =>
      match decode isMain text with
      | .error e => id ++ ":error:" ++ e
      | .ok real =>
        let cert := certFor real
        let inferred :=
          match infer real with
          | .ok ci => if certLe ci cert then "agree" else "differ"
          | .error e => "differ " ++ e
        ":".intercalate [id,
          if check real cert then "accept" else "reject",
          if (eraseIdxF real).slots == model.slots && real.isMain == model.isMain then "same" else "differs",
          if check model mcert then "accept" else "reject",
          inferred]

def handleFunCert : List String → String
  | [sx, globals, codes] =>
    match decodeProg sx with
    | none => "error\tcannot decode the program"
    | some p =>
      let gs := (globals.splitOn ",").filter (· ≠ "")
      if !FunO.funIn gs p then "out" else
      let fields := (codes.splitOn "|").filter (· ≠ "")
      "\t".intercalate (["in", if fitsFun p then "fits" else "deep", toString (FunC.peak p),
        toString (FunC.codes p).length] ++ fields.map (funCertOne p))
  | _ => "error\tunknown-request"

/-- `funin <sexp> <globals>` → `in` | `out`: membership in the function fragment alone (the
    harness uses it to cut a generated program down to its top-level statements that form a
    program of the fragment) -/
def handleFunIn : List String → String
  | [sx, globals] =>
    match decodeProg sx with
    | none => "error\tcannot decode the program"
    | some p =>
      let gs := (globals.splitOn ",").filter (· ≠ "")
      if FunO.funIn gs p then "in" else "out"
  | _ => "error\tunknown-request"

end Risor.C04
