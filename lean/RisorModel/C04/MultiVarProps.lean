import RisorModel.C04.MultiVarLemmas
/-!
C04 — multi-variable statements are stack-neutral: property theorems.

The statement `n₁, …, nₖ := e` (or `=`) is `e; UNPACK k; sinks` (MultiVar.lean).  What the
property demands of it is stated three ways, each for ALL name lists of any length, all
positions of `_` in them, all storage classes and both `:=` and `=`:

* on executions (`mv_stmt_effect`, `compileMultiVar_neutral`): in any code object that contains
  the statement's tail, an execution that reaches `UNPACK` with the right side's value on top of
  `x` pending operands reaches the instruction after the statement with `x + leak` operands,
  where `leak` = the number of names for which nothing takes the value off the stack.  For the
  compiler as it is (`implSinks`) and for a blank-aware compiler that drops the value of `_`
  (`blankSinks`) `leak = 0`: the statement is neutral with any number `x` of operands pending
  below it (loop iterators, switch subjects, a half-built call).  For the shape that emits
  nothing for blank names at the front of the list (`skipLeadingSinks`) `leak` is the number of
  those names (`skipLeading_leaks`).
* on certificates (`mv_window_ok`): the statement's tail passes the verified checker's per-offset
  test wherever it sits in whatever code object, provided the offset after it is entered with
  `x + leak` — with `leak = 0`, the height the statement started with.
* on whole code objects: the main code of `for { names… := g }` is accepted by the checker when
  `leak = 0` (`mv_loop_accepted`, `compileMultiVar_loop_balanced`) and rejected for EVERY
  certificate when `leak ≠ 0` (`mv_loop_rejected`, `skipLeading_loop_rejected`: one slot per
  iteration); whereas the body of `func() { names… := g; return g }` is accepted even when the
  statement leaks (`mv_fn_accepted_despite_leak`): `RETURN_VALUE` discards the frame, so the
  checker of a code object cannot be the test for one statement — the harness therefore
  evaluates `runStraight` on the real instructions of every statement (`mv_runStraight` ties
  that function to the heights above).
-/
namespace Risor.C04.MV
open Risor.C04 Risor.C04.Ctx

variable {G : Ctx Ins id}

/-- **The statement's tail passes the checker wherever it sits**: in any code object, at any
    offset, with any number `x` of operands pending below the statement, `UNPACK n` and the
    sinks pass `check`'s per-offset test provided the offset after the statement is entered with
    `x + leak sinks`.  With `leak sinks = 0` that is the height the statement started with. -/
theorem mv_window_ok (sinks : List Sink) (x pc : Nat) (hat : G.At pc (mvSlots sinks) (mvHts x sinks))
    (ht : G.Tgt (pc + (mvSlots sinks).length) (x + leak sinks)) : G.OkWin pc (mvSlots sinks).length := by
  have hat' : G.At pc ([some ⟨.unpack, sinks.length, 0⟩, none] ++ sinksSlots sinks)
      (r2 (x + 1) ++ sinksHts (x + sinks.length) sinks) := hat
  obtain ⟨h1, h2⟩ := hat'.two_cons
  have hle := takers_le sinks
  have ht' : G.Tgt (pc + 2 + (sinksSlots sinks).length) (x + sinks.length - takers sinks) :=
    ht.cast (by rw [mvSlots_length]; omega) (by unfold leak; omega)
  have hnext : G.Tgt (pc + 2) (x + sinks.length) := sinks_tgt sinks _ _ h2 ht'
  have w1 : G.OkWin pc 2 :=
    okwin_fall2 (a := 1) (b := sinks.length) h1 rfl rfl (by omega) (hnext.cast rfl (by omega))
  have w2 := sinks_ok sinks _ _ h2 (by omega) ht'
  exact (w1.append w2).cast (by rw [mvSlots_length])

/-- **What the statement does to the operand stack**, in ANY code object that contains its
    tail (`UNPACK n` and the sinks) at offset `pc`: an execution that reaches `UNPACK` with the
    value of the right side on top of `x` pending operands reaches the offset after the statement
    with `x + leak sinks` operands — one more than it started with for every name whose value
    nothing takes off the stack. -/
theorem mv_stmt_effect (c : Code) (sinks : List Sink) (x pc : Nat) (hw : HasWin c pc (mvSlots sinks))
    (hr : Reach c ⟨pc, x + 1⟩) : Reach c ⟨pc + (mvSlots sinks).length, x + leak sinks⟩ := by
  have hw' : HasWin c pc ([some ⟨.unpack, sinks.length, 0⟩, none] ++ sinksSlots sinks) := hw
  have hi := HasWin.at_head (Win.left hw')
  have hs : succs ⟨.unpack, sinks.length, 0⟩ pc (x + 1) = some [(pc + 2, x + 1 - 1 + sinks.length)] := by
    simp only [succs, Ins.kind, Ins.size, Op.operands]
    simp
  have hr' : Reach c ⟨pc + 2, x + sinks.length⟩ := by
    have hm : (pc + 2, x + sinks.length) ∈ [(pc + 2, x + 1 - 1 + sinks.length)] := by simp
    exact Reach.step hr (.mk hi hs hm)
  have hle := takers_le sinks
  have := sinks_run c sinks _ _ (Win.right hw') (by omega) hr'
  have e1 : pc + (mvSlots sinks).length = pc + 2 + (sinksSlots sinks).length := by rw [mvSlots_length]; omega
  have e2 : x + leak sinks = x + sinks.length - takers sinks := by unfold leak; omega
  rw [e1, e2]; exact this

/-- the compiler as it is emits a store for every name, `_` included -/
theorem leak_implSinks (walrus inFn : Bool) (names : List Name) : leak (implSinks walrus inFn names) = 0 := by
  apply leak_of_all_take
  intro s hs
  simp only [implSinks, List.mem_map] at hs
  obtain ⟨_, _, rfl⟩ := hs
  rfl

/-- a compiler that drops the value of every blank name is neutral as well -/
theorem leak_blankSinks (walrus inFn : Bool) (names : List Name) : leak (blankSinks walrus inFn names) = 0 := by
  apply leak_of_all_take
  intro s hs
  simp only [blankSinks, List.mem_map] at hs
  obtain ⟨nm, _, rfl⟩ := hs
  split <;> rfl

/-- **the forbidden shape leaks**: emitting nothing for the blank names at the front of the
    list leaves exactly that many values behind, whatever the rest of the list is -/
theorem skipLeading_leaks (walrus inFn : Bool) (names : List Name) :
    leak (skipLeadingSinks walrus inFn names) = leadingBlanks names := by
  have h0 := leak_blankSinks walrus inFn (names.drop (leadingBlanks names))
  have hle := takers_le (blankSinks walrus inFn (names.drop (leadingBlanks names)))
  unfold leak at h0 ⊢
  simp only [skipLeadingSinks, takers_append, takers_replicate_skip, List.length_append, List.length_replicate]
  omega

/-- **`compileMultiVar` as it is emits a stack-neutral statement**: for every name list (any
    length, `_` anywhere, any storage classes), `:=` or `=`, in the main code or in a function,
    in any code object and under any number `x` of pending operands, an execution that reaches
    `UNPACK` with the right side's value on top reaches the offset after the statement with
    exactly the `x` operands the statement started with. -/
theorem compileMultiVar_neutral (c : Code) (walrus inFn : Bool) (names : List Name) (x pc : Nat)
    (hw : HasWin c pc (mvSlots (implSinks walrus inFn names))) (hr : Reach c ⟨pc, x + 1⟩) :
    Reach c ⟨pc + (mvSlots (implSinks walrus inFn names)).length, x⟩ := by
  have := mv_stmt_effect c _ x pc hw hr
  rwa [leak_implSinks, Nat.add_zero] at this

/-- the same for a compiler that knows the blank identifier and drops its value with `POP_TOP` -/
theorem blankAware_neutral (c : Code) (walrus inFn : Bool) (names : List Name) (x pc : Nat)
    (hw : HasWin c pc (mvSlots (blankSinks walrus inFn names))) (hr : Reach c ⟨pc, x + 1⟩) :
    Reach c ⟨pc + (mvSlots (blankSinks walrus inFn names)).length, x⟩ := by
  have := mv_stmt_effect c _ x pc hw hr
  rwa [leak_blankSinks, Nat.add_zero] at this

/-- the shape that skips leading blank names leaves one operand per such name after EVERY
    execution of the statement -/
theorem skipLeading_effect (c : Code) (walrus inFn : Bool) (names : List Name) (x pc : Nat)
    (hw : HasWin c pc (mvSlots (skipLeadingSinks walrus inFn names))) (hr : Reach c ⟨pc, x + 1⟩) :
    Reach c ⟨pc + (mvSlots (skipLeadingSinks walrus inFn names)).length, x + leadingBlanks names⟩ := by
  have := mv_stmt_effect c _ x pc hw hr
  rwa [skipLeading_leaks] at this

/-- `runStraight` over the statement's tail computes the height `mv_stmt_effect` names: run
    from `x + 1` it ends at `x + leak sinks`.  (The oracle evaluates `runStraight` on the
    instructions the REAL compiler emitted for the statement; the Spec is "ends at `x`".) -/
theorem mv_runStraight (sinks : List Sink) (x : Nat) :
    runStraight (insOfSlots (mvSlots sinks)) (x + 1) = some (x + leak sinks) := by
  have hle := takers_le sinks
  have := runStraight_sinks sinks (x + sinks.length) (by omega)
  simp only [insOfSlots] at this
  simp only [mvSlots, insOfSlots, List.cons_append, List.nil_append, List.filterMap_cons, id, runStraight,
    Ins.kind]
  simp only [Nat.le_add_left, if_true, Nat.add_sub_cancel, this]
  congr 1; unfold leak; omega

/-- one trip round the loop `for { names… := g }`: from the loop head with `h` operands back to
    the loop head with `h + leak sinks` -/
theorem loop_round (sinks : List Sink) (h : Nat) (hr : Reach (loopCode sinks) ⟨0, h⟩) :
    Reach (loopCode sinks) ⟨0, h + leak sinks⟩ := by
  let L := (sinksSlots sinks).length
  -- LOAD_GLOBAL g
  have hlg : (loopCode sinks).at 0 = some ⟨.loadGlobal, 0, 0⟩ := by
    have h0 := loop_hasWin sinks
    unfold loopSlots at h0
    exact HasWin.at_head (rest := [none]) (Win.left (Win.left h0))
  have r1' : Reach (loopCode sinks) ⟨2, h + 1⟩ := by
    have := reach_fall (a := 0) (b := 1) hlg rfl (Nat.zero_le _) hr
    simpa [Ins.size, Op.operands] using this
  -- the statement
  have r2' : Reach (loopCode sinks) ⟨4 + L, h + leak sinks⟩ := by
    have := mv_stmt_effect _ sinks h 2 (loop_mv_win sinks) r1'
    rw [mvSlots_length] at this
    have e : 2 + (2 + (sinksSlots sinks).length) = 4 + L := by omega
    rw [e] at this; exact this
  have ht := loop_tail_win sinks
  -- NIL
  have hnil : (loopCode sinks).at (4 + L) = some ⟨.nil_, 0, 0⟩ := HasWin.at_head ht
  have r3 : Reach (loopCode sinks) ⟨4 + L + 1, h + leak sinks + 1⟩ := by
    have := reach_fall (a := 0) (b := 1) hnil rfl (Nat.zero_le _) r2'
    simpa [Ins.size, Op.operands] using this
  -- POP_TOP
  have ht1 := HasWin.tail ht
  have hpop : (loopCode sinks).at (4 + L + 1) = some ⟨.popTop, 0, 0⟩ := HasWin.at_head ht1
  have r4 : Reach (loopCode sinks) ⟨4 + L + 1 + 1, h + leak sinks⟩ := by
    have := reach_fall (a := 1) (b := 0) hpop rfl (by omega) r3
    simpa [Ins.size, Op.operands] using this
  -- JUMP_BACKWARD to the head
  have ht2 := HasWin.tail ht1
  have hjb : (loopCode sinks).at (4 + L + 1 + 1) = some ⟨.jumpBackward, 6 + L, 0⟩ := HasWin.at_head ht2
  have hs : succs ⟨.jumpBackward, 6 + L, 0⟩ (4 + L + 1 + 1) (h + leak sinks) = some [(0, h + leak sinks)] := by
    have hd : 6 + L ≤ 4 + L + 1 + 1 := by omega
    have e : 4 + L + 1 + 1 - (6 + L) = 0 := by omega
    simp only [succs, Ins.kind, hd, if_true, e]
  exact .step r4 (.mk hjb hs (by simp))

/-- **A leaking statement in a loop is rejected for every certificate**: if the sinks leave
    even one value behind (`leak sinks ≠ 0`), no certificate whatsoever makes the verified
    checker accept the code of `for { names… := g }` — the loop head is reached with `0` and
    with `leak sinks` operands. -/
theorem mv_loop_rejected (sinks : List Sink) (hk : leak sinks ≠ 0) (cert : Cert) :
    check (loopCode sinks) cert = false := by
  cases hc : check (loopCode sinks) cert with
  | false => rfl
  | true =>
    exfalso
    have r0 : Reach (loopCode sinks) ⟨0, 0⟩ := .init
    have r1' := loop_round sinks 0 r0
    have := loop_height_constant _ cert hc _ _ r0 r1' rfl
    simp at this
    exact hk this.symm

/-- after `k` trips round the loop the loop head holds `k * leak sinks` operands: the stack
    grows with the iteration count (the overflow at 1024 slots is a matter of time) -/
theorem loop_rounds (sinks : List Sink) : ∀ k : Nat, Reach (loopCode sinks) ⟨0, k * leak sinks⟩
  | 0 => by simpa using Reach.init
  | k + 1 => by
    have := loop_round sinks _ (loop_rounds sinks k)
    rw [Nat.succ_mul]; exact this

/-- the forbidden shape in a loop: rejected for every certificate as soon as the list starts
    with a blank name -/
theorem skipLeading_loop_rejected (walrus inFn : Bool) (names : List Name) (hb : leadingBlanks names ≠ 0)
    (cert : Cert) : check (loopCode (skipLeadingSinks walrus inFn names)) cert = false :=
  mv_loop_rejected _ (by rw [skipLeading_leaks]; exact hb) cert

/-- the context of the loop's code object with the heights of `loopHts` -/
def loopCtx (sinks : List Sink) (hn : sinks.length + 1 ≤ maxHeight) (hk : leak sinks = 0) : Ctx Ins id where
  code := loopSlots sinks
  H := loopHts sinks
  hend := some 1
  isMain := true
  hlen := by
    simp only [loopSlots, loopHts, List.length_append, mvHts_length, r2]
    rfl
  hmax := by
    intro y hy
    simp only [loopHts, hk, List.mem_append] at hy
    rcases hy with (hy | hy) | hy
    · simp [r2] at hy; subst hy; exact Nat.zero_le _
    · have := mvHts_le 0 sinks y hy; omega
    · simp at hy; rcases hy with hy | hy | hy <;> subst hy <;> simp [maxHeight]
  hendmax := by intro y hy; cases hy; simp [maxHeight]

/-- **A neutral statement in a loop is accepted**: when every value meets a sink
    (`leak sinks = 0`) the code of `for { names… := g }` has a certificate the verified checker
    accepts (for name lists that fit the frame), so by `loop_height_constant` no number of
    iterations grows the stack. -/
theorem mv_loop_cert_accepted (sinks : List Sink) (hn : sinks.length + 1 ≤ maxHeight) (hk : leak sinks = 0) :
    check (loopCode sinks) (loopCert sinks) = true := by
  let G := loopCtx sinks hn hk
  have hC : loopCode sinks = G.C := by
    show loopCode sinks = { slots := ((loopSlots sinks).map (Option.map id)).toArray, isMain := true }
    rw [map_id_slots]; rfl
  have hcert : loopCert sinks = G.cert := rfl
  rw [hC, hcert]
  let L := (sinksSlots sinks).length
  have hat : G.At 0 (loopSlots sinks) (loopHts sinks) := ⟨Win.self _, Win.self _⟩
  -- split the code object into its pieces
  have hat1 : G.At 0 (([some ⟨.loadGlobal, 0, 0⟩, none] ++ mvSlots sinks) ++
      ([some ⟨.nil_, 0, 0⟩] ++ ([some ⟨.popTop, 0, 0⟩] ++ ([some ⟨.jumpBackward, 6 + L, 0⟩, none] ++
        ([some ⟨.nop, 0, 0⟩] ++ [some ⟨.nil_, 0, 0⟩])))))
      ((r2 0 ++ mvHts 0 sinks) ++ (r1 (leak sinks) ++ (r1 (leak sinks + 1) ++ (r2 (leak sinks) ++ (r1 0 ++ r1 0))))) := hat
  obtain ⟨hA, hB⟩ := hat1.split (k := 4 + L) (by simp [mvSlots]; omega) (by simp [mvHts_length, mvSlots, r2]; omega)
  obtain ⟨hlg, hmv⟩ := hA.two_cons
  obtain ⟨hnil, hB1⟩ := hB.one_cons
  obtain ⟨hpop, hB2⟩ := hB1.one_cons
  obtain ⟨hjb, hB3⟩ := hB2.two_cons
  obtain ⟨hnop, hnil2⟩ := hB3.one_cons
  rw [hk] at hnil hpop hjb
  have e0 : (0 : Nat) + 2 = 2 := rfl
  -- targets
  have tmv : G.Tgt (0 + 2) (0 + 1) := by
    have hmv' : G.At (0 + 2) ([some ⟨.unpack, sinks.length, 0⟩, none] ++ sinksSlots sinks)
        (r2 (0 + 1) ++ sinksHts (0 + sinks.length) sinks) := hmv
    exact hmv'.two_cons.1.tgt_two
  have w0 : G.OkWin 0 2 := ok_push2 hlg rfl rfl (tmv.cast rfl rfl)
  have w1 : G.OkWin (0 + 2) (mvSlots sinks).length :=
    mv_window_ok sinks 0 (0 + 2) hmv (hnil.tgt_one.cast (by rw [mvSlots_length]; omega) (by rw [hk]))
  have w2 : G.OkWin (0 + (4 + L)) 1 := ok_push1 hnil rfl rfl (hpop.tgt_one.cast rfl rfl)
  have w3 : G.OkWin (0 + (4 + L) + 1) 1 := ok_pop1 hpop rfl rfl (hjb.tgt_two.cast rfl rfl)
  have w4 : G.OkWin (0 + (4 + L) + 1 + 1) 2 :=
    okwin_jumpB (d := 6 + L) hjb rfl (by omega) (hlg.tgt_two.cast (by omega) rfl)
  have w5 : G.OkWin (0 + (4 + L) + 1 + 1 + 2) 1 :=
    okwin_fall1 (a := 0) (b := 0) hnop rfl rfl (Nat.zero_le _) (hnil2.tgt_one.cast rfl rfl)
  have hlen : G.code.length = 4 + L + 6 := by
    show (loopSlots sinks).length = _
    simp [loopSlots, mvSlots]; omega
  have w6 : G.OkWin (0 + (4 + L) + 1 + 1 + 2 + 1) 1 :=
    ok_push1 hnil2 rfl rfl (.inr ⟨by rw [hlen]; omega, rfl⟩)
  have hall : G.OkWin 0 G.code.length := by
    have a1 := w0.append w1
    rw [mvSlots_length] at a1
    have a2 := (a1.cast (show 2 + (2 + (sinksSlots sinks).length) = 4 + L by omega)).append w2
    have a3 := a2.append (w3.cast rfl)
    have a4 := a3.append (w4.cast rfl)
    have a5 := a4.append (w5.cast rfl)
    have a6 := a5.append (w6.cast rfl)
    exact a6.cast (by rw [hlen])
  have h0 : G.code[0]? = some (some ⟨.loadGlobal, 0, 0⟩) := Win.head hlg.1
  have hH0 : G.H[0]? = some 0 := Win.head hlg.2
  exact check_of_okwin _ h0 hH0 hall (.inr ⟨rfl, rfl⟩)

/-- existential form of `mv_loop_cert_accepted`: a neutral statement in a loop has an accepted certificate -/
theorem mv_loop_accepted (sinks : List Sink) (hn : sinks.length + 1 ≤ maxHeight) (hk : leak sinks = 0) :
    ∃ cert, check (loopCode sinks) cert = true := ⟨_, mv_loop_cert_accepted sinks hn hk⟩

/-- **`compileMultiVar` as it is, in a loop, for all name lists**: the code of
    `for { n₁, …, nₖ := g }` (and of the `=` form; in the main code or in a function) is accepted
    by the verified checker, whatever the names — `_` in any position — and their storage
    classes are: the statement cannot grow the stack however often it runs. -/
theorem compileMultiVar_loop_balanced (walrus inFn : Bool) (names : List Name) (hn : names.length + 1 ≤ maxHeight) :
    ∃ cert, check (loopCode (implSinks walrus inFn names)) cert = true :=
  mv_loop_accepted _ (by rw [implSinks_length]; exact hn) (leak_implSinks walrus inFn names)

/-- the same for a compiler that drops the value of blank names with `POP_TOP` -/
theorem blankAware_loop_balanced (walrus inFn : Bool) (names : List Name) (hn : names.length + 1 ≤ maxHeight) :
    ∃ cert, check (loopCode (blankSinks walrus inFn names)) cert = true :=
  mv_loop_accepted _ (by simp [blankSinks]; exact hn) (leak_blankSinks walrus inFn names)

/-- in a loop the checker decides exactly whether the statement is neutral -/
theorem mv_loop_balanced_iff (sinks : List Sink) (hn : sinks.length + 1 ≤ maxHeight) :
    (∃ cert, check (loopCode sinks) cert = true) ↔ leak sinks = 0 := by
  constructor
  · intro ⟨cert, hc⟩
    rcases Nat.eq_zero_or_pos (leak sinks) with h | h
    · exact h
    · have := mv_loop_rejected sinks (by omega) cert
      rw [hc] at this; cases this
  · exact mv_loop_accepted sinks hn

/-- the context of the function body `func() { names… := g; return g }` -/
def fnCtx (sinks : List Sink) (hn : sinks.length + 1 ≤ maxHeight) : Ctx Ins id where
  code := fnSlots sinks
  H := fnHts sinks
  hend := none
  isMain := false
  hlen := by
    simp only [fnSlots, fnHts, List.length_append, mvHts_length, r2]
    rfl
  hmax := by
    intro y hy
    have hl : leak sinks ≤ sinks.length := by unfold leak; omega
    simp only [fnHts, List.mem_append] at hy
    rcases hy with (hy | hy) | hy
    · simp [r2] at hy; subst hy; exact Nat.zero_le _
    · have := mvHts_le 0 sinks y hy; omega
    · simp at hy; rcases hy with hy | hy | hy <;> omega
  hendmax := by intro y hy; cases hy

/-- **The checker of a whole code object cannot be the test for one statement**: the body of
    `func() { names… := g; return g }` is accepted by the verified checker for EVERY list of
    sinks — also when the statement leaves values behind (`leak sinks ≠ 0`): `RETURN_VALUE` needs
    one value and has no successor, and leaving the frame discards the rest.  A leaking
    multi-variable statement that runs once per call is therefore invisible to `check` (and to
    every run: the frame's stack is reset at return); the harness tests every statement's own
    instructions with `runStraight` (`mv_runStraight`) instead. -/
theorem mv_fn_cert_accepted_despite_leak (sinks : List Sink) (hn : sinks.length + 1 ≤ maxHeight) :
    check (fnCode sinks) (fnCert sinks) = true := by
  let G := fnCtx sinks hn
  have hC : fnCode sinks = G.C := by
    show fnCode sinks = { slots := ((fnSlots sinks).map (Option.map id)).toArray, isMain := false }
    rw [map_id_slots]; rfl
  have hcert : fnCert sinks = G.cert := rfl
  rw [hC, hcert]
  let L := (sinksSlots sinks).length
  have hat : G.At 0 (fnSlots sinks) (fnHts sinks) := ⟨Win.self _, Win.self _⟩
  have hat1 : G.At 0 (([some ⟨.loadGlobal, 0, 0⟩, none] ++ mvSlots sinks) ++
      ([some ⟨.loadGlobal, 0, 0⟩, none] ++ [some ⟨.returnValue, 0, 0⟩]))
      ((r2 0 ++ mvHts 0 sinks) ++ (r2 (leak sinks) ++ r1 (leak sinks + 1))) := hat
  obtain ⟨hA, hB⟩ := hat1.split (k := 4 + L) (by simp [mvSlots]; omega) (by simp [mvHts_length, mvSlots, r2]; omega)
  obtain ⟨hlg, hmv⟩ := hA.two_cons
  obtain ⟨hlg2, hret⟩ := hB.two_cons
  have tmv : G.Tgt (0 + 2) (0 + 1) := by
    have hmv' : G.At (0 + 2) ([some ⟨.unpack, sinks.length, 0⟩, none] ++ sinksSlots sinks)
        (r2 (0 + 1) ++ sinksHts (0 + sinks.length) sinks) := hmv
    exact hmv'.two_cons.1.tgt_two
  have w0 : G.OkWin 0 2 := ok_push2 hlg rfl rfl (tmv.cast rfl rfl)
  have w1 : G.OkWin (0 + 2) (mvSlots sinks).length :=
    mv_window_ok sinks 0 (0 + 2) hmv (hlg2.tgt_two.cast (by rw [mvSlots_length]; omega) (by omega))
  have w2 : G.OkWin (0 + (4 + L)) 2 := ok_push2 hlg2 rfl rfl (hret.tgt_one.cast rfl rfl)
  have w3 : G.OkWin (0 + (4 + L) + 2) 1 := okwin_ret hret rfl (by omega)
  have hlen : G.code.length = 4 + L + 3 := by
    show (fnSlots sinks).length = _
    simp [fnSlots, mvSlots]; omega
  have hall : G.OkWin 0 G.code.length := by
    have a1 := w0.append w1
    rw [mvSlots_length] at a1
    have a2 := (a1.cast (show 2 + (2 + (sinksSlots sinks).length) = 4 + L by omega)).append w2
    have a3 := a2.append (w3.cast rfl)
    exact a3.cast (by rw [hlen])
  have h0 : G.code[0]? = some (some ⟨.loadGlobal, 0, 0⟩) := Win.head hlg.1
  have hH0 : G.H[0]? = some 0 := Win.head hlg.2
  exact check_of_okwin _ h0 hH0 hall (.inl rfl)

/-- existential form of `mv_fn_cert_accepted_despite_leak`: for every list of sinks, leaking or not, the
    function body that runs the statement once has an accepted certificate -/
theorem mv_fn_accepted_despite_leak (sinks : List Sink) (hn : sinks.length + 1 ≤ maxHeight) :
    ∃ cert, check (fnCode sinks) cert = true := ⟨_, mv_fn_cert_accepted_despite_leak sinks hn⟩

/-- `_, v := g` -/
def exBlankFirst : List Name := [⟨true, .glob⟩, ⟨false, .glob⟩]

example : implSinks true false exBlankFirst = [.store .glob, .store .glob] := rfl

example : blankSinks true false exBlankFirst = [.store .glob, .pop] := rfl

example : skipLeadingSinks true false exBlankFirst = [.store .glob, .skip] := rfl

example : leak (skipLeadingSinks true false exBlankFirst) = 1 := by decide

/-- `v, _ := g` is compiled correctly by the forbidden shape too: only LEADING blanks leak -/
example : leak (skipLeadingSinks true false [⟨false, .glob⟩, ⟨true, .glob⟩]) = 0 := by decide

example : ∀ cert, check (loopCode (skipLeadingSinks true false exBlankFirst)) cert = false :=
  skipLeading_loop_rejected true false exBlankFirst (by decide)

example : ∃ cert, check (fnCode (skipLeadingSinks true false exBlankFirst)) cert = true :=
  mv_fn_accepted_despite_leak _ (by decide)

example : ∃ cert, check (loopCode (implSinks true false exBlankFirst)) cert = true :=
  compileMultiVar_loop_balanced true false exBlankFirst (by decide)

end Risor.C04.MV
