import RisorModel.C04.FunCertLemmas
import RisorModel.C01.FunProps
/-!
C04 on C01's FUNCTION fragment F4 — property theorems.

`compile_balanced` (DESIGN.md C04), statically, for all programs of the function fragment at
once.  `Fun.compFun p` compiles a program of the fragment's shape (`inFunShape`: everything of
F1–F3 in the main code AND in function bodies, named function declarations and function literals
bound by `:=`, parameters and locals through `LoadFast` / `StoreFast`, calls in every expression
position, `return e` / bare `return` anywhere a statement may stand, the implicit return of
`normalizeFunctionBlock`) into SEVERAL code objects.  EVERY one of them is accepted by the
verified checker `check`, with a certificate computed from the syntax tree alone (`FunC.hts`,
`FunC.htsFn`):

  * a call is atomic in the caller's frame: it pops the callee and its `n` arguments and pushes
    one result (C04's `Ins.kind` of `Call n`; C01's `call_returns_one` proves that of the machine);
  * a function body starts at height 0 whatever the caller has on its stack, and the
    certificate of a function marks the end-of-code position unreachable: every path through a
    body ends in `ReturnValue`;
  * `return` under pending operands — inside an operand position of an expression statement,
    inside a loop, inside a `switch` whose subject is still on the stack — is accepted:
    `check`'s condition at `ReturnValue` is exactly "at least one value" (`return_condition`);
    the operands below the result have no successor state to be inconsistent with, because
    `ReturnValue` has no successor in its code object (the frame is left; `resumeFrame` resets
    `sp`).  So the statement is TRUE as posed for every construct of F4; no construct had to be
    excluded beyond C01's own fragment conditions (`break` / `continue` not under pending
    operands, as in F1–F3).

Combined with `check_sound`: in every execution of every code object, of any length, the
operand-stack height at an offset is the one the syntax tree names — no loop in the main code
or in any function body can grow the stack, for any iteration count (`fun_loop_height_constant`).

The one hypothesis besides the shape is `fitsFun p`: the operand NESTING of every code object
stays within the frame's height limit; `FunC.depthProg p ≤ maxHeight`, a bound by recursion on
the syntax, suffices (`fun_compile_balanced_of_depth`).

The objects of the theorems, `FunC.codes p`, are compared with the real compiler's bytecode on
every run: `compFun p` assembled = `compiler.Compile`, every code object (C01's link A), and
`eraseIdxF real = toC04 …` per code object together with acceptance of the syntax-tree
certificate by `check` on the REAL bytecode (`FunCertOracle.lean`, harness/c04fun.go).
`check_eraseIdxF` shows that the erased operands are irrelevant to `check`.
-/
namespace Risor.C04
open Risor.C01 Risor.C01.Fun

/-! ### the code objects -/

/-- `FunC.codes p` IS the list of all code objects of `compFun p`: the main code, then the code
    of every compiled function, each as a C04 code object -/
theorem fun_codes_eq (p : N) :
    FunC.codes p = FunC.toC04 true (compFun p).main :: (compFun p).funs.map (fun fc => FunC.toC04 false fc.code) := by
  simp only [FunC.codes, FunC.mainCode, compFun, List.map_map]
  rfl

theorem fun_shape_parts (p : N) (hin : inFunShape p = true) :
    wf p = true ∧ escapes p = false ∧ bodiesWF p = true ∧ ∃ s, p = .prog s := by
  cases p with
  | prog s =>
    simp only [inFunShape, Bool.and_eq_true] at hin
    have h := hin.1
    simp only [wf, Bool.and_eq_true, Bool.not_eq_true'] at h
    exact ⟨hin.1, by simpa [escapes] using h.1.2, hin.2, s, rfl⟩
  | _ => simp [inFunShape] at hin

theorem fitsFun_parts (p : N) (hfit : fitsFun p = true) :
    (FunC.hts 0 p).all (· ≤ maxHeight) = true ∧
      ∀ d, d ∈ funsOf p → (FunC.htsFn d.body).all (· ≤ maxHeight) = true := by
  simp only [fitsFun, Bool.and_eq_true] at hfit
  exact ⟨hfit.1, fun d hd => List.all_eq_true.mp hfit.2 d hd⟩

/-! ### the certificates computed from the syntax tree are accepted -/

/-- the main code object with the certificate `FunC.mainCert p` -/
theorem fun_main_cert_accepted (p : N) (hin : inFunShape p = true) (hfit : fitsFun p = true) :
    check (FunC.mainCode p) (FunC.mainCert p) = true := by
  obtain ⟨hw, hesc, _, s, hp⟩ := fun_shape_parts p hin
  let G := FunC.mainCtx p (fitsFun_parts p hfit).1
  have hC : FunC.mainCode p = G.C := rfl
  have hcert : FunC.mainCert p = G.cert := rfl
  have hcode : G.code = comp [] 0 0 p := rfl
  have hH : G.H = FunC.hts 0 p := rfl
  obtain ⟨i, c, t, e1, e2⟩ := FunC.head_comp (ls := []) p hw 0 0 0
  have hsize : G.code.length = size p := by rw [hcode, comp_length]
  have h0 : G.code[0]? = some (some i) := by rw [hcode, e1]; rfl
  have hH0 : G.H[0]? = some 0 := by rw [hH, e2]; rfl
  have hat : G.At 0 (comp [] 0 0 p) (FunC.hts 0 p) := ⟨Win.self _, Win.self _⟩
  have hex : FunC.exitD p = 1 := by subst hp; simp [FunC.exitD, isUnitNode]
  have hall := (FunC.ok_all (ls := []) G p).1 hw 0 0 0 0 hat
    (.inr ⟨by rw [hsize]; omega, by rw [hex]; rfl⟩) (by intro h; rw [hesc] at h; cases h)
  rw [hC, hcert]
  refine Ctx.check_of_okwin i h0 hH0 ?_ (.inr ⟨rfl, rfl⟩)
  rw [hsize]
  exact hall

/-- the code object of a declared function with the certificate `FunC.fnCert d` -/
theorem fun_fn_cert_accepted (p : N) (hin : inFunShape p = true) (hfit : fitsFun p = true)
    (d : FDecl) (hd : d ∈ funsOf p) : check (FunC.fnCode d) (FunC.fnCert d) = true := by
  obtain ⟨_, _, hb, _⟩ := fun_shape_parts p hin
  have hwb : wfBody d.body = true := by
    unfold bodiesWF at hb
    exact List.all_eq_true.mp hb d hd
  simp only [wfBody, Bool.and_eq_true, Bool.not_eq_true'] at hwb
  obtain ⟨⟨hl, hx⟩, hw⟩ := hwb
  let G := FunC.fnCtx d ((fitsFun_parts p hfit).2 d hd)
  have hC : FunC.fnCode d = G.C := rfl
  have hcert : FunC.fnCert d = G.cert := rfl
  have hcode : G.code = compFnStmts d.ls d.body := rfl
  have hH : G.H = FunC.htsFn d.body := rfl
  obtain ⟨i, c, t, e1, e2⟩ := FunC.head_fnStmts d.ls d.body hl hw
  have h0 : G.code[0]? = some (some i) := by rw [hcode, e1]; rfl
  have hH0 : G.H[0]? = some 0 := by rw [hH, e2]; rfl
  have hat : G.At 0 (compFnStmts d.ls d.body) (FunC.htsFn d.body) := ⟨Win.self _, Win.self _⟩
  rw [hC, hcert]
  exact Ctx.check_of_okwin i h0 hH0 (FunC.ok_fnStmts G d.ls d.body hl hw hx 0 hat) (.inl rfl)

/-- every code object, paired with its syntax-tree certificate, is accepted -/
theorem fun_certs_accepted (p : N) (hin : inFunShape p = true) (hfit : fitsFun p = true) :
    ∀ x, x ∈ (FunC.codes p).zip (FunC.certs p) → check x.1 x.2 = true := by
  intro x hx
  simp only [FunC.codes, FunC.certs, List.zip_cons_cons, List.mem_cons] at hx
  rcases hx with hx | hx
  · subst hx; exact fun_main_cert_accepted p hin hfit
  · rw [List.zip_map, List.mem_map] at hx
    obtain ⟨⟨d1, d2⟩, hmem, rfl⟩ := hx
    have hd : d1 = d2 ∧ d1 ∈ funsOf p := by
      have := List.of_mem_zip hmem
      have h2 : ∀ (l : List FDecl) (a b : FDecl), (a, b) ∈ l.zip l → a = b := by
        intro l
        induction l with
        | nil => intro a b h; cases h
        | cons y ys ih =>
          intro a b h
          simp only [List.zip_cons_cons, List.mem_cons, Prod.mk.injEq] at h
          rcases h with ⟨h1, h2⟩ | h
          · rw [h1, h2]
          · exact ih a b h
      exact ⟨h2 _ _ _ hmem, this.1⟩
    obtain ⟨rfl, hd⟩ := hd
    exact fun_fn_cert_accepted p hin hfit d1 hd

/-- **`compile_balanced` for the function fragment**: for every program of the shape of C01's
    function fragment F4 whose operand nesting fits the frame, EVERY code object the functional
    compiler produces — the main code and the body of every declared function — is accepted by
    the verified checker. -/
theorem fun_compile_balanced (p : N) (hin : inFunShape p = true) (hfit : fitsFun p = true) :
    ∀ c, c ∈ FunC.codes p → ∃ cert, check c cert = true := by
  intro c hc
  simp only [FunC.codes, List.mem_cons, List.mem_map] at hc
  rcases hc with hc | ⟨d, hd, hc⟩
  · subst hc; exact ⟨_, fun_main_cert_accepted p hin hfit⟩
  · subst hc; exact ⟨_, fun_fn_cert_accepted p hin hfit d hd⟩

/-- the same, spelled on `compFun p` itself: its main code and the code of each of its compiled
    functions -/
theorem fun_compile_balanced_compFun (p : N) (hin : inFunShape p = true) (hfit : fitsFun p = true) :
    (∃ cert, check (FunC.toC04 true (compFun p).main) cert = true) ∧
    ∀ fc, fc ∈ (compFun p).funs → ∃ cert, check (FunC.toC04 false fc.code) cert = true := by
  have h := fun_compile_balanced p hin hfit
  rw [fun_codes_eq] at h
  refine ⟨h _ (List.mem_cons_self ..), ?_⟩
  intro fc hfc
  exact h _ (List.mem_cons_of_mem _ (List.mem_map.mpr ⟨fc, hfc, rfl⟩))

/-- on the programs of the fragment proper (`inFun`: the shape plus the scoping conditions under
    which `compFun` IS `compiler.go`, checked on every run) -/
theorem fun_compile_balanced_inFun (p : N) (hin : inFun p = true) (hfit : fitsFun p = true) :
    ∀ c, c ∈ FunC.codes p → ∃ cert, check c cert = true :=
  fun_compile_balanced p (inFun_shape p hin) hfit

/-- **The same with a purely syntactic guard**: `FunC.depthProg p`, the operand nesting depth of
    the main code and of every function body by recursion on the syntax (operators holding their
    left value, a `switch` holding its subject, a call holding its callee and earlier arguments),
    within the frame's limit.  The iteration count of loops and the recursion depth of calls
    play no role. -/
theorem fun_compile_balanced_of_depth (p : N) (hin : inFunShape p = true) (hd : FunC.depthProg p ≤ maxHeight) :
    ∀ c, c ∈ FunC.codes p → ∃ cert, check c cert = true :=
  fun_compile_balanced p hin (FunC.fitsFun_of_depth p hd)

/-! ### corollaries: every execution of every code object -/

/-- **No loop can grow the stack, in the main code or in any function body**: in every
    execution (any number of steps, any branch outcomes, any number of loop iterations) of ANY
    code object of ANY program of the function fragment, two visits of one offset — the head of
    a loop in a function body on its first and on its ten-millionth iteration — see the same
    operand-stack height. -/
theorem fun_loop_height_constant (p : N) (hin : inFunShape p = true) (hfit : fitsFun p = true)
    (c : Code) (hc : c ∈ FunC.codes p) (s t : St) (hs : Reach c s) (ht : Reach c t) (hpc : s.pc = t.pc) :
    s.h = t.h := by
  obtain ⟨cert, hcert⟩ := fun_compile_balanced p hin hfit c hc
  exact loop_height_constant c cert hcert s t hs ht hpc

/-- no instruction of any code object ever pops below its frame's base, control never lands on
    an operand slot, and the frame's height never exceeds `maxHeight` -/
theorem fun_no_underflow (p : N) (hin : inFunShape p = true) (hfit : fitsFun p = true)
    (c : Code) (hc : c ∈ FunC.codes p) (s : St) (hr : Reach c s) :
    s.h ≤ maxHeight ∧ (s.pc < c.size → ∃ i l, c.at s.pc = some i ∧ succs i s.pc s.h = some l) := by
  obtain ⟨cert, hcert⟩ := fun_compile_balanced p hin hfit c hc
  exact ⟨(check_sound c cert hcert s hr).2.2, no_underflow c cert hcert s hr⟩

/-- **Heights are those of the syntax tree** — main code -/
theorem fun_main_heights (p : N) (hin : inFunShape p = true) (hfit : fitsFun p = true) (s : St)
    (hr : Reach (FunC.mainCode p) s) :
    s.pc ≤ (FunC.mainCode p).size ∧ (FunC.mainCert p)[s.pc]? = some (some s.h) ∧ s.h ≤ maxHeight :=
  check_sound _ _ (fun_main_cert_accepted p hin hfit) s hr

/-- **Heights are those of the syntax tree** — function bodies: whatever the caller's stack, the
    callee's own operand count at an offset is the one `FunC.htsFn` names -/
theorem fun_fn_heights (p : N) (hin : inFunShape p = true) (hfit : fitsFun p = true) (d : FDecl)
    (hd : d ∈ funsOf p) (s : St) (hr : Reach (FunC.fnCode d) s) :
    s.pc ≤ (FunC.fnCode d).size ∧ (FunC.fnCert d)[s.pc]? = some (some s.h) ∧ s.h ≤ maxHeight :=
  check_sound _ _ (fun_fn_cert_accepted p hin hfit d hd) s hr

/-- **A finished run of the main code leaves exactly its result** -/
theorem fun_finished_run_leaves_result (p : N) (hin : inFunShape p = true) (hfit : fitsFun p = true) (s : St)
    (hr : Reach (FunC.mainCode p) s) (hend : s.pc = (FunC.mainCode p).size) : s.h = 1 :=
  (finished_run_leaves_result _ _ (fun_main_cert_accepted p hin hfit) s hr hend).2

/-- a slot of a translated code object holds the translation of an instruction of the fragment -/
theorem toC04_at {m : Bool} {code : Fun.Code} {pc : Nat} {i : Ins} (h : (FunC.toC04 m code).at pc = some i) :
    ∃ j, i = FunC.insOf j := by
  simp only [FunC.toC04, Code.at, List.getElem?_toArray, List.getElem?_map] at h
  cases hc : code[pc]? with
  | none => simp [hc] at h
  | some s =>
    cases s with
    | none => simp [hc] at h
    | some j => simp [hc] at h; exact ⟨j, h.symm⟩

/-- an instruction without successor is a `ReturnValue` (the fragment's code has no `Halt`) -/
theorem no_succ_is_ret (j : FIns) (pc h : Nat) (hs : succs (FunC.insOf j) pc h = some []) :
    (FunC.insOf j).kind = .ret := by
  cases j <;> simp [succs, FunC.insOf, Ins.kind] at hs ⊢ <;> (try split at hs) <;> simp_all

/-- **A function body returns exactly through `ReturnValue`, with its result on the stack**: in
    every execution of the code object of any declared function, control never falls off the end
    of the code; at every reachable state there is an instruction with enough operands; a state
    without successor (the activation ends there) is a `ReturnValue`, and every `ReturnValue`
    is executed with at least one value — the result the caller receives (`Call` pushes exactly
    that one; the rest of the frame is dropped). -/
theorem fun_body_returns_one (p : N) (hin : inFunShape p = true) (hfit : fitsFun p = true) (d : FDecl)
    (hd : d ∈ funsOf p) (s : St) (hr : Reach (FunC.fnCode d) s) :
    s.pc < (FunC.fnCode d).size ∧
    ∃ i l, (FunC.fnCode d).at s.pc = some i ∧ succs i s.pc s.h = some l ∧
      (l = [] → i.kind = .ret) ∧ (i.kind = .ret → 1 ≤ s.h) := by
  have hc := fun_fn_cert_accepted p hin hfit d hd
  have hle := (check_sound _ _ hc s hr).1
  have hlt : s.pc < (FunC.fnCode d).size := by
    rcases Nat.lt_or_ge s.pc (FunC.fnCode d).size with h | h
    · exact h
    · have := (finished_run_leaves_result _ _ hc s hr (by omega)).1
      cases this
  obtain ⟨i, l, hi, hl⟩ := no_underflow _ _ hc s hr hlt
  refine ⟨hlt, i, l, hi, hl, ?_, fun hk => return_has_value _ _ hc s hr i hi hk⟩
  intro hnil
  obtain ⟨j, rfl⟩ := toC04_at hi
  rw [hnil] at hl
  exact no_succ_is_ret j _ _ hl

/-- **`check`'s condition at `ReturnValue`, precisely**: the instruction passes at height `h`
    iff `h ≥ 1`, and then it has NO successor whose height would have to match — so a `return`
    with `h - 1` operands pending below its value (an operand position, a loop, a `switch`
    subject) is accepted for every `h ≥ 1`, while a `ReturnValue` on an empty frame is refused. -/
theorem return_condition (pc h : Nat) :
    succs ⟨.returnValue, 0, 0⟩ pc h = (if 1 ≤ h then some [] else none) := rfl

/-! ### the operands `toC04` drops are irrelevant to the checker -/

theorem eraseInsF_kind (i : Ins) : (eraseInsF i).kind = i.kind ∧ (eraseInsF i).size = i.size := by
  obtain ⟨op, a, b⟩ := i
  cases op <;> exact ⟨rfl, rfl⟩

/-- erasing the pool / table / slot indices of `LOAD_CONST`, `LOAD_GLOBAL`, `STORE_GLOBAL`,
    `LOAD_FAST`, `STORE_FAST` from a code object does not change what `check` accepts -/
theorem check_eraseIdxF (c : Code) (cert : Cert) : check (eraseIdxF c) cert = check c cert :=
  check_mapIns eraseInsF eraseInsF_kind c cert

/-- `FunC.toC04` produces erased code -/
theorem eraseIdxF_toC04 (m : Bool) (code : Fun.Code) : eraseIdxF (FunC.toC04 m code) = FunC.toC04 m code := by
  simp only [eraseIdxF, FunC.toC04, List.map_toArray, List.map_map]
  congr 2
  apply List.map_congr_left
  intro s _
  cases s with
  | none => rfl
  | some i => cases i <;> rfl

/-! ### the guard `fitsFun` cannot be dropped -/

/-- **The nesting guard is necessary**: without `fitsFun`, `compile_balanced` is false on the
    function fragment too — for the program `1 + (1 + (… + 1))` with 1024 additions NO
    certificate is accepted for its main code object, because an execution reaches height
    1025 > `maxHeight` (all operands pending at once; no loop and no call is involved). -/
theorem fun_compile_balanced_needs_fits :
    ¬ ∀ p, inFunShape p = true → ∀ c, c ∈ FunC.codes p → ∃ cert, check c cert = true := by
  intro h
  obtain ⟨cert, hc⟩ := h (deepProg 1024) (FunC.deepProg_inFunShape _) (FunC.mainCode (deepProg 1024))
    (List.mem_cons_self ..)
  have hcode : (compFun (deepProg 1024)).main = comp [] 0 0 (deep 1024) := by
    simp [compFun, deepProg, comp, pre, Frag.postName, Frag.isNilL, leaves, FunC.deep_not_func]
  have hw : Win (compFun (deepProg 1024)).main 0 (comp [] 0 0 (deep 1024)) := by
    rw [hcode]; exact Win.self _
  have r := FunC.deep_reach (ls := []) true _ 1024 0 0 hw .init
  have := (check_sound _ _ hc _ r).2.2
  simp only [maxHeight] at this
  omega

/-! ### non-vacuity: concrete programs of the function fragment (C01's examples): recursion, a
    loop with an early return, a `return` under a pending `switch` subject and a pending operand,
    mutual recursion; the hypotheses hold and the statements evaluate -/

example : inFunShape exFact = true ∧ fitsFun exFact = true := by decide
example : inFunShape exFib = true ∧ fitsFun exFib = true := by decide
example : inFunShape exLoopRet = true ∧ fitsFun exLoopRet = true ∧ FunC.depthProg exLoopRet ≤ 20 := by decide
example : inFunShape exRetUnder = true ∧ fitsFun exRetUnder = true := by decide
example : inFunShape exMutual = true ∧ fitsFun exMutual = true := by decide

/-- evaluate the theorem's conclusion: every code object with its syntax-tree certificate -/
def allAccepted (p : N) : Bool := ((FunC.codes p).zip (FunC.certs p)).all fun x => check x.1 x.2

-- recursion (`fact`: main + 1 function), two recursive calls with implicit return (`fib`)
example : (FunC.codes exFact).length = 2 ∧ allAccepted exFact = true := by decide
set_option maxRecDepth 8000 in
example : allAccepted exFib = true := by decide
-- a loop with an early return, locals, a default argument
set_option maxRecDepth 8000 in
example : allAccepted exLoopRet = true := by decide
-- `return` under a pending switch subject and a pending left operand
example : allAccepted exRetUnder = true := by decide
-- mutual recursion: main + 2 functions
set_option maxRecDepth 8000 in
example : (FunC.codes exMutual).length = 3 ∧ allAccepted exMutual = true := by decide

/-- `func f(a) { 1 + switch a { case 1: return 10  default: 2 } }`: the `ReturnValue` of
    `return 10` (offset 16 of the function's code) is certified at height 3 — the constant `1`
    and the switch subject are still below the result —, the implicit return at the end (offset
    27) at height 1; the end-of-code position is unreachable -/
example : ((funsOf exRetUnder).map fun d => ((FunC.fnCode d).at 16, (FunC.fnCode d).at 27, (FunC.fnCode d).size))
      = [(some ⟨.returnValue, 0, 0⟩, some ⟨.returnValue, 0, 0⟩, 28)] ∧
    (funsOf exRetUnder).map (fun d => ((FunC.fnCert d)[16]?, (FunC.fnCert d)[27]?, (FunC.fnCert d)[28]?))
      = [(some (some 3), some (some 1), some none)] := by decide

set_option maxRecDepth 8000 in
/-- the body of `first` (`exLoopRet`: a loop with an early `return i`) never holds more than two
    operands, for any number of iterations -/
example : (funsOf exLoopRet).map (fun d => (FunC.htsFn d.body).foldl max 0) = [2] := by decide

example : ∀ c, c ∈ FunC.codes exLoopRet → ∃ cert, check c cert = true :=
  fun_compile_balanced exLoopRet (by decide) (by decide)

/-- the entry state of a function body is reachable, so the execution theorems are not vacuous -/
example : ∀ d, d ∈ funsOf exFact → (FunC.fnCert d)[0]? = some (some 0) :=
  fun d hd => (fun_fn_heights exFact (by decide) (by decide) d hd ⟨0, 0⟩ .init).2.1

/-- outside the fragment the syntax-tree certificate is refused as it should be: a `break` under
    a pending operand inside a function body (`func f() { for { x := 1 + if true { break } } }`,
    C04's known finding `C04-ctl-under-operands`) -/
def exBreakUnder : N :=
  .prog (.cons (.expr (.func "f" .nilL (.block (.cons (.forever (.block (.cons
    (.var "x" (.infix .add (.int 1) (.if_ (.bool true) (.block (.cons .break_ .nilL)) .none_))) .nilL))) .nilL)))) .nilL)

example : inFunShape exBreakUnder = false ∧ allAccepted exBreakUnder = false := by decide

end Risor.C04
