import RisorModel.C04.Model
import RisorModel.C04.FragCert
/-
C04 — multi-variable statements `a, b, c := e` / `a, b, c = e` (compiler.compileMultiVar).

The statement compiles to: the code of `e` (one value), `UNPACK n` (pops the container, pushes
its `n` items), and then ONE instruction per name, last name first, that takes the item off
the stack.  Whether the statement is stack-neutral is decided by that last part alone: the
`n` pushed items must meet exactly `n` consuming instructions, whatever the names are — the
name `_` included — and wherever each name lives (global table, frame slot, closure cell).

`Sink` is what the compiler emits for ONE name: a store into the name's storage class, a
`POP_TOP` (a value that is only dropped), or nothing at all (`skip`: the forbidden shape — the
value stays on the stack).  `implSinks` is the code as it is (compiler/compiler.go): every name,
`_` too, is an ordinary variable and gets a store; a `:=` declares in the current code object
(global table in the main code, frame slot in a function), a `=` stores where the name resolves.
`blankSinks` is a compiler that knows the blank identifier and drops its value (also neutral);
`skipLeadingSinks` emits nothing for blank names at the front of the list (the variant that
"saves" the instructions that would run last) — it leaks one slot per leading blank name.

`mvSlots` / `mvHts` are the slots and the operand-stack heights of the statement's tail
(`UNPACK n` and the sinks) when the statement starts at height `x`, in the layout of
`FragCert.lean` (`r1`, `r2`, operand slots `none`).  `loopCode` is the code object of
`for { names… := g }`; `fnCode` the body of `func() { names… := g; return g }`.
Core Lean only (linked into the oracle).
-/
namespace Risor.C04.MV
open Risor.C04

/-- the storage class a name resolves to (compiler/symbol_table.go `Scope`) -/
inductive Scope where
  | glob | loc | free
  deriving Repr, DecidableEq, Inhabited

/-- one name on the left of the statement -/
structure Name where
  /-- the name is `_` -/
  blank : Bool
  /-- where the name resolves (used by `=`; a `:=` declares in the current code object) -/
  scope : Scope
  deriving Repr, DecidableEq, Inhabited

/-- what is emitted for one name -/
inductive Sink where
  | store (s : Scope)
  | pop
  | skip
  deriving Repr, DecidableEq, Inhabited

def storeIns : Scope → Ins
  | .glob => ⟨.storeGlobal, 0, 0⟩
  | .loc => ⟨.storeFast, 0, 0⟩
  | .free => ⟨.storeFree, 0, 0⟩

def Sink.slots : Sink → List (Option Ins)
  | .store s => [some (storeIns s), none]
  | .pop => [some ⟨.popTop, 0, 0⟩]
  | .skip => []

/-- does the sink take a value off the stack -/
def Sink.takes : Sink → Bool
  | .skip => false
  | _ => true

/-- heights of the slots of one sink reached at height `h` -/
def Sink.hts (h : Nat) : Sink → List Nat
  | .store _ => r2 h
  | .pop => r1 h
  | .skip => []

/-- height after one sink -/
def Sink.after (h : Nat) (s : Sink) : Nat := if s.takes then h - 1 else h

def sinksSlots : List Sink → List (Option Ins)
  | [] => []
  | s :: r => s.slots ++ sinksSlots r

def sinksHts (h : Nat) : List Sink → List Nat
  | [] => []
  | s :: r => s.hts h ++ sinksHts (s.after h) r

/-- number of sinks that take a value -/
def takers : List Sink → Nat
  | [] => 0
  | s :: r => (if s.takes then 1 else 0) + takers r

/-- number of names whose value nobody takes: what the statement leaves behind -/
def leak (sinks : List Sink) : Nat := sinks.length - takers sinks

/-- the tail of the statement: `UNPACK n` and one sink per name (sinks in emission order:
    the sink of the LAST name first) -/
def mvSlots (sinks : List Sink) : List (Option Ins) :=
  [some ⟨.unpack, sinks.length, 0⟩, none] ++ sinksSlots sinks

/-- heights of those slots when the STATEMENT started at height `x` (the value of the right
    side is on the stack: `x + 1` at `UNPACK`) -/
def mvHts (x : Nat) (sinks : List Sink) : List Nat :=
  r2 (x + 1) ++ sinksHts (x + sinks.length) sinks

/-! ### the three compilers -/

/-- compiler/compiler.go `compileMultiVar` as it is: every name is a variable.  `walrus`: the
    statement is `:=`; `inFn`: the current code object is a function (`c.current.parent != nil`) -/
def implSinks (walrus inFn : Bool) (names : List Name) : List Sink :=
  names.reverse.map fun nm =>
    .store (if walrus then (if inFn then .loc else .glob) else nm.scope)

/-- a compiler that treats `_` as the blank identifier and drops its value -/
def blankSinks (walrus inFn : Bool) (names : List Name) : List Sink :=
  names.reverse.map fun nm =>
    if nm.blank then .pop else .store (if walrus then (if inFn then .loc else .glob) else nm.scope)

/-- number of blank names at the front of the list -/
def leadingBlanks : List Name → Nat
  | [] => 0
  | nm :: r => if nm.blank then 1 + leadingBlanks r else 0

/-- the forbidden shape: nothing is emitted for the blank names at the FRONT of the list (they
    would be handled last), a blank name further back is dropped -/
def skipLeadingSinks (walrus inFn : Bool) (names : List Name) : List Sink :=
  let k := leadingBlanks names
  (blankSinks walrus inFn (names.drop k)) ++ List.replicate k .skip

/-! ### whole code objects around the statement -/

/-- the main code object of the program `for { names… := g }` exactly as compiler.go emits it
    (compileSimpleFor around compileBlock): `LOAD_GLOBAL g; UNPACK n; sinks; NIL; POP_TOP;
    JUMP_BACKWARD` to the start; `NOP` (where a `break` would land); `NIL` (the program's value).
    The harness compares it with the real compiler's output for every generated name list. -/
def loopSlots (sinks : List Sink) : List (Option Ins) :=
  [some ⟨.loadGlobal, 0, 0⟩, none] ++ mvSlots sinks ++
    [some ⟨.nil_, 0, 0⟩, some ⟨.popTop, 0, 0⟩,
     some ⟨.jumpBackward, 6 + (sinksSlots sinks).length, 0⟩, none,
     some ⟨.nop, 0, 0⟩, some ⟨.nil_, 0, 0⟩]

/-- heights of every slot of `loopSlots` (what the statement leaves behind, `leak sinks`, is
    still there when the body's value is pushed, dropped, and control jumps back) -/
def loopHts (sinks : List Sink) : List Nat :=
  r2 0 ++ mvHts 0 sinks ++ [leak sinks, leak sinks + 1, leak sinks, leak sinks, 0, 0]

def loopCode (sinks : List Sink) : Code := { slots := (loopSlots sinks).toArray, isMain := true }

/-- the certificate of `loopCode`, computed from the sinks alone (end of code: the program's value) -/
def loopCert (sinks : List Sink) : Cert := (mask (loopSlots sinks) (loopHts sinks) ++ [some 1]).toArray

/-- the code object of the function literal `func() { names… := g; return g }` as compiler.go
    emits it: the statement once, then `LOAD_GLOBAL g; RETURN_VALUE` -/
def fnSlots (sinks : List Sink) : List (Option Ins) :=
  [some ⟨.loadGlobal, 0, 0⟩, none] ++ mvSlots sinks ++
    [some ⟨.loadGlobal, 0, 0⟩, none, some ⟨.returnValue, 0, 0⟩]

def fnHts (sinks : List Sink) : List Nat :=
  r2 0 ++ mvHts 0 sinks ++ [leak sinks, leak sinks, leak sinks + 1]

def fnCode (sinks : List Sink) : Code := { slots := (fnSlots sinks).toArray, isMain := false }

/-- the certificate of `fnCode` (the end of the code is unreachable: the body leaves by `return`) -/
def fnCert (sinks : List Sink) : Cert := (mask (fnSlots sinks) (fnHts sinks) ++ [none]).toArray

/-! ### straight-line height of a REAL instruction window (what the oracle evaluates on the
bytecode the real compiler emitted for one statement) -/

/-- height after running the straight-line instructions `l` from height `h`; `none` = an
    instruction would pop below the frame's base or is not straight-line -/
def runStraight : List Ins → Nat → Option Nat
  | [], h => some h
  | i :: r, h =>
    match i.kind with
    | .fall pops pushes => if pops ≤ h then runStraight r (h - pops + pushes) else none
    | .need depth pushes => if depth ≤ h then runStraight r (h + pushes) else none
    | _ => none

/-- the instructions of a slot list -/
def insOfSlots (l : List (Option Ins)) : List Ins := l.filterMap id

/-- indices `check` never reads, erased: the table / slot / cell index of a store -/
def eraseStore (i : Ins) : Ins :=
  match i.op with
  | .storeGlobal | .storeFast | .storeFree => { i with a := 0 }
  | _ => i

end Risor.C04.MV
