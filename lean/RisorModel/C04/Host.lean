/-!
C04 at the level of the HOST ENTRY POINTS of one VirtualMachine (vm/vm.go: Run, RunCode — and
through it vm.RunCodeOnVM, risor.EvalCode(.., WithVM), risor.Call(.., WithVM) —, Call).

`finished_run_leaves_result` (Props.lean) is about ONE evaluation that starts on an empty
frame.  A host makes SEQUENCES of invocations on one long-lived VM; the property then demands
that after every invocation the operand stack holds exactly what that invocation leaves (its
result; nothing where the entry point hands the result over itself), whatever came before, so
that the NUMBER of invocations can never exhaust the stack's capacity.

The machine below abstracts an evaluation to its outcome (how many values the evaluation leaves
above the height it started at) and keeps the registers the entry points touch:
`sp`, `fp`, `startCount` and the keys of `loadedCode`.  `step cfg` is the code as it is for
`cfg = implCfg` (the constants are tied to vm/vm.go in Ties.lean: `implCfg_tie`); `specStep`
is what the property demands.
-/
namespace Risor.C04.Host

/-- how an evaluation ended; `k` = operands the abandoned evaluation left above its base -/
inductive Outcome
  | ok                 -- eval returned nil (finished_run_leaves_result: one value above the base)
  | err (k : Nat)      -- eval returned an error (raised error, cancelled context)
  | panic (k : Nat)    -- a Go panic unwound eval and was recovered by the entry point
  deriving Repr, DecidableEq, Inhabited

/-- one invocation of an entry point by the host -/
inductive Inv
  | run (fresh : Bool) (o : Outcome)   -- vm.Run(); fresh = the main code has instructions beyond vm.ip (first run / the REPL appended)
  | runCode (c : Nat) (o : Outcome)    -- vm.RunCode(code object c); code object 0 is the VM's main code
  | call (o : Outcome)                 -- vm.Call(fn, args)
  deriving Repr, DecidableEq, Inhabited

/-- values an evaluation leaves above the height it started at -/
def Outcome.left : Outcome → Nat
  | .ok => 1
  | .err k => k
  | .panic k => k

structure St where
  sp : Int            -- vm.sp; -1 = empty stack
  fp : Nat            -- vm.fp
  starts : Nat        -- vm.startCount
  loaded : List Nat   -- root code objects in vm.loadedCode
  deriving Repr, DecidableEq, Inhabited

/-- a VM as vm.New / vm.NewEmpty make it -/
def init : St := ⟨-1, 0, 0, []⟩

/-- what of runCodeInternal / resetForNewCode the machine depends on -/
structure Cfg where
  resetAlways : Bool   -- `if resetState && vm.startCount > 1 { vm.resetForNewCode() }` and nothing else decides
  resetSp : Int        -- resetForNewCode: `vm.sp = …`
  runDrops : Bool      -- the Run path: `for vm.sp >= 0 { vm.pop() }` before activateCode
  callCleans : Bool    -- callFunction's deferred function pops down to baseSP on EVERY exit (not only when resultErr is set)
  deriving Repr, DecidableEq, Inhabited

/-- vm/vm.go as it is (tied: Ties.implCfg_tie) -/
def implCfg : Cfg := ⟨true, -1, true, true⟩

/-- the forbidden variant: the reset is skipped when the code object is loaded already -/
def skipResetCfg : Cfg := ⟨false, -1, true, true⟩

/-- the variant before the repair of Run: the previous result stays under the next one -/
def keepResultCfg : Cfg := ⟨true, -1, false, true⟩

/-- HISTORICAL: callFunction before the repair of C04-call-panic-leaks-slot — its deferred function
    popped down to baseSP only `if resultErr != nil`; while a Go panic unwinds, resultErr is nil,
    so resumeFrame took the topmost abandoned operand for the frame's result and pushed it back -/
def preFixCallCfg : Cfg := ⟨true, -1, true, false⟩

def insertCode (c : Nat) (l : List Nat) : List Nat := if l.contains c then l else c :: l

/-- one invocation, the code as it is.
  * RunCode: start (startCount++); reset iff this is not the first start and (cfg) the reset is
    unconditional or the code is not loaded; load; activateCode(0, 0, ..) (fp = 0); eval leaves
    `left o` values above sp; nested frames have been unwound by callFunction's deferred
    resumeFrame, so fp is 0 again.
  * Run: start; no reset; drop everything; activateCode(0, vm.ip, ..); eval of what the main
    code has beyond vm.ip (nothing when not fresh).
  * Call: start; callFunction saves sp, runs the function in frame fp+1, pops the result and
    hands it to the host; its deferred function calls resumeFrame(baseFP, baseIP, baseSP) and pops
    down to baseSP on every exit — completed, failed, or unwound by a Go panic (cfg.callCleans).
    Before the repair (preFixCallCfg) the pop loop ran only when resultErr was set: while a PANIC
    unwinds callFunction resultErr is still nil, resumeFrame took the topmost abandoned operand
    for the frame's result and pushed it back above baseSP — one slot stayed
    (fixed finding C04-call-panic-leaks-slot). -/
def step (cfg : Cfg) (st : St) : Inv → St
  | .runCode c o =>
    let starts := st.starts + 1
    let doReset := decide (starts > 1) && (cfg.resetAlways || !st.loaded.contains c)
    let sp0 := if doReset then cfg.resetSp else st.sp
    let l0 := if doReset then [] else st.loaded
    ⟨sp0 + o.left, 0, starts, insertCode c l0⟩
  | .run fresh o =>
    let sp0 := if cfg.runDrops && decide (st.sp ≥ 0) then -1 else st.sp
    ⟨sp0 + (if fresh then (o.left : Int) else 0), 0, st.starts + 1, insertCode 0 st.loaded⟩
  | .call o =>
    let sp1 := match o with
      | .panic (_ + 1) => if cfg.callCleans then st.sp else st.sp + 1
      | _ => st.sp
    ⟨sp1, st.fp, st.starts + 1, st.loaded⟩

/-- what the property demands of one invocation: the stack holds what THIS invocation leaves
    above an empty stack (RunCode, Run), or is as it was (Call hands its result to the host) -/
def specStep (st : St) : Inv → St
  | .runCode c o => ⟨-1 + o.left, 0, st.starts + 1, insertCode c st.loaded⟩
  | .run fresh o => ⟨-1 + (if fresh then (o.left : Int) else 0), 0, st.starts + 1, insertCode 0 st.loaded⟩
  | .call _ => ⟨st.sp, st.fp, st.starts + 1, st.loaded⟩

def runHist (cfg : Cfg) (st : St) (h : List Inv) : St := h.foldl (step cfg) st
def specHist (st : St) (h : List Inv) : St := h.foldl specStep st

/-- the states after every invocation of a history -/
def trace (f : St → Inv → St) : St → List Inv → List St
  | _, [] => []
  | st, i :: h => let st' := f st i; st' :: trace f st' h

/-- operands an invocation abandons (0 for a finished one) -/
def Inv.pending : Inv → Nat
  | .run _ (.err k) | .run _ (.panic k) | .runCode _ (.err k) | .runCode _ (.panic k)
  | .call (.err k) | .call (.panic k) => k
  | _ => 0

/-- HISTORICAL guard of the fixed finding C04-call-panic-leaks-slot: a Call whose function panics
    with operands pending (the oracle still reports it per invocation; nothing is excused by it) -/
def Inv.callPanics : Inv → Bool
  | .call (.panic (_ + 1)) => true
  | _ => false

def guardHist (h : List Inv) : Bool := h.all (fun i => !i.callPanics)

/-! ### the facts of vm/vm.go the constants of `implCfg` are read from (extract/c04host.go) -/

def reviewedSpWrites : List (String × String) := [
  ("resetForNewCode", "vm.sp = -1"), ("pop", "vm.sp--"), ("push", "vm.sp++"), ("resumeFrame", "vm.sp = sp")]

def reviewedResetGuards : List (String × List String) := [
  ("resetState && vm.startCount > 1", ["vm.resetForNewCode()"])]

def reviewedDropLoop : String × String × List String := ("!resetState", "vm.sp >= 0", ["vm.pop()"])

def reviewedEntryCalls : List (String × List String) := [
  ("Run", ["vm.runCodeInternal(ctx, vm.main, false)"]),
  ("RunCode", ["vm.runCodeInternal(ctx, codeToRun, true)"]),
  ("Call", ["vm.start(ctx)", "vm.stop()", "vm.callFunction(vm.initContext(ctx), fn, args)"]),
  ("runCodeInternal", ["vm.start(ctx)", "vm.stop()", "vm.activateCode(0, startIP, codeObj)", "vm.eval(vm.initContext(ctx))"])]

def reviewedCallSaves : List String := ["baseSP := vm.sp"]
def reviewedCallRestore : List String := [
  "vm.resumeFrame(baseFP, baseIP, baseSP)", "for vm.sp > baseSP { vm.pop() }", "vm.callDepth--"]
/-- HISTORICAL: the deferred function before the repair -/
def preFixCallRestore : List String := [
  "vm.resumeFrame(baseFP, baseIP, baseSP)", "if resultErr != nil { for vm.sp > baseSP { vm.pop() } }", "vm.callDepth--"]
def reviewedCallReturns : List String := ["return vm.pop(), nil"]
def reviewedResumeFrame : List String := [
  "var frameResult object.Object = nil", "if vm.sp > sp { frameResult = vm.pop() }",
  "for i := vm.sp; i > sp; i-- { vm.stack[i] = nil }", "vm.sp = sp",
  "if frameResult != nil { vm.push(frameResult) }", "vm.fp = fp", "vm.ip = ip",
  "vm.activeFrame = &vm.frames[fp]", "vm.activeCode = vm.activeFrame.code", "return vm.activeFrame"]

/-- the value resetForNewCode assigns to sp, read from its source text: `-1` is the empty stack;
    anything else is read as a non-empty stack -/
def parseInt (s : String) : Int := if s = "-1" then -1 else if s = "0" then 0 else 1

/-- the machine's constants as READ from the regenerated facts: the reset is unconditional on
    every start after the first iff the only guard around resetForNewCode is
    `resetState && vm.startCount > 1` with the bare call as its body -/
def cfgOfFacts (guards : List (String × List String)) (unguarded : Nat) (resetSp : String)
    (loops : List (String × String × List String)) (callRestore : List String) : Cfg :=
  ⟨(guards == reviewedResetGuards && unguarded == 0), parseInt resetSp, loops.contains reviewedDropLoop,
    callRestore == reviewedCallRestore⟩

/-! ### line protocol -/

def parseOutcome (s : String) : Option Outcome :=
  if s == "ok" then some .ok
  else if s.startsWith "e" then (s.drop 1).toNat?.map .err
  else if s.startsWith "p" then (s.drop 1).toNat?.map .panic
  else none

/-- `run:<0|1>:<out>` | `code:<id>:<out>` | `call:<out>`, out = `ok` | `e<k>` | `p<k>` -/
def parseInv (s : String) : Option Inv :=
  match s.splitOn ":" with
  | ["run", f, o] => (parseOutcome o).map (.run (f == "1"))
  | ["code", c, o] => do let c ← c.toNat?; let o ← parseOutcome o; pure (.runCode c o)
  | ["call", o] => (parseOutcome o).map .call
  | _ => none

def parseHist (s : String) : Option (List Inv) := (s.splitOn " ").filter (· ≠ "") |>.mapM parseInv

def cfgOfName : String → Option Cfg
  | "impl" => some implCfg
  | "skipreset" => some skipResetCfg
  | "keepresult" => some keepResultCfg
  | "prefixcall" => some preFixCallCfg
  | _ => none

def showSts (l : List St) : String :=
  let s := " ".intercalate (l.map fun st => toString st.sp ++ "/" ++ toString st.fp)
  if s == "" then "-" else s

/-- `host <impl|skipreset|keepresult|prefixcall> <history>` →
    `ok <sp/fp after every invocation: machine> <the same: Spec> <historical guard callPanics per invocation: 0|1>` -/
def handleHost : List String → String
  | [cfg, hist] =>
    match cfgOfName cfg, parseHist hist with
    | some cfg, some h =>
      "ok\t" ++ showSts (trace (step cfg) init h) ++ "\t" ++ showSts (trace specStep init h) ++ "\t" ++
        (let g := " ".intercalate (h.map fun i => if i.callPanics then "1" else "0"); if g == "" then "-" else g)
    | _, _ => "error\tmalformed host request"
  | _ => "error\tmalformed host request"

end Risor.C04.Host
