import RisorModel.C04.Host
/-!
C04 over HISTORIES of host invocations on one VM (model: Host.lean).  Every theorem quantifies
over all histories (any length, any mix of Run / RunCode / Call, any outcomes) unless it names
a particular one as a witness.
-/
namespace Risor.C04.Host

theorem runHist_append (cfg : Cfg) (st : St) (h1 h2 : List Inv) :
    runHist cfg st (h1 ++ h2) = runHist cfg (runHist cfg st h1) h2 := by
  simp [runHist, List.foldl_append]

theorem runHist_cons (cfg : Cfg) (st : St) (i : Inv) (h : List Inv) :
    runHist cfg st (i :: h) = runHist cfg (step cfg st i) h := rfl

theorem starts_step (cfg : Cfg) (st : St) (i : Inv) : (step cfg st i).starts = st.starts + 1 := by
  cases i <;> rfl

/-- the reachable-state invariant: sp never goes below the empty stack, and a VM that was never
    started is empty -/
def Good (st : St) : Prop := -1 ≤ st.sp ∧ (st.starts = 0 → st.sp = -1)

theorem good_init : Good init := by simp [Good, init]

theorem callSp_ge (st : St) (o : Outcome) : st.sp ≤ (step cfg st (.call o)).sp := by
  cases o with
  | ok => simp [step]
  | err k => simp [step]
  | panic k => cases k <;> simp only [step] <;> (try split) <;> omega

theorem good_step (cfg : Cfg) (hc : cfg.resetSp = -1) (st : St) (i : Inv) (hg : Good st) :
    Good (step cfg st i) := by
  obtain ⟨h1, _⟩ := hg
  refine ⟨?_, fun h => by rw [starts_step] at h; omega⟩
  cases i with
  | runCode c o =>
    simp only [step]
    have : (0 : Int) ≤ (o.left : Int) := Int.natCast_nonneg _
    split <;> omega
  | run f o =>
    simp only [step]
    have : (0 : Int) ≤ (o.left : Int) := Int.natCast_nonneg _
    cases f <;> simp <;> split <;> omega
  | call o =>
    have := callSp_ge (cfg := cfg) st o
    omega

theorem good_runHist (cfg : Cfg) (hc : cfg.resetSp = -1) :
    ∀ (h : List Inv) (st : St), Good st → Good (runHist cfg st h) := by
  intro h
  induction h with
  | nil => intro st hg; exact hg
  | cons i h ih => intro st hg; exact ih _ (good_step cfg hc st i hg)

/-- RunCode on a reachable state, the code as it is: the stack holds exactly what THIS
    evaluation leaves above an empty stack; fp is 0 -/
theorem runCode_step_exact (st : St) (hg : Good st) (c : Nat) (o : Outcome) :
    (step implCfg st (.runCode c o)).sp = -1 + o.left ∧ (step implCfg st (.runCode c o)).fp = 0 := by
  obtain ⟨_, h0⟩ := hg
  refine ⟨?_, rfl⟩
  simp only [step, implCfg, Bool.true_or, Bool.and_true]
  split
  · rfl
  · rename_i hn
    have : st.starts = 0 := by
      simp at hn; omega
    rw [h0 this]

/-- Run on a reachable state, the code as it is -/
theorem run_step_exact (st : St) (hg : Good st) (f : Bool) (o : Outcome) :
    (step implCfg st (.run f o)).sp = -1 + (if f then (o.left : Int) else 0) ∧
      (step implCfg st (.run f o)).fp = 0 := by
  obtain ⟨h1, _⟩ := hg
  refine ⟨?_, rfl⟩
  simp only [step, implCfg, Bool.true_and]
  split
  · rfl
  · rename_i hn
    have : st.sp = -1 := by
      simp at hn; omega
    rw [this]

/-- **invocation_leaves_result_only** — after ANY history of invocations on a fresh VM (any
    length, any outcomes, panicking Calls included) a finished RunCode of any
    code object — the same as before, another one, the main code — leaves sp = 0 and fp = 0:
    exactly its result; so does a Run that had code to run; a Run with nothing new leaves the
    stack empty. -/
theorem invocation_leaves_result_only (h : List Inv) :
    (∀ c, (runHist implCfg init (h ++ [.runCode c .ok])).sp = 0 ∧
          (runHist implCfg init (h ++ [.runCode c .ok])).fp = 0) ∧
    ((runHist implCfg init (h ++ [.run true .ok])).sp = 0) ∧
    ((runHist implCfg init (h ++ [.run false .ok])).sp = -1) := by
  have hg := good_runHist implCfg rfl h init good_init
  refine ⟨fun c => ?_, ?_, ?_⟩
  · rw [runHist_append]
    exact runCode_step_exact _ hg c .ok
  · rw [runHist_append]
    exact (run_step_exact _ hg true .ok).1
  · rw [runHist_append]
    exact (run_step_exact _ hg false .ok).1

/-- an abandoned evaluation (error, cancelled context, recovered panic) leaves its own k operands
    and nothing of the history; the next RunCode / Run starts from the empty stack again -/
theorem failed_invocation_leaves_own_operands (h : List Inv) (c : Nat) (o : Outcome) :
    (runHist implCfg init (h ++ [.runCode c o])).sp = -1 + o.left := by
  rw [runHist_append]
  exact (runCode_step_exact _ (good_runHist implCfg rfl h init good_init) c o).1

/-- Call hands its result to the host: whatever its outcome — finished, error, cancelled, a
    recovered panic with any number of operands pending — it leaves sp and fp as they were
    (every configuration whose callFunction cleans up on every exit; the code as it is: implCfg) -/
theorem call_neutral (cfg : Cfg) (hc : cfg.callCleans = true) (st : St) (o : Outcome) :
    (step cfg st (.call o)).sp = st.sp ∧ (step cfg st (.call o)).fp = st.fp := by
  refine ⟨?_, rfl⟩
  cases o with
  | ok => rfl
  | err k => rfl
  | panic k =>
    cases k with
    | zero => rfl
    | succ k => simp [step, hc]

/-- the code as it is meets the Spec at every step of every history, whatever the invocation and
    its outcome: same sp, same fp (no guard since the repair of C04-call-panic-leaks-slot) -/
theorem impl_meets_spec (st : St) (hg : Good st) (i : Inv) :
    (step implCfg st i).sp = (specStep st i).sp ∧ (step implCfg st i).fp = (specStep st i).fp := by
  cases i with
  | runCode c o => exact ⟨(runCode_step_exact st hg c o).1, rfl⟩
  | run f o => exact ⟨(run_step_exact st hg f o).1, rfl⟩
  | call o => exact call_neutral implCfg rfl st o

def maxPending (h : List Inv) : Nat := h.foldl (fun m i => max m i.pending) 0

/-- the full claim: whatever the history, the stack never holds more than one result or the
    operands ONE failed invocation abandoned -/
def Host_fullFor (cfg : Cfg) : Prop :=
  ∀ (h : List Inv) (B : Nat), 1 ≤ B → (∀ i ∈ h, i.pending ≤ B) → (runHist cfg init h).sp + 1 ≤ B

/-- the full claim about the code as it is -/
def Host_full : Prop := Host_fullFor implCfg

theorem bounded_step (st : St) (B : Nat) (hB : 1 ≤ B) (hg : Good st) (hs : st.sp + 1 ≤ B)
    (i : Inv) (hp : i.pending ≤ B) : (step implCfg st i).sp + 1 ≤ B := by
  cases i with
  | runCode c o =>
    rw [(runCode_step_exact st hg c o).1]
    cases o <;> simp only [Outcome.left, Inv.pending] at * <;> omega
  | run f o =>
    rw [(run_step_exact st hg f o).1]
    cases f <;> cases o <;> simp only [Outcome.left, Inv.pending, if_true, if_false, Bool.false_eq_true] at * <;> omega
  | call o =>
    rw [(call_neutral implCfg rfl st o).1]; exact hs

/-- **sp_bounded_over_histories** — for EVERY history (no guard: panicking Calls included since
    the repair of C04-call-panic-leaks-slot): sp + 1 ≤ max 1 (the most operands one failed
    invocation abandoned).  The NUMBER of invocations does not occur in the bound: capacity is
    never exhausted by repetition. -/
theorem sp_bounded_over_histories (h : List Inv) (B : Nat) (hB : 1 ≤ B)
    (hp : ∀ i ∈ h, i.pending ≤ B) :
    (runHist implCfg init h).sp + 1 ≤ B := by
  suffices ∀ (h : List Inv) (st : St), Good st → st.sp + 1 ≤ B → (∀ i ∈ h, i.pending ≤ B) →
      (runHist implCfg st h).sp + 1 ≤ B by
    exact this h init good_init (by simp [init]) hp
  intro h
  induction h with
  | nil => intro st _ hs _; exact hs
  | cons i h ih =>
    intro st hg hs hp
    rw [runHist_cons]
    apply ih _ (good_step implCfg rfl st i hg)
    · exact bounded_step st B hB hg hs i (hp i (List.mem_cons_self ..))
    · intro j hj; exact hp j (List.mem_cons_of_mem _ hj)

/-- finished invocations only: sp ≤ 0 after every history — at most the one result -/
theorem sp_le_zero_finished (h : List Inv) (hp : ∀ i ∈ h, i.pending = 0) :
    (runHist implCfg init h).sp ≤ 0 := by
  have := sp_bounded_over_histories h 1 (Nat.le_refl 1) (fun i hi => by rw [hp i hi]; omega)
  omega

/-! ### the contrasts: what grows with the number of invocations -/

theorem skip_step_loaded (st : St) (c : Nat) (hl : c ∈ st.loaded) :
    step skipResetCfg st (.runCode c .ok) = ⟨st.sp + 1, 0, st.starts + 1, st.loaded⟩ := by
  simp [step, skipResetCfg, hl, insertCode, Outcome.left]

theorem skip_loaded_grows (c : Nat) : ∀ (n : Nat) (st : St), c ∈ st.loaded →
    (runHist skipResetCfg st (List.replicate n (.runCode c .ok))).sp = st.sp + n := by
  intro n
  induction n with
  | zero => intro st _; simp [runHist]
  | succ n ih =>
    intro st hl
    rw [List.replicate_succ, runHist_cons, skip_step_loaded st c hl, ih _ (by exact hl)]
    simp only [Int.natCast_add, Int.natCast_one]; omega

/-- **skip_reset_grows** — the variant that skips resetForNewCode when the code object is loaded
    already: after n RunCodes of the SAME code object on a fresh VM, n values are on the stack
    (sp = n - 1): one slot per invocation, for every n and every code object. -/
theorem skip_reset_grows (c : Nat) (n : Nat) :
    (runHist skipResetCfg init (List.replicate (n + 1) (.runCode c .ok))).sp = n := by
  rw [List.replicate_succ, runHist_cons]
  have h1 : step skipResetCfg init (.runCode c .ok) = ⟨0, 0, 1, [c]⟩ := by
    simp [step, skipResetCfg, init, insertCode, Outcome.left]
  rw [h1, skip_loaded_grows c n _ (by simp)]
  simp

/-- the same variant exhausts ANY capacity: no bound holds over histories of finished invocations -/
theorem skip_reset_unbounded (B : Nat) :
    ∃ h : List Inv, (∀ i ∈ h, i.pending = 0) ∧ ¬ (runHist skipResetCfg init h).sp + 1 ≤ B := by
  refine ⟨List.replicate (B + 1) (.runCode 7 .ok), ?_, ?_⟩
  · intro i hi; rw [List.eq_of_mem_replicate hi]; rfl
  · rw [skip_reset_grows]; omega

/-- the repaired defect of Run (a Run that keeps the previous result): n fresh Runs leave n values -/
theorem keep_result_grows : ∀ (n : Nat) (st : St),
    (runHist keepResultCfg st (List.replicate n (.run true .ok))).sp = st.sp + n := by
  intro n
  induction n with
  | zero => intro st; simp [runHist]
  | succ n ih =>
    intro st
    rw [List.replicate_succ, runHist_cons, ih]
    simp [step, keepResultCfg, Outcome.left]; omega

/-- **call_panic_grows** — HISTORICAL, the code before the repair (preFixCallCfg, fixed finding
    C04-call-panic-leaks-slot): n Calls of a function that panics with an operand pending leave n
    slots, from every state -/
theorem call_panic_grows (k : Nat) : ∀ (n : Nat) (st : St),
    (runHist preFixCallCfg st (List.replicate n (.call (.panic (k + 1))))).sp = st.sp + n := by
  intro n
  induction n with
  | zero => intro st; simp [runHist]
  | succ n ih =>
    intro st
    rw [List.replicate_succ, runHist_cons, ih]
    simp [step, preFixCallCfg]; omega

/-- **C04_fixed_call_panic_leaked_slot** — HISTORICAL: for callFunction as it was before the
    repair the full claim was false: three panicking Calls that abandon one operand each left
    three slots -/
theorem C04_fixed_call_panic_leaked_slot : ¬ Host_fullFor preFixCallCfg := by
  intro hf
  have h := hf (List.replicate 3 (.call (.panic 1))) 1 (Nat.le_refl 1)
    (fun i hi => by rw [List.eq_of_mem_replicate hi]; simp [Inv.pending])
  rw [call_panic_grows 0 3 init] at h
  simp [init] at h

/-- **C04_host_full** — the full claim holds for the code as it is, for every history, without a
    guard (it replaces C04_counterexample_call_panic / C04_partial_host) -/
theorem C04_host_full : Host_full := fun h B hB hp => sp_bounded_over_histories h B hB hp

/-- the Spec itself never grows: after every history sp + 1 ≤ max 1 (pending), panicking Calls included -/
theorem spec_bounded (B : Nat) (hB : 1 ≤ B) : ∀ (h : List Inv) (st : St), st.sp + 1 ≤ B →
    (∀ i ∈ h, i.pending ≤ B) → (specHist st h).sp + 1 ≤ B := by
  intro h
  induction h with
  | nil => intro st hs _; exact hs
  | cons i h ih =>
    intro st hs hp
    show (specHist (specStep st i) h).sp + 1 ≤ B
    apply ih
    · have hpi := hp i (List.mem_cons_self ..)
      cases i with
      | runCode c o => cases o <;> simp [specStep, Outcome.left, Inv.pending] at * <;> omega
      | run f o => cases f <;> cases o <;> simp [specStep, Outcome.left, Inv.pending] at * <;> omega
      | call o => exact hs
    · intro j hj; exact hp j (List.mem_cons_of_mem _ hj)

/-- `trace` lists exactly the states of the prefixes (what the harness compares step by step) -/
theorem trace_length (f : St → Inv → St) : ∀ (h : List Inv) (st : St), (trace f st h).length = h.length := by
  intro h
  induction h with
  | nil => intro st; rfl
  | cons i h ih => intro st; simp [trace, ih]

theorem trace_last (f : St → Inv → St) : ∀ (h : List Inv) (st : St) (i : Inv),
    (trace f st (h ++ [i])).getLast? = some (f (h.foldl f st) i) := by
  intro h
  induction h with
  | nil => intro st i; simp [trace]
  | cons j h ih =>
    intro st i
    have := ih (f st j) i
    simp only [List.cons_append, trace, List.foldl_cons]
    rw [List.getLast?_cons, this]; rfl

/-! non-vacuity: the hypotheses are satisfiable and the machine computes -/
example : guardHist [.runCode 1 .ok, .call .ok, .runCode 1 (.err 2), .call (.panic 0), .run true .ok] = true := by decide
example : (runHist implCfg init [.runCode 1 .ok, .runCode 1 .ok, .call .ok, .runCode 1 (.err 2), .runCode 2 .ok]).sp = 0 := by decide
example : (runHist skipResetCfg init [.runCode 1 .ok, .runCode 1 .ok, .runCode 1 .ok]).sp = 2 := by decide
example : (runHist skipResetCfg init [.runCode 1 .ok, .runCode 2 .ok, .runCode 1 .ok]).sp = 0 := by decide
example : (runHist implCfg init [.run true .ok, .call (.panic 1), .call (.panic 1)]).sp = 0 := by decide
example : (runHist preFixCallCfg init [.run true .ok, .call (.panic 1), .call (.panic 1)]).sp = 2 := by decide

end Risor.C04.Host
