import RisorModel.Util
import RisorModel.C04.Lit
import RisorModel.C04.ObsOracle
/-!
Line-protocol front end of the round-6 model (request `C04 lit …`); not part of any theorem.

  `lit <expression> <instruction text of the REAL window>` → `ok` TAB f1 … f4
      expression: postfix tokens joined by `,`: `c` constant, `T` / `F` / `Z` true / false / nil,
        `g` global, `l` local, `b` binary operator, `m` comparison, `i` index, `k` call with one
        argument, `n` negation, `L<n>` list literal of the `n` expressions before it,
        `I` in, `N` not in
        f1  `<n>`                  number of instructions of the model's code (compileList / compileIn / compileNotIn)
        f2  `same` | `differs <k>` the real window with indices erased IS the model's code (else: first differing instruction)
        f3  `<k>` | `underflow`    `runStraight` over the REAL window from height 0: the Spec demands 1
                                   (`underflow` also when the window is not one straight line)
        f4  the same for the model's code (always 1: compileList_pushes_one, compileIn_pushes_one)
-/
namespace Risor.C04.Lit
open Risor.C04
open Risor.C04.MV (runStraight insOfSlots)

def one (o : Op) : List Ins := [⟨o, 0, 0⟩]

def parseExpr (s : String) : Option (List Ins) :=
  let step (st : Option (List (List Ins))) (tok : String) : Option (List (List Ins)) :=
    match st with
    | none => none
    | some stack =>
      if tok == "c" then some (one .loadConst :: stack)
      else if tok == "T" then some (one .true_ :: stack)
      else if tok == "F" then some (one .false_ :: stack)
      else if tok == "Z" then some (one .nil_ :: stack)
      else if tok == "g" then some (one .loadGlobal :: stack)
      else if tok == "l" then some (one .loadFast :: stack)
      else if tok == "n" then
        match stack with
        | a :: r => some ((a ++ one .unaryNegative) :: r)
        | _ => none
      else if tok.startsWith "L" then
        match (String.ofList (tok.toList.drop 1)).toNat? with
        | some n =>
          if n ≤ stack.length then some (compileList (stack.take n).reverse :: stack.drop n) else none
        | none => none
      else
        match stack with
        | b :: a :: r =>
          if tok == "b" then some ((a ++ b ++ one .binaryOp) :: r)
          else if tok == "m" then some ((a ++ b ++ one .compareOp) :: r)
          else if tok == "i" then some ((a ++ b ++ one .binarySubscr) :: r)
          else if tok == "k" then some ((a ++ b ++ [⟨.call, 1, 0⟩]) :: r)
          else if tok == "I" then some (compileIn a b :: r)
          else if tok == "N" then some (compileNotIn a b :: r)
          else none
        | _ => none
  match ((s.splitOn ",").filter (· ≠ "")).foldl step (some []) with
  | some [e] => some e
  | _ => none

/-- indices the height of the stack does not depend on -/
def eraseIns (i : Ins) : Ins :=
  match i.op with
  | .loadConst | .loadGlobal | .loadFast | .binaryOp | .compareOp | .containsOp => { i with a := 0 }
  | _ => i

def firstDiff : List Ins → List Ins → Nat → Option Nat
  | [], [], _ => none
  | a :: r, b :: s, k => if a == b then firstDiff r s (k + 1) else some k
  | _, _, k => some k

def handleLit : List String → String
  | [expr, text] =>
    match parseExpr expr, decode true text with
    | none, _ => "error\tcannot decode the expression"
    | _, .error e => "error\t" ++ e
    | some model, .ok real =>
      let realIns := insOfSlots real.slots.toList
      "\t".intercalate ["ok", toString model.length,
        match firstDiff (realIns.map eraseIns) model 0 with
        | none => "same"
        | some k => "differs " ++ toString k,
        Obs.netText realIns, Obs.netText model]
  | _ => "error\tunknown-request"

end Risor.C04.Lit
