import RisorModel.C04.CertCore
import RisorModel.C04.MultiVar
import RisorModel.C04.Props
/-!
C04 — multi-variable statements: helper lemmas for MultiVarProps.lean (sizes of the pieces,
the sinks inside a code object's certificate (`sinks_tgt`, `sinks_ok`) and along an execution
(`sinks_run`), `runStraight` over the sinks, windows of `loopCode`).  No statement of the
property lives here.
-/
namespace Risor.C04.MV
open Risor.C04 Risor.C04.Ctx

variable {G : Ctx Ins id}

theorem Sink.hts_length (h : Nat) (s : Sink) : (s.hts h).length = s.slots.length := by
  cases s <;> rfl

theorem sinksHts_length : ∀ (l : List Sink) (h : Nat), (sinksHts h l).length = (sinksSlots l).length
  | [], _ => rfl
  | s :: r, h => by
    simp only [sinksHts, sinksSlots, List.length_append, Sink.hts_length, sinksHts_length r]

theorem takers_le : ∀ (l : List Sink), takers l ≤ l.length
  | [] => Nat.le_refl _
  | s :: r => by
    have := takers_le r
    simp only [takers, List.length_cons]
    split <;> omega

theorem mvSlots_length (sinks : List Sink) : (mvSlots sinks).length = 2 + (sinksSlots sinks).length := by
  simp [mvSlots]; omega

theorem mvHts_length (x : Nat) (sinks : List Sink) : (mvHts x sinks).length = (mvSlots sinks).length := by
  simp [mvHts, mvSlots, sinksHts_length, r2]

/-- every height of the sinks is at most the height they start with -/
theorem sinksHts_le : ∀ (l : List Sink) (h y : Nat), y ∈ sinksHts h l → y ≤ h
  | [], _, _, hy => by cases hy
  | s :: r, h, y, hy => by
    simp only [sinksHts, List.mem_append] at hy
    rcases hy with hy | hy
    · cases s with
      | store sc => simp [Sink.hts, r2] at hy; omega
      | pop => simp [Sink.hts, r1] at hy; omega
      | skip => simp [Sink.hts] at hy
    · have := sinksHts_le r _ y hy
      have : s.after h ≤ h := by unfold Sink.after; split <;> omega
      omega

theorem storeIns_kind (sc : Scope) : (storeIns sc).kind = .fall 1 0 := by cases sc <;> rfl

theorem storeIns_size (sc : Scope) : (storeIns sc).size = 2 := by cases sc <;> rfl

/-- the place where the sinks start is a legal target for the height they start with -/
theorem sinks_tgt : ∀ (l : List Sink) (h pc : Nat), G.At pc (sinksSlots l) (sinksHts h l) →
    G.Tgt (pc + (sinksSlots l).length) (h - takers l) → G.Tgt pc h
  | [], h, pc, _, ht => ht.cast (by simp [sinksSlots]) (by simp [takers])
  | .store sc :: r, h, pc, hat, _ => by
    have hat' : G.At pc ([some (storeIns sc), none] ++ sinksSlots r) (r2 h ++ sinksHts ((Sink.store sc).after h) r) := hat
    exact hat'.two_cons.1.tgt_two
  | .pop :: r, h, pc, hat, _ => by
    have hat' : G.At pc ([some ⟨.popTop, 0, 0⟩] ++ sinksSlots r) (r1 h ++ sinksHts (Sink.pop.after h) r) := hat
    exact hat'.one_cons.1.tgt_one
  | .skip :: r, h, pc, hat, ht => by
    have hat' : G.At pc (sinksSlots r) (sinksHts h r) := hat
    have ht' : G.Tgt (pc + (sinksSlots r).length) (h - takers r) :=
      ht.cast (by simp [sinksSlots, Sink.slots]) (by simp [takers, Sink.takes])
    exact sinks_tgt r h pc hat' ht'

/-- the sinks pass the checker when there is a value for each one that takes one and the
    offset after them is entered with what is left -/
theorem sinks_ok : ∀ (l : List Sink) (h pc : Nat), G.At pc (sinksSlots l) (sinksHts h l) → takers l ≤ h →
    G.Tgt (pc + (sinksSlots l).length) (h - takers l) → G.OkWin pc (sinksSlots l).length
  | [], _, pc, _, _, _ => OkWin.zero G pc
  | .store sc :: r, h, pc, hat, hle, ht => by
    have hat' : G.At pc ([some (storeIns sc), none] ++ sinksSlots r) (r2 h ++ sinksHts (h - 1) r) := hat
    obtain ⟨h1, h2⟩ := hat'.two_cons
    have hle' : 1 + takers r ≤ h := by simpa [takers, Sink.takes] using hle
    have ht' : G.Tgt (pc + 2 + (sinksSlots r).length) (h - 1 - takers r) :=
      ht.cast (by simp [sinksSlots, Sink.slots]; omega) (by simp [takers, Sink.takes]; omega)
    have hnext : G.Tgt (pc + 2) (h - 1) := sinks_tgt r (h - 1) (pc + 2) h2 ht'
    have w1 : G.OkWin pc 2 :=
      okwin_fall2 h1 (storeIns_kind sc) (storeIns_size sc) (by omega) (hnext.cast rfl (by omega))
    have w2 := sinks_ok r (h - 1) (pc + 2) h2 (by omega) ht'
    exact (w1.append w2).cast (by simp [sinksSlots, Sink.slots]; omega)
  | .pop :: r, h, pc, hat, hle, ht => by
    have hat' : G.At pc ([some ⟨.popTop, 0, 0⟩] ++ sinksSlots r) (r1 h ++ sinksHts (h - 1) r) := hat
    obtain ⟨h1, h2⟩ := hat'.one_cons
    have hle' : 1 + takers r ≤ h := by simpa [takers, Sink.takes] using hle
    have ht' : G.Tgt (pc + 1 + (sinksSlots r).length) (h - 1 - takers r) :=
      ht.cast (by simp [sinksSlots, Sink.slots]; omega) (by simp [takers, Sink.takes]; omega)
    have hnext : G.Tgt (pc + 1) (h - 1) := sinks_tgt r (h - 1) (pc + 1) h2 ht'
    have w1 : G.OkWin pc 1 :=
      okwin_fall1 (a := 1) (b := 0) h1 rfl rfl (by omega) (hnext.cast rfl (by omega))
    have w2 := sinks_ok r (h - 1) (pc + 1) h2 (by omega) ht'
    exact (w1.append w2).cast (by simp [sinksSlots, Sink.slots]; omega)
  | .skip :: r, h, pc, hat, hle, ht => by
    have hat' : G.At pc (sinksSlots r) (sinksHts h r) := hat
    have hle' : takers r ≤ h := by simpa [takers, Sink.takes] using hle
    have ht' : G.Tgt (pc + (sinksSlots r).length) (h - takers r) :=
      ht.cast (by simp [sinksSlots, Sink.slots]) (by simp [takers, Sink.takes])
    exact (sinks_ok r h pc hat' hle' ht').cast (by simp [sinksSlots, Sink.slots])

/-- the slots `w` sit at offset `pc` of the code object -/
def HasWin (c : Code) (pc : Nat) (w : List (Option Ins)) : Prop := Win c.slots.toList pc w

theorem HasWin.at_head {c : Code} {pc : Nat} {i : Ins} {rest : List (Option Ins)}
    (h : HasWin c pc (some i :: rest)) : c.at pc = some i := by
  have := Win.head h
  simp only [Array.getElem?_toList] at this
  simp [Code.at, this]

theorem sinks_run (c : Code) : ∀ (l : List Sink) (h pc : Nat), HasWin c pc (sinksSlots l) → takers l ≤ h →
    Reach c ⟨pc, h⟩ → Reach c ⟨pc + (sinksSlots l).length, h - takers l⟩
  | [], h, pc, _, _, hr => by simpa [sinksSlots, takers] using hr
  | .store sc :: r, h, pc, hw, hle, hr => by
    have hw' : HasWin c pc ([some (storeIns sc), none] ++ sinksSlots r) := hw
    have hle' : 1 + takers r ≤ h := by simpa [takers, Sink.takes] using hle
    have hi := HasWin.at_head (Win.left hw')
    have hs : succs (storeIns sc) pc h = some [(pc + 2, h - 1 + 0)] := by
      have : 1 ≤ h := by omega
      simp only [succs, storeIns_kind, storeIns_size, this, if_true]
    have hr' : Reach c ⟨pc + 2, h - 1⟩ := .step hr (.mk hi hs (by simp))
    have := sinks_run c r (h - 1) (pc + 2) (Win.right hw') (by omega) hr'
    have e1 : pc + (sinksSlots (.store sc :: r)).length = pc + 2 + (sinksSlots r).length := by
      simp [sinksSlots, Sink.slots]; omega
    have e2 : h - takers (.store sc :: r) = h - 1 - takers r := by simp [takers, Sink.takes]; omega
    rw [e1, e2]; exact this
  | .pop :: r, h, pc, hw, hle, hr => by
    have hw' : HasWin c pc ([some ⟨.popTop, 0, 0⟩] ++ sinksSlots r) := hw
    have hle' : 1 + takers r ≤ h := by simpa [takers, Sink.takes] using hle
    have hi := HasWin.at_head (Win.left hw')
    have hs : succs ⟨.popTop, 0, 0⟩ pc h = some [(pc + 1, h - 1 + 0)] := by
      have : 1 ≤ h := by omega
      simp only [succs, Ins.kind, Ins.size, Op.operands, this, if_true]
    have hr' : Reach c ⟨pc + 1, h - 1⟩ := .step hr (.mk hi hs (by simp))
    have := sinks_run c r (h - 1) (pc + 1) (Win.right hw') (by omega) hr'
    have e1 : pc + (sinksSlots (.pop :: r)).length = pc + 1 + (sinksSlots r).length := by
      simp [sinksSlots, Sink.slots]; omega
    have e2 : h - takers (.pop :: r) = h - 1 - takers r := by simp [takers, Sink.takes]; omega
    rw [e1, e2]; exact this
  | .skip :: r, h, pc, hw, hle, hr => by
    have hw' : HasWin c pc (sinksSlots r) := hw
    have hle' : takers r ≤ h := by simpa [takers, Sink.takes] using hle
    have := sinks_run c r h pc hw' hle' hr
    have e1 : pc + (sinksSlots (.skip :: r)).length = pc + (sinksSlots r).length := by
      simp [sinksSlots, Sink.slots]
    have e2 : h - takers (.skip :: r) = h - takers r := by simp [takers, Sink.takes]
    rw [e1, e2]; exact this

theorem leak_of_all_take : ∀ (l : List Sink), (∀ s, s ∈ l → s.takes = true) → leak l = 0
  | [], _ => rfl
  | s :: r, h => by
    have h1 : s.takes = true := h s (by simp)
    have h2 := leak_of_all_take r (fun t ht => h t (by simp [ht]))
    have := takers_le r
    unfold leak at h2 ⊢
    simp only [takers, h1, if_true, List.length_cons]
    omega

theorem takers_append : ∀ (a b : List Sink), takers (a ++ b) = takers a + takers b
  | [], b => by simp [takers]
  | s :: r, b => by simp only [List.cons_append, takers, takers_append r b]; omega

theorem takers_replicate_skip : ∀ (k : Nat), takers (List.replicate k Sink.skip) = 0
  | 0 => rfl
  | k + 1 => by simp [List.replicate_succ, takers, Sink.takes, takers_replicate_skip k]

theorem implSinks_length (walrus inFn : Bool) (names : List Name) :
    (implSinks walrus inFn names).length = names.length := by simp [implSinks]

theorem runStraight_sinks : ∀ (l : List Sink) (h : Nat), takers l ≤ h →
    runStraight (insOfSlots (sinksSlots l)) h = some (h - takers l)
  | [], h, _ => by simp [sinksSlots, insOfSlots, runStraight, takers]
  | .store sc :: r, h, hle => by
    have hle' : 1 + takers r ≤ h := by simpa [takers, Sink.takes] using hle
    have h1 : 1 ≤ h := by omega
    have := runStraight_sinks r (h - 1) (by omega)
    simp only [insOfSlots] at this
    simp only [sinksSlots, Sink.slots, insOfSlots, List.cons_append, List.nil_append, List.filterMap_cons,
      id, runStraight, storeIns_kind, h1, if_true, Nat.add_zero, this, takers, Sink.takes]
    congr 1; omega
  | .pop :: r, h, hle => by
    have hle' : 1 + takers r ≤ h := by simpa [takers, Sink.takes] using hle
    have h1 : 1 ≤ h := by omega
    have := runStraight_sinks r (h - 1) (by omega)
    simp only [insOfSlots] at this
    simp only [sinksSlots, Sink.slots, insOfSlots, List.cons_append, List.nil_append, List.filterMap_cons,
      id, runStraight, Ins.kind, h1, if_true, Nat.add_zero, this, takers, Sink.takes]
    congr 1; omega
  | .skip :: r, h, hle => by
    have hle' : takers r ≤ h := by simpa [takers, Sink.takes] using hle
    have := runStraight_sinks r h hle'
    simp only [insOfSlots] at this
    simp only [sinksSlots, Sink.slots, insOfSlots, List.nil_append, this, takers, Sink.takes]
    simp

theorem reach_fall {c : Code} {pc h a b : Nat} {i : Ins} (hi : c.at pc = some i) (hk : i.kind = .fall a b)
    (ha : a ≤ h) (hr : Reach c ⟨pc, h⟩) : Reach c ⟨pc + i.size, h - a + b⟩ := by
  have hs : succs i pc h = some [(pc + i.size, h - a + b)] := by simp only [succs, hk, ha, if_true]
  exact .step hr (.mk hi hs (by simp))

theorem HasWin.cast {c : Code} {p q : Nat} {w : List (Option Ins)} (h : HasWin c p w) (e : p = q) : HasWin c q w := e ▸ h

theorem HasWin.tail {c : Code} {pc : Nat} {x : Option Ins} {rest : List (Option Ins)}
    (h : HasWin c pc (x :: rest)) : HasWin c (pc + 1) rest :=
  Win.right (a := [x]) (b := rest) h

theorem loop_hasWin (sinks : List Sink) : HasWin (loopCode sinks) 0 (loopSlots sinks) := by
  unfold HasWin loopCode
  exact Win.self _

/-- the tail of the loop's code sits right after the statement -/
theorem loop_tail_win (sinks : List Sink) :
    HasWin (loopCode sinks) (4 + (sinksSlots sinks).length)
      [some ⟨.nil_, 0, 0⟩, some ⟨.popTop, 0, 0⟩, some ⟨.jumpBackward, 6 + (sinksSlots sinks).length, 0⟩, none,
       some ⟨.nop, 0, 0⟩, some ⟨.nil_, 0, 0⟩] := by
  have h := loop_hasWin sinks
  unfold loopSlots at h
  exact HasWin.cast (Win.right h) (by simp [mvSlots]; omega)

theorem loop_mv_win (sinks : List Sink) : HasWin (loopCode sinks) 2 (mvSlots sinks) := by
  have h := loop_hasWin sinks
  unfold loopSlots at h
  exact HasWin.cast (Win.right (Win.left h)) (by simp)

theorem mvHts_le (x : Nat) (sinks : List Sink) (y : Nat) (hy : y ∈ mvHts x sinks) : y ≤ x + 1 + sinks.length := by
  simp only [mvHts, List.mem_append] at hy
  rcases hy with hy | hy
  · simp [r2] at hy; omega
  · have := sinksHts_le sinks _ y hy; omega

theorem map_id_slots (l : List (Option Ins)) : l.map (Option.map id) = l := by
  induction l with
  | nil => rfl
  | cons x r ih =>
    simp only [List.map_cons, ih]
    cases x <;> rfl

end Risor.C04.MV
