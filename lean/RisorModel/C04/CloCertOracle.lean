import RisorModel.Util
import RisorModel.C04.CloCert
import RisorModel.C04.FragCertOracle
import RisorModel.C04.FunCertOracle
import RisorModel.C01.CloOracle
/-!
Line-protocol front end of the closure fragment's certificates (request `C04 clocert …`); not
part of any theorem.  It evaluates, on one program of C01's closure fragment F5 and the bytecode
the REAL compiler emitted for it — EVERY code object: the main code, one per function of the main
code and one per literal nested in a function body —, the facts that tie `clo_compile_balanced` to
the code:

  `clocert <sexp> <globals> <id=<code id>;ins=<instruction text> per real code object, joined by |>` →
      `out`                        the program is outside the fragment (`CloO.cloIn`), or
      `in` TAB g1 g2 g3 g4 TAB one field per REAL code object, in the order of the request, with
        g1  `fits` | `deep`        the guard `fitsClo p`
        g2  peak height named by the certificates (all code objects)
        g3  number of code objects of `compClo p` (`CloC.codes p`: main + `funsOf p`)
        g4  `tree` | `tree-differs`  the code objects reached from the main code through the function
                                    constants of `LoadConst fn` / `LoadClosure fn n` (ids `parent.k` in
                                    emission order, as the real compiler numbers them), in preorder, ARE
                                    `funsOf p` in its order: the list the theorem quantifies over is the
                                    tree of code objects the compiler makes
      and per real code object `<id>:f1:f2:f3:f4:f5` (or `<id>:unknown` when `compClo p` has no code
      object with that id, `<id>:error:<text>` when the instruction text does not decode):
        f1  `accept` | `reject`    `check real cert`: the certificate computed from the SYNTAX TREE
                                    (`certClo`: `CloC.hts` / `CloC.htsFn`) laid over the real bytecode, decided by the
                                    verified checker                                         (tie B)
        f2  `same` | `differs`     `eraseIdxC real == CloC.toC04 isMain (model code)`: the object of the
                                    theorem IS the real bytecode up to the operands `check` never reads
                                    (`check_eraseIdxC`)                                      (tie A)
        f3  `accept` | `reject`    `check (model code object) (its certificate in certClo p)` (theorems
                                    `clo_main_cert_accepted`, `clo_fn_cert_accepted`: `accept` when g1 = `fits`)
        f4  `agree` | `differ…`    the certificate inferred from the real bytecode (`infer`) agrees with the
                                    syntax tree's on every offset it reaches
        f5  the certificate itself: the height at every slot and at the end-of-code position, `-` on
            operand slots / unreachable positions, joined by `,` — the harness compares it with the
            REAL operand-stack height at every instruction the real VM dispatches (tie C)
-/
namespace Risor.C04
open Risor.C01 Risor.C01.Clo

namespace CloCO

/-- the function constants a code object pushes, in emission order (the real compiler numbers
    the child code objects `parent.0`, `parent.1`, … in this order) -/
def kidsOf (code : Clo.Code) : List FnId :=
  code.filterMap fun s =>
    match s with
    | some (.constFn g) => some g
    | some (.loadClosure g _) => some g
    | _ => none

/-- the descendants of a code object with their ids, in preorder -/
def tree (Φ : List FDecl) : Nat → String → Clo.Code → List (String × FDecl)
  | 0, _, _ => []
  | fuel + 1, id, code =>
    let kids := kidsOf code
    ((List.range kids.length).zip kids).flatMap fun (k, g) =>
      match findFun Φ g with
      | some d => (id ++ "." ++ toString k, d) :: tree Φ fuel (id ++ "." ++ toString k) (compDecl d).code
      | none => []

def treeOf (p : N) : List (String × FDecl) := tree (funsOf p) 8 "__main__" (compClo p).main

/-- the model's code object with the given id, its certificate, and the same certificate laid
    over a real code object -/
def modelOf (p : N) (id : String) : Option (Bool × Code × Cert × (Code → Cert)) :=
  if id == "__main__" then some (true, CloC.mainCode p, CloC.mainCert p, fun c => CloC.mainCertFor c p)
  else
    match (treeOf p).find? (·.1 == id) with
    | some (_, d) => some (false, CloC.fnCode d, CloC.fnCert d, fun c => CloC.fnCertFor c d)
    | none => none

def showCert (c : Cert) : String :=
  ",".intercalate (c.toList.map fun x => match x with | some h => toString h | none => "-")

def one (p : N) (field : String) : String :=
  match parseCodeField field with
  | none => "?:error:malformed code field"
  | some (id, text) =>
    match modelOf p id with
    | none => id ++ ":unknown"
    | some (isMain, model, mcert, certFor) =>
      match decode isMain text with
      | .error e => id ++ ":error:" ++ e
      | .ok real =>
        let cert := certFor real
        let inferred :=
          match infer real with
          | .ok ci => if certLe ci cert then "agree" else "differ"
          | .error e => "differ " ++ e
        ":".intercalate [id,
          if check real cert then "accept" else "reject",
          if (eraseIdxC real).slots == model.slots && real.isMain == model.isMain then "same" else "differs",
          if check model mcert then "accept" else "reject",
          inferred,
          showCert cert]

end CloCO

def handleCloCert : List String → String
  | [sx, globals, codes] =>
    match decodeProg sx with
    | none => "error\tcannot decode the program"
    | some p =>
      let gs := (globals.splitOn ",").filter (· ≠ "")
      if !CloO.cloIn gs p then "out" else
      let fields := (codes.splitOn "|").filter (· ≠ "")
      let sameTree := (CloCO.treeOf p).map (·.2.key) == (funsOf p).map (·.key)
      "\t".intercalate (["in", if fitsClo p then "fits" else "deep", toString (CloC.peak p),
        toString (CloC.codes p).length, if sameTree then "tree" else "tree-differs"] ++ fields.map (CloCO.one p))
  | _ => "error\tunknown-request"

end Risor.C04
