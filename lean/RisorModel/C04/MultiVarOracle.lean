import RisorModel.Util
import RisorModel.C04.MultiVar
/-!
Line-protocol front end of the multi-variable statement model (requests `C04 multi …`,
`C04 multicode …`); not part of any theorem.

  names: one token per name, joined by `,`: `b`|`n` (the name is `_` | any other name) followed by
         `g`|`l`|`f` (the name resolves to a global | a frame slot | a closure cell)

  `multi <walrus|assign> <main|fn> <names> <instruction text of the REAL statement tail>` →
      `ok` TAB f1 … f5 with
        f1  the tail `compileMultiVar` emits as the model has it (`implSinks`), indices erased
        f2  `same` | `differs`     the real tail with store indices erased IS f1
        f3  `<k>` | `underflow`    `runStraight` over the REAL instructions from height 1 (the right side's
                                   value on an otherwise empty stack), minus 0: what the statement leaves
                                   behind (`mv_runStraight`: `leak`); the Spec demands 0
        f4  the model's heights at the instructions of f1 relative to the statement's start (`mvHts 0`)
        f5  `leak` of the three compilers on this name list: `<impl>,<blank-aware>,<skip-leading>`
  `multicode <loop|fn> <names> <instruction text of the REAL code object>` →
      `ok` TAB g1 g2 g3 with (`loop`: the main code of `for { names… := g }`, `fn`: the code object of
      `func() { names… := g; return g }`; the statement is a `:=`)
        g1  `same` | `differs`     the real code object, indices erased, IS `loopCode` / `fnCode` of `implSinks`
        g2  `accept` | `reject`    `check real (loopCert | fnCert)`: the certificate computed from the name list
                                   laid over the REAL instructions, decided by the verified checker
        g3  `accept` | `reject`    `check model cert` (theorems `mv_loop_cert_accepted`, `mv_fn_cert_accepted_despite_leak`)
-/
namespace Risor.C04.MV
open Risor.C04

def parseName (t : String) : Option Name :=
  match t.toList with
  | [b, s] =>
    let blank := if b == 'b' then some true else if b == 'n' then some false else none
    let scope := if s == 'g' then some Scope.glob else if s == 'l' then some Scope.loc
      else if s == 'f' then some Scope.free else none
    match blank, scope with
    | some bl, some sc => some ⟨bl, sc⟩
    | _, _ => none
  | _ => none

def parseNames (s : String) : Option (List Name) := ((s.splitOn ",").filter (· ≠ "")).mapM parseName

def opText : Op → String
  | .unpack => "UNPACK" | .storeGlobal => "STORE_GLOBAL" | .storeFast => "STORE_FAST"
  | .storeFree => "STORE_FREE" | .popTop => "POP_TOP" | .loadGlobal => "LOAD_GLOBAL"
  | .nil_ => "NIL" | .nop => "NOP" | .jumpBackward => "JUMP_BACKWARD" | .returnValue => "RETURN_VALUE"
  | _ => "?"

def insText (i : Ins) : String :=
  match i.op with
  | .unpack | .jumpBackward => opText i.op ++ ":" ++ toString i.a
  | _ => opText i.op

def slotsText (l : List (Option Ins)) : String := " ".intercalate ((insOfSlots l).map insText)

/-- indices `check` never reads: table / slot / cell index of loads and stores of variables -/
def eraseVar (i : Ins) : Ins :=
  match i.op with
  | .loadGlobal | .storeGlobal | .storeFast | .storeFree => { i with a := 0 }
  | _ => i

def eraseSlots (c : Code) : List (Option Ins) := c.slots.toList.map (Option.map eraseVar)

def handleMulti : List String → String
  | [op, kind, names, text] =>
    match parseNames names, decode (kind == "main") text with
    | none, _ => "error\tcannot decode the names"
    | _, .error e => "error\t" ++ e
    | some ns, .ok real =>
      let walrus := op == "walrus"
      let inFn := kind != "main"
      let sinks := implSinks walrus inFn ns
      let model := mvSlots sinks
      let realNet :=
        match runStraight (insOfSlots real.slots.toList) 1 with
        | some k => toString k
        | none => "underflow"
      let hs := (mask model (mvHts 0 sinks)).filterMap id
      "\t".intercalate ["ok", slotsText model,
        if eraseSlots real == model then "same" else "differs",
        realNet,
        ",".intercalate (hs.map toString),
        ",".intercalate [toString (leak sinks), toString (leak (blankSinks walrus inFn ns)),
          toString (leak (skipLeadingSinks walrus inFn ns))]]
  | _ => "error\tunknown-request"

def handleMultiCode : List String → String
  | [shape, names, text] =>
    let isLoop := shape == "loop"
    match parseNames names, decode isLoop text with
    | none, _ => "error\tcannot decode the names"
    | _, .error e => "error\t" ++ e
    | some ns, .ok real =>
      let sinks := implSinks true (!isLoop) ns
      let model := if isLoop then loopCode sinks else fnCode sinks
      let cert := if isLoop then loopCert sinks else fnCert sinks
      "\t".intercalate ["ok",
        if eraseSlots real == model.slots.toList && real.isMain == model.isMain then "same" else "differs",
        if check real cert then "accept" else "reject",
        if check model cert then "accept" else "reject"]
  | _ => "error\tunknown-request"

end Risor.C04.MV
