import RisorModel.C04.Obs
import RisorModel.C04.Props
/-!
C04 — round 5 theorems.

Part 1: a template string pushes exactly one value, for EVERY list of fragments — text, empty
interpolations `{}` and interpolations whose expression pushes one value, in any order and
number — under any number of pending operands; hence a statement holding one is neutral for any
number of executions.  The operand of BUILD_STRING must be exactly the number of fragments; the
variant that counts pushed values but skips the count for `{}` leaves one value per empty
interpolation and per execution.

Part 2: every observed run of a frame that is a run of the model machine, on a code object the
verified checker accepts, follows the certificate and is neutral (the Spec the harness
evaluates on the real heights).  FOR_ITER's exhaustion edge drops the iterator for every
number of loop variables.
-/
namespace Risor.C04.Obs
open Risor.C04
open Risor.C04.MV (runStraight)

/-! ### Part 1 -/

theorem runStraight_append (a b : List Ins) :
    ∀ h, runStraight (a ++ b) h = (runStraight a h).bind (runStraight b) := by
  induction a with
  | nil => intro h; simp [runStraight]
  | cons i r ih =>
    intro h
    simp only [List.cons_append, runStraight]
    split
    · split
      · exact ih _
      · rfl
    · split
      · exact ih _
      · rfl
    · rfl

theorem runStraight_fall (i : Ins) (p q h : Nat) (hk : i.kind = .fall p q) (hp : p ≤ h) :
    runStraight [i] h = some (h - p + q) := by
  simp [runStraight, hk, hp]

/-- a straight-line piece of code that pushes exactly one value, whatever lies below -/
def PushesOne (c : List Ins) : Prop := ∀ h, runStraight c h = some (h + 1)

/-- a fragment is well formed when its expression (if any) pushes one value -/
def Frag.ok : Frag → Prop
  | .hole c => PushesOne c
  | _ => True

theorem loadConst_pushes_one : PushesOne [⟨.loadConst, 0, 0⟩] := by
  intro h; simp [runStraight, Ins.kind]

/-- every expression of the harness's interpolation grammar pushes exactly one value -/
theorem TE.code_pushes_one (e : TE) : PushesOne e.code := by
  induction e with
  | lit => intro h; simp [TE.code, runStraight, Ins.kind]
  | glob => intro h; simp [TE.code, runStraight, Ins.kind]
  | loc => intro h; simp [TE.code, runStraight, Ins.kind]
  | bin l r ihl ihr =>
    intro h
    simp only [TE.code, runStraight_append, ihl h, ihr (h + 1), Option.bind_some]
    rw [runStraight_fall _ 2 1 _ rfl (by omega)]
    congr 1
  | idx l r ihl ihr =>
    intro h
    simp only [TE.code, runStraight_append, ihl h, ihr (h + 1), Option.bind_some]
    rw [runStraight_fall _ 2 1 _ rfl (by omega)]
    congr 1
  | call1 f a ihf iha =>
    intro h
    simp only [TE.code, runStraight_append, ihf h, iha (h + 1), Option.bind_some]
    rw [runStraight_fall _ 2 1 _ rfl (by omega)]
    congr 1
  | neg a iha =>
    intro h
    simp only [TE.code, runStraight_append, iha h, Option.bind_some]
    rw [runStraight_fall _ 1 1 _ rfl (by omega)]
    congr 1

theorem Frag.code_pushes_one (f : Frag) (hf : f.ok) : PushesOne f.code := by
  cases f with
  | text => exact loadConst_pushes_one
  | empty => exact loadConst_pushes_one
  | hole c => exact hf

/-- the fragment loop of compileString pushes exactly one value per fragment — text, `{}` and
    `{e}` alike — for every list of well-formed fragments and any starting height -/
theorem pushCode_height (fs : List Frag) (hok : ∀ f ∈ fs, f.ok) :
    ∀ h, runStraight (pushCode fs) h = some (h + fs.length) := by
  induction fs with
  | nil => intro h; simp [pushCode, runStraight]
  | cons f r ih =>
    intro h
    have h1 := Frag.code_pushes_one f (hok f (by simp)) h
    have h2 := ih (fun g hg => hok g (by simp [hg])) (h + 1)
    simp only [pushCode, runStraight_append, h1, Option.bind_some, h2, List.length_cons]
    congr 1; omega

/-- the fragment loop followed by `BUILD_STRING n`, for ANY operand `n` -/
theorem pushCode_buildString (fs : List Frag) (hok : ∀ f ∈ fs, f.ok) (n h : Nat) :
    runStraight (pushCode fs ++ [buildString n]) h =
      if n ≤ h + fs.length then some (h + fs.length - n + 1) else none := by
  simp only [runStraight_append, pushCode_height fs hok h, Option.bind_some]
  simp [runStraight, buildString, Ins.kind]

/-- **A template string pushes exactly one value**: for every list of fragments (any number of
    text pieces, empty interpolations `{}` and interpolations, in any order) and under any
    number `h` of pending operands, compileString's code takes the height from `h` to `h + 1`. -/
theorem compileString_pushes_one (fs : List Frag) (hok : ∀ f ∈ fs, f.ok) :
    PushesOne (compileString fs) := by
  intro h
  rw [compileString, pushCode_buildString fs hok]
  simp

/-- **The operand of BUILD_STRING is forced**: with at most as many values requested as were
    pushed, the template pushes exactly one value if and only if the operand is the number of
    fragments. -/
theorem buildString_operand_exact (fs : List Frag) (hok : ∀ f ∈ fs, f.ok) (n h : Nat)
    (hn : n ≤ fs.length) :
    runStraight (pushCode fs ++ [buildString n]) h = some (h + 1) ↔ n = fs.length := by
  rw [pushCode_buildString fs hok]
  have : n ≤ h + fs.length := by omega
  simp only [this, if_true, Option.some.injEq]
  omega

theorem countedN_add_empties (fs : List Frag) : countedN fs + empties fs = fs.length := by
  induction fs with
  | nil => rfl
  | cons f r ih => cases f <;> simp [countedN, empties, Frag.counted] <;> omega

/-- **The forbidden shape leaks**: a compiler whose BUILD_STRING operand is a counter that the
    empty-interpolation branch skips leaves one extra value per `{}`: the template takes the
    height from `h` to `h + 1 + empties fs`. -/
theorem compileStringCounting_leaks (fs : List Frag) (hok : ∀ f ∈ fs, f.ok) (h : Nat) :
    runStraight (compileStringCounting fs) h = some (h + 1 + empties fs) := by
  rw [compileStringCounting, pushCode_buildString fs hok]
  have := countedN_add_empties fs
  have h1 : countedN fs ≤ h + fs.length := by omega
  simp only [h1, if_true, Option.some.injEq]
  omega

/-- the two compilers emit the same code exactly for templates without `{}` -/
theorem counting_agrees_iff (fs : List Frag) :
    compileStringCounting fs = compileString fs ↔ empties fs = 0 := by
  have := countedN_add_empties fs
  simp only [compileStringCounting, compileString, buildString, List.append_cancel_left_eq,
    List.cons.injEq, Ins.mk.injEq, and_true, true_and]
  omega

theorem repeatRun_const (c : List Ins) (d : Nat) (hc : ∀ h, runStraight c h = some (h + d)) :
    ∀ k h, repeatRun c k h = some (h + k * d) := by
  intro k
  induction k with
  | zero => intro h; simp [repeatRun]
  | succ k ih =>
    intro h
    simp only [repeatRun, hc h, Option.bind_some, ih]
    congr 1
    rw [Nat.succ_mul]; omega

theorem stmt_height (c : List Ins) (d : Nat) (hc : ∀ h, runStraight c h = some (h + 1 + d)) :
    ∀ h, runStraight (stmt c) h = some (h + d) := by
  intro h
  simp only [stmt, runStraight_append, hc h, Option.bind_some]
  rw [runStraight_fall _ 1 0 _ rfl (by omega)]
  congr 1; omega

/-- **A statement holding a template is neutral for every number of executions**: `k`
    executions in one frame (a loop body run `k` times) leave the height where it was. -/
theorem template_stmt_neutral (fs : List Frag) (hok : ∀ f ∈ fs, f.ok) (k h : Nat) :
    repeatRun (stmt (compileString fs)) k h = some h := by
  have := repeatRun_const (stmt (compileString fs)) 0
    (stmt_height _ 0 (fun h => by simpa using compileString_pushes_one fs hok h)) k h
  simpa using this

/-- under the forbidden shape `k` executions raise the height by `k * empties fs`: 1024
    executions of `'{}'` in one frame exhaust the VM's 1024 slots -/
theorem counting_stmt_grows (fs : List Frag) (hok : ∀ f ∈ fs, f.ok) (k h : Nat) :
    repeatRun (stmt (compileStringCounting fs)) k h = some (h + k * empties fs) :=
  repeatRun_const _ _ (stmt_height _ _ (compileStringCounting_leaks fs hok)) k h

/-- hypotheses are satisfiable and the leak is real: `'{}tail{x}'` -/
example : runStraight (compileString [.empty, .text, .hole TE.glob.code]) 3 = some 4 := by decide
example : runStraight (compileStringCounting [.empty, .text, .hole TE.glob.code]) 3 = some 5 := by decide

/-! ### Part 2 -/

theorem stepOk_step {c : Code} {a b : Nat × Nat} (h : stepOk c a b = true) :
    Step c ⟨a.1, a.2⟩ ⟨b.1, b.2⟩ := by
  unfold stepOk at h
  split at h
  · rename_i i hi
    split at h
    · rename_i l hl
      have hm : b ∈ l := by simpa using h
      exact Step.mk (s := ⟨a.1, a.2⟩) hi hl hm
    · cases h
  · cases h

theorem chain_reach {c : Code} (r : List (Nat × Nat)) :
    ∀ a, Reach c ⟨a.1, a.2⟩ → chainOk c (a :: r) = true → ∀ x ∈ a :: r, Reach c ⟨x.1, x.2⟩ := by
  induction r with
  | nil => intro a ha _ x hx; simp at hx; subst hx; exact ha
  | cons b r ih =>
    intro a ha hch x hx
    simp only [chainOk, Bool.and_eq_true] at hch
    rcases List.mem_cons.mp hx with hx | hx
    · subst hx; exact ha
    · exact ih b (Reach.step ha (stepOk_step hch.1)) hch.2 x hx

/-- every state of an observed run that is a run of the model machine is reachable -/
theorem trace_reach {c : Code} {t : List (Nat × Nat)} (ht : traceOk c t = true) :
    ∀ x ∈ t, Reach c ⟨x.1, x.2⟩ := by
  cases t with
  | nil => intro x hx; cases hx
  | cons a r =>
    simp only [traceOk, Bool.and_eq_true, beq_iff_eq] at ht
    have ha : Reach c ⟨a.1, a.2⟩ := by rw [ht.1]; exact Reach.init
    exact chain_reach r a ha ht.2

/-- **An observed run of accepted code follows the certificate**: if the verified checker
    accepts `cert` for the code object and the real heights read at the dispatched instructions
    form a run of the model machine, the height read at slot `pc` is `cert[pc]`, every time. -/
theorem observed_run_follows_cert (c : Code) (cert : Cert) (hc : check c cert = true)
    (t : List (Nat × Nat)) (ht : traceOk c t = true) : followsCert cert t = true := by
  simp only [followsCert, List.all_eq_true, beq_iff_eq]
  intro x hx
  exact (check_sound c cert hc ⟨x.1, x.2⟩ (trace_reach ht x hx)).2.1

/-- **An observed run of accepted code is neutral**: a slot is visited at one height only,
    however often and after however many iterations of whatever loops — the Spec the harness
    evaluates on the real VM's heights (`neutral`). -/
theorem observed_run_neutral (c : Code) (cert : Cert) (hc : check c cert = true)
    (t : List (Nat × Nat)) (ht : traceOk c t = true) : neutral t = true := by
  simp only [neutral, List.all_eq_true, Bool.or_eq_true, bne_iff_ne, beq_iff_eq]
  intro a ha b hb
  rcases Nat.decEq a.1 b.1 with hne | heq
  · exact Or.inl hne
  · exact Or.inr (loop_height_constant c cert hc ⟨a.1, a.2⟩ ⟨b.1, b.2⟩
      (trace_reach ht a ha) (trace_reach ht b hb) heq)

/-- **FOR_ITER's exhaustion edge drops the iterator** for every number of loop variables
    (`for range x`, `for i := range x`, `for i, v := range x`, `for v in x`): the state after
    the edge that leaves the loop has one value less, the state after the edge that enters the
    body has the loop values more. -/
theorem forIter_edges (i : Ins) (d n pc h : Nat) (l : List (Nat × Nat))
    (hk : i.kind = .forIter d n) (hs : succs i pc h = some l) :
    ∃ k, forIterPush n = some k ∧ 1 ≤ h ∧ l = [(pc + d, h - 1), (pc + i.size, h + k)] := by
  simp only [succs, hk] at hs
  split at hs
  · rename_i k hk'
    split at hs
    · rename_i h1
      exact ⟨k, hk', h1, (Option.some.inj hs).symm⟩
    · cases hs
  · cases hs

/-- a loop without loop variables pushes nothing when it enters its body -/
theorem forIter_nameless_pushes_nothing : forIterPush 0 = some 0 := rfl

/-- the nested nameless range loop is accepted, its real run is a model run and is neutral -/
example : check demoNested demoNestedCert = true := by decide
example : traceOk demoNested demoGoodRun = true := by decide
example : neutral demoGoodRun = true := by decide

/-- **The Spec discriminates**: the run of a VM whose FOR_ITER keeps the exhausted iterator of a
    loop without loop variables is not a run of the model machine and is not neutral. -/
theorem keep_iterator_run_rejected :
    traceOk demoNested demoKeepRun = false ∧ neutral demoKeepRun = false ∧
      firstDeparture demoNested demoKeepRun 0 = some 2 := by decide

end Risor.C04.Obs
