import RisorModel.C04.Model
import RisorModel.C04.FragCert
import RisorModel.C04.CloCert
import RisorModel.C01.Seq
/-
C04 on C01's CONTAINER fragment F6 (lists as heap objects with identity, index reads and writes,
range loops) — definitions.

`Seq.compSeq p` compiles a program of the fragment into ONE code object (all variables global).
`SeqC.toC04 code` turns it into C04's `Code`, slot for slot, dropping only operands `Ins.kind`
(hence `check`) never reads: the pool index of `LOAD_CONST`, the table index of `LOAD_GLOBAL` /
`STORE_GLOBAL` (the same operands `eraseIdx` of `FragCert.lean` drops from a decoded REAL code
object).  Everything the checker reads is kept: the item count of `BUILD_LIST n`, both operands of
`FOR_ITER d m` (the exit distance and the number of loop variables), every jump distance.

`SeqC.hts rng h n` is the operand-stack height before every SLOT of `Seq.comp kb kc rng n`
(independent of `kb`, `kc`) when the node starts at height `h`; it extends `hts` of `FragCert.lean`
to what F6 adds:

  * `[e1, …, en]`: the items one above the other (`htsItems`: the i-th entered at `h + i`), then
    `BuildList n` at `h + n`, which pops the `n` items and pushes ONE list: the literal ends at
    `h + 1` like every expression;
  * `a[i]`: container at `h`, index at `h + 1`, `BinarySubscr` at `h + 2` (pops 2, pushes 1);
  * `a[i] = e`: right-hand side at `h`, container at `h + 1`, index at `h + 2`, `StoreSubscr` at
    `h + 3` (pops 3, pushes nothing: a unit statement);  `a[i] op= e`: container, index,
    `BinarySubscr` (`h + 2`), the right-hand side at `h + 1`, `BinaryOp` at `h + 2`, container and
    index AGAIN (`h + 1`, `h + 2`), `StoreSubscr` at `h + 3`;
  * the range loops: the ranged-over expression at `h`, `GetIter` at `h + 1` (pops 1, pushes the
    ITERATOR), `ForIter d m` at `h + 1`: on exhaustion the iterator is DROPPED and control arrives
    `d` slots further at `h`; otherwise the iterator stays and `m` loop values (1 for `for v in`)
    are pushed: the `StoreGlobal`s of the loop names run at `h + 1 + m, …, h + 2` and the BODY at
    `h + 1` — one above the loop's own entry height, for the iterator in its stack slot; the
    body's value is popped at `h + 2`, the backward jump returns to the `ForIter` at `h + 1`;
  * `break` whose innermost enclosing loop is a range loop (`rng = true`): `PopTop` at the body's
    height `h` (it drops the iterator), then `JumpForward` at `h - 1`, the height the loop was
    entered with; `continue` jumps at `h` to the backward jump, which expects the iterator.

`certSeq p` masks the operand slots and adds the end-of-code entry: exactly one value.
Core Lean only.
-/
namespace Risor.C04
open Risor.C01 Risor.C01.Seq
open Risor.C01.Frag (isNilL postName isDefault leaves)

namespace SeqC

/-- one instruction of the container fragment as a C04 instruction (pool / table indices erased;
    `BuildList n` keeps its item count, `ForIter d m` both operands) -/
def insOf : Seq.FIns → Ins
  | .nop => ⟨.nop, 0, 0⟩
  | .nil_ => ⟨.nil_, 0, 0⟩
  | .true_ => ⟨.true_, 0, 0⟩
  | .false_ => ⟨.false_, 0, 0⟩
  | .popTop => ⟨.popTop, 0, 0⟩
  | .unaryNeg => ⟨.unaryNegative, 0, 0⟩
  | .unaryNot => ⟨.unaryNot, 0, 0⟩
  | .constInt _ => ⟨.loadConst, 0, 0⟩
  | .constStr _ => ⟨.loadConst, 0, 0⟩
  | .loadG _ => ⟨.loadGlobal, 0, 0⟩
  | .storeG _ => ⟨.storeGlobal, 0, 0⟩
  | .binary k => ⟨.binaryOp, k, 0⟩
  | .compare k => ⟨.compareOp, k, 0⟩
  | .copy k => ⟨.copy, k, 0⟩
  | .swap k => ⟨.swap, k, 0⟩
  | .jf d => ⟨.jumpForward, d, 0⟩
  | .jb d => ⟨.jumpBackward, d, 0⟩
  | .pjf d => ⟨.popJumpForwardIfFalse, d, 0⟩
  | .pjt d => ⟨.popJumpForwardIfTrue, d, 0⟩
  | .buildList n => ⟨.buildList, n, 0⟩
  | .binarySubscr => ⟨.binarySubscr, 0, 0⟩
  | .storeSubscr => ⟨.storeSubscr, 0, 0⟩
  | .getIter => ⟨.getIter, 0, 0⟩
  | .forIter d m => ⟨.forIter, d, m⟩

/-- the fragment's code as a C04 code object (the main code object of a program) -/
def toC04 (code : Seq.Code) : Code :=
  { slots := (code.map (Option.map insOf)).toArray, isMain := true }

/-! ### heights -/

/-- 1 when the innermost enclosing loop keeps an iterator in its stack slot -/
def rngD (rng : Bool) : Nat := if rng then 1 else 0

/-- the `StoreGlobal`s of the loop names (`Seq.stores`), the last one executed at `y + 1`: each
    pops one of the values `ForIter` pushed, the iterator (at `y`) stays -/
def storesH (y : Nat) : List String → List Nat
  | [] => []
  | _ :: xs => r2 (y + xs.length + 1) ++ storesH y xs

/-- what a node leaves on the stack when control falls out of its end: a unit statement
    (assignments, item assignments, loops) nothing, everything else one value -/
def exitD (n : N) : Nat := if isUnitNode n then 0 else 1

mutual
/-- heights before every slot of `Seq.comp kb kc rng n` for a node entered at height `h` -/
def hts (rng : Bool) (h : Nat) : N → List Nat
  | .nilLit | .none_ | .nilL | .bool _ => r1 h
  | .int _ | .str _ | .id _ | .continue_ => r2 h
  -- leaving a range loop: `PopTop` drops the iterator, the jump leaves with the loop's entry height
  | .break_ => if rng then r1 h ++ r2 (h - 1) else r2 h
  | .infix op l r =>
    if op = .and then
      hts rng h l ++ r2 (h + 1) ++ r2 (h + 2) ++ hts rng (h + 1) r ++ r2 (h + 2) ++ r1 (h + 1)
    else if op = .or then
      hts rng h l ++ r2 (h + 1) ++ r2 (h + 2) ++ hts rng (h + 1) r ++ r2 (h + 2) ++ r1 (h + 1)
    else hts rng h l ++ hts rng (h + 1) r ++ r2 (h + 2)
  | .neg e | .not e => hts rng h e ++ r1 (h + 1)
  | .tern c a b | .if_ c a b => hts rng h c ++ r2 (h + 1) ++ hts rng h a ++ r2 (h + 1) ++ hts rng h b
  | .block s | .prog s | .expr s => hts rng h s
  | .cons hd t =>
    preH h hd ++
      (if isNilL t then hts rng h hd ++ (if leaves hd then [] else r1 h)
       else hts rng h hd ++ ((if leaves hd then r1 (h + 1) else []) ++ hts rng h t))
  | .var _ e => hts rng h e ++ r2 (h + 1)
  | .assign _ op e =>
    if op = .set then hts rng h e ++ r2 (h + 1)
    else r2 h ++ hts rng (h + 1) e ++ r2 (h + 2) ++ r2 (h + 1)
  | .postfix _ _ => r2 h ++ r2 (h + 1) ++ r2 (h + 2) ++ r2 (h + 1)
  | .forcond c b => hts false h c ++ r2 (h + 1) ++ hts false h b ++ r1 (h + 1) ++ r2 h ++ r1 h
  | .forever b => hts false h b ++ r1 (h + 1) ++ r2 h ++ r1 h
  | .for3 i c p b =>
    hts false h i ++ hts false h c ++ r2 (h + 1) ++ hts false h b ++ r1 (h + 1)
      ++ hts false h p ++ (if leaves p then r1 (h + 1) else []) ++ r2 h
  | .switch subj cases =>
    -- the subject stays below everything until `Swap 1; PopTop` drops it
    hts rng h subj ++ htsCmp rng (h + 1) cases ++ r2 (h + 1) ++ htsBodies rng (h + 1) cases
      ++ htsDflt rng (h + 1) cases ++ r2 (h + 2) ++ r1 (h + 2)
  -- F6
  | .list items => htsItems rng h items ++ r2 (h + countItems items)
  | .index e i => hts rng h e ++ hts rng (h + 1) i ++ r1 (h + 2)
  | .setitem op o i v =>
    if op = .set then hts rng h v ++ hts rng (h + 1) o ++ hts rng (h + 2) i ++ r1 (h + 3)
    else
      hts rng h o ++ hts rng (h + 1) i ++ r1 (h + 2) ++ hts rng (h + 1) v ++ r2 (h + 2)
        ++ hts rng (h + 1) o ++ hts rng (h + 2) i ++ r1 (h + 3)
  | .forrange k v c b =>
    -- container; GetIter; ForIter; the names; the body ONE ABOVE the loop's entry height (the
    -- iterator); PopTop; JumpBackward
    hts rng h c ++ r1 (h + 1) ++ r3 (h + 1) ++ storesH (h + 1) (rngNames k v) ++ hts true (h + 1) b
      ++ r1 (h + 2) ++ r2 (h + 1)
  | .forin v c b =>
    hts rng h c ++ r1 (h + 1) ++ r3 (h + 1) ++ storesH (h + 1) [v] ++ hts true (h + 1) b
      ++ r1 (h + 2) ++ r2 (h + 1)
  | _ => []
/-- list items: the first at height `s`, each further one on top of the previous values -/
def htsItems (rng : Bool) (s : Nat) : N → List Nat
  | .cons v vs => hts rng s v ++ htsItems rng (s + 1) vs
  | _ => []
/-- `Copy 0; v; CompareOp ==; PopJumpForwardIfTrue` at subject height `s` -/
def htsVals (rng : Bool) (s : Nat) : N → List Nat
  | .cons v vs => r2 s ++ hts rng (s + 1) v ++ r2 (s + 2) ++ r2 (s + 1) ++ htsVals rng s vs
  | _ => []
def htsCmpCase (rng : Bool) (s : Nat) : N → List Nat
  | .case_ vals _ => htsVals rng s vals
  | _ => []
def htsCmp (rng : Bool) (s : Nat) : N → List Nat
  | .cons hd t => htsCmpCase rng s hd ++ htsCmp rng s t
  | _ => []
def htsBody (rng : Bool) (s : Nat) : N → List Nat
  | .case_ _ body => hts rng s body ++ r2 (s + 1)
  | _ => []
def htsBodies (rng : Bool) (s : Nat) : N → List Nat
  | .cons hd t => htsBody rng s hd ++ htsBodies rng s t
  | _ => []
def htsDfltBody (rng : Bool) (s : Nat) : N → List Nat
  | .default_ body => hts rng s body
  | _ => []
def htsDflt (rng : Bool) (s : Nat) : N → List Nat
  | .cons hd t => if isDefault hd then htsDfltBody rng s hd else htsDflt rng s t
  | _ => r1 s
end

/-- the main (and only) code object of a program of the fragment -/
def mainCode (p : N) : Code := toC04 (compSeq p)

/-- the largest number of operands any slot of the program's code sees -/
def peak (p : N) : Nat := (hts false 0 p).foldl max 0

/-! ### operand nesting depth by recursion on the syntax -/

mutual
/-- an upper bound of how far above its entry height the code of a node takes the operand stack
    (`SeqCertLemmas.hts_le_depth`); as `depth` of `FragCert.lean`, plus: a list literal holds its
    earlier items, an index expression its container, an item assignment the right-hand side and
    the container, a range loop its iterator (the body runs one higher) and up to two loop values -/
def depth : N → Nat
  | .infix _ l r => max (depth l) (max (depth r + 1) 2)
  | .neg e | .not e => max (depth e) 1
  | .tern c a b | .if_ c a b => max (depth c) (max 1 (max (depth a) (depth b)))
  | .block s | .prog s | .expr s => depth s
  | .cons h t => max (depth h + 2) (depth t)
  | .var _ e => max (depth e) 1
  | .assign _ _ e => max (depth e + 1) 2
  | .postfix _ _ => 2
  | .forcond c b => max (depth c) (max 1 (depth b))
  | .forever b => max 1 (depth b)
  | .for3 i c p b => max (depth i) (max (depth c) (max 1 (max (depth p) (depth b))))
  | .switch subj cases => max (depth subj) (max (depth cases + 1) 2)
  | .case_ vals body => max (depth vals) (depth body)
  | .default_ body => depth body
  | .list items => depthItems items
  | .index e i => max (depth e) (max (depth i + 1) 2)
  | .setitem _ o i v => max (depth v + 1) (max (depth o + 1) (max (depth i + 2) 3))
  | .forrange _ _ c b => max (depth c) (max (depth b + 1) 3)
  | .forin _ c b => max (depth c) (max (depth b + 1) 3)
  | _ => 0
/-- items entered at `s`: the `i`-th sits `i` higher; `BuildList` sees all of them -/
def depthItems : N → Nat
  | .cons a as => max (depth a) (depthItems as + 1)
  | _ => 0
end

end SeqC

/-- **the certificate of a program of the container fragment**, computed by recursion on the
    syntax: the operand-stack height before every instruction slot of `compSeq p` (`none` on operand
    slots), the iterator slot of every enclosing range loop accounted for, and the end-of-code
    entry: exactly one value -/
def certSeq (p : N) : Cert := mkCert (compSeq p) (SeqC.hts false 0 p) 1

/-- the same certificate laid over the slot structure of ANY code object (used on the real
    compiler's bytecode by the oracle) -/
def certSeqFor (c : Code) (p : N) : Cert := mkCert c.slots.toList (SeqC.hts false 0 p) 1

/-- the guard of `seq_compile_balanced`: the program's operand nesting fits the frame's height
    limit (`maxHeight`; deeper NESTING of expressions, list items or range loops overflows
    regardless of iteration counts) -/
def fitsSeq (p : N) : Bool := (SeqC.hts false 0 p).all (· ≤ maxHeight)

end Risor.C04
