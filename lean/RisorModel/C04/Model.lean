import RisorModel.Util
/-
C04 — operand-stack discipline of risor bytecode.

`Op` mirrors op/op.go (names and operand counts are regenerated into Generated/C04.lean and
tied in Ties.lean).  `kind` gives, for every instruction, its effect on the height of the
active frame's operand stack as vm/vm.go's `eval` performs it (pops, pushes, successor
shape).  Calls are atomic in the caller's frame: `callFunction` restores `sp` to its base
(`resumeFrame`) and `callObject` pushes exactly one result.

`check` is a certificate checker: a certificate assigns a stack height to every reachable
instruction offset of one code object.  `Props.lean` proves that an accepted certificate
describes EVERY execution of any length.  `infer` produces certificates (unverified
worklist; only `check` is trusted-by-theorem).
Core Lean only.
-/
namespace Risor.C04

inductive Op where
  | nop | halt | call | returnValue | defer_ | go
  | jumpBackward | jumpForward | popJumpForwardIfFalse | popJumpForwardIfTrue
  | loadAttr | loadFast | loadFree | loadGlobal | loadConst
  | storeAttr | storeFast | storeFree | storeGlobal
  | binaryOp | compareOp | unaryNegative | unaryNot
  | buildList | buildMap | buildSet | buildString
  | binarySubscr | storeSubscr | containsOp | length | slice | unpack
  | swap | copy | popTop
  | nil_ | false_ | true_
  | forIter | getIter | range
  | fromImport | import_
  | receive | send
  | loadClosure | makeCell
  | partial_
  deriving Repr, DecidableEq, Inhabited

/-- name as printed by `op.GetInfo(code).Name` -/
def Op.ofName : String → Option Op
  | "NOP" => some .nop | "HALT" => some .halt | "CALL" => some .call
  | "RETURN_VALUE" => some .returnValue | "DEFER" => some .defer_ | "GO" => some .go
  | "JUMP_BACKWARD" => some .jumpBackward | "JUMP_FORWARD" => some .jumpForward
  | "POP_JUMP_FORWARD_IF_FALSE" => some .popJumpForwardIfFalse
  | "POP_JUMP_FORWARD_IF_TRUE" => some .popJumpForwardIfTrue
  | "LOAD_ATTR" => some .loadAttr | "LOAD_FAST" => some .loadFast | "LOAD_FREE" => some .loadFree
  | "LOAD_GLOBAL" => some .loadGlobal | "LOAD_CONST" => some .loadConst
  | "STORE_ATTR" => some .storeAttr | "STORE_FAST" => some .storeFast | "STORE_FREE" => some .storeFree
  | "STORE_GLOBAL" => some .storeGlobal
  | "BINARY_OP" => some .binaryOp | "COMPARE_OP" => some .compareOp
  | "UNARY_NEGATIVE" => some .unaryNegative | "UNARY_NOT" => some .unaryNot
  | "BUILD_LIST" => some .buildList | "BUILD_MAP" => some .buildMap | "BUILD_SET" => some .buildSet
  | "BUILD_STRING" => some .buildString
  | "BINARY_SUBSCR" => some .binarySubscr | "STORE_SUBSCR" => some .storeSubscr
  | "CONTAINS_OP" => some .containsOp | "LENGTH" => some .length | "SLICE" => some .slice
  | "UNPACK" => some .unpack
  | "SWAP" => some .swap | "COPY" => some .copy | "POP_TOP" => some .popTop
  | "NIL" => some .nil_ | "FALSE" => some .false_ | "TRUE" => some .true_
  | "FOR_ITER" => some .forIter | "GET_ITER" => some .getIter | "RANGE" => some .range
  | "FROM_IMPORT" => some .fromImport | "IMPORT" => some .import_
  | "RECEIVE" => some .receive | "SEND" => some .send
  | "LOAD_CLOSURE" => some .loadClosure | "MAKE_CELL" => some .makeCell
  | "PARTIAL" => some .partial_
  | _ => none

/-- number of operand slots following the opcode (op/op.go `infos`) -/
def Op.operands : Op → Nat
  | .binaryOp | .buildList | .buildMap | .buildSet | .buildString | .call | .compareOp
  | .containsOp | .copy | .jumpBackward | .jumpForward | .loadAttr | .loadConst | .loadFast
  | .loadFree | .loadGlobal | .partial_ | .popJumpForwardIfFalse | .popJumpForwardIfTrue
  | .storeAttr | .storeFast | .storeFree | .storeGlobal | .swap | .unpack => 1
  | .forIter | .fromImport | .loadClosure | .makeCell => 2
  | _ => 0

/-- one decoded instruction: opcode and (up to two) operands -/
structure Ins where
  op : Op
  a : Nat := 0
  b : Nat := 0
  deriving Repr, DecidableEq, Inhabited

def Ins.size (i : Ins) : Nat := 1 + i.op.operands

/-- how an instruction changes the operand stack of the active frame and where control
    goes, exactly as `eval` in vm/vm.go does it -/
inductive Kind where
  | fall (pops pushes : Nat)             -- straight line: pop `pops`, push `pushes`, go on
  | need (depth pushes : Nat)            -- reads down to `depth` below the top without popping, pushes `pushes`
  | jumpF (d : Nat)                      -- ip := pc + d
  | jumpB (d : Nat)                      -- ip := pc - d
  | condF (d : Nat)                      -- pop 1; ip := pc + d or fall through
  | forIter (d names : Nat)              -- pop iterator; exhausted: ip := pc + d; else push iterator and the loop values
  | ret                                  -- RETURN_VALUE: needs the result on the stack
  | stop                                 -- HALT
  deriving Repr, DecidableEq

/-- values pushed by FOR_ITER for its `nameCount` operand (0,1,2; 3 = Python-style) -/
def forIterPush (names : Nat) : Option Nat :=
  if names = 0 then some 0 else if names = 1 then some 1 else if names = 2 then some 2
  else if names = 3 then some 1 else none

def Ins.kind (i : Ins) : Kind :=
  match i.op with
  | .nop => .fall 0 0
  | .halt => .stop
  | .call => .fall (i.a + 1) 1
  | .partial_ => .fall (i.a + 1) 1
  | .returnValue => .ret
  | .defer_ => .fall 1 0
  | .go => .fall 1 0
  | .jumpBackward => .jumpB i.a
  | .jumpForward => .jumpF i.a
  | .popJumpForwardIfFalse => .condF i.a
  | .popJumpForwardIfTrue => .condF i.a
  | .loadAttr => .fall 1 1
  | .loadFast | .loadFree | .loadGlobal | .loadConst => .fall 0 1
  | .storeAttr => .fall 2 0
  | .storeFast | .storeFree | .storeGlobal => .fall 1 0
  | .binaryOp | .compareOp => .fall 2 1
  | .unaryNegative | .unaryNot => .fall 1 1
  | .buildList | .buildSet | .buildString => .fall i.a 1
  | .buildMap => .fall (2 * i.a) 1
  | .binarySubscr => .fall 2 1
  | .storeSubscr => .fall 3 0
  | .containsOp => .fall 2 1
  | .length => .fall 1 1
  | .slice => .fall 3 1
  | .unpack => .fall 1 i.a
  | .swap => .need (i.a + 1) 0
  | .copy => .need (i.a + 1) 1
  | .popTop => .fall 1 0
  | .nil_ | .false_ | .true_ => .fall 0 1
  | .forIter => .forIter i.a i.b
  | .getIter | .range => .fall 1 1
  | .fromImport => .fall (i.a + i.b) i.b
  | .import_ => .fall 1 1
  | .receive => .fall 1 1
  | .send => .fall 2 0
  | .loadClosure => .fall i.b 1
  | .makeCell => .fall 0 1

/-- a code object: `slots[pc] = some ins` at instruction boundaries, `none` on operand slots -/
structure Code where
  slots : Array (Option Ins)
  isMain : Bool
  deriving Repr

def Code.size (c : Code) : Nat := c.slots.size
def Code.at (c : Code) (pc : Nat) : Option Ins := (c.slots[pc]?).join

/-- successors `(pc', h')` of the instruction at `pc` with height `h`; `none` = the
    instruction would underflow the frame's stack or is malformed -/
def succs (i : Ins) (pc h : Nat) : Option (List (Nat × Nat)) :=
  match i.kind with
  | .fall pops pushes => if pops ≤ h then some [(pc + i.size, h - pops + pushes)] else none
  | .need depth pushes => if depth ≤ h then some [(pc + i.size, h + pushes)] else none
  | .jumpF d => some [(pc + d, h)]
  | .jumpB d => if d ≤ pc then some [(pc - d, h)] else none
  | .condF d => if 1 ≤ h then some [(pc + d, h - 1), (pc + i.size, h - 1)] else none
  | .forIter d names =>
    match forIterPush names with
    | some k => if 1 ≤ h then some [(pc + d, h - 1), (pc + i.size, h + k)] else none
    | none => none
  | .ret => if 1 ≤ h then some [] else none
  | .stop => some []

/-- a certificate: the stack height at every reachable offset (`none` = unreachable).
    It has one more entry than the code: the last one is the end-of-code position. -/
abbrev Cert := Array (Option Nat)

/-- height limit of one frame's operand usage accepted by the checker (the VM's whole stack
    has 1024 slots shared by all frames) -/
def maxHeight : Nat := 1024

def okTarget (c : Code) (cert : Cert) (p h : Nat) : Bool :=
  p ≤ c.size && cert[p]? == some (some h) && h ≤ maxHeight && (p == c.size || (c.at p).isSome)

def checkAt (c : Code) (cert : Cert) (pc : Nat) : Bool :=
  match cert[pc]? with
  | some (some h) =>
    match c.at pc with
    | some i =>
      match succs i pc h with
      | none => false
      | some l => l.all fun (p, h') => okTarget c cert p h'
    | none => false
  | _ => true

/-- end of code: the main code must end with exactly its result; a function must not fall
    off its end at all -/
def checkEnd (c : Code) (cert : Cert) : Bool :=
  match cert[c.size]? with
  | some (some h) => c.isMain && h == 1
  | some none => true
  | none => false

def check (c : Code) (cert : Cert) : Bool :=
  cert.size == c.size + 1 && 0 < c.size && cert[0]? == some (some 0) && (c.at 0).isSome
    && (List.range c.size).all (checkAt c cert) && checkEnd c cert

/-! ### certificate inference (unverified; its output is always re-checked by `check`) -/

structure InferState where
  cert : Cert
  work : List Nat
  bad : Option (Nat × String)

def inferStep (c : Code) (s : InferState) : InferState :=
  match s.work with
  | [] => s
  | pc :: rest =>
    let s := { s with work := rest }
    if pc == c.size then s else
    match s.cert[pc]?, c.at pc with
    | some (some h), some i =>
      match succs i pc h with
      | none => { s with bad := some (pc, s!"underflow at height {h}"), work := [] }
      | some l =>
        l.foldl (fun (s : InferState) (p, h') =>
          if s.bad.isSome then s else
          match s.cert[p]? with
          | some none => { s with cert := s.cert.set! p (some h'), work := p :: s.work }
          | some (some h0) =>
            if h0 == h' then s
            else { s with bad := some (p, s!"two paths reach offset {p} with heights {h0} and {h'} (from {pc})"), work := [] }
          | none => { s with bad := some (pc, s!"jump outside the code to {p}"), work := [] }) s
    | _, none => { s with bad := some (pc, "control reaches an operand slot"), work := [] }
    | _, _ => s

def inferLoop (c : Code) : Nat → InferState → InferState
  | 0, s => s
  | n + 1, s => if s.work.isEmpty then s else inferLoop c n (inferStep c s)

def infer (c : Code) : Except String Cert :=
  let init : InferState := { cert := (Array.replicate (c.size + 1) none).set! 0 (some 0), work := [0], bad := none }
  let s := inferLoop c (4 * (c.size + 2) * 4) init
  match s.bad with
  | some (pc, msg) => .error s!"{pc}: {msg}"
  | none => if s.work.isEmpty then .ok s.cert else .error "inference did not converge"

def maxCert (cert : Cert) : Nat := cert.foldl (fun m x => match x with | some h => max m h | none => m) 0

/-! ### decoding the harness's text form: `NAME`, `NAME:a`, `NAME:a:b` separated by spaces -/

def decodeIns (tok : String) : Except String Ins :=
  match tok.splitOn ":" with
  | name :: rest =>
    match Op.ofName name with
    | none => .error s!"unknown opcode {name}"
    | some op =>
      let nums := rest.map String.toNat?
      if nums.any Option.isNone then .error s!"bad operand in {tok}"
      else
        let ns := nums.filterMap id
        if ns.length != op.operands then .error s!"operand count of {name} is {ns.length}, the model expects {op.operands}"
        else .ok { op := op, a := ns.getD 0 0, b := ns.getD 1 0 }
  | [] => .error "empty token"

def decode (isMain : Bool) (text : String) : Except String Code := do
  let toks := (text.splitOn " ").filter (· ≠ "")
  let inss ← toks.mapM decodeIns
  let slots := inss.foldl (fun (acc : Array (Option Ins)) i =>
    (acc.push (some i)) ++ Array.replicate i.op.operands none) #[]
  pure { slots := slots, isMain := isMain }

end Risor.C04
